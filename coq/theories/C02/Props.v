(* C02 — Interrupted experiments resume without losing or repeating work.  Property theorems only. *)
From Coq Require Import ZArith List Bool Arith Permutation.
From Coba Require Import C02.Model C02.Proofs.
Import ListNotations.
Open Scope Z_scope.

(* Bytes: for ANY record texts that hold no newline, are not empty, parse to their record and do not parse when truncated (what the json module
   gives for the records coba writes), ANY complete records on disk and ANY cut through the line of the record that was being written, the
   tolerant decoder returns the complete records - plus the cut one exactly when only its newline is missing. The file is never unusable. *)
Theorem torn_record_is_harmless : forall (body : nat -> list Z) (parse : list Z -> option nat),
  (forall k c, In c (body k) -> (c =? 10) = false) -> (forall k, body k <> []) -> (forall k, parse (body k) = Some k) ->
  (forall k (c : nat), (c < length (body k))%nat -> parse (firstn c (body k)) = None) ->
  forall ks k (c : nat), (c <= length (body k))%nat ->
  read parse (enc_log body ks ++ firstn c (body k)) = ks ++ (if (c =? length (body k))%nat then [k] else []).
Proof. exact read_cut. Qed.
Print Assumptions torn_record_is_harmless.

Theorem complete_log_reads_back : forall (body : nat -> list Z) (parse : list Z -> option nat),
  (forall k c, In c (body k) -> (c =? 10) = false) -> (forall k, body k <> []) -> (forall k, parse (body k) = Some k) ->
  (forall k (c : nat), (c < length (body k))%nat -> parse (firstn c (body k)) = None) -> forall ks, read parse (enc_log body ks) = ks.
Proof. intros body parse H1 H2 H3 H4 ks. apply (read_complete body parse); assumption. Qed.
Print Assumptions complete_log_reads_back.

(* Records: whatever sequence of killed runs produced the log (each one restored the complete records and appended ANY prefix of ANY order of the
   missing tasks' records), a run that is allowed to finish performs none of the recorded tasks again, and afterwards the log holds every task of
   the experiment exactly once - the record set of the uninterrupted run. *)
Theorem resume_exactly_the_missing_work : forall tasks ks pi, NoDup tasks -> reachable tasks ks -> Permutation pi (todo tasks ks) ->
  (forall k, In k pi -> ~ In k ks) /\ NoDup (ks ++ pi) /\ Permutation (ks ++ pi) tasks.
Proof. exact resume_completes. Qed.
Print Assumptions resume_exactly_the_missing_work.

Theorem interrupted_logs_stay_valid : forall tasks ks, NoDup tasks -> reachable tasks ks -> NoDup ks /\ incl ks tasks.
Proof. exact reachable_valid. Qed.
Print Assumptions interrupted_logs_stay_valid.

(* the hypotheses of the byte theorem are satisfiable: records written as <digit><digit> *)
Example torn_example :
  let body := fun k : nat => [48 + Z.of_nat k; 59] in
  let parse := fun l : list Z => match l with [a; 59] => Some (Z.to_nat (a - 48)) | _ => None end in
  read parse (enc_log body [1; 2]%nat ++ firstn 1 (body 3%nat)) = [1; 2]%nat /\ read parse (enc_log body [1; 2]%nat ++ firstn 2 (body 3%nat)) = [1; 2; 3]%nat.
Proof. vm_compute. split; reflexivity. Qed.
