(* C02 — interrupted experiments resume without losing or repeating work.
   A record is identified with the key of the task it records (its payload is a function of the key: C01); body k is the JSON text of the
   record, a line of the log is body k followed by a newline.
     enc_log   - the bytes DiskSink has written for a list of records
     lines_of  - the complete lines of a file and what follows the last newline
     read      - TransactionDecode.complete: records up to a final line that does not parse
     todo      - MakeTasks: the tasks whose records are not restored *)
From Coq Require Import ZArith List Bool Arith.
Import ListNotations.
Open Scope Z_scope.

Section C02.
  Variable body : nat -> list Z.
  Variable parse : list Z -> option nat.

  Definition enc_log (ks : list nat) : list Z := flat_map (fun k => body k ++ [10]) ks.

  Fixpoint lines_go (cur : list Z) (s : list Z) : list (list Z) * list Z :=
    match s with
    | [] => ([], cur)
    | c :: t => if c =? 10 then let (ls, rem) := lines_go [] t in (cur :: ls, rem) else lines_go (cur ++ [c]) t
    end.
  Definition lines_of (s : list Z) : list (list Z) * list Z := lines_go [] s.

  Fixpoint read_lines (ls : list (list Z)) : list nat :=
    match ls with [] => [] | x :: r => match parse x with Some k => k :: read_lines r | None => [] end end.
  Definition read (file : list Z) : list nat :=
    let (ls, rem) := lines_of file in read_lines (ls ++ match rem with [] => [] | _ => [rem] end).

  Definition todo (tasks restored : list nat) : list nat := filter (fun t => negb (existsb (Nat.eqb t) restored)) tasks.
End C02.
