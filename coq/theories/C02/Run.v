From Coq Require Import ZArith List Bool Arith.
From Coba Require Import Common.Sx C02.Model.
Import ListNotations.
(* request: (tasks restored) as lists of task numbers -> the tasks a resumed run performs *)
Definition run (x : sx) : sx := of_nats (todo (as_nats (nth_sx 0 x)) (as_nats (nth_sx 1 x))).
