From Coq Require Import ZArith List Bool Arith Lia Permutation.
From Coba Require Import C02.Model.
Import ListNotations.
Open Scope Z_scope.

Section P.
  Variable body : nat -> list Z.
  Variable parse : list Z -> option nat.
  (* what is assumed of the JSON text of a record (trusted: the json module; observed by the harness on every real log) *)
  Hypothesis body_no_newline : forall k c, In c (body k) -> (c =? 10) = false.
  Hypothesis body_nonempty : forall k, body k <> [].
  Hypothesis parse_body : forall k, parse (body k) = Some k.
  Hypothesis parse_torn : forall k (c : nat), (c < length (body k))%nat -> parse (firstn c (body k)) = None.

  Notation enc_log := (enc_log body). Notation read := (read parse). Notation read_lines := (read_lines parse).

  Lemma lines_go_clean p : (forall c, In c p -> (c =? 10) = false) -> forall cur, lines_go cur p = ([], cur ++ p).
  Proof.
    induction p as [|c t IH]; intros H cur; cbn; [rewrite app_nil_r; reflexivity|].
    rewrite (H c (or_introl eq_refl)). rewrite IH by (intros x Hx; apply H; right; exact Hx). rewrite <- app_assoc. reflexivity.
  Qed.
  Lemma lines_go_line b rest : (forall c, In c b -> (c =? 10) = false) -> forall cur,
    lines_go cur (b ++ 10 :: rest) = let (ls, rem) := lines_go [] rest in ((cur ++ b) :: ls, rem).
  Proof.
    induction b as [|c t IH]; intros H cur; cbn [app lines_go].
    - rewrite Z.eqb_refl, app_nil_r. reflexivity.
    - rewrite (H c (or_introl eq_refl)). rewrite IH by (intros x Hx; apply H; right; exact Hx). rewrite <- app_assoc. reflexivity.
  Qed.

  Lemma lines_of_log ks p : (forall c, In c p -> (c =? 10) = false) -> lines_of (enc_log ks ++ p) = (map body ks, p).
  Proof.
    intros Hp. unfold lines_of. induction ks as [|k r IH]; cbn [Model.enc_log flat_map app map].
    - rewrite lines_go_clean by exact Hp. reflexivity.
    - rewrite <- !app_assoc. cbn [app]. rewrite lines_go_line by (apply body_no_newline). fold (enc_log r). rewrite IH. reflexivity.
  Qed.

  Lemma read_lines_bodies ks tail : read_lines (map body ks ++ tail) = ks ++ read_lines tail.
  Proof. induction ks as [|k r IH]; cbn; [reflexivity|]. rewrite parse_body, IH. reflexivity. Qed.

  Lemma In_firstn {A} (l : list A) : forall c x, In x (firstn c l) -> In x l.
  Proof. induction l as [|h t IH]; intros [|c] x H; cbn in *; try contradiction. destruct H as [H|H]; [left; exact H|right; exact (IH c x H)]. Qed.
  Lemma firstn_no_newline k c x : In x (firstn c (body k)) -> (x =? 10) = false.
  Proof. intros H. apply (body_no_newline k). exact (In_firstn _ _ _ H). Qed.

  (* the file a killed run leaves: complete lines, then c bytes of the line of the record k that was being written (c = length (body k): everything but the newline) *)
  Theorem read_cut ks k (c : nat) : (c <= length (body k))%nat ->
    read (enc_log ks ++ firstn c (body k)) = ks ++ (if (c =? length (body k))%nat then [k] else []).
  Proof.
    intros Hc. unfold Model.read. rewrite lines_of_log by (intros x Hx; exact (firstn_no_newline k c x Hx)).
    assert (0 < length (body k))%nat as Hlen. { pose proof (body_nonempty k). destruct (body k); [congruence|cbn; lia]. }
    destruct (firstn c (body k)) as [|y t] eqn:Ef.
    - assert (c = 0)%nat as Hc0. { destruct c; [reflexivity|]. destruct (body k); [cbn in Hlen; lia|discriminate]. }
      subst c. rewrite app_nil_r, <- (app_nil_r (map body ks)), read_lines_bodies. cbn [read_lines]. rewrite app_nil_r.
      destruct (0 =? length (body k))%nat eqn:E; [apply Nat.eqb_eq in E; lia|]. rewrite app_nil_r. reflexivity.
    - rewrite read_lines_bodies. cbn [Model.read_lines]. rewrite <- Ef.
      destruct (c =? length (body k))%nat eqn:E.
      + apply Nat.eqb_eq in E. subst c. rewrite firstn_all, parse_body. reflexivity.
      + apply Nat.eqb_neq in E. rewrite parse_torn by lia. reflexivity.
  Qed.

  (* a complete log reads back as itself *)
  Theorem read_complete ks : read (enc_log ks) = ks.
  Proof.
    unfold Model.read. rewrite <- (app_nil_r (enc_log ks)), lines_of_log by (intros x []). rewrite !app_nil_r.
    rewrite <- (app_nil_r (map body ks)), read_lines_bodies. cbn. apply app_nil_r.
  Qed.
End P.

(* ---------------------------------------------------------------- which tasks a resumed run performs *)
Lemma existsb_In t l : existsb (Nat.eqb t) l = true <-> In t l.
Proof. rewrite existsb_exists. split; [intros [x [Hx E]]; apply Nat.eqb_eq in E; subst x; exact Hx|intros H; exists t; split; [exact H|apply Nat.eqb_refl]]. Qed.

Lemma todo_In tasks restored t : In t (todo tasks restored) <-> In t tasks /\ ~ In t restored.
Proof.
  unfold todo. rewrite filter_In. split; intros [H1 H2]; split; try exact H1.
  - intros Hin. apply existsb_In in Hin. rewrite Hin in H2. discriminate.
  - destruct (existsb (Nat.eqb t) restored) eqn:E; [apply existsb_In in E; contradiction|reflexivity].
Qed.

Lemma todo_NoDup tasks restored : NoDup tasks -> NoDup (todo tasks restored).
Proof. intros H. apply NoDup_filter. exact H. Qed.

Definition valid (tasks ks : list nat) : Prop := NoDup ks /\ incl ks tasks.

Lemma NoDup_app_intro {A} (a b : list A) : NoDup a -> NoDup b -> (forall x, In x a -> ~ In x b) -> NoDup (a ++ b).
Proof.
  induction a as [|h t IH]; intros Ha Hb Hd; [exact Hb|]. cbn. inversion Ha as [|? ? Hnin Ht]; subst. constructor.
  - intros Hin. apply in_app_or in Hin. destruct Hin as [Hin|Hin]; [exact (Hnin Hin)|exact (Hd h (or_introl eq_refl) Hin)].
  - apply IH; [exact Ht|exact Hb|intros x Hx; apply Hd; right; exact Hx].
Qed.
Lemma NoDup_app_left {A} (a b : list A) : NoDup (a ++ b) -> NoDup a.
Proof. induction a as [|h t IH]; intros H; [constructor|]. cbn in H. inversion H as [|? ? Hnin Ht]; subst. constructor; [intros Hin; apply Hnin, in_or_app; left; exact Hin|exact (IH Ht)]. Qed.

(* appending any part of what a resumed run may write keeps the log valid: no key twice, only keys of the experiment *)
Lemma resume_valid tasks ks pi p rest : NoDup tasks -> valid tasks ks -> Permutation pi (todo tasks ks) -> pi = p ++ rest -> valid tasks (ks ++ p).
Proof.
  intros Ht [Hnd Hincl] HP E. subst pi.
  assert (NoDup (p ++ rest)) as Hpn by (eapply Permutation_NoDup; [symmetry; exact HP|apply todo_NoDup; exact Ht]).
  assert (forall x, In x p -> In x tasks /\ ~ In x ks) as Hp.
  { intros x Hx. apply todo_In. eapply Permutation_in; [exact HP|apply in_or_app; left; exact Hx]. }
  split.
  - apply NoDup_app_intro; [exact Hnd|exact (NoDup_app_left _ _ Hpn)|]. intros x Hx Hxp. exact (proj2 (Hp x Hxp) Hx).
  - intros x Hx. apply in_app_or in Hx. destruct Hx as [Hx|Hx]; [exact (Hincl x Hx)|exact (proj1 (Hp x Hx))].
Qed.

(* the logs any sequence of killed runs can leave behind (as record lists: read_cut turns the bytes on disk into such a list) *)
Inductive reachable (tasks : list nat) : list nat -> Prop :=
| reach_nil : reachable tasks []
| reach_step ks pi p rest : reachable tasks ks -> Permutation pi (todo tasks ks) -> pi = p ++ rest -> reachable tasks (ks ++ p).

Lemma reachable_valid tasks ks : NoDup tasks -> reachable tasks ks -> valid tasks ks.
Proof.
  intros Ht H. induction H as [|ks pi p rest H IH HP E]; [split; [constructor|intros x []]|]. exact (resume_valid tasks ks pi p rest Ht IH HP E).
Qed.

(* a run that is allowed to finish performs exactly the missing tasks, and the log then holds every task exactly once *)
Theorem resume_completes tasks ks pi : NoDup tasks -> reachable tasks ks -> Permutation pi (todo tasks ks) ->
  (forall k, In k pi -> ~ In k ks) /\ NoDup (ks ++ pi) /\ Permutation (ks ++ pi) tasks.
Proof.
  intros Ht Hr HP. pose proof (reachable_valid tasks ks Ht Hr) as [Hnd Hincl].
  pose proof (resume_valid tasks ks pi pi [] Ht (conj Hnd Hincl) HP (eq_sym (app_nil_r pi))) as [Hnd' Hincl'].
  split; [|split].
  - intros k Hk. apply (todo_In tasks ks k). eapply Permutation_in; [exact HP|exact Hk].
  - exact Hnd'.
  - apply NoDup_Permutation; [exact Hnd'|exact Ht|]. intros x. split; [apply Hincl'|].
    intros Hx. destruct (in_dec Nat.eq_dec x ks) as [Hin|Hnin]; [apply in_or_app; left; exact Hin|].
    apply in_or_app. right. eapply Permutation_in; [symmetry; exact HP|]. apply todo_In. split; assumption.
Qed.
