From Coq Require Import ZArith List Bool QArith.
From Coba Require Import Common.Sx C07.Model.
Import ListNotations.
Open Scope Z_scope.
(* request: (0 rows) rows = list of ((key value-id) ...) -> unpacked rows ((index ((key value-id) ...)) ...) with -1 for None
            (1 num den) -> minimize of the rational *)
Definition run (x : sx) : sx :=
  match as_z (nth_sx 0 x) with
  | 0 => let rows := map (fun r => map (fun kv => (as_z (nth_sx 0 kv), as_z (nth_sx 1 kv))) (as_l r)) (as_l (nth_sx 1 x)) in
         L_ (map (fun ir => L_ [of_nat (fst ir); L_ (map (fun kv : Z * Z => L_ [Z_ (fst kv); Z_ (snd kv)]) (snd ir))]) (unpack (-1) (pack (-1) rows)))
  | _ => of_q (minimize_q (as_q (nth_sx 1 x)))
  end.
