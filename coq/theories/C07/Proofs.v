From Coq Require Import ZArith List Bool QArith Qround Qabs Lia Lqa.
From Coba Require Import C14.Model C14.Proofs C07.Model.
Import ListNotations.

Lemma nth_error_seq' : forall n off i, (i < n)%nat -> nth_error (seq off n) i = Some (off + i)%nat.
Proof.
  induction n as [|n IH]; intros off i H; [lia|]. destruct i as [|i]; cbn; [f_equal; lia|].
  rewrite IH by lia. f_equal. lia.
Qed.

Section PackProofs.
  Context {V : Type}.
  Variable none : V.

  Lemma keys_NoDup (rows : list (@row V)) : NoDup (keys rows).
  Proof. unfold keys. apply sorted_lt_NoDup, sorted_set_sorted. Qed.
  Lemma keys_In (rows : list (@row V)) k : In k (keys rows) <-> exists r, In r rows /\ In k (map fst r).
  Proof. unfold keys. rewrite sorted_set_In, in_flat_map. reflexivity. Qed.

  Lemma lookup_map_keys (ks : list Z) (f : Z -> V) k : NoDup ks -> In k ks -> lookup k (map (fun k0 => (k0, f k0)) ks) = Some (f k).
  Proof.
    unfold lookup. induction ks as [|h t IH]; intros Hnd Hin; [destruct Hin|]. cbn [map find fst].
    inversion Hnd as [|? ? Hh Ht]; subst. destruct (h =? k)%Z eqn:E.
    - apply Z.eqb_eq in E. subst. reflexivity.
    - destruct Hin as [->|Hin]; [rewrite Z.eqb_refl in E; discriminate|]. apply IH; assumption.
  Qed.

  (* unpack (pack rows): as many rows, numbered 1..N in order, and row i has, for every key of the union, the cell the
     evaluator yielded in row i - or None when row i did not have that key *)
  Lemma first_col_len (rows : list (@row V)) : keys rows <> [] ->
    match pack none rows with [] => 0%nat | c :: _ => length (snd c) end = length rows.
  Proof. unfold pack. destruct (keys rows) as [|k0 ks]; [congruence|]. intros _. cbn. apply map_length. Qed.

  Theorem unpack_pack (rows : list (@row V)) : keys rows <> [] ->
    length (unpack none (pack none rows)) = length rows /\
    forall i r, nth_error rows i = Some r ->
      exists r', nth_error (unpack none (pack none rows)) i = Some (S i, r') /\
                 map fst r' = keys rows /\ forall k, In k (keys rows) -> lookup k r' = Some (cell none k r).
  Proof.
    intros Hk. unfold unpack. rewrite (first_col_len rows Hk).
    split; [rewrite map_length, seq_length; reflexivity|].
    intros i r Hi. assert (Hlt : (i < length rows)%nat) by (apply nth_error_Some; congruence).
    eexists. split; [rewrite nth_error_map, nth_error_seq' by exact Hlt; cbn [option_map Nat.add]; reflexivity|].
    unfold pack. split.
    - rewrite !map_map. cbn [fst]. apply map_id.
    - intros k Hin. rewrite map_map. cbn [fst snd].
      rewrite (lookup_map_keys (keys rows) (fun k1 => nth i (map (cell none k1) rows) none) k (keys_NoDup rows) Hin).
      f_equal. rewrite (nth_indep _ none (cell none k r)) by (rewrite map_length; exact Hlt).
      rewrite (map_nth (cell none k) rows r i). f_equal. apply nth_error_nth. exact Hi.
  Qed.
End PackProofs.

(* minimize: the error of rounding to 5 decimals is at most half a unit in the fifth place; integers are exact *)
Lemma round_half_even_bounds x : (Qabs (inject_Z (round_half_even x) - x) <= 1#2)%Q.
Proof.
  unfold round_half_even. pose proof (Qfloor_le x) as L. pose proof (Qlt_floor x) as U.
  rewrite inject_Z_plus in U. set (f := Qfloor x) in *. change (inject_Z 1) with 1%Q in U.
  destruct (Qcompare (x - inject_Z f) (1#2)) eqn:C.
  - apply Qeq_alt in C. destruct (Z.even f); [|rewrite inject_Z_plus; change (inject_Z 1) with 1%Q]; apply Qabs_Qle_condition; split; lra.
  - apply Qlt_alt in C. apply Qabs_Qle_condition; split; lra.
  - apply Qgt_alt in C. rewrite inject_Z_plus. change (inject_Z 1) with 1%Q. apply Qabs_Qle_condition; split; lra.
Qed.

Lemma minimize_error v : (Qabs (minimize_q v - v) <= 1 # 200000)%Q.
Proof.
  unfold minimize_q, P5. pose proof (round_half_even_bounds (v * 100000)) as B.
  apply Qabs_Qle_condition in B. destruct B as [B1 B2].
  apply Qabs_Qle_condition. split.
  - assert (E : (inject_Z (round_half_even (v * 100000)) / 100000 - v == (inject_Z (round_half_even (v * 100000)) - v * 100000) / 100000)%Q) by field.
    rewrite E. apply Qle_shift_div_l; [reflexivity|]. lra.
  - assert (E : (inject_Z (round_half_even (v * 100000)) / 100000 - v == (inject_Z (round_half_even (v * 100000)) - v * 100000) / 100000)%Q) by field.
    rewrite E. apply Qle_shift_div_r; [reflexivity|]. lra.
Qed.

Lemma minimize_integer z : (minimize_q (inject_Z z) == inject_Z z)%Q.
Proof.
  unfold minimize_q, P5, round_half_even.
  assert (F : Qfloor (inject_Z z * 100000) = (z * 100000)%Z).
  { unfold Qfloor, Qmult, inject_Z. cbn [Qnum Qden]. rewrite Pos.mul_1_l. apply Z.div_1_r. }
  rewrite F.
  destruct (Qcompare (inject_Z z * 100000 - inject_Z (z * 100000)) (1 # 2)) eqn:C.
  - apply Qeq_alt in C. rewrite inject_Z_mult in C. change (inject_Z 100000) with 100000%Q in C. exfalso. lra.
  - rewrite inject_Z_mult. change (inject_Z 100000) with 100000%Q. field.
  - apply Qgt_alt in C. rewrite inject_Z_mult in C. change (inject_Z 100000) with 100000%Q in C. exfalso. lra.
Qed.
