(* C07 — The result log faithfully records what evaluators produced.  Property theorems only. *)
From Coq Require Import ZArith List Bool QArith Qabs.
From Coba Require Import C07.Model C07.Proofs.
Import ListNotations.

(* packing the rows of an evaluation column-wise and unpacking them again (TransactionEncode / TransactionResult):
   as many rows, numbered 1..N in the order yielded; row i has, for every key that occurs in any row, exactly the cell the
   evaluator yielded in row i - None where row i has no such key - for ANY rows with heterogeneous key sets *)
Theorem pack_unpack : forall (V : Type) (none : V) (rows : list (@row V)), keys rows <> [] ->
  length (unpack none (pack none rows)) = length rows /\
  forall i r, nth_error rows i = Some r ->
    exists r', nth_error (unpack none (pack none rows)) i = Some (S i, r') /\
               map fst r' = keys rows /\ forall k, In k (keys rows) -> lookup k r' = Some (cell none k r).
Proof. exact @unpack_pack. Qed.
Print Assumptions pack_unpack.

(* the documented float normalisation: at most half a unit in the fifth decimal place, whole numbers are exact *)
Theorem minimize_error_bound : forall v, (Qabs (minimize_q v - v) <= 1 # 200000)%Q.
Proof. exact minimize_error. Qed.
Print Assumptions minimize_error_bound.
Theorem minimize_keeps_integers : forall z, (minimize_q (inject_Z z) == inject_Z z)%Q.
Proof. exact minimize_integer. Qed.
Print Assumptions minimize_keeps_integers.

Example pack_example :
  unpack (-1)%Z (pack (-1)%Z [[(2, 20); (1, 10)]; [(3, 30)]]%Z) = [(1%nat, [(1, 10); (2, 20); (3, -1)]); (2%nat, [(1, -1); (2, -1); (3, 30)])]%Z.
Proof. vm_compute. reflexivity. Qed.
