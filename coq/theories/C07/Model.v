(* The result log (coba/results/core.py): TransactionEncode packs the rows an evaluator yielded column-wise
   (keys sorted, absent cells -> None), TransactionResult unpacks them again and numbers them; minimize rounds
   floats to 5 decimals.  Cell values are abstract (their JSON round trip is CPython's). *)
From Coq Require Import ZArith List Bool QArith Qround Lia.
From Coba Require C14.Model.
Import ListNotations.

Section Pack.
  Context {V : Type}.
  Variable none : V.
  Definition row := list (Z * V).

  Definition lookup (k : Z) (r : row) : option V := option_map snd (find (fun p => (fst p =? k)%Z) r).
  Definition cell (k : Z) (r : row) : V := match lookup k r with Some v => v | None => none end.

  (* the union of the rows key sets, sorted (by str), without duplicates *)
  Definition keys (rows : list row) : list Z := C14.Model.sorted_set (flat_map (map fst) rows).

  (* "I" record: { "_packed": { key: [cell of row 0, cell of row 1, ...] } } *)
  Definition pack (rows : list row) : list (Z * list V) := map (fun k => (k, map (cell k) rows)) (keys rows).
  (* TransactionResult: N = len of the first column; row i takes the i-th entry of every column; index = i+1 *)
  Definition unpack (cols : list (Z * list V)) : list (nat * row) :=
    let n := match cols with [] => 0%nat | c :: _ => length (snd c) end in
    map (fun i => (S i, map (fun c => (fst c, nth i (snd c) none)) cols)) (seq 0 n).
End Pack.

(* minimize: round(v * 10^5) / 10^5 (round half to even), integers stay integers *)
Definition P5 : Q := 100000.
Definition round_half_even (x : Q) : Z :=
  let f := Qfloor x in
  let d := (x - inject_Z f)%Q in
  match Qcompare d (1#2) with
  | Lt => f
  | Gt => (f + 1)%Z
  | Eq => if Z.even f then f else (f + 1)%Z
  end.
Definition minimize_q (v : Q) : Q := (inject_Z (round_half_even (v * P5)) / P5)%Q.
