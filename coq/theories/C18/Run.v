From Coq Require Import ZArith List Bool QArith.
From Coba Require Import Common.Sx C18.Model C18.ModelRemove.
Import ListNotations.
Open Scope Z_scope.

Definition run (x : sx) : sx :=
  let a := fun n => nth_sx n x in
  match as_z (a 0%nat) with
  | 0 => let w := match a 3%nat with L_ [] => WNone | L_ (ws :: _) => WList (as_zs ws) | _ => WNone end in
         let (n, d) := moving_average_nd (as_zs (a 1%nat)) (as_opt as_nat (a 2%nat)) w in
         L_ [of_zs n; of_zs d]
  | 1 => L_ (map of_q (moving_average_exp (map as_q (as_l (a 1%nat))) (as_q (a 2%nat))))
  | 3 => let tri_of := fun e => (as_z (nth_sx 0 e), as_z (nth_sx 1 e), as_z (nth_sx 2 e)) in
         L_ (map of_nat (remove (map tri_of (as_l (a 1%nat))) (map tri_of (as_l (a 2%nat))) (as_nat (a 3%nat))))
  | _ => let n := match as_z (nth_sx 0 (a 1%nat)) with 0 => NNone | 1 => NMin | _ => NK (as_nat (nth_sx 1 (a 1%nat))) end in
         let evs := map (fun e => {| pkey := as_z (nth_sx 0 e); lkey := as_z (nth_sx 1 e); eid := as_nat (nth_sx 2 e); elen := as_nat (nth_sx 3 e) |}) (as_l (a 3%nat)) in
         L_ (map (fun e => L_ [of_nat (eid e); of_nat (elen e)]) (filter_fin n (as_bool (a 2%nat)) evs))
  end.
