(* C18 model.
   (A) moving_average (coba/results/core.py): the prefix and sliding-window branches are modelled on
       integer numerators/denominators (value*weight sums and weight sums) exactly as the code
       accumulates them: accumulate(map(sub, xs, chain(repeat(0,span), xs))).  The 'exp' branch is in Q.
   (B) where_fin's selection (_group_p + _global_n + _group_p): evaluations are records
       (pairing key, level key, id, length). *)
From Coq Require Import ZArith List Bool Arith Lia QArith.
Import ListNotations.
Open Scope nat_scope.

(* ---------- (A) *)
Section Acc.
  Open Scope Z_scope.
  Fixpoint accumulate (acc : Z) (l : list Z) : list Z :=
    match l with [] => [] | x :: t => (acc + x) :: accumulate (acc + x) t end.
  Fixpoint zipsub (a b : list Z) : list Z :=
    match a, b with x :: a', y :: b' => (x - y) :: zipsub a' b' | _, _ => [] end.
  (* accumulate(map(sub, xs, chain(repeat(0,span), xs))) *)
  Definition window_sums (span : nat) (xs : list Z) : list Z := accumulate 0 (zipsub xs (repeat 0 span ++ xs)).
  Definition prefix_sums (xs : list Z) : list Z := accumulate 0 xs.
End Acc.

Inductive wkind := WNone | WList (ws : list Z).

(* returns (numerators, denominators); the code divides them pairwise *)
Definition moving_average_nd (vs : list Z) (span : option nat) (w : wkind) : list Z * list Z :=
  let n := length vs in
  let ones := repeat 1%Z n in
  let xs := match w with WNone => vs | WList ws => map (fun p => (fst p * snd p)%Z) (combine vs ws) end in
  let ws := match w with WNone => ones | WList ws => ws end in
  match span with
  | Some 1%nat => (vs, ones)
  | None => (prefix_sums xs, prefix_sums ws)
  | Some k => if n <=? k then (prefix_sums xs, prefix_sums ws) else (window_sums k xs, window_sums k ws)
  end.

(* 'exp': alpha = 2/(1+span) *)
Fixpoint ema_acc (r : Q) (accw accd : Q) (vs : list Q) (first : bool) : list Q :=
  match vs with
  | [] => []
  | v :: t => let cw := if first then v else (v + r * accw)%Q in
              let cd := if first then 1%Q else (1 + r * accd)%Q in
              (cw / cd)%Q :: ema_acc r cw cd t false
  end.
Definition moving_average_exp (vs : list Q) (span : Q) : list Q := ema_acc (1 - 2 / (1 + span))%Q 0%Q 0%Q vs true.

(* ---------- (B) *)
Record evaluation := { pkey : Z; lkey : Z; eid : nat; elen : nat }.

Definition zdistinct (l : list Z) : list Z := nodup Z.eq_dec l.
Definition levels (evs : list evaluation) : list Z := zdistinct (map lkey evs).
Definition group_of (evs : list evaluation) (p : Z) : list evaluation := filter (fun e => (pkey e =? p)%Z) evs.

(* _group_p: a pairing group is kept iff it has at most n_levels evaluations and n_levels distinct levels *)
Definition group_ok (evs : list evaluation) (p : Z) : bool :=
  let g := group_of evs p in
  let nl := length (levels evs) in
  (length g <=? nl) && (length (zdistinct (map lkey g)) =? nl).
Definition group_p (evs : list evaluation) : list evaluation := filter (fun e => group_ok evs (pkey e)) evs.

Inductive nkind := NNone | NMin | NK (k : nat).
Definition min_len (evs : list evaluation) : nat := fold_right Nat.min (match evs with [] => 0 | e :: _ => elen e end) (map elen evs).
Definition global_n (n : nkind) (evs : list evaluation) : list evaluation :=
  match n with
  | NNone => evs
  | NMin => let m := min_len evs in map (fun e => {| pkey := pkey e; lkey := lkey e; eid := eid e; elen := m |}) evs
  | NK k => map (fun e => {| pkey := pkey e; lkey := lkey e; eid := eid e; elen := k |}) (filter (fun e => k <=? elen e) evs)
  end.

(* _filter_fin: group, length constraint, and (for n = k) group again *)
Definition filter_fin (n : nkind) (use_groups : bool) (evs : list evaluation) : list evaluation :=
  let r1 := if use_groups then group_p evs else evs in
  let r2 := match n with NK 0 => r1 | _ => global_n n r1 end in
  match n with
  | NK (S _) => if use_groups then group_p r2 else r2
  | _ => r2
  end.
