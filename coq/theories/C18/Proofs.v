From Coq Require Import ZArith List Bool Arith Lia.
From Coba Require Import C18.Model.
Import ListNotations.
Open Scope nat_scope.

(* ---------- (A) moving averages *)
Definition zsum (l : list Z) : Z := fold_right Z.add 0%Z l.

Lemma accumulate_length a l : length (accumulate a l) = length l.
Proof. revert a; induction l as [|x t IH]; intros a; cbn; auto. Qed.

Lemma accumulate_nth l : forall a i d, i < length l -> nth i (accumulate a l) d = (a + zsum (firstn (S i) l))%Z.
Proof.
  induction l as [|x t IH]; intros a i d Hi; [cbn in Hi; lia|].
  cbn [accumulate]. destruct i as [|i].
  - cbn. lia.
  - cbn [nth]. rewrite IH by (cbn in Hi; lia). cbn [firstn zsum fold_right]. fold (zsum (firstn (S i) t)). lia.
Qed.

Lemma zsum_app a b : zsum (a ++ b) = (zsum a + zsum b)%Z.
Proof. unfold zsum. induction a as [|x a IH]; cbn; [reflexivity|]. rewrite IH. lia. Qed.
Lemma zsum_repeat0 k : zsum (repeat 0%Z k) = 0%Z.
Proof. induction k; cbn; auto. Qed.

Lemma zsum_firstn_zipsub : forall xs ys n, n <= length xs -> length xs <= length ys ->
  zsum (firstn n (zipsub xs ys)) = (zsum (firstn n xs) - zsum (firstn n ys))%Z.
Proof.
  induction xs as [|x xs IH]; intros ys n Hn H.
  - cbn in Hn. assert (n = 0) by lia. subst. destruct ys; reflexivity.
  - destruct ys as [|y ys]; [cbn in H; lia|]. destruct n as [|n]; [reflexivity|].
    cbn [zipsub firstn zsum fold_right]. fold (zsum (firstn n (zipsub xs ys))). fold (zsum (firstn n xs)). fold (zsum (firstn n ys)).
    rewrite IH by (cbn in *; lia). lia.
Qed.

Lemma zipsub_length xs ys : length xs <= length ys -> length (zipsub xs ys) = length xs.
Proof. revert ys; induction xs as [|x xs IH]; intros [|y ys] H; cbn in *; try lia. rewrite IH; lia. Qed.

Lemma firstn_repeat_app k (xs : list Z) n : zsum (firstn n (repeat 0%Z k ++ xs)) = zsum (firstn (n - k) xs).
Proof.
  rewrite firstn_app, zsum_app, repeat_length.
  assert (E : zsum (firstn n (repeat 0%Z k)) = 0%Z).
  { generalize n. induction k as [|k IH]; intros m; [rewrite firstn_nil; reflexivity|].
    destruct m as [|m]; [reflexivity|]. cbn [repeat firstn zsum fold_right]. fold (zsum (firstn m (repeat 0%Z k))). rewrite IH. reflexivity. }
  rewrite E. lia.
Qed.

(* the sliding-window accumulation is the sum of the last min(span, i+1) entries *)
Lemma window_sums_spec span xs i : i < length xs ->
  nth i (window_sums span xs) 0%Z = (zsum (firstn (S i) xs) - zsum (firstn (S i - span) xs))%Z.
Proof.
  intros Hi. unfold window_sums.
  assert (L : length xs <= length (repeat 0%Z span ++ xs)) by (rewrite app_length; lia).
  rewrite accumulate_nth by (rewrite zipsub_length; assumption).
  rewrite zsum_firstn_zipsub by (try lia; exact L). rewrite firstn_repeat_app. lia.
Qed.

Lemma window_as_skipn span xs i : i < length xs ->
  nth i (window_sums span xs) 0%Z = zsum (skipn (S i - span) (firstn (S i) xs)).
Proof.
  intros Hi. rewrite window_sums_spec by exact Hi.
  rewrite <- (firstn_skipn (S i - span) (firstn (S i) xs)) at 1. rewrite zsum_app.
  rewrite firstn_firstn. replace (Nat.min (S i - span) (S i)) with (S i - span) by lia. lia.
Qed.

Lemma prefix_sums_spec xs i : i < length xs -> nth i (prefix_sums xs) 0%Z = zsum (firstn (S i) xs).
Proof. intros Hi. unfold prefix_sums. rewrite accumulate_nth by exact Hi. lia. Qed.

(* ---------- (B) complete pairing groups *)
Lemma nodup_length_eq_NoDup (l : list Z) : length (nodup Z.eq_dec l) = length l -> NoDup l.
Proof.
  induction l as [|x l IH]; intros H; [constructor|]. cbn [nodup] in H.
  destruct (in_dec Z.eq_dec x l) as [Hin|Hnin].
  - pose proof (nodup_incl Z.eq_dec) as _. 
    assert (L : length (nodup Z.eq_dec l) <= length l).
    { clear. induction l as [|y l IH]; [cbn; lia|]. cbn [nodup]. destruct (in_dec Z.eq_dec y l); cbn; lia. }
    cbn in H. lia.
  - cbn in H. constructor; [exact Hnin|apply IH; lia].
Qed.

Lemma nodup_length_le (l : list Z) : length (nodup Z.eq_dec l) <= length l.
Proof. induction l as [|y l IH]; [cbn; lia|]. cbn [nodup]. destruct (in_dec Z.eq_dec y l); cbn; lia. Qed.

Lemma group_of_In evs p e : In e (group_of evs p) <-> In e evs /\ pkey e = p.
Proof. unfold group_of. rewrite filter_In. rewrite Z.eqb_eq. reflexivity. Qed.

(* a kept group has exactly one evaluation for every level *)
Lemma group_ok_complete evs p : group_ok evs p = true ->
  NoDup (map lkey (group_of evs p)) /\ forall lv, In lv (levels evs) <-> In lv (map lkey (group_of evs p)).
Proof.
  unfold group_ok. intros H. apply andb_true_iff in H. destruct H as [H1 H2].
  apply Nat.leb_le in H1. apply Nat.eqb_eq in H2.
  set (g := map lkey (group_of evs p)) in *. unfold zdistinct in *.
  assert (Lg : length g = length (group_of evs p)) by (unfold g; apply map_length).
  pose proof (nodup_length_le g) as L.
  assert (Hnd : NoDup g) by (apply nodup_length_eq_NoDup; lia).
  split; [exact Hnd|].
  assert (Sub : incl (nodup Z.eq_dec g) (levels evs)).
  { intros x Hx. apply nodup_In in Hx. unfold levels, zdistinct. apply nodup_In.
    unfold g in Hx. apply in_map_iff in Hx. destruct Hx as [e [<- He]]. apply group_of_In in He. apply in_map. apply He. }
  assert (Sup : incl (levels evs) (nodup Z.eq_dec g)).
  { apply NoDup_length_incl; [apply NoDup_nodup| |exact Sub]. unfold levels, zdistinct in *. lia. }
  intros lv. split.
  - intros Hl. apply (nodup_In Z.eq_dec). apply Sup. exact Hl.
  - intros Hl. apply Sub. apply nodup_In. exact Hl.
Qed.

(* conversely a group with exactly one evaluation per level is kept *)
Lemma complete_group_ok evs p :
  NoDup (map lkey (group_of evs p)) -> (forall lv, In lv (levels evs) <-> In lv (map lkey (group_of evs p))) ->
  group_ok evs p = true.
Proof.
  intros Hnd Hiff. unfold group_ok. set (g := map lkey (group_of evs p)) in *.
  assert (E : length g = length (levels evs)).
  { apply Nat.le_antisymm.
    - apply NoDup_incl_length; [exact Hnd|]. intros x Hx. apply Hiff. exact Hx.
    - apply NoDup_incl_length; [apply NoDup_nodup|]. intros x Hx. apply Hiff. exact Hx. }
  apply andb_true_iff. split.
  - apply Nat.leb_le. unfold g in E. rewrite map_length in E. lia.
  - apply Nat.eqb_eq. unfold zdistinct. rewrite nodup_fixed_point by exact Hnd. exact E.
Qed.

Lemma filter_filter2 {A} (f g : A -> bool) l : filter f (filter g l) = filter (fun x => g x && f x) l.
Proof. induction l as [|a l IH]; [reflexivity|]. cbn [filter]. destruct (g a); cbn [filter andb]; [destruct (f a)|]; rewrite IH; reflexivity. Qed.

Lemma group_p_In evs e : In e (group_p evs) <-> In e evs /\ group_ok evs (pkey e) = true.
Proof. unfold group_p. apply filter_In. Qed.

(* group_p keeps whole groups: the group of a kept evaluation, taken in the result, is its group in the input *)
Lemma group_p_group evs p : group_ok evs p = true -> group_of (group_p evs) p = group_of evs p.
Proof.
  intros H. unfold group_of, group_p. rewrite filter_filter2.
  apply filter_ext_in. intros e He. destruct (pkey e =? p)%Z eqn:E; [|apply andb_false_r].
  apply Z.eqb_eq in E. rewrite E, H. reflexivity.
Qed.

(* every level of the input occurs in every kept group, hence the result has the same levels (unless empty) *)
Lemma group_p_levels evs : group_p evs <> [] -> forall lv, In lv (levels (group_p evs)) <-> In lv (levels evs).
Proof.
  intros Hne lv. unfold levels, zdistinct. rewrite !nodup_In. split.
  - intros H. apply in_map_iff in H. destruct H as [e [<- He]]. apply group_p_In in He. apply in_map. apply He.
  - intros H. destruct (group_p evs) as [|e0 r] eqn:E; [congruence|].
    assert (He0 : In e0 (group_p evs)) by (rewrite E; left; reflexivity).
    apply group_p_In in He0. destruct He0 as [He0 Hok].
    destruct (group_ok_complete evs (pkey e0) Hok) as [_ Hiff].
    assert (Hl : In lv (levels evs)) by (unfold levels, zdistinct; apply nodup_In; exact H).
    apply Hiff in Hl. apply in_map_iff in Hl. destruct Hl as [e [<- He]].
    apply in_map. rewrite <- E. apply group_p_In. apply group_of_In in He. destruct He as [He Hp]. split; [exact He|]. rewrite Hp. exact Hok.
Qed.

(* the result of grouping is closed: each of its groups is complete with respect to the result's own levels *)
Theorem group_p_result_complete evs e : In e (group_p evs) ->
  let R := group_p evs in
  NoDup (map lkey (group_of R (pkey e))) /\ forall lv, In lv (levels R) <-> In lv (map lkey (group_of R (pkey e))).
Proof.
  intros He R. pose proof He as He'. apply group_p_In in He'. destruct He' as [Hin Hok].
  unfold R. rewrite (group_p_group evs (pkey e) Hok).
  destruct (group_ok_complete evs (pkey e) Hok) as [Hnd Hiff]. split; [exact Hnd|].
  intros lv. rewrite group_p_levels; [apply Hiff|]. intros E. rewrite E in He. destruct He.
Qed.

(* lengths: n = k keeps only evaluations of at least k interactions and cuts them to k; 'min' cuts all to the minimum *)
Lemma global_n_k_lengths k evs e : In e (global_n (NK k) evs) -> elen e = k /\ exists e0, In e0 evs /\ k <= elen e0 /\ eid e0 = eid e /\ pkey e0 = pkey e /\ lkey e0 = lkey e.
Proof.
  cbn [global_n]. intros H. apply in_map_iff in H. destruct H as [e0 [<- H0]]. apply filter_In in H0. destruct H0 as [H0 Hk].
  apply Nat.leb_le in Hk. cbn. split; [reflexivity|]. exists e0. repeat split; assumption.
Qed.
Lemma global_n_min_lengths evs e : In e (global_n NMin evs) -> elen e = min_len evs.
Proof. cbn [global_n]. intros H. apply in_map_iff in H. destruct H as [e0 [<- _]]. reflexivity. Qed.
Lemma min_len_le evs e : In e evs -> min_len evs <= elen e.
Proof.
  unfold min_len. intros H. set (d := match evs with [] => 0 | e0 :: _ => elen e0 end). clearbody d.
  induction evs as [|a l IH]; [destruct H|]. cbn [map fold_right]. destruct H as [->|H]; [lia|]. specialize (IH H). lia.
Qed.

(* where_fin(n=k, l, p): every remaining evaluation has exactly k interactions (taken from one that had at least k)
   and every remaining group is complete *)
Theorem filter_fin_k_spec k evs e : In e (filter_fin (NK (S k)) true evs) ->
  let R := filter_fin (NK (S k)) true evs in
  elen e = S k /\
  NoDup (map lkey (group_of R (pkey e))) /\ (forall lv, In lv (levels R) <-> In lv (map lkey (group_of R (pkey e)))).
Proof.
  intros He R. unfold R, filter_fin in *.
  split.
  - apply group_p_In in He. destruct He as [He _]. apply global_n_k_lengths in He. apply He.
  - apply group_p_result_complete. exact He.
Qed.

Theorem filter_fin_none_spec evs e : In e (filter_fin NNone true evs) ->
  let R := filter_fin NNone true evs in
  In e evs /\ NoDup (map lkey (group_of R (pkey e))) /\ (forall lv, In lv (levels R) <-> In lv (map lkey (group_of R (pkey e)))).
Proof.
  intros He R. unfold R, filter_fin in *. cbn [global_n] in *. split.
  - apply group_p_In in He. apply He.
  - apply group_p_result_complete. exact He.
Qed.

(* exactly the complete groups survive where_fin(l,p) *)
Theorem filter_fin_keeps_exactly_complete evs e : In e evs ->
  (In e (filter_fin NNone true evs) <->
   NoDup (map lkey (group_of evs (pkey e))) /\ forall lv, In lv (levels evs) <-> In lv (map lkey (group_of evs (pkey e)))).
Proof.
  intros Hin. unfold filter_fin. cbn [global_n]. rewrite group_p_In. split.
  - intros [_ Hok]. apply group_ok_complete. exact Hok.
  - intros [Hnd Hiff]. split; [exact Hin|]. apply complete_group_ok; assumption.
Qed.
