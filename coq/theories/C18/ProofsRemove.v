(* C18, part (C): Result._remove computes exactly the surviving row numbers - for every table whose id columns
   are sorted lexicographically, every list of evaluations to drop (any order, duplicates, ids that do not
   occur) and every n. *)
From Coq Require Import ZArith List Bool Arith Lia Sorted ZifyBool.
From Coba Require Import C18.ModelRemove.
Import ListNotations.
Open Scope nat_scope.

(* ---------- lists *)
Lemma cnt_app {A} (p : A -> bool) l1 l2 : cnt p (l1 ++ l2) = cnt p l1 + cnt p l2.
Proof. unfold cnt. rewrite filter_app, app_length. reflexivity. Qed.
Lemma cnt_map {A B} (f : A -> B) (p : B -> bool) l : cnt p (map f l) = cnt (fun x => p (f x)) l.
Proof. unfold cnt. induction l as [|x l IH]; simpl; [reflexivity|]. destruct (p (f x)); simpl; rewrite ?IH; reflexivity. Qed.
Lemma cnt_le_length {A} (p : A -> bool) l : cnt p l <= length l.
Proof. unfold cnt. induction l as [|x l IH]; simpl; [lia|]. destruct (p x); simpl; lia. Qed.
Lemma filter_nil_iff {A} (p : A -> bool) l : filter p l = [] <-> forall x, In x l -> p x = false.
Proof.
  induction l as [|x l IH]; simpl; [tauto|]. destruct (p x) eqn:E.
  - split; [discriminate|]. intros H. specialize (H x (or_introl eq_refl)). congruence.
  - rewrite IH. split; [intros H y [<-|Hy]; auto | intros H y Hy; apply H; auto].
Qed.
Lemma filter_all {A} (p : A -> bool) l : (forall x, In x l -> p x = true) -> filter p l = l.
Proof. induction l as [|x l IH]; simpl; intros H; [reflexivity|]. rewrite (H x (or_introl eq_refl)), IH; auto. Qed.
Lemma filter_ext_in' {A} (p q : A -> bool) l : (forall x, In x l -> p x = q x) -> filter p l = filter q l.
Proof. induction l as [|x l IH]; simpl; intros H; [reflexivity|]. rewrite (H x (or_introl eq_refl)), IH; auto. Qed.
Lemma filter_filter {A} (p q : A -> bool) l : filter p (filter q l) = filter (fun x => q x && p x) l.
Proof. induction l as [|x l IH]; simpl; [reflexivity|]. destruct (q x); simpl; [destruct (p x)|]; rewrite IH; reflexivity. Qed.

Lemma slice_at {A} (pre seg post : list A) :
  slice (length pre) (length pre + length seg) (pre ++ seg ++ post) = seg.
Proof.
  unfold slice. replace (length pre + length seg - length pre) with (length seg) by lia.
  rewrite skipn_app, skipn_all, Nat.sub_diag. simpl. rewrite firstn_app, firstn_all, Nat.sub_diag. simpl. apply app_nil_r.
Qed.

Lemma slice_at_map {A B} (f : A -> B) (pre seg post : list A) :
  slice (length pre) (length pre + length seg) (map f pre ++ map f seg ++ map f post) = map f seg.
Proof. rewrite <- (map_length f pre), <- (map_length f seg). apply slice_at. Qed.

(* ---------- splitting a sorted list at a pivot *)
Section Split.
  Context {A : Type} (R : A -> A -> Prop) (pl pe pg : A -> bool).
  Hypothesis tri : forall x, (pl x = true /\ pe x = false /\ pg x = false) \/ (pl x = false /\ pe x = true /\ pg x = false)
                          \/ (pl x = false /\ pe x = false /\ pg x = true).
  Hypothesis Re : forall x y, R x y -> pe x = true -> pl y = false.
  Hypothesis Rg : forall x y, R x y -> pg x = true -> pg y = true.

  Lemma sorted_split l : StronglySorted R l -> l = filter pl l ++ filter pe l ++ filter pg l.
  Proof.
    induction 1 as [|x l Hs IH Hall]; [reflexivity|]. simpl.
    destruct (tri x) as [(E1 & E2 & E3)|[(E1 & E2 & E3)|(E1 & E2 & E3)]]; rewrite E1, E2, E3.
    - simpl. f_equal. exact IH.
    - assert (Hl : filter pl l = []). { apply filter_nil_iff. intros y Hy. apply (Re x y); auto. rewrite Forall_forall in Hall; auto. }
      rewrite Hl in *. simpl in *. f_equal. exact IH.
    - assert (Hg : forall y, In y l -> pg y = true). { intros y Hy. apply (Rg x y); auto. rewrite Forall_forall in Hall; auto. }
      assert (Hl : filter pl l = []). { apply filter_nil_iff. intros y Hy. specialize (Hg y Hy). destruct (tri y) as [(?&?&?)|[(?&?&?)|(?&?&?)]]; congruence. }
      assert (He : filter pe l = []). { apply filter_nil_iff. intros y Hy. specialize (Hg y Hy). destruct (tri y) as [(?&?&?)|[(?&?&?)|(?&?&?)]]; congruence. }
      rewrite Hl, He. simpl. f_equal. symmetry. apply filter_all. exact Hg.
  Qed.
End Split.

Lemma StronglySorted_filter {A} (R : A -> A -> Prop) p l : StronglySorted R l -> StronglySorted R (filter p l).
Proof.
  induction 1 as [|x l Hs IH Hall]; simpl; [constructor|]. destruct (p x); [|exact IH].
  constructor; [exact IH|]. rewrite Forall_forall in *. intros y Hy. apply filter_In in Hy. apply Hall. tauto.
Qed.
Lemma StronglySorted_app_r {A} (R : A -> A -> Prop) l1 l2 : StronglySorted R (l1 ++ l2) -> StronglySorted R l2.
Proof. induction l1 as [|x l1 IH]; simpl; intros H; [exact H|]. inversion H; subst. auto. Qed.
Lemma StronglySorted_app_cross {A} (R : A -> A -> Prop) l1 l2 : StronglySorted R (l1 ++ l2) -> forall x y, In x l1 -> In y l2 -> R x y.
Proof.
  induction l1 as [|a l1 IH]; simpl; intros H x y Hx Hy; [tauto|]. inversion H as [|? ? Hs Hall]; subst.
  destruct Hx as [<-|Hx]; [|eauto]. rewrite Forall_forall in Hall. apply Hall. apply in_or_app. auto.
Qed.
Lemma StronglySorted_map {A B} (R : A -> A -> Prop) (S : B -> B -> Prop) (f : A -> B) l :
  (forall x y, In x l -> In y l -> R x y -> S (f x) (f y)) -> StronglySorted R l -> StronglySorted S (map f l).
Proof.
  intros H Hs. induction Hs as [|x l Hs IH Hall]; simpl; [constructor|]. constructor.
  - apply IH. intros a b Ha Hb. apply H; simpl; auto.
  - rewrite Forall_forall in *. intros y Hy. apply in_map_iff in Hy. destruct Hy as (a & <- & Ha). apply H; simpl; auto.
Qed.

(* ---------- one bisection on a located, sorted segment *)
Definition zle_sorted (l : list Z) := StronglySorted Z.le l.

Lemma zsorted_head_min x l : zle_sorted (x :: l) -> forall y, In y (x :: l) -> (x <= y)%Z.
Proof. intros H y [<-|Hy]; [lia|]. inversion H as [|? ? _ Hall]; subst. rewrite Forall_forall in Hall. auto. Qed.
Lemma zsorted_last_max l x : zle_sorted (l ++ [x]) -> forall y, In y (l ++ [x]) -> (y <= x)%Z.
Proof.
  intros H y Hy. apply in_app_or in Hy. destruct Hy as [Hy|[<-|[]]]; [|lia].
  apply (StronglySorted_app_cross _ _ _ H); simpl; auto.
Qed.

Lemma cnt_le_split {A} (f : A -> Z) a l :
  cnt (fun r => (f r <=? a)%Z) l = cnt (fun r => (f r <? a)%Z) l + cnt (fun r => (f r =? a)%Z) l.
Proof.
  unfold cnt. induction l as [|x l IH]; simpl; [reflexivity|].
  destruct (Z.leb_spec (f x) a), (Z.ltb_spec (f x) a), (Z.eqb_spec (f x) a); simpl; lia.
Qed.

Section Level.
  Variable f : tri -> Z.
  Lemma bl_spec pre seg post a : zle_sorted (map f seg) ->
    my_bisect_left (map f (pre ++ seg ++ post)) a (length pre) (length pre + length seg) = length pre + cnt (fun r => (f r <? a)%Z) seg.
  Proof.
    intros Hs. unfold my_bisect_left.
    destruct ((length pre <? length pre + length seg) && (nth (length pre) (map f (pre ++ seg ++ post)) 0 =? a)%Z) eqn:E.
    - apply andb_prop in E. destruct E as [E1 E2]. apply Nat.ltb_lt in E1. apply Z.eqb_eq in E2.
      destruct seg as [|r seg']; [simpl in E1; lia|].
      rewrite map_app, app_nth2 in E2 by (rewrite map_length; lia). rewrite map_length, Nat.sub_diag in E2. simpl in E2.
      assert (H0 : filter (fun r0 => (f r0 <? a)%Z) (r :: seg') = []).
      { apply filter_nil_iff. intros y Hy. pose proof (zsorted_head_min _ _ Hs (f y)) as Hm. simpl in Hm.
        assert (In (f y) (f r :: map f seg')). { destruct Hy as [<-|Hy]; [left; reflexivity | right; apply in_map; exact Hy]. }
        specialize (Hm H). lia. }
      unfold cnt. rewrite H0. simpl. lia.
    - unfold bisect_left. f_equal. rewrite !map_app, slice_at_map. apply cnt_map.
  Qed.
  Lemma br_spec pre seg post a : zle_sorted (map f seg) ->
    my_bisect_right (map f (pre ++ seg ++ post)) a (length pre) (length pre + length seg) = length pre + cnt (fun r => (f r <=? a)%Z) seg.
  Proof.
    intros Hs. unfold my_bisect_right.
    destruct ((length pre <? length pre + length seg) && (nth (length pre + length seg - 1) (map f (pre ++ seg ++ post)) 0 =? a)%Z) eqn:E.
    - apply andb_prop in E. destruct E as [E1 E2]. apply Nat.ltb_lt in E1. apply Z.eqb_eq in E2.
      destruct (exists_last (l := seg)) as (seg' & r & ->); [intros ->; simpl in E1; lia|].
      rewrite app_length in *. simpl in *.
      rewrite map_app, app_nth2 in E2 by (rewrite map_length; lia). rewrite map_length in E2.
      replace (length pre + (length seg' + 1) - 1 - length pre) with (length seg') in E2 by lia.
      rewrite <- app_assoc, map_app, app_nth2 in E2 by (rewrite map_length; lia). rewrite map_length, Nat.sub_diag in E2. simpl in E2.
      assert (H0 : filter (fun r0 => (f r0 <=? a)%Z) (seg' ++ [r]) = seg' ++ [r]).
      { apply filter_all. intros y Hy. rewrite map_app in Hs. simpl in Hs. pose proof (zsorted_last_max _ _ Hs (f y)) as Hm.
        assert (In (f y) (map f seg' ++ [f r])). { apply in_app_or in Hy. apply in_or_app. destruct Hy as [Hy|[<-|[]]]; [left; apply in_map; exact Hy | right; left; reflexivity]. }
        specialize (Hm H). lia. }
      unfold cnt. rewrite H0, app_length. simpl. lia.
    - unfold bisect_right. f_equal. rewrite !map_app, slice_at_map. apply cnt_map.
  Qed.

  (* the block of entries equal to a, as a located segment *)
  Lemma block_located pre seg post a : zle_sorted (map f seg) ->
    let A := filter (fun r => (f r <? a)%Z) seg in let B := filter (fun r => (f r =? a)%Z) seg in let C := filter (fun r => (a <? f r)%Z) seg in
    pre ++ seg ++ post = (pre ++ A) ++ B ++ (C ++ post) /\
    cnt (fun r => (f r <=? a)%Z) seg = length A + length B.
  Proof.
    intros Hs A B C.
    assert (Hsp : seg = A ++ B ++ C).
    { apply (sorted_split (fun x y => (f x <= f y)%Z)).
      - intros x. destruct (Z.ltb_spec (f x) a), (Z.eqb_spec (f x) a), (Z.ltb_spec a (f x)); try lia; tauto.
      - intros x y Hxy E. apply Z.eqb_eq in E. apply Z.ltb_ge. lia.
      - intros x y Hxy E. apply Z.ltb_lt in E. apply Z.ltb_lt. lia.
      - clear -Hs. induction seg as [|x l IH]; [constructor|]. simpl in Hs. inversion Hs as [|? ? Hs' Hall]; subst. constructor; [auto|].
        rewrite Forall_forall in *. intros y Hy. apply Hall. apply in_map. exact Hy. }
    split.
    - rewrite Hsp at 1. rewrite <- !app_assoc. reflexivity.
    - rewrite cnt_le_split. reflexivity.
  Qed.
End Level.

(* ---------- the lexicographic order *)
Definition lex_le (a b : tri) : Prop := lex_leb a b = true.

Ltac tri_lia := unfold lex_le, lex_leb, lex_ltb, tri_eqb, t1, t2, t3 in *; simpl in *; lia.

Lemma tri_eqb_eq a b : tri_eqb a b = true <-> a = b.
Proof. destruct a as [[a1 a2] a3], b as [[b1 b2] b3]. split; [intros H; f_equal; [f_equal|]; tri_lia | intros [= -> -> ->]; tri_lia]. Qed.
Lemma lex_lt_neq a b : lex_ltb a b = true -> tri_eqb a b = false /\ tri_eqb b a = false.
Proof. destruct a as [[a1 a2] a3], b as [[b1 b2] b3]. intros H. split; tri_lia. Qed.
Lemma lex_lt_le_trans a b c : lex_ltb a b = true -> lex_le b c -> lex_ltb a c = true.
Proof. destruct a as [[a1 a2] a3], b as [[b1 b2] b3], c as [[c1 c2] c3]. intros H1 H2. tri_lia. Qed.
Lemma lex_le_trans a b c : lex_le a b -> lex_le b c -> lex_le a c.
Proof. destruct a as [[a1 a2] a3], b as [[b1 b2] b3], c as [[c1 c2] c3]. intros H1 H2. tri_lia. Qed.
Lemma lex_le_total a b : lex_leb a b = false -> lex_le b a.
Proof. destruct a as [[a1 a2] a3], b as [[b1 b2] b3]. intros H. tri_lia. Qed.
Lemma lex_trichotomy t x :
  (lex_ltb x t = true /\ tri_eqb x t = false /\ lex_ltb t x = false) \/ (lex_ltb x t = false /\ tri_eqb x t = true /\ lex_ltb t x = false)
  \/ (lex_ltb x t = false /\ tri_eqb x t = false /\ lex_ltb t x = true).
Proof. destruct t as [[a1 a2] a3], x as [[b1 b2] b3]. tri_lia. Qed.

(* counting below / at a pivot lexicographically = the three nested counts; no sortedness involved *)
Lemma cnt_lex (t : tri) seg :
  let B1 := filter (fun r => (t1 r =? t1 t)%Z) seg in let B2 := filter (fun r => (t2 r =? t2 t)%Z) B1 in
  cnt (fun r => lex_ltb r t) seg = cnt (fun r => (t1 r <? t1 t)%Z) seg + cnt (fun r => (t2 r <? t2 t)%Z) B1 + cnt (fun r => (t3 r <? t3 t)%Z) B2
  /\ filter (fun r => (t3 r =? t3 t)%Z) B2 = filter (fun r => tri_eqb r t) seg.
Proof.
  destruct t as [[e l] v]. unfold cnt. induction seg as [|[[a b] c] seg IH]; simpl; [split; reflexivity|].
  simpl in IH. destruct IH as [IH1 IH2]. unfold lex_ltb, tri_eqb, t1, t2, t3 in *. simpl in *.
  destruct (Z.ltb_spec a e), (Z.eqb_spec a e); simpl; try lia; [split; [lia | exact IH2] | |split; [lia | exact IH2]].
  destruct (Z.ltb_spec b l), (Z.eqb_spec b l); simpl; try lia; [split; [lia | exact IH2] | |split; [lia | exact IH2]].
  destruct (Z.ltb_spec c v), (Z.eqb_spec c v); simpl; try lia; split; try lia; try exact IH2. f_equal. exact IH2.
Qed.

Definition lex_sorted (rows : list tri) := StronglySorted lex_le rows.

Lemma lex_sorted_t1 seg : lex_sorted seg -> zle_sorted (map t1 seg).
Proof. apply StronglySorted_map. intros [[a b] c] [[a' b'] c'] _ _ H. tri_lia. Qed.
Lemma lex_sorted_t2 seg e : lex_sorted seg -> (forall r, In r seg -> t1 r = e) -> zle_sorted (map t2 seg).
Proof. intros Hs He. revert Hs. apply StronglySorted_map. intros [[a b] c] [[a' b'] c'] H1 H2 H. apply He in H1. apply He in H2. tri_lia. Qed.
Lemma lex_sorted_t3 seg e l : lex_sorted seg -> (forall r, In r seg -> t1 r = e /\ t2 r = l) -> zle_sorted (map t3 seg).
Proof. intros Hs He. revert Hs. apply StronglySorted_map. intros [[a b] c] [[a' b'] c'] H1 H2 H. apply He in H1. apply He in H2. tri_lia. Qed.

(* ---------- the three nested bisections find the block of the evaluation, or report that it is absent *)
Lemma find3_spec rows t loc : lex_sorted rows -> loc <= length rows ->
  let seg := skipn loc rows in
  let a := cnt (fun r => lex_ltb r t) seg in let b := cnt (fun r => tri_eqb r t) seg in
  find3 rows t loc = if b =? 0 then None else Some (loc + a, loc + a + b).
Proof.
  intros Hs Hloc seg a b.
  set (pre := firstn loc rows).
  assert (Hrows : rows = pre ++ seg ++ []) by (rewrite app_nil_r; symmetry; apply firstn_skipn).
  assert (Hpre : length pre = loc) by (apply firstn_length_le; exact Hloc).
  assert (Hseg : lex_sorted seg). { apply (StronglySorted_app_r _ pre). rewrite <- (app_nil_r seg), <- Hrows. exact Hs. }
  assert (HN : length rows = length pre + length seg). { rewrite Hrows at 1. rewrite !app_length. simpl. lia. }
  destruct (cnt_lex t seg) as [Ha Hb]. cbv zeta in Ha, Hb.
  set (B1 := filter (fun r => (t1 r =? t1 t)%Z) seg) in *. set (B2 := filter (fun r => (t2 r =? t2 t)%Z) B1) in *.
  set (B3 := filter (fun r => (t3 r =? t3 t)%Z) B2) in *.
  assert (Hb' : b = length B3) by (unfold b, cnt; rewrite <- Hb; reflexivity).
  (* level 1 *)
  pose proof (lex_sorted_t1 seg Hseg) as S1.
  destruct (block_located t1 pre seg [] (t1 t) S1) as [L1 C1]. cbv zeta in L1, C1. fold B1 in L1, C1.
  set (A1 := filter (fun r => (t1 r <? t1 t)%Z) seg) in *. set (R1 := filter (fun r => (t1 t <? t1 r)%Z) seg ++ []) in *.
  (* level 2 *)
  assert (S2 : zle_sorted (map t2 B1)).
  { apply (lex_sorted_t2 _ (t1 t)); [apply StronglySorted_filter; exact Hseg|]. intros r Hr. apply filter_In in Hr. destruct Hr as [_ Hr]. apply Z.eqb_eq in Hr. exact Hr. }
  destruct (block_located t2 (pre ++ A1) B1 R1 (t2 t) S2) as [L2 C2]. cbv zeta in L2, C2. fold B2 in L2, C2.
  set (A2 := filter (fun r => (t2 r <? t2 t)%Z) B1) in *. set (R2 := filter (fun r => (t2 t <? t2 r)%Z) B1 ++ R1) in *.
  (* level 3 *)
  assert (S3 : zle_sorted (map t3 B2)).
  { apply (lex_sorted_t3 _ (t1 t) (t2 t)); [apply StronglySorted_filter; apply StronglySorted_filter; exact Hseg|].
    intros r Hr. apply filter_In in Hr. destruct Hr as [Hr Hr2]. apply filter_In in Hr. destruct Hr as [_ Hr1]. apply Z.eqb_eq in Hr1, Hr2. auto. }
  destruct (block_located t3 ((pre ++ A1) ++ A2) B2 R2 (t3 t) S3) as [L3 C3]. cbv zeta in L3, C3. fold B3 in L3, C3.
  set (A3 := filter (fun r => (t3 r <? t3 t)%Z) B2) in *.
  assert (Ha' : a = length A1 + length A2 + length A3) by (unfold a; rewrite Ha; reflexivity).
  (* run the code *)
  unfold find3. rewrite HN. rewrite <- Hpre.
  pose proof (bl_spec t1 pre seg [] (t1 t) S1) as E1. pose proof (br_spec t1 pre seg [] (t1 t) S1) as F1.
  rewrite <- Hrows in E1, F1. rewrite E1, F1. fold (cnt (fun r => (t1 r <? t1 t)%Z) seg). rewrite C1.
  change (cnt (fun r => (t1 r <? t1 t)%Z) seg) with (length A1).
  destruct (Nat.eq_dec (length B1) 0) as [Z1|NZ1].
  { replace (length pre + length A1 =? length pre + (length A1 + length B1)) with true by (symmetry; apply Nat.eqb_eq; lia).
    assert (length B3 = 0). { assert (length B3 <= length B2) by apply cnt_le_length. assert (length B2 <= length B1) by apply cnt_le_length. lia. }
    rewrite Hb', H. reflexivity. }
  replace (length pre + length A1 =? length pre + (length A1 + length B1)) with false by (symmetry; apply Nat.eqb_neq; lia).
  pose proof (bl_spec t2 (pre ++ A1) B1 R1 (t2 t) S2) as E2. pose proof (br_spec t2 (pre ++ A1) B1 R1 (t2 t) S2) as F2.
  rewrite <- L1, <- Hrows, app_length in E2, F2.
  replace (length pre + (length A1 + length B1)) with (length pre + length A1 + length B1) by lia.
  rewrite E2, F2, C2. change (cnt (fun r => (t2 r <? t2 t)%Z) B1) with (length A2).
  destruct (Nat.eq_dec (length B2) 0) as [Z2|NZ2].
  { replace (length pre + length A1 + length A2 =? length pre + length A1 + (length A2 + length B2)) with true by (symmetry; apply Nat.eqb_eq; lia).
    assert (length B3 = 0). { assert (length B3 <= length B2) by apply cnt_le_length. lia. }
    rewrite Hb', H. reflexivity. }
  replace (length pre + length A1 + length A2 =? length pre + length A1 + (length A2 + length B2)) with false by (symmetry; apply Nat.eqb_neq; lia).
  pose proof (bl_spec t3 ((pre ++ A1) ++ A2) B2 R2 (t3 t) S3) as E3. pose proof (br_spec t3 ((pre ++ A1) ++ A2) B2 R2 (t3 t) S3) as F3.
  rewrite <- L2, <- L1, <- Hrows, !app_length in E3, F3.
  replace (length pre + length A1 + (length A2 + length B2)) with (length pre + length A1 + length A2 + length B2) by lia.
  rewrite E3, F3, C3. change (cnt (fun r => (t3 r <? t3 t)%Z) B2) with (length A3).
  rewrite Hb', Ha'.
  destruct (Nat.eq_dec (length B3) 0) as [Z3|NZ3].
  { replace (length pre + length A1 + length A2 + length A3 =? length pre + length A1 + length A2 + (length A3 + length B3)) with true by (symmetry; apply Nat.eqb_eq; lia).
    rewrite Z3. reflexivity. }
  replace (length pre + length A1 + length A2 + length A3 =? length pre + length A1 + length A2 + (length A3 + length B3)) with false by (symmetry; apply Nat.eqb_neq; lia).
  destruct (length B3) eqn:EB3; [lia|].
  simpl. f_equal. f_equal; lia.
Qed.

(* ---------- the loop *)
Lemma app_firstn_skipn_at {A} (X Y : list A) : firstn (length X) (X ++ Y) = X /\ skipn (length X) (X ++ Y) = Y.
Proof. split; [rewrite firstn_app, firstn_all, Nat.sub_diag; simpl; apply app_nil_r | rewrite skipn_app, skipn_all, Nat.sub_diag; reflexivity]. Qed.

Lemma tmem_false x l : (forall u, In u l -> tri_eqb x u = false) -> tmem x l = false.
Proof. unfold tmem. induction l as [|u l IH]; simpl; intros H; [reflexivity|]. rewrite (H u (or_introl eq_refl)), IH; auto. Qed.

Lemma first_pos_app l1 l2 t : (forall r, In r l1 -> tri_eqb r t = false) -> first_pos (l1 ++ l2) t = length l1 + first_pos l2 t.
Proof. induction l1 as [|x l1 IH]; simpl; intros H; [reflexivity|]. rewrite (H x (or_introl eq_refl)), IH; auto. Qed.

Lemma cnt_none {A} (p : A -> bool) l : (forall x, In x l -> p x = false) -> cnt p l = 0.
Proof. intros H. unfold cnt. replace (filter p l) with (@nil A); [reflexivity|]. symmetry. apply filter_nil_iff. exact H. Qed.
Lemma cnt_allp {A} (p : A -> bool) l : (forall x, In x l -> p x = true) -> cnt p l = length l.
Proof. intros H. unfold cnt. rewrite filter_all; auto. Qed.

Lemma filter_seq_prefix s n b : n <= b -> filter (fun i => i - s <? n) (seq s b) = seq s n.
Proof.
  intros H. replace b with (n + (b - n)) by lia. rewrite seq_app, filter_app.
  rewrite filter_all by (intros i Hi; apply in_seq in Hi; apply Nat.ltb_lt; lia).
  replace (filter _ (seq (s + n) (b - n))) with (@nil nat); [apply app_nil_r|].
  symmetry. apply filter_nil_iff. intros i Hi. apply in_seq in Hi. apply Nat.ltb_ge. lia.
Qed.

Definition separated (rows : list tri) (loc : nat) : Prop :=
  forall r r', In r (firstn loc rows) -> In r' (skipn loc rows) -> lex_ltb r r' = true.

Lemma keep_no_ids rows n i : keep rows [] n i = true.
Proof. reflexivity. Qed.

Lemma keep_skip rows t ids n i : tri_eqb (nth i rows tri0) t = false -> keep rows (t :: ids) n i = keep rows ids n i.
Proof. intros H. unfold keep, tmem. cbv zeta. cbn [existsb]. rewrite H. reflexivity. Qed.

Lemma loop_spec rows n : lex_sorted rows -> forall ids loc, StronglySorted lex_le ids -> loc <= length rows -> separated rows loc ->
  remove_loop rows n ids loc = filter (keep rows ids n) (seq loc (length rows - loc)).
Proof.
  intros Hs ids. induction ids as [|t ids IH]; intros loc Hids Hloc Hsep.
  - simpl. symmetry. apply filter_all. intros i _. apply keep_no_ids.
  - inversion Hids as [|? ? Hids' Hall]; subst. rewrite Forall_forall in Hall.
    cbn [remove_loop]. rewrite (find3_spec rows t loc Hs Hloc). cbv zeta.
    set (P := firstn loc rows). set (seg := skipn loc rows).
    assert (Hrows : rows = P ++ seg) by (symmetry; apply firstn_skipn).
    assert (HP : length P = loc) by (apply firstn_length_le; exact Hloc).
    assert (Hlen : length rows - loc = length seg) by (unfold seg; rewrite skipn_length; reflexivity).
    assert (Hnth : forall k, nth (loc + k) rows tri0 = nth k seg tri0).
    { intros k. rewrite Hrows at 1. rewrite app_nth2 by lia. f_equal. lia. }
    assert (Hseg : lex_sorted seg). { apply (StronglySorted_app_r _ P). rewrite <- Hrows. exact Hs. }
    destruct (cnt (fun r => tri_eqb r t) seg =? 0) eqn:Eb.
    + apply Nat.eqb_eq in Eb. rewrite (IH loc Hids' Hloc Hsep). apply filter_ext_in'. intros i Hi. apply in_seq in Hi.
      symmetry. apply keep_skip. replace i with (loc + (i - loc)) by lia. rewrite Hnth.
      assert (Hf : filter (fun r => tri_eqb r t) seg = []) by (apply length_zero_iff_nil; exact Eb).
      rewrite filter_nil_iff in Hf. apply Hf. apply nth_In. lia.
    + apply Nat.eqb_neq in Eb.
      set (A := filter (fun r => lex_ltb r t) seg). set (B := filter (fun r => tri_eqb r t) seg). set (C := filter (fun r => lex_ltb t r) seg).
      assert (Hsplit : seg = A ++ B ++ C).
      { apply (sorted_split lex_le); [apply lex_trichotomy | | | exact Hseg].
        - intros [[a b] c] [[a' b'] c'] H1 H2. destruct t as [[e l] v]. tri_lia.
        - intros [[a b] c] [[a' b'] c'] H1 H2. destruct t as [[e l] v]. tri_lia. }
      change (cnt (fun r => lex_ltb r t) seg) with (length A). change (cnt (fun r => tri_eqb r t) seg) with (length B) in *.
      assert (HA : forall r, In r A -> lex_ltb r t = true) by (intros r Hr; apply filter_In in Hr; tauto).
      assert (HB : forall r, In r B -> r = t) by (intros r Hr; apply filter_In in Hr; apply tri_eqb_eq; tauto).
      assert (HC : forall r, In r C -> lex_ltb t r = true) by (intros r Hr; apply filter_In in Hr; tauto).
      assert (HtB : In t B). { destruct B as [|x B'] eqn:EB; [simpl in Eb; lia|]. left. apply HB. left. reflexivity. }
      assert (Htseg : In t seg). { rewrite Hsplit. apply in_or_app. right. apply in_or_app. left. exact HtB. }
      assert (HPt : forall r, In r P -> lex_ltb r t = true) by (intros r Hr; apply (Hsep r t Hr Htseg)).
      set (a := length A) in *. set (b := length B) in *.
      replace (loc + a + b - (loc + a)) with b by lia.
      assert (HlenS : length seg = a + b + length C) by (rewrite Hsplit, !app_length; lia).
      (* the state after this round *)
      assert (Hrows' : rows = (P ++ A ++ B) ++ C) by (rewrite Hrows at 1; rewrite Hsplit, <- !app_assoc; reflexivity).
      assert (Hl' : length (P ++ A ++ B) = loc + a + b) by (rewrite !app_length; lia).
      assert (Hloc' : loc + a + b <= length rows) by (rewrite Hrows, app_length; lia).
      assert (Hsep' : separated rows (loc + a + b)).
      { unfold separated. rewrite <- Hl', Hrows'. destruct (app_firstn_skipn_at (P ++ A ++ B) C) as [-> ->].
        intros r r' Hr Hr'. specialize (HC r' Hr'). apply in_app_or in Hr. destruct Hr as [Hr|Hr].
        - apply (lex_lt_le_trans r t r'); [auto|]. unfold lex_le, lex_leb. rewrite HC. reflexivity.
        - apply in_app_or in Hr. destruct Hr as [Hr|Hr]; [|apply HB in Hr; rewrite Hr; exact HC].
          apply (lex_lt_le_trans r t r'); [auto|]. unfold lex_le, lex_leb. rewrite HC. reflexivity. }
      rewrite (IH (loc + a + b) Hids' Hloc' Hsep').
      (* split the positions from loc on into the three parts *)
      rewrite Hlen, HlenS. replace (a + b + length C) with (a + (b + length C)) by lia.
      rewrite (seq_app a), (seq_app b), !filter_app.
      replace (length rows - (loc + a + b)) with (length C) by lia.
      replace (loc + a + (if n <? b then n else 0) - loc) with (a + (if n <? b then n else 0)) by lia.
      rewrite seq_app, <- app_assoc. f_equal; [|f_equal].
      * symmetry. apply filter_all. intros i Hi. apply in_seq in Hi. unfold keep.
        replace i with (loc + (i - loc)) by lia. rewrite Hnth, Hsplit, app_nth1 by lia.
        assert (Hin : In (nth (i - loc) A tri0) A) by (apply nth_In; lia).
        rewrite tmem_false; [reflexivity|]. intros u [<-|Hu].
        -- apply (lex_lt_neq _ _ (HA _ Hin)).
        -- apply (lex_lt_neq _ u). apply (lex_lt_le_trans _ t u); [apply HA; exact Hin | apply Hall; exact Hu].
      * assert (Hk : forall i, In i (seq (loc + a) b) -> keep rows (t :: ids) n i = (n <? b) && (i - (loc + a) <? n)).
        { intros i Hi. apply in_seq in Hi.
          assert (Hxi : nth i rows tri0 = t).
          { replace i with (loc + (i - loc)) by lia. rewrite Hnth, Hsplit, app_nth2 by lia.
            rewrite app_nth1 by (fold a; lia). apply HB, nth_In. fold a. lia. }
          unfold keep. cbv zeta. rewrite Hxi. unfold tmem. cbn [existsb].
          replace (tri_eqb t t) with true by (symmetry; apply tri_eqb_eq; reflexivity). cbn [orb].
          f_equal; f_equal.
          - rewrite Hrows, Hsplit, !cnt_app.
            rewrite (cnt_none _ P) by (intros r Hr; apply (lex_lt_neq _ _ (HPt r Hr))).
            rewrite (cnt_none _ A) by (intros r Hr; apply (lex_lt_neq _ _ (HA r Hr))).
            rewrite (cnt_none _ C) by (intros r Hr; apply (lex_lt_neq _ _ (HC r Hr))).
            rewrite (cnt_allp _ B) by (intros r Hr; apply tri_eqb_eq; apply HB; exact Hr). fold b. lia.
          - f_equal. rewrite Hrows, Hsplit, app_assoc, first_pos_app.
            + rewrite app_length, HP. fold a. destruct B as [|x B'] eqn:EB; [destruct HtB|]. simpl.
              replace (tri_eqb x t) with true by (symmetry; apply tri_eqb_eq; apply HB; left; reflexivity). lia.
            + intros r Hr. apply in_app_or in Hr. destruct Hr as [Hr|Hr]; [apply (lex_lt_neq _ _ (HPt r Hr)) | apply (lex_lt_neq _ _ (HA r Hr))]. }
        rewrite (filter_ext_in' _ _ _ Hk). destruct (n <? b) eqn:En.
        -- apply Nat.ltb_lt in En. simpl. symmetry. apply filter_seq_prefix. lia.
        -- simpl. symmetry. apply filter_nil_iff. reflexivity.
      * apply filter_ext_in'. intros i Hi. apply in_seq in Hi. symmetry. apply keep_skip.
        replace i with (loc + (i - loc)) by lia. rewrite Hnth, Hsplit, app_nth2 by (fold a; lia).
        rewrite app_nth2 by (fold a; fold b; lia).
        apply (lex_lt_neq t). apply HC. apply nth_In. fold a. fold b. lia.
Qed.

(* ---------- sorted(ids) *)
Lemma tinsert_sorted x l : StronglySorted lex_le l -> StronglySorted lex_le (tinsert x l).
Proof.
  induction 1 as [|h l Hs IH Hall]; simpl; [constructor; constructor|].
  destruct (lex_leb x h) eqn:E.
  - constructor; [constructor; assumption|]. constructor; [exact E|]. rewrite Forall_forall in *. intros y Hy. apply (lex_le_trans x h y); [exact E | auto].
  - constructor; [exact IH|]. rewrite Forall_forall in *. intros y Hy.
    assert (Hin : forall z, In z (tinsert x l) -> z = x \/ In z l).
    { clear. induction l as [|h' l IH]; simpl; intros z Hz; [destruct Hz as [<-|[]]; auto|].
      destruct (lex_leb x h'); simpl in Hz; [destruct Hz as [<-|Hz]; auto | destruct Hz as [<-|Hz]; auto; destruct (IH z Hz); auto]. }
    destruct (Hin y Hy) as [->|Hy']; [apply lex_le_total; exact E | auto].
Qed.
Lemma tsort_sorted l : StronglySorted lex_le (tsort l).
Proof. induction l as [|x l IH]; simpl; [constructor | apply tinsert_sorted; exact IH]. Qed.
Lemma tmem_tinsert t x l : tmem t (tinsert x l) = tri_eqb t x || tmem t l.
Proof.
  unfold tmem. induction l as [|h l IH]; simpl; [reflexivity|]. destruct (lex_leb x h); simpl; [reflexivity|].
  rewrite IH. destruct (tri_eqb t h), (tri_eqb t x); reflexivity.
Qed.
Lemma tmem_tsort t l : tmem t (tsort l) = tmem t l.
Proof. induction l as [|x l IH]; simpl; [reflexivity|]. rewrite tmem_tinsert, IH. reflexivity. Qed.

Theorem remove_correct rows ids n : lex_sorted rows -> remove rows ids n = remove_spec rows ids n.
Proof.
  intros Hs. unfold remove, remove_spec. rewrite (loop_spec rows n Hs (tsort ids) 0 (tsort_sorted ids)); [| lia | intros r r' []].
  rewrite Nat.sub_0_r. apply filter_ext_in'. intros i _. unfold keep. rewrite tmem_tsort. reflexivity.
Qed.

(* what the selection means for the table: the surviving rows, in their order, are the rows that are not listed
   plus the first n rows of listed evaluations longer than n; nothing else is touched *)
Corollary remove_is_increasing_subsequence rows ids n : lex_sorted rows ->
  exists keepf, remove rows ids n = filter keepf (seq 0 (length rows)).
Proof. intros Hs. exists (keep rows ids n). apply remove_correct. exact Hs. Qed.
