(* moving_average against its textbook definition: every span (None, 1, below / at / above the length) with or without explicit weights, as one
   cross-multiplied equation; and the closed form of the exponential weighting. *)
From Coq Require Import ZArith List Bool Arith Lia QArith.
From Coba Require Import C18.Model C18.Proofs.
Import ListNotations.

(* ---- weighted windows *)
Definition wv (vs ws : list Z) : list Z := map (fun p => (fst p * snd p)%Z) (combine vs ws).
Definition window_start (span : option nat) (i : nat) : nat := match span with None => 0 | Some k => S i - k end.
Definition wsum_window (span : option nat) (i : nat) (l : list Z) : Z := zsum (skipn (window_start span i) (firstn (S i) l)).

Lemma nth_repeat_one n i : i < n -> nth i (repeat 1%Z n) 0%Z = 1%Z.
Proof. revert i. induction n as [|n IH]; intros i Hi; [lia|]. destruct i as [|i]; [reflexivity|]. cbn. apply IH. lia. Qed.
Lemma firstn_S_nth (l : list Z) i : i < length l -> firstn (S i) l = firstn i l ++ [nth i l 0%Z].
Proof. revert l. induction i as [|i IH]; intros l Hi; destruct l as [|x l]; cbn in Hi; try lia; [reflexivity|]. cbn [firstn nth app]. f_equal. apply IH. lia. Qed.
Lemma skipn_app_exact' {A} (l1 l2 : list A) n : length l1 = n -> skipn n (l1 ++ l2) = l2.
Proof. intros <-. induction l1 as [|x l IH]; [reflexivity|exact IH]. Qed.
Lemma single_window (l : list Z) i : i < length l -> zsum (skipn i (firstn (S i) l)) = nth i l 0%Z.
Proof. intros Hi. rewrite (firstn_S_nth l i Hi), skipn_app_exact' by (rewrite firstn_length; lia). cbn. lia. Qed.
Lemma length_wv vs ws : length ws = length vs -> length (wv vs ws) = length vs.
Proof. intros H. unfold wv. rewrite map_length, combine_length. lia. Qed.
Lemma nth_wv vs ws i : i < length vs -> length ws = length vs -> nth i (wv vs ws) 0%Z = (nth i vs 0 * nth i ws 0)%Z.
Proof.
  revert ws i. induction vs as [|v vs IH]; intros ws i Hi Hl; [cbn in Hi; lia|]. destruct ws as [|w ws]; [discriminate|]. destruct i as [|i]; [reflexivity|].
  cbn in *. apply IH; lia.
Qed.

Theorem moving_average_textbook_eq vs span w i : i < length vs -> (forall ws, w = WList ws -> length ws = length vs) ->
  let xs := match w with WNone => vs | WList ws => wv vs ws end in
  let ws' := match w with WNone => repeat 1%Z (length vs) | WList ws => ws end in
  let nd := moving_average_nd vs span w in
  (nth i (fst nd) 0 * wsum_window span i ws' = wsum_window span i xs * nth i (snd nd) 0)%Z.
Proof.
  intros Hi Hw xs ws' nd.
  assert (length xs = length vs) as Lx by (unfold xs; destruct w as [|ws]; [reflexivity|apply length_wv, Hw; reflexivity]).
  assert (length ws' = length vs) as Lw by (unfold ws'; destruct w as [|ws]; [apply repeat_length|apply Hw; reflexivity]).
  assert (forall l, length l = length vs -> nth i (prefix_sums l) 0%Z = wsum_window None i l) as Hpre.
  { intros l Hl. unfold wsum_window, window_start. cbn [skipn]. apply prefix_sums_spec. lia. }
  assert (forall k l, length l = length vs -> nth i (window_sums k l) 0%Z = wsum_window (Some k) i l) as Hwin.
  { intros k l Hl. unfold wsum_window, window_start. apply window_as_skipn. lia. }
  assert (forall k l, length vs <= k -> wsum_window (Some k) i l = wsum_window None i l) as Hbig.
  { intros k l Hk. unfold wsum_window, window_start. replace (S i - k) with 0 by lia. reflexivity. }
  unfold nd, moving_average_nd. fold xs. fold ws'.
  change (match w with WNone => vs | WList ws => map (fun p : Z * Z => (fst p * snd p)%Z) (combine vs ws) end) with xs.
  destruct span as [k|]; [|cbn [fst snd]; rewrite (Hpre xs Lx), (Hpre ws' Lw); ring].
  destruct k as [|[|k]].
  - destruct (length vs <=? 0) eqn:E; [apply Nat.leb_le in E; lia|]. cbn [fst snd]. rewrite (Hwin 0 xs Lx), (Hwin 0 ws' Lw). ring.
  - (* span = 1: the values themselves over ones *)
    cbn [fst snd]. rewrite nth_repeat_one by exact Hi. unfold wsum_window, window_start. replace (S i - 1) with i by lia.
    rewrite !single_window by lia. unfold xs, ws'. destruct w as [|ws]; [rewrite nth_repeat_one by exact Hi; ring|].
    rewrite nth_wv by (first [exact Hi|apply Hw; reflexivity]). ring.
  - destruct (length vs <=? S (S k)) eqn:E; cbn [fst snd].
    + apply Nat.leb_le in E. rewrite (Hpre xs Lx), (Hpre ws' Lw), !(Hbig (S (S k))) by exact E. ring.
    + rewrite (Hwin _ xs Lx), (Hwin _ ws' Lw). ring.
Qed.

(* ---- the exponential weighting: entry i is sum_j r^(i-j) v_j / sum_j r^(i-j) with r = 1 - 2/(1+span) *)
Local Open Scope Q_scope.
Fixpoint qpow (r : Q) (n : nat) : Q := match n with O => 1 | S n => r * qpow r n end.
Fixpoint geo (r : Q) (l : list Q) : Q := match l with [] => 0 | x :: t => qpow r (length t) * x + geo r t end.

Lemma geo_snoc r l v : geo r (l ++ [v]) == v + r * geo r l.
Proof.
  induction l as [|x l IH]; [cbn; ring|]. cbn [app geo]. rewrite IH, app_length. cbn [length]. rewrite Nat.add_1_r. cbn [qpow]. ring.
Qed.
Lemma repeat_snoc {A} (x : A) n : repeat x n ++ [x] = repeat x (S n).
Proof. induction n as [|n IH]; [reflexivity|]. cbn. f_equal. exact IH. Qed.

Lemma ema_acc_spec r : forall vs p accw accd first,
  (match first return Prop with true => p = [] | false => accw == geo r p /\ accd == geo r (repeat 1 (length p)) end) ->
  forall i, (i < length vs)%nat -> nth i (ema_acc r accw accd vs first) 0 == geo r (p ++ firstn (S i) vs) / geo r (repeat 1 (length p + S i)%nat).
Proof.
  induction vs as [|v vs IH]; intros p accw accd first Hinv i Hi; [cbn in Hi; lia|]. cbn [ema_acc].
  set (cw := if first then v else v + r * accw). set (cd := if first then 1 else 1 + r * accd).
  assert (cw == geo r (p ++ [v]) /\ cd == geo r (repeat 1 (length (p ++ [v])))) as [Hcw Hcd].
  { unfold cw, cd. destruct first.
    - subst p. cbn. split; ring.
    - destruct Hinv as [H1 H2]. rewrite app_length. cbn [length]. rewrite Nat.add_1_r, <- repeat_snoc, !geo_snoc, H1, H2. split; reflexivity. }
  destruct i as [|i].
  - cbn [nth firstn]. rewrite Hcw, Hcd, app_length. cbn [length]. reflexivity.
  - cbn [nth]. cbn in Hi. rewrite (IH (p ++ [v]) cw cd false (conj Hcw Hcd) i ltac:(lia)). rewrite <- app_assoc, app_length. cbn [app length firstn].
    replace (length p + 1 + S i)%nat with (length p + S (S i))%nat by lia. reflexivity.
Qed.

Theorem ema_textbook vs span i : (i < length vs)%nat ->
  let r := 1 - 2 / (1 + span) in
  nth i (moving_average_exp vs span) 0 == geo r (firstn (S i) vs) / geo r (repeat 1 (S i)).
Proof. intros Hi r. unfold moving_average_exp. fold r. exact (ema_acc_spec r vs [] 0 0 true eq_refl i Hi). Qed.
