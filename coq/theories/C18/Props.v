(* C18 — Analysis compares only complete, equal-length runs and averages correctly.  Property theorems only. *)
From Coq Require Import ZArith List Bool Arith.
From Coba Require Import C18.Model C18.Proofs C18.ProofsAvg.
From Coq Require Import QArith.
Close Scope Q_scope.
Import ListNotations.
Open Scope nat_scope.

(* moving_average, sliding branch (span < len): entry i of the accumulated differences is the sum of the
   last min(span, i+1) entries - for the value*weight numerators and for the weight denominators alike;
   prefix branch (span None or >= len): the sum of the first i+1 entries *)
Theorem moving_average_window : forall span xs i, i < length xs ->
  nth i (window_sums span xs) 0%Z = zsum (skipn (S i - span) (firstn (S i) xs)).
Proof. exact window_as_skipn. Qed.
Print Assumptions moving_average_window.
Theorem moving_average_prefix : forall xs i, i < length xs -> nth i (prefix_sums xs) 0%Z = zsum (firstn (S i) xs).
Proof. exact prefix_sums_spec. Qed.
Print Assumptions moving_average_prefix.

(* moving_average as the code computes it (numerators and denominators, divided pairwise) against the textbook definition, for EVERY span - None, 1 (the
   shortcut that returns the values), below, at and above the length - with or without an explicit weight sequence: entry i is
   (sum of w*v over the window) / (sum of w over the window), stated cross-multiplied so that no division is involved *)
Theorem moving_average_is_textbook : forall vs span w i, i < length vs -> (forall ws, w = WList ws -> length ws = length vs) ->
  let xs := match w with WNone => vs | WList ws => wv vs ws end in
  let ws' := match w with WNone => repeat 1%Z (length vs) | WList ws => ws end in
  let nd := moving_average_nd vs span w in
  (nth i (fst nd) 0 * wsum_window span i ws' = wsum_window span i xs * nth i (snd nd) 0)%Z.
Proof. exact moving_average_textbook_eq. Qed.
Print Assumptions moving_average_is_textbook.

(* weights='exp': entry i is sum_{j<=i} r^(i-j) v_j / sum_{j<=i} r^(i-j) with r = 1 - 2/(1+span) (exact rationals) *)
Theorem exponential_moving_average_closed_form : forall vs span i, i < length vs ->
  (nth i (moving_average_exp vs span) 0 == geo (1 - 2 / (1 + span)) (firstn (S i) vs) / geo (1 - 2 / (1 + span)) (repeat 1 (S i)))%Q.
Proof. exact ema_textbook. Qed.
Print Assumptions exponential_moving_average_closed_form.

Example moving_average_weighted_example :
  moving_average_nd [4; 6; 8]%Z (Some 1) (WList [2; 3; 5]%Z) = ([4; 6; 8], [1; 1; 1])%Z /\
  moving_average_nd [4; 6; 8]%Z (Some 2) (WList [2; 3; 5]%Z) = ([8; 26; 58], [2; 5; 8])%Z.
Proof. vm_compute. split; reflexivity. Qed.

(* where_fin(l,p): exactly the pairing groups with one evaluation for every level survive *)
Theorem fin_keeps_exactly_complete_groups : forall evs e, In e evs ->
  (In e (filter_fin NNone true evs) <->
   NoDup (map lkey (group_of evs (pkey e))) /\ forall lv, In lv (levels evs) <-> In lv (map lkey (group_of evs (pkey e)))).
Proof. exact filter_fin_keeps_exactly_complete. Qed.
Print Assumptions fin_keeps_exactly_complete_groups.

(* the result is closed: its groups are complete with respect to its own levels *)
Theorem fin_result_complete : forall evs e, In e (filter_fin NNone true evs) ->
  let R := filter_fin NNone true evs in
  In e evs /\ NoDup (map lkey (group_of R (pkey e))) /\ (forall lv, In lv (levels R) <-> In lv (map lkey (group_of R (pkey e)))).
Proof. exact filter_fin_none_spec. Qed.
Print Assumptions fin_result_complete.

(* where_fin(n=k,l,p): equal length k, and still complete after the short evaluations were dropped *)
Theorem fin_equal_length_and_complete : forall k evs e, In e (filter_fin (NK (S k)) true evs) ->
  let R := filter_fin (NK (S k)) true evs in
  elen e = S k /\
  NoDup (map lkey (group_of R (pkey e))) /\ (forall lv, In lv (levels R) <-> In lv (map lkey (group_of R (pkey e)))).
Proof. exact filter_fin_k_spec. Qed.
Print Assumptions fin_equal_length_and_complete.

Theorem fin_min_length : forall evs e, In e (global_n NMin evs) -> elen e = min_len evs /\ forall e0, In e0 evs -> min_len evs <= elen e0.
Proof. exact (fun evs e H => conj (global_n_min_lengths evs e H) (fun e0 H0 => min_len_le evs e0 H0)). Qed.
Print Assumptions fin_min_length.

(* counting evaluations only (the former rule) keeps a group with a duplicated level: refuted *)
Example count_only_rule_refuted :
  let evs := [ {| pkey := 1; lkey := 1; eid := 0; elen := 3 |}; {| pkey := 1; lkey := 1; eid := 1; elen := 3 |};
               {| pkey := 2; lkey := 1; eid := 2; elen := 3 |}; {| pkey := 2; lkey := 2; eid := 3; elen := 3 |} ] in
  length (group_of evs 1%Z) = length (levels evs) /\ group_ok evs 1%Z = false /\ group_ok evs 2%Z = true.
Proof. vm_compute. repeat split. Qed.

(* Result._remove - the row-level mechanism of where_fin (three nested bisections per listed evaluation, starting at a moving
   position): for EVERY interactions table whose id columns are sorted lexicographically (the Result constructor sorts them; the
   harness checks it on every generated Result), EVERY list of evaluations to drop - in any order, with repetitions and with ids
   that do not occur - and EVERY n, the selected row numbers are, in increasing order, exactly the rows of evaluations that are
   not listed plus the first n rows of listed evaluations longer than n.  So no surviving row is lost, moved or duplicated. *)
From Coba Require C18.ModelRemove C18.ProofsRemove.
From Coq Require Sorted.
Theorem remove_selects_exactly_the_surviving_rows : forall rows ids n,
  Sorted.StronglySorted (fun a b => ModelRemove.lex_leb a b = true) rows ->
  ModelRemove.remove rows ids n = filter (ModelRemove.keep rows ids n) (seq 0 (length rows)).
Proof. exact ProofsRemove.remove_correct. Qed.
Print Assumptions remove_selects_exactly_the_surviving_rows.
(* one round of the loop: the nested bisections return the block of the evaluation counted lexicographically, or report it absent *)
Theorem remove_bisections_find_the_block : forall rows t loc,
  Sorted.StronglySorted (fun a b => ModelRemove.lex_leb a b = true) rows -> loc <= length rows ->
  let seg := skipn loc rows in
  let a := ModelRemove.cnt (fun r => ModelRemove.lex_ltb r t) seg in let b := ModelRemove.cnt (fun r => ModelRemove.tri_eqb r t) seg in
  ModelRemove.find3 rows t loc = if b =? 0 then None else Some (loc + a, loc + a + b).
Proof. exact ProofsRemove.find3_spec. Qed.
Print Assumptions remove_bisections_find_the_block.
Example remove_example :
  let rows := [(0,0,0); (0,0,0); (0,0,0); (0,1,0); (0,1,0); (1,0,0); (1,0,1); (1,0,1); (1,0,1); (1,0,1); (2,0,0)]%Z in
  ModelRemove.remove rows [(1,0,1); (0,1,0); (5,5,5); (0,1,0)]%Z 0 = [0; 1; 2; 5; 10] /\
  ModelRemove.remove rows [(1,0,1); (0,1,0); (0,0,0)]%Z 3 = [5; 6; 7; 8; 10] /\
  Sorted.StronglySorted (fun a b => ModelRemove.lex_leb a b = true) rows.
Proof. split; [vm_compute; reflexivity|]. split; [vm_compute; reflexivity|]. repeat constructor. Qed.
