(* C18 model, part (C): Result._remove (coba/results/core.py) - the row-level mechanism behind where_fin.
   The interactions table holds three id columns (environment, learner, evaluator); _remove walks the sorted
   list of evaluations to drop, finds each evaluation's block of rows by three nested bisections that start
   at a moving position loc, keeps the rows in between and - when a length n is given and the block is
   longer than n - the first n rows of the block.  CPython's bisect_left/right are modelled by their
   specification on the slice (lo + number of smaller / not larger entries), my_bisect_left/right with the
   shortcuts of coba.utilities.  sorted(ids) is an insertion sort by the lexicographic order of int triples. *)
From Coq Require Import ZArith List Bool Arith Lia.
Import ListNotations.
Open Scope nat_scope.

Definition tri := (Z * Z * Z)%type.
Definition t1 (t : tri) : Z := fst (fst t).
Definition t2 (t : tri) : Z := snd (fst t).
Definition t3 (t : tri) : Z := snd t.

Definition cnt {A} (p : A -> bool) (l : list A) : nat := length (filter p l).
Definition slice {A} (lo hi : nat) (l : list A) : list A := firstn (hi - lo) (skipn lo l).

Definition bisect_left (col : list Z) (a : Z) (lo hi : nat) : nat := lo + cnt (fun c => (c <? a)%Z) (slice lo hi col).
Definition bisect_right (col : list Z) (a : Z) (lo hi : nat) : nat := lo + cnt (fun c => (c <=? a)%Z) (slice lo hi col).
Definition my_bisect_left (col : list Z) (a : Z) (lo hi : nat) : nat :=
  if (lo <? hi) && (nth lo col 0 =? a)%Z then lo else bisect_left col a lo hi.
Definition my_bisect_right (col : list Z) (a : Z) (lo hi : nat) : nat :=
  if (lo <? hi) && (nth (hi - 1) col 0 =? a)%Z then hi else bisect_right col a lo hi.

(* the three nested bisections of one loop round: None = one of the `continue` exits *)
Definition find3 (rows : list tri) (t : tri) (loc : nat) : option (nat * nat) :=
  let N := length rows in
  let es := map t1 rows in let ls := map t2 rows in let vs := map t3 rows in
  let lo1 := my_bisect_left es (t1 t) loc N in let hi1 := my_bisect_right es (t1 t) loc N in
  if lo1 =? hi1 then None else
  let lo2 := my_bisect_left ls (t2 t) lo1 hi1 in let hi2 := my_bisect_right ls (t2 t) lo1 hi1 in
  if lo2 =? hi2 then None else
  let lo3 := my_bisect_left vs (t3 t) lo2 hi2 in let hi3 := my_bisect_right vs (t3 t) lo2 hi2 in
  if lo3 =? hi3 then None else Some (lo3, hi3).

Fixpoint remove_loop (rows : list tri) (n : nat) (ids : list tri) (loc : nat) : list nat :=
  match ids with
  | [] => seq loc (length rows - loc)
  | t :: ids' =>
      match find3 rows t loc with
      | None => remove_loop rows n ids' loc
      | Some (lo3, hi3) => seq loc (lo3 + (if n <? hi3 - lo3 then n else 0) - loc) ++ remove_loop rows n ids' hi3
      end
  end.

Definition lex_ltb (a b : tri) : bool :=
  (t1 a <? t1 b)%Z || ((t1 a =? t1 b)%Z && ((t2 a <? t2 b)%Z || ((t2 a =? t2 b)%Z && (t3 a <? t3 b)%Z))).
Definition tri_eqb (a b : tri) : bool := (t1 a =? t1 b)%Z && (t2 a =? t2 b)%Z && (t3 a =? t3 b)%Z.
Definition lex_leb (a b : tri) : bool := lex_ltb a b || tri_eqb a b.

Fixpoint tinsert (x : tri) (l : list tri) : list tri :=
  match l with [] => [x] | h :: t => if lex_leb x h then x :: l else h :: tinsert x t end.
Definition tsort (l : list tri) : list tri := fold_right tinsert [] l.

Definition remove (rows : list tri) (ids : list tri) (n : nat) : list nat := remove_loop rows n (tsort ids) 0.

(* ---- what it is meant to compute: a row survives iff its evaluation is not listed, or the evaluation has
   more than n rows and the row is among its first n *)
Definition tmem (t : tri) (l : list tri) : bool := existsb (tri_eqb t) l.
Fixpoint first_pos (rows : list tri) (t : tri) : nat :=
  match rows with [] => 0 | r :: rs => if tri_eqb r t then 0 else S (first_pos rs t) end.
Definition tri0 : tri := (0, 0, 0)%Z.
Definition keep (rows : list tri) (ids : list tri) (n : nat) (i : nat) : bool :=
  let t := nth i rows tri0 in
  if tmem t ids then (n <? cnt (fun r => tri_eqb r t) rows) && (i - first_pos rows t <? n) else true.
Definition remove_spec (rows : list tri) (ids : list tri) (n : nat) : list nat :=
  filter (keep rows ids n) (seq 0 (length rows)).
