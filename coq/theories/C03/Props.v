(* C03 — Each evaluation is isolated from every other evaluation.  Property theorems only (model: Exp/Model.v). *)
From Coq Require Import List Arith Bool Permutation.
From Coba Require Import Generated.Exp_gen Exp.Model Exp.Proofs.
Import ListNotations.

(* the shape of MakeTasks.read / ProcessTasks.filter that Exp/Model.v assumes is the one the translator found in the source on this run *)
Theorem source_shape : (gen_copy_when_count_exceeds, gen_count_basis_is_triples, gen_ids_by_first_appearance, gen_rows_materialised_before_yield, gen_per_task_handler) = (1, true, true, true, true).
Proof. reflexivity. Qed.

(* For ANY deterministic evaluation function, ANY learner objects, ANY list of triples (learner, environment and evaluator objects shared between
   triples in any pattern), ANY way of cutting ANY permutation of the tasks into groups that are evaluated one after the other on the same objects
   (in-process: one group; worker processes: one group per pickled chunk): a row set is recorded for a triple exactly when the triple evaluated
   alone on pristine objects completes, and it is that row set. In particular a triple that raises loses only its own rows. *)
Theorem isolation : forall (rows lstate : Type) (evalf : nat -> lstate -> nat -> option rows * lstate) (pristine : nat -> lstate) triples groups,
  Permutation (concat groups) (make_tasks triples) ->
  forall k r, In (k, r) (run_groups rows lstate evalf pristine groups) <-> In k triples /\ alone rows lstate evalf pristine k = Some r.
Proof. exact groups_spec. Qed.
Print Assumptions isolation.

Corollary failing_triple_loses_only_its_rows : forall (rows lstate : Type) evalf pristine triples groups k,
  Permutation (concat groups) (make_tasks triples) -> alone rows lstate evalf pristine k = None ->
  (forall r, ~ In (k, r) (run_groups rows lstate evalf pristine groups)) /\
  (forall k' r', In k' triples -> alone rows lstate evalf pristine k' = Some r' -> In (k', r') (run_groups rows lstate evalf pristine groups)).
Proof.
  intros rows lstate evalf pristine triples groups k HP Hnone. split.
  - intros r Hin. apply (groups_spec rows lstate evalf pristine triples groups HP) in Hin. destruct Hin as [_ H]. congruence.
  - intros k' r' Hk Hr. apply (groups_spec rows lstate evalf pristine triples groups HP). split; assumption.
Qed.
Print Assumptions failing_triple_loses_only_its_rows.

(* the hypothesis is what MakeTasks + ChunkTasks deliver: e.g. three triples sharing a learner, cut into two chunks in a different order *)
Example groups_example : Permutation (concat [[{| tt := (1, 0, 0); tcopy := true |}]; [{| tt := (0, 1, 0); tcopy := false |}; {| tt := (0, 0, 0); tcopy := true |}]])
                                     (make_tasks [(0, 0, 0); (0, 1, 0); (1, 0, 0)]).
Proof. cbn. apply Permutation_sym. apply perm_trans with [{| tt := (0, 0, 0); tcopy := true |}; {| tt := (1, 0, 0); tcopy := true |}; {| tt := (0, 1, 0); tcopy := false |}];
  [apply perm_skip, perm_swap|]. apply perm_trans with [{| tt := (1, 0, 0); tcopy := true |}; {| tt := (0, 0, 0); tcopy := true |}; {| tt := (0, 1, 0); tcopy := false |}];
  [apply perm_swap|apply perm_skip, perm_swap]. Qed.
