(* Wire codec + operation interpreter for the C05 correspondence check:
   a list of CobaRandom instances (given by their seeds) and an interleaved list of calls. *)
From Coq Require Import ZArith List Bool QArith.
From Coba Require Import Common.Sx Common.Rng Common.Frame.
Import ListNotations.
Open Scope Z_scope.

Definition with_st (r : rng) (s : Z) : rng := {| st := s; pend := pend r; dead := dead r |}.

Definition of_res (x : res Z) : sx := match x with Ok z => Z_ z | Err c => err c end.

(* one call on one instance: (opcode args...) *)
Definition step1 (r : rng) (op : sx) : sx * rng :=
  let a := fun n => nth_sx n op in
  match as_z (a 0%nat) with
  | 0 => let (x, s) := random_q (as_q (a 1%nat)) (as_q (a 2%nat)) (st r) in (of_q x, with_st r s)
  | 1 => let (x, s) := randint (as_z (a 1%nat)) (as_z (a 2%nat)) (st r) in (Z_ x, with_st r s)
  | 2 => let (x, s) := randints (as_nat (a 1%nat)) (as_z (a 2%nat)) (as_z (a 3%nat)) (st r) in (of_zs x, with_st r s)
  | 3 => let (x, s) := shuffle (seq 0 (as_nat (a 1%nat))) (st r) in (of_nats x, with_st r s)
  | 4 => let (x, s) := choice_idx (as_z (a 1%nat)) (st r) in (of_res x, with_st r s)
  | 5 => let ws := map as_q (as_l (a 2%nat)) in
         let (x, s) := choice_w (as_z (a 1%nat)) ws (st r) in
         (match x with Ok i => L_ [Z_ i; of_q (nth (Z.to_nat i) ws 0%Q)] | Err c => err c end, with_st r s)
  | 6 => let (ok, r') := gausses (as_nat (a 1%nat)) r in (of_bool ok, r')
  | 7 => let (x, s) := randoms_q (as_nat (a 1%nat)) (as_q (a 2%nat)) (as_q (a 3%nat)) (st r) in (L_ (map of_q x), with_st r s)
  | _ => (err 99, r)
  end.

(* interleaved run: ops are (instance call) pairs; Common/Frame.v's run_many *)
Definition dec_op (o : sx) : nat * sx := (as_nat (nth_sx 0 o), nth_sx 1 o).
Definition run_ops (rs : list rng) (ops : list sx) : list sx :=
  map snd (run_many (fun r o => step1 r o) (seed_int 0) rs (map dec_op ops)).

(* seeds: (0 z) integer seed, (1 bytes...) string seed *)
Definition mk_rng (x : sx) : rng :=
  match as_z (nth_sx 0 x) with
  | 0 => seed_int (as_z (nth_sx 1 x))
  | _ => seed_bytes (as_zs (nth_sx 1 x))
  end.

Definition run (x : sx) : sx :=
  L_ (run_ops (map mk_rng (as_l (nth_sx 0 x))) (as_l (nth_sx 1 x))).
