(* Lemmas about the CobaRandom model (Common/Rng.v over Generated/C05_gen.v). *)
From Coq Require Import ZArith List Bool QArith Lia Permutation ZifyBool.
From Coba Require Import Generated.C05_gen Common.Rng.
Import ListNotations.
Open Scope Z_scope.
Ltac Zify.zify_post_hook ::= Z.to_euclidean_division_equations.

(* ---------- the generator *)
Lemma m_val : lcg_m = 1073741824. Proof. reflexivity. Qed.
Lemma m_pos : 0 < lcg_m. Proof. rewrite m_val; lia. Qed.

Lemma land_is_mod x : Z.land x (lcg_m_1 lcg_m) = x mod lcg_m.
Proof.
  unfold lcg_m_1. change (lcg_m - 1) with (Z.ones 30). rewrite Z.land_ones by lia. reflexivity.
Qed.

Lemma next_spec s : next s = (lcg_a * s + lcg_c) mod lcg_m.
Proof. unfold next, lcg_step. apply land_is_mod. Qed.

Lemma next_range s : 0 <= next s < lcg_m.
Proof. rewrite next_spec. apply Z.mod_pos_bound, m_pos. Qed.

Lemma next_mod s : next (s mod lcg_m) = next s.
Proof.
  rewrite !next_spec. rewrite Z.add_mod by (rewrite m_val; lia).
  rewrite Z.mul_mod_idemp_r by (rewrite m_val; lia).
  rewrite <- Z.add_mod by (rewrite m_val; lia). reflexivity.
Qed.

Definition lcg_ainv : Z := 1020125213.
Definition prev (t : Z) : Z := ((t - lcg_c) * lcg_ainv) mod lcg_m.

Lemma prev_next s : 0 <= s < lcg_m -> prev (next s) = s.
Proof.
  intros Hs. unfold prev. rewrite next_spec.
  unfold lcg_a, lcg_c, lcg_ainv in *. rewrite m_val in *. lia.
Qed.

Lemma next_prev t : 0 <= t < lcg_m -> next (prev t) = t.
Proof.
  intros Ht. unfold prev. rewrite next_spec.
  unfold lcg_a, lcg_c, lcg_ainv in *. rewrite m_val in *. lia.
Qed.

Lemma next_injective s t : 0 <= s < lcg_m -> 0 <= t < lcg_m -> next s = next t -> s = t.
Proof. intros Hs Ht E. rewrite <- (prev_next s Hs), <- (prev_next t Ht), E. reflexivity. Qed.

Lemma next_zero_nonzero : next 0 <> 0.
Proof. vm_compute. discriminate. Qed.

(* ---------- contracts of the single-draw API, for every state *)
Lemma fmul_bounds k s : 0 < k -> 0 <= s < lcg_m -> 0 <= fmul k s < k.
Proof.
  intros Hk Hs. unfold fmul. pose proof m_pos.
  split.
  - apply Z.div_pos; nia.
  - apply Z.div_lt_upper_bound; nia.
Qed.

Lemma randint_range a b s : a <= b -> a <= fst (randint a b s) <= b.
Proof.
  intros Hab. unfold randint, randint_off, randint_scale. cbn [fst].
  pose proof (fmul_bounds (b - a + 1) (next s) ltac:(lia) (next_range s)). lia.
Qed.

Lemma randint_state a b s : snd (randint a b s) = next s.
Proof. reflexivity. Qed.

Lemma randints_spec n a b s : a <= b ->
  Forall (fun x => a <= x <= b) (fst (randints n a b s)) /\ length (fst (randints n a b s)) = n.
Proof.
  intros Hab. revert s. induction n as [|n IH]; intros s; cbn [randints].
  - split; constructor.
  - destruct (randints n a b (next s)) as [r s''] eqn:E. cbn [fst].
    specialize (IH (next s)). rewrite E in IH. cbn [fst] in IH. destruct IH as [IH1 IH2].
    split; [|cbn [length]; lia].
    constructor; [|exact IH1].
    destruct (a =? 0) eqn:Ea.
    + pose proof (fmul_bounds (b + 1) (next s) ltac:(lia) (next_range s)). lia.
    + pose proof (fmul_bounds (b + 1 - a) (next s) ltac:(lia) (next_range s)). lia.
Qed.

(* uniforms *)
Lemma uq_unit s : 0 <= s < lcg_m -> (0 <= uq s)%Q /\ (uq s < 1)%Q.
Proof.
  intros Hs. unfold uq, Qle, Qlt. cbn [Qnum Qden].
  assert (E : Zpos (Z.to_pos lcg_m) = lcg_m) by reflexivity. rewrite E. rewrite m_val in *. lia.
Qed.

Lemma random_q_range mn mx s : (mn < mx)%Q ->
  (mn <= fst (random_q mn mx s))%Q /\ (fst (random_q mn mx s) < mx)%Q.
Proof.
  intros H. unfold random_q. cbn [fst].
  destruct (uq_unit (next s) (next_range s)) as [U0 U1].
  set (u := uq (next s)) in *.
  assert (D : (0 < mx - mn)%Q) by (unfold Qminus; rewrite <- (Qplus_opp_r mn); apply Qplus_lt_l; exact H).
  split.
  - rewrite <- (Qplus_0_r mn) at 1. apply Qplus_le_r. apply Qmult_le_0_compat; [apply Qlt_le_weak; exact D|exact U0].
  - assert (E : (mx == mn + (mx - mn) * 1)%Q) by ring.
    rewrite E at 2. apply Qplus_lt_r. apply Qmult_lt_l; assumption.
Qed.

(* ---------- shuffle *)
Lemma upd_length {A} k (x : A) l : length (upd k x l) = length l.
Proof. revert k; induction l as [|h t IH]; intros [|k]; cbn; auto. Qed.

Lemma swap_perm {A} (k : nat) (x : A) (rest : list A) :
  (k < length rest)%nat -> Permutation (x :: rest) (nth k rest x :: upd k x rest).
Proof.
  revert k. induction rest as [|h t IH]; intros k Hk; cbn in Hk; [lia|].
  destruct k as [|k]; cbn [nth upd].
  - apply perm_swap.
  - assert (IHk : Permutation (x :: t) (nth k t x :: upd k x t)) by (apply IH; lia).
    eapply perm_trans; [apply perm_swap|].
    eapply perm_trans; [apply perm_skip; exact IHk|]. apply perm_swap.
Qed.

Lemma swap0_perm {A} (j : nat) (x : A) rest :
  (j <= length rest)%nat -> Permutation (x :: rest) (fst (swap0 j x rest) :: snd (swap0 j x rest)).
Proof.
  intros Hj. destruct j as [|k]; cbn [swap0 fst snd]; [reflexivity|]. apply swap_perm. lia.
Qed.

Lemma swap0_length {A} (j : nat) (x : A) rest : length (snd (swap0 j x rest)) = length rest.
Proof. destruct j; cbn [swap0 snd]; [reflexivity|apply upd_length]. Qed.

Lemma shuf_perm {A} n : forall (l : list A) s, (length l <= n)%nat -> Permutation l (fst (shuf n l s)).
Proof.
  induction n as [|n IH]; intros l s Hl.
  - cbn. reflexivity.
  - cbn [shuf]. destruct l as [|x rest]; [reflexivity|]. destruct rest as [|y rest']; [reflexivity|].
    set (rest := y :: rest') in *.
    set (j := Z.to_nat (fmul (Z.of_nat (length (x :: rest))) (next s))).
    assert (Hj : (j <= length rest)%nat).
    { unfold j. pose proof (fmul_bounds (Z.of_nat (length (x :: rest))) (next s) ltac:(cbn [length]; lia) (next_range s)) as B.
      cbn [length] in *. lia. }
    pose proof (swap0_perm j x rest Hj) as P. pose proof (swap0_length j x rest) as L.
    destruct (swap0 j x rest) as [y0 rest0]. cbn [fst snd] in *.
    specialize (IH rest0 (next s) ltac:(cbn [length] in *; lia)).
    destruct (shuf n rest0 (next s)) as [r s'']. cbn [fst] in *.
    eapply perm_trans; [exact P|]. apply perm_skip. exact IH.
Qed.

Lemma shuffle_perm {A} (l : list A) s : Permutation l (fst (shuffle l s)).
Proof. apply shuf_perm. lia. Qed.

(* number of draws: n-1 for n >= 2, none otherwise *)
Fixpoint iter_next (k : nat) (s : Z) : Z := match k with O => s | S k' => iter_next k' (next s) end.

Lemma shuf_draws {A} n : forall (l : list A) s, (length l <= n)%nat ->
  snd (shuf n l s) = iter_next (length l - 1) s.
Proof.
  induction n as [|n IH]; intros l s Hl.
  - destruct l; cbn in *; [reflexivity|lia].
  - cbn [shuf]. destruct l as [|x rest]; [reflexivity|]. destruct rest as [|y rest']; [reflexivity|].
    set (rest := y :: rest') in *.
    set (j := Z.to_nat (fmul (Z.of_nat (length (x :: rest))) (next s))).
    pose proof (swap0_length j x rest) as L.
    destruct (swap0 j x rest) as [y0 rest0]. cbn [snd] in L.
    specialize (IH rest0 (next s) ltac:(cbn [length] in *; lia)).
    destruct (shuf n rest0 (next s)) as [r s'']. cbn [snd] in *.
    rewrite IH, L. unfold rest. cbn [length]. replace (S (S (length rest')) - 1)%nat with (S (S (length rest') - 1))%nat by lia.
    reflexivity.
Qed.

Lemma shuffle_draws {A} (l : list A) s : snd (shuffle l s) = iter_next (length l - 1) s.
Proof. apply shuf_draws. lia. Qed.

(* ---------- choice *)
Lemma choice_idx_member len s : 0 < len ->
  exists i, fst (choice_idx len s) = Ok i /\ 0 <= i < len.
Proof.
  intros H. unfold choice_idx. destruct (len =? 0) eqn:E; [lia|]. cbn [fst].
  eexists; split; [reflexivity|]. apply fmul_bounds; [lia|apply next_range].
Qed.

(* weighted choice, strict comparison: always finds an item, and its weight is positive *)
Lemma Qlt_bool_iff a b : Qlt_bool a b = true <-> (a < b)%Q.
Proof.
  unfold Qlt_bool. rewrite negb_true_iff. split.
  - intros H. apply Qnot_le_lt. intros L. apply Qle_bool_iff in L. congruence.
  - intros H. destruct (Qle_bool b a) eqn:E; [|reflexivity]. apply Qle_bool_iff in E.
    exfalso. apply (Qlt_not_le _ _ H E).
Qed.

Lemma pick_strict_spec t : forall ws acc i,
  Forall (fun w => 0 <= w)%Q ws -> (acc <= t)%Q -> (t < acc + qsum ws)%Q ->
  exists j, pick true t acc ws i = Some (i + j)%nat /\ (j < length ws)%nat /\ (0 < nth j ws 0)%Q.
Proof.
  induction ws as [|w ws IH]; intros acc i Hpos Hlo Hhi.
  - cbn [qsum fold_right] in Hhi. exfalso. apply (Qlt_not_le _ _ Hhi). rewrite Qplus_0_r. exact Hlo.
  - inversion Hpos as [|? ? Hw Hpos']; subst. cbn [pick].
    destruct (Qlt_bool t (acc + w)) eqn:E.
    + exists 0%nat. rewrite Nat.add_0_r. split; [reflexivity|]. split; [cbn; lia|]. cbn [nth].
      apply Qlt_bool_iff in E.
      assert (H : (acc < acc + w)%Q) by (eapply Qle_lt_trans; eassumption).
      rewrite <- (Qplus_0_r acc) in H at 1. apply Qplus_lt_r in H. exact H.
    + assert (Hle : (acc + w <= t)%Q).
      { apply Qnot_lt_le. intros L. apply Qlt_bool_iff in L. congruence. }
      destruct (IH (acc + w)%Q (S i) Hpos' Hle) as [j [Hj1 [Hj2 Hj3]]].
      { cbn [qsum fold_right] in Hhi. fold (qsum ws) in Hhi. rewrite <- Qplus_assoc. exact Hhi. }
      exists (S j). split; [rewrite Hj1; f_equal; lia|]. split; [cbn; lia|exact Hj3].
Qed.

Lemma qsum_nonneg ws : Forall (fun w => 0 <= w)%Q ws -> (0 <= qsum ws)%Q.
Proof.
  induction 1 as [|w ws Hw _ IH]; cbn [qsum fold_right]; [apply Qle_refl|].
  fold (qsum ws). rewrite <- (Qplus_0_r 0). apply Qplus_le_compat; assumption.
Qed.

Lemma choice_w_strict_spec (ws : list Q) s :
  ws <> [] -> Forall (fun w => 0 <= w)%Q ws -> (0 < qsum ws)%Q ->
  exists i, choice_w_gen true (Z.of_nat (length ws)) ws s = (Ok (Z.of_nat i), next s)
            /\ (i < length ws)%nat /\ (0 < nth i ws 0)%Q.
Proof.
  intros Hne Hpos Hsum. unfold choice_w_gen.
  rewrite Z.eqb_refl, andb_false_r.
  destruct (Qeq_bool (qsum ws) 0) eqn:E.
  { apply Qeq_bool_iff in E. rewrite E in Hsum. exfalso. apply (Qlt_irrefl _ Hsum). }
  rewrite Nat2Z.id, firstn_all.
  destruct (uq_unit (next s) (next_range s)) as [U0 U1].
  destruct (pick_strict_spec (uq (next s) * qsum ws) ws 0 0%nat Hpos) as [j [Hj1 [Hj2 Hj3]]].
  - apply Qmult_le_0_compat; [exact U0|apply Qlt_le_weak; exact Hsum].
  - rewrite Qplus_0_l. rewrite <- (Qmult_1_l (qsum ws)) at 2. apply Qmult_lt_r; assumption.
  - exists j. rewrite Hj1. cbn [Nat.add]. auto.
Qed.

(* the non-strict comparison admits a zero-weight result: the state before 0 *)
Lemma pick_nonstrict_zero_weight : pick false (uq 0 * qsum [0;1])%Q 0 [0; 1]%Q 0 = Some 0%nat.
Proof. vm_compute. reflexivity. Qed.

(* ---------- gauss definedness *)
Lemma draw_nonzero_redraw s : exists s1, draw_nonzero true s = Some s1 /\ s1 <> 0.
Proof.
  unfold draw_nonzero. destruct (next s =? 0) eqn:E; cbn [negb].
  - apply Z.eqb_eq in E. rewrite E. destruct (next 0 =? 0) eqn:E0; cbn [negb].
    + apply Z.eqb_eq in E0. exfalso. exact (next_zero_nonzero E0).
    + eexists; split; [reflexivity|]. apply Z.eqb_neq. exact E0.
  - eexists; split; [reflexivity|]. apply Z.eqb_neq. exact E.
Qed.

Lemma gausses_redraw_defined n : forall r, dead r = false ->
  fst (gausses_gen true n r) = true /\ dead (snd (gausses_gen true n r)) = false.
Proof.
  induction n as [|n IH]; intros r Hr; cbn [gausses_gen]; [auto|].
  rewrite Hr. destruct (pend r).
  - apply IH. reflexivity.
  - destruct (draw_nonzero_redraw (st r)) as [s1 [E _]]. rewrite E. apply IH. reflexivity.
Qed.

(* without the re-draw there is a state in which gauss raises *)
Lemma gauss_noredraw_raises : fst (gausses_gen false 1 (seed_int 482549499)) = false.
Proof. vm_compute. reflexivity. Qed.

(* ---------- seeding *)
Lemma seed_mod_irrelevant z a b :
  fst (randint a b (st (seed_int z))) = fst (randint a b (st (seed_int (z mod lcg_m)))) .
Proof. unfold randint, seed_int. cbn [st fst]. rewrite next_mod. reflexivity. Qed.

Lemma every_state_reachable t : 0 <= t < lcg_m -> exists z, next (st (seed_int z)) = t.
Proof. intros H. exists (prev t). cbn [seed_int st]. apply next_prev. exact H. Qed.
