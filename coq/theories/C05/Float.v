(* Binary64 layer of CobaRandom.random(min,max):  min + (max-min) * (s / 2^30)
   modelled with Coq's primitive floats (IEEE-754 binary64, round to nearest even),
   evaluated by vm_compute.  Only PrimFloat/Uint63 are imported. *)
From Coq Require Import List PrimFloat Uint63 Bool.
Import ListNotations.

Definition two30 : float := of_uint63 1073741824%uint63.
Definition u_f (s : int) : float := (of_uint63 s / two30)%float.
Definition random_f (mn mx : float) (s : int) : float := (mn + (mx - mn) * u_f s)%float.

(* same value, bit for bit (distinguishes -0 from +0 via 1/x) *)
Definition same (a b : float) : bool :=
  (PrimFloat.eqb a b && PrimFloat.eqb (1 / a) (1 / b))%float || (negb (PrimFloat.eqb a a) && negb (PrimFloat.eqb b b)).

Fixpoint bad_from (i : nat) (cs : list (int * float * float * float)) : list nat :=
  match cs with
  | [] => []
  | (s, mn, mx, x) :: t => if same (random_f mn mx s) x then bad_from (S i) t else i :: bad_from (S i) t
  end.
Definition bad_cases := bad_from 0.

(* witness of the known finding: ordinary-magnitude bounds, result = max *)
Definition w_min : float := 0x1.ffffep+19%float.          (* 2^20 - 1 *)
Definition w_max : float := 0x1.ffffe00002p+19%float.     (* 2^20 - 1 + 2^-20 *)
Definition w_state : int := 1073741823%uint63.            (* 2^30 - 1 *)
Lemma random_float_reaches_max : PrimFloat.eqb (random_f w_min w_max w_state) w_max = true.
Proof. vm_compute. reflexivity. Qed.
Lemma random_float_unit_exact : PrimFloat.ltb (random_f 0 1 w_state) 1 = true.
Proof. vm_compute. reflexivity. Qed.
