(* C05 — Random streams are a pure, contract-respecting function of the seed.
   Property theorems only: each is closed by `exact` of a lemma from C05/Proofs.v, C05/Float.v or
   Common/Frame.v and followed by Print Assumptions.  The subject of the theorems
   (lcg_a, lcg_c, lcg_m, lcg_step, randint_off/scale, choice_strict, gauss_redraw_zero,
   static_no_globals) is Generated/C05_gen.v, re-created from coba/random.py on every run. *)
From Coq Require Import ZArith List Bool QArith Permutation PrimFloat.
From Coba Require Import Generated.C05_gen Common.Sx Common.Rng Common.Frame C05.Proofs C05.Float C05.Run.
Import ListNotations.
Open Scope Z_scope.

(* the `&` of the source is a modulo: every state is in [0, 2^30) *)
Theorem land_is_mod : forall x, Z.land x (lcg_m_1 lcg_m) = x mod lcg_m.
Proof. exact Proofs.land_is_mod. Qed.
Print Assumptions land_is_mod.

Theorem next_in_range : forall s, 0 <= next s < lcg_m.
Proof. exact next_range. Qed.
Print Assumptions next_in_range.

(* the step is a bijection of [0,m): "all 2^30 states" = "all seeds and stream positions" *)
Theorem next_bijective :
  (forall s, 0 <= s < lcg_m -> prev (next s) = s) /\ (forall t, 0 <= t < lcg_m -> next (prev t) = t).
Proof. exact (conj prev_next next_prev). Qed.
Print Assumptions next_bijective.

Theorem every_state_is_some_seeds_first_state : forall t, 0 <= t < lcg_m -> exists z, next (st (seed_int z)) = t.
Proof. exact every_state_reachable. Qed.
Print Assumptions every_state_is_some_seeds_first_state.

Theorem stream_depends_on_seed_mod_m : forall s, next (s mod lcg_m) = next s.
Proof. exact next_mod. Qed.
Print Assumptions stream_depends_on_seed_mod_m.

(* instances are independent: under ANY interleaving of calls on ANY number of instances each
   instance produces what it produces alone (no shared state in the model; the source side is
   the translator's static check below plus the interleaved correspondence runs) *)
Theorem instances_independent : forall ops (rs : list rng) i,
  (i < length rs)%nat -> Forall (fun p => (fst p < length rs)%nat) ops ->
  only i (run_many step1 (seed_int 0) rs ops) = run_one step1 (nth i rs (seed_int 0)) (only i ops).
Proof. exact (frame step1 (seed_int 0)). Qed.
Print Assumptions instances_independent.

Theorem source_uses_no_global_state : static_no_globals = true.
Proof. reflexivity. Qed.

(* contracts, for every state *)
Theorem uniform_unit : forall s, (0 <= uq (next s))%Q /\ (uq (next s) < 1)%Q.
Proof. exact (fun s => uq_unit (next s) (next_range s)). Qed.
Print Assumptions uniform_unit.

Theorem random_range_exact : forall mn mx s, (mn < mx)%Q ->
  (mn <= fst (random_q mn mx s))%Q /\ (fst (random_q mn mx s) < mx)%Q.
Proof. exact random_q_range. Qed.
Print Assumptions random_range_exact.

Theorem randint_in_range : forall a b s, a <= b -> a <= fst (randint a b s) <= b.
Proof. exact randint_range. Qed.
Print Assumptions randint_in_range.

Theorem randints_in_range : forall n a b s, a <= b ->
  Forall (fun x => a <= x <= b) (fst (randints n a b s)) /\ length (fst (randints n a b s)) = n.
Proof. exact randints_spec. Qed.
Print Assumptions randints_in_range.

Theorem shuffle_is_permutation : forall (A : Type) (l : list A) s, Permutation l (fst (shuffle l s)).
Proof. exact @shuffle_perm. Qed.
Print Assumptions shuffle_is_permutation.

Theorem shuffle_consumes : forall (A : Type) (l : list A) s, snd (shuffle l s) = iter_next (length l - 1) s.
Proof. exact @shuffle_draws. Qed.
Print Assumptions shuffle_consumes.

Theorem choice_member : forall len s, 0 < len -> exists i, fst (choice_idx len s) = Ok i /\ 0 <= i < len.
Proof. exact choice_idx_member. Qed.
Print Assumptions choice_member.

(* the source uses the strict comparison (generated flag) ... *)
Theorem choice_is_strict : choice_strict = true.
Proof. reflexivity. Qed.
(* ... for which a positive-weight member is always returned, with one draw *)
Theorem choice_weighted_positive : forall (ws : list Q) s,
  ws <> [] -> Forall (fun w => 0 <= w)%Q ws -> (0 < qsum ws)%Q ->
  exists i, choice_w_gen true (Z.of_nat (length ws)) ws s = (Ok (Z.of_nat i), next s)
            /\ (i < length ws)%nat /\ (0 < nth i ws 0)%Q.
Proof. exact choice_w_strict_spec. Qed.
Print Assumptions choice_weighted_positive.
(* the former comparison (<=) returned a zero-weight item in the state before 0 *)
Theorem choice_weighted_nonstrict_refuted : pick false (uq 0 * qsum [0;1])%Q 0 [0; 1]%Q 0 = Some 0%nat.
Proof. exact pick_nonstrict_zero_weight. Qed.

(* gauss: the source re-draws a zero uniform (generated flag), hence log is always defined *)
Theorem gauss_redraws : gauss_redraw_zero = true.
Proof. reflexivity. Qed.
Theorem gauss_always_defined : forall n r, dead r = false ->
  fst (gausses_gen true n r) = true /\ dead (snd (gausses_gen true n r)) = false.
Proof. exact gausses_redraw_defined. Qed.
Print Assumptions gauss_always_defined.
Theorem gauss_without_redraw_refuted : fst (gausses_gen false 1 (seed_int 482549499)) = false.
Proof. exact gauss_noredraw_raises. Qed.

(* binary64 layer of random(min,max): the half-open contract fails at the top state for
   ordinary-magnitude bounds (known finding C05-random-eq-max); (0,1) is exact *)
Theorem random_range_float_refuted : PrimFloat.eqb (random_f w_min w_max w_state) w_max = true.
Proof. exact random_float_reaches_max. Qed.
Print Assumptions random_range_float_refuted.
Theorem random_unit_float_partial : PrimFloat.ltb (random_f 0 1 w_state) 1 = true.
Proof. exact random_float_unit_exact. Qed.

(* non-vacuity: the hypotheses above are satisfiable by ordinary arguments *)
Example weights_example : [0; 1; 0; 2]%Q <> [] /\ Forall (fun w => 0 <= w)%Q [0; 1; 0; 2]%Q /\ (0 < qsum [0; 1; 0; 2])%Q.
Proof. split; [discriminate|]. split; [repeat constructor; discriminate|reflexivity]. Qed.
