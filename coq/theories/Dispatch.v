(* op code -> model entry point; the only function the OCaml driver calls *)
From Coq Require Import ZArith List.
From Coba Require Import Common.Sx.
From Coba Require C05.Run.
From Coba Require C20.Run.
From Coba Require C17.Run.
From Coba Require C09.Run.
From Coba Require C11.Run.
From Coba Require C18.Run.
From Coba Require C13.Run.
From Coba Require C14.Run.
From Coba Require C15.Run.
From Coba Require C16.Run.
From Coba Require C10.Run.
From Coba Require C04.Run.
From Coba Require C06.Run.
From Coba Require C19.Run.
From Coba Require C07.Run.
From Coba Require C12.Run.
From Coba Require C08.Run.
From Coba Require Exp.Run.
From Coba Require C02.Run.
Open Scope Z_scope.

Definition dispatch (op : Z) (x : sx) : sx :=
  match op with
  | 5 => C05.Run.run x
  | 20 => C20.Run.run x
  | 17 => C17.Run.run x
  | 9 => C09.Run.run x
  | 11 => C11.Run.run x
  | 18 => C18.Run.run x
  | 13 => C13.Run.run x
  | 113 => C13.Run.run_sparse x
  | 213 => C13.Run.run_encode_cat x
  | 313 => C13.Run.run_encode_nested x
  | 413 => C13.Run.run_encode_sparse x
  | 513 => C13.Run.run_encode_inplace x
  | 14 => C14.Run.run x
  | 15 => C15.Run.run x
  | 16 => C16.Run.run x
  | 10 => C10.Run.run x
  | 4 => C04.Run.run x
  | 6 => C06.Run.run x
  | 106 => C06.Run.run_loop x
  | 19 => C19.Run.run x
  | 7 => C07.Run.run x
  | 12 => C12.Run.run x
  | 8 => C08.Run.run x
  | 1 => Exp.Run.run x
  | 3 => Exp.Run.run x
  | 2 => C02.Run.run x
  | _ => err 98
  end.
