(* C09 — Ordering and selection filters keep exactly the interactions they promise (position model).
   Property theorems only.  in_min_max and where_peeks_max_first are Generated/C09_gen.v. *)
From Coq Require Import ZArith List Bool Arith Permutation Sorting.Sorted.
From Coba Require Import Generated.C09_gen Common.Rng C09.Model C09.Proofs.
Import ListNotations.
Open Scope nat_scope.

Theorem shuffle_is_permutation : forall N s, Permutation (seq 0 N) (shuffle_pos N s).
Proof. exact shuffle_pos_perm. Qed.
Print Assumptions shuffle_is_permutation.

Theorem riffle_is_permutation : forall spacing N s, Permutation (seq 0 N) (riffle_pos spacing N s).
Proof. exact riffle_perm. Qed.
Print Assumptions riffle_is_permutation.

(* Sort: a permutation, ordered by the keys, equal keys keep input order *)
Theorem sort_is_stable_ordering : forall keys,
  Permutation (seq 0 (length keys)) (sort_pos keys) /\
  StronglySorted (key_le (fun i => nth i keys [])) (sort_pos keys) /\
  forall k, filter (fun i => zl_eqb (nth i keys []) k) (sort_pos keys) = filter (fun i => zl_eqb (nth i keys []) k) (seq 0 (length keys)).
Proof. exact (fun keys => conj (sort_perm keys) (conj (sort_sorted keys) (sort_stable keys))). Qed.
Print Assumptions sort_is_stable_ordering.

Theorem slice_positions : forall start stop step N p, In p (slice_pos start stop step N) ->
  match start with Some s => s | None => 0 end <= p /\ p < N /\ (match stop with Some s => p < s | None => True end)
  /\ exists k, p = match start with Some s => s | None => 0 end + k * Nat.max step 1.
Proof. exact slice_pos_spec. Qed.
Print Assumptions slice_positions.

(* Reservoir, for ANY skip lengths (whatever libm returns): min(n,N) distinct input positions
   (strict: n or nothing) *)
Theorem reservoir_structure : forall n strict N s skips, 1 <= n ->
  let out := reservoir_pos (Some n) strict N s skips in
  NoDup out /\ Forall (fun p => p < N) out /\ length out = (if N <? n then (if strict then 0 else N) else n).
Proof. exact Proofs.reservoir_structure. Qed.
Print Assumptions reservoir_structure.

(* Where: the source peeks max+1 interactions (generated flag), which decides the range exactly *)
Theorem where_peeks_max : where_peeks_max_first = true.
Proof. reflexivity. Qed.
Theorem where_full : forall n_int n_fet n_act flen acts, where_peeks_max_first = true ->
  where_pos n_int n_fet n_act flen acts =
  if (length acts =? 0) || negb (in_min_max (Z.of_nat (length acts)) (fst n_int) (snd n_int)) || negb (in_min_max flen (fst n_fet) (snd n_fet))
  then []
  else filter (fun i => match n_act with (None, None) => true | _ => in_min_max (nth i acts 0%Z) (fst n_act) (snd n_act) end) (seq 0 (length acts)).
Proof. exact Proofs.where_full. Qed.
Print Assumptions where_full.
(* peeking min+1 first (the former expression) passes 10 interactions through the range (2,5) *)
Theorem where_min_first_refuted :
  in_min_max (Z.min (1 + 2) 10) (Some 2%Z) (Some 5%Z) = true /\ in_min_max 10 (Some 2%Z) (Some 5%Z) = false.
Proof. split; reflexivity. Qed.

Theorem batch_then_unbatch_is_identity : forall k N, batch_unbatch_pos k N = seq 0 N.
Proof. exact batch_unbatch_id. Qed.
Print Assumptions batch_then_unbatch_is_identity.
