From Coq Require Import ZArith List Bool.
From Coba Require Import Common.Sx Common.Rng C05.Run C09.Model.
Import ListNotations.
Open Scope Z_scope.

Definition dec_range (x : sx) : option Z * option Z := (as_opt as_z (nth_sx 0 x), as_opt as_z (nth_sx 1 x)).
Definition seed_state (x : sx) : Z := st (mk_rng x).

Definition run (x : sx) : sx :=
  let a := fun n => nth_sx n x in
  match as_z (a 0%nat) with
  | 1 => of_nats (shuffle_pos (as_nat (a 1%nat)) (seed_state (a 2%nat)))
  | 2 => of_nats (take_pos (as_opt as_nat (a 1%nat)) (as_bool (a 2%nat)) (as_nat (a 3%nat)))
  | 3 => of_nats (slice_pos (as_opt as_nat (a 1%nat)) (as_opt as_nat (a 2%nat)) (as_nat (a 3%nat)) (as_nat (a 4%nat)))
  | 4 => of_nats (reservoir_pos (as_opt as_nat (a 1%nat)) (as_bool (a 2%nat)) (as_nat (a 3%nat)) (seed_state (a 4%nat))
                                (map (as_opt as_nat) (as_l (a 5%nat))))
  | 5 => of_nats (sort_pos (map as_zs (as_l (a 1%nat))))
  | 6 => of_nats (riffle_pos (as_nat (a 1%nat)) (as_nat (a 2%nat)) (seed_state (a 3%nat)))
  | 7 => of_nats (where_pos (dec_range (a 1%nat)) (dec_range (a 2%nat)) (dec_range (a 3%nat)) (as_z (a 4%nat)) (as_zs (a 5%nat)))
  | 8 => of_nats (batch_unbatch_pos (as_nat (a 1%nat)) (as_nat (a 2%nat)))
  | _ => err 99
  end.
