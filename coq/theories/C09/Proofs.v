From Coq Require Import ZArith List Bool Arith Lia Permutation.
From Coba Require Import Generated.C05_gen Generated.C09_gen Common.Rng C05.Proofs C09.Model.
Import ListNotations.
Open Scope nat_scope.

(* ---- Shuffle *)
Lemma shuffle_pos_perm N s : Permutation (seq 0 N) (shuffle_pos N s).
Proof. apply shuffle_perm. Qed.

(* ---- Slice *)
Lemma slice_from_spec fuel : forall p0 step stop p, In p (slice_from fuel p0 step stop) ->
  p0 <= p /\ p < stop /\ exists k, p = p0 + k * step.
Proof.
  induction fuel as [|f IH]; intros p0 step stop p H; [destruct H|].
  cbn [slice_from] in H. destruct (p0 <? stop) eqn:E; [|destruct H]. apply Nat.ltb_lt in E.
  destruct H as [<-|H].
  - repeat split; [lia|exact E|exists 0; lia].
  - destruct (IH _ _ _ _ H) as [H1 [H2 [k Hk]]]. repeat split; [lia|exact H2|exists (S k); lia].
Qed.

Lemma slice_pos_spec start stop step N p : In p (slice_pos start stop step N) ->
  match start with Some s => s | None => 0 end <= p /\ p < N /\ (match stop with Some s => p < s | None => True end)
  /\ exists k, p = match start with Some s => s | None => 0 end + k * Nat.max step 1.
Proof.
  unfold slice_pos. intros H. apply slice_from_spec in H. destruct H as [H1 [H2 H3]].
  repeat split; [exact H1|destruct stop; lia|destruct stop; [lia|exact I]|exact H3].
Qed.

(* ---- Reservoir *)
Lemma upd_nat_In k x l y : In y (upd_nat k x l) -> y = x \/ In y l.
Proof.
  revert k; induction l as [|h t IH]; intros [|k] H; cbn in *; try contradiction.
  - destruct H as [H|H]; [left; congruence|right; right; exact H].
  - destruct H as [H|H]; [right; left; exact H|]. destruct (IH _ H); [left; assumption|right; right; assumption].
Qed.
Lemma upd_nat_length k x l : length (upd_nat k x l) = length l.
Proof. revert k; induction l as [|h t IH]; intros [|k]; cbn; auto. Qed.
Lemma upd_nat_NoDup k x l : NoDup l -> ~ In x l -> NoDup (upd_nat k x l).
Proof.
  revert k; induction l as [|h t IH]; intros [|k] Hnd Hx; cbn; try constructor.
  - inversion Hnd; subst. intros Hin. apply Hx. right. exact Hin.
  - inversion Hnd; subst. assumption.
  - inversion Hnd as [|? ? Hh Ht]; subst. intros Hin. apply upd_nat_In in Hin. destruct Hin as [->|Hin]; [apply Hx; left; reflexivity|contradiction].
  - inversion Hnd; subst. apply IH; [assumption|]. intros Hin. apply Hx. right. exact Hin.
Qed.

Definition RInv (n N : nat) (res : list nat) (nxt : nat) : Prop :=
  NoDup res /\ Forall (fun p => p < nxt) res /\ nxt <= N /\ length res = n.

Lemma res_loop_inv n N skips : forall res nxt s, RInv n N res nxt ->
  let out := res_loop n N res nxt s skips in NoDup out /\ Forall (fun p => p < N) out /\ length out = n.
Proof.
  induction skips as [|sk skips IH]; intros res nxt s [H1 [H2 [H3 H4]]]; cbn [res_loop].
  - repeat split; [exact H1| |exact H4]. rewrite Forall_forall in *. intros p Hp. specialize (H2 p Hp). lia.
  - destruct sk as [S_|]; [|apply IH; repeat split; assumption].
    destruct (N <=? nxt + S_) eqn:E.
    + repeat split; [exact H1| |exact H4]. rewrite Forall_forall in *. intros p Hp. specialize (H2 p Hp). lia.
    + apply Nat.leb_gt in E. apply IH. repeat split.
      * apply upd_nat_NoDup; [exact H1|]. intros Hin. rewrite Forall_forall in H2. specialize (H2 _ Hin). lia.
      * rewrite Forall_forall in *. intros p Hp. apply upd_nat_In in Hp. destruct Hp as [->|Hp]; [lia|]. specialize (H2 p Hp). lia.
      * lia.
      * rewrite upd_nat_length. exact H4.
Qed.

Lemma seq_lt n : Forall (fun p => p < n) (seq 0 n).
Proof. rewrite Forall_forall. intros p Hp. apply in_seq in Hp. lia. Qed.

Lemma reservoir_structure n strict N s skips : 1 <= n ->
  let out := reservoir_pos (Some n) strict N s skips in
  NoDup out /\ Forall (fun p => p < N) out /\
  length out = (if N <? n then (if strict then 0 else N) else n).
Proof.
  intros Hn. unfold reservoir_pos. destruct n as [|n']; [lia|]. set (n := S n') in *.
  destruct (N <? n) eqn:E.
  - destruct strict; cbn zeta; [repeat split; [constructor|constructor]|].
    pose proof (shuffle_pos_perm N s) as P. repeat split.
    + eapply Permutation_NoDup; [exact P|apply seq_NoDup].
    + eapply Permutation_Forall; [exact P|apply seq_lt].
    + rewrite <- (Permutation_length P). apply seq_length.
  - apply Nat.ltb_ge in E. pose proof (shuffle_perm (seq 0 n) s) as P.
    destruct (shuffle (seq 0 n) s) as [res s'] eqn:Es. cbn [fst] in P.
    apply res_loop_inv. repeat split.
    + eapply Permutation_NoDup; [exact P|apply seq_NoDup].
    + eapply Permutation_Forall; [exact P|apply seq_lt].
    + exact E.
    + rewrite <- (Permutation_length P). apply seq_length.
Qed.

(* ---- Where: peeking max+1 (min+1 when no max) interactions decides the range exactly *)
Lemma peek_decides (N : Z) mn mx : where_peeks_max_first = true -> (0 <= N)%Z ->
  in_min_max (Z.min (where_firstn mn mx) N) mn mx = in_min_max N mn mx.
Proof.
  intros Hv HN. unfold where_firstn. rewrite Hv. unfold in_min_max, first_some.
  destruct mx as [M|], mn as [m|]; cbn [find]; lia.
Qed.

Lemma where_full n_int n_fet n_act flen acts : where_peeks_max_first = true ->
  where_pos n_int n_fet n_act flen acts =
  if (length acts =? 0) || negb (in_min_max (Z.of_nat (length acts)) (fst n_int) (snd n_int)) || negb (in_min_max flen (fst n_fet) (snd n_fet))
  then []
  else filter (fun i => match n_act with (None, None) => true | _ => in_min_max (nth i acts 0%Z) (fst n_act) (snd n_act) end) (seq 0 (length acts)).
Proof.
  intros Hv. unfold where_pos. rewrite (peek_decides _ _ _ Hv) by lia.
  destruct (length acts =? 0); [reflexivity|]. cbn [orb].
  destruct (in_min_max (Z.of_nat (length acts)) (fst n_int) (snd n_int)); [|reflexivity]. cbn [negb orb].
  destruct (in_min_max flen (fst n_fet) (snd n_fet)); reflexivity.
Qed.

(* ---- Batch then Unbatch *)
Lemma concat_chunks {A} k : 1 <= k -> forall fuel (l : list A), length l <= fuel -> concat (chunks_fuel fuel k l) = l.
Proof.
  intros Hk. induction fuel as [|f IH]; intros l Hl.
  - destruct l; [reflexivity|cbn in Hl; lia].
  - cbn [chunks_fuel]. destruct l as [|a l]; [reflexivity|]. cbn [concat].
    rewrite IH; [apply firstn_skipn|]. rewrite skipn_length. cbn [length] in *. lia.
Qed.
Lemma batch_unbatch_id k N : batch_unbatch_pos k N = seq 0 N.
Proof. destruct k as [|k]; [reflexivity|]. unfold batch_unbatch_pos, chunks. apply concat_chunks; lia. Qed.

(* ---- Riffle *)
Lemma insert_at_perm {A} k (x : A) l : Permutation (x :: l) (insert_at k x l).
Proof.
  revert l; induction k as [|k IH]; intros l; [reflexivity|]. destruct l as [|h t]; [reflexivity|].
  cbn [insert_at]. eapply perm_trans; [apply perm_swap|]. apply perm_skip. apply IH.
Qed.
Lemma riffle_loop_perm cnt : forall i spacing l s, Permutation l (riffle_loop cnt i spacing l s).
Proof.
  induction cnt as [|c IH]; intros i spacing l s; [reflexivity|]. cbn [riffle_loop].
  destruct (randint 0 (Z.of_nat spacing) s) as [r s'].
  destruct (rev l) as [|last rinit] eqn:E; [reflexivity|].
  eapply perm_trans; [|apply IH].
  eapply perm_trans; [|apply insert_at_perm].
  assert (L : l = rev rinit ++ [last]) by (rewrite <- (rev_involutive l), E; reflexivity).
  rewrite L at 1. apply Permutation_sym. apply Permutation_cons_append.
Qed.
Lemma riffle_perm spacing N s : Permutation (seq 0 N) (riffle_pos spacing N s).
Proof. apply riffle_loop_perm. Qed.

(* ---- Sort *)
Lemma sinsert_perm key x l : Permutation (x :: l) (sinsert key x l).
Proof.
  induction l as [|h t IH]; [reflexivity|]. cbn [sinsert]. destruct (lex_lt (key h) (key x)); [|reflexivity].
  eapply perm_trans; [apply perm_swap|]. apply perm_skip. exact IH.
Qed.
Lemma sort_perm keys : Permutation (seq 0 (length keys)) (sort_pos keys).
Proof.
  unfold sort_pos. induction (seq 0 (length keys)) as [|x l IH]; [reflexivity|]. cbn [fold_right].
  eapply perm_trans; [apply perm_skip; exact IH|apply sinsert_perm].
Qed.

(* lexicographic order facts *)
Lemma lex_lt_irrefl a : lex_lt a a = false.
Proof. induction a as [|x a IH]; [reflexivity|]. cbn [lex_lt]. rewrite Z.ltb_irrefl, Z.eqb_refl, IH. reflexivity. Qed.
Lemma lex_lt_trans : forall a b c, lex_lt a b = true -> lex_lt b c = true -> lex_lt a c = true.
Proof.
  induction a as [|x a IH]; intros [|y b] [|z c] H1 H2; cbn [lex_lt] in *; try discriminate; try reflexivity.
  apply orb_true_iff in H1. apply orb_true_iff in H2. apply orb_true_iff.
  destruct H1 as [H1|H1], H2 as [H2|H2]; try (apply andb_true_iff in H1; destruct H1 as [E1 L1]); try (apply andb_true_iff in H2; destruct H2 as [E2 L2]).
  - left. lia.
  - left. lia.
  - left. lia.
  - right. apply andb_true_iff. split; [lia|]. eapply IH; eassumption.
Qed.
Lemma lex_trichotomy : forall a b, lex_lt a b = true \/ a = b \/ lex_lt b a = true.
Proof.
  induction a as [|x a IH]; intros [|y b]; cbn [lex_lt]; auto.
  destruct (Z.lt_trichotomy x y) as [H|[H|H]].
  - left. apply orb_true_iff. left. lia.
  - subst y. rewrite Z.ltb_irrefl, Z.eqb_refl. cbn [orb andb].
    destruct (IH b) as [L|[E|G]]; [left; exact L|right; left; congruence|right; right; exact G].
  - right; right. apply orb_true_iff. left. lia.
Qed.
Lemma lex_negtrans a b c : lex_lt b a = false -> lex_lt c b = false -> lex_lt c a = false.
Proof.
  intros H1 H2. destruct (lex_lt c a) eqn:E; [|reflexivity].
  destruct (lex_trichotomy a b) as [L|[->|G]].
  - rewrite (lex_lt_trans _ _ _ E L) in H2. discriminate.
  - congruence.
  - congruence.
Qed.

From Coq Require Import Sorting.Sorted.
Definition key_le (key : nat -> list Z) (a b : nat) : Prop := lex_lt (key b) (key a) = false.

Lemma sinsert_In key x l y : In y (sinsert key x l) <-> y = x \/ In y l.
Proof.
  induction l as [|h t IH]; cbn [sinsert]; [cbn; intuition|].
  destruct (lex_lt (key h) (key x)); cbn [In]; [rewrite IH|]; intuition.
Qed.
Lemma sinsert_sorted key x l : StronglySorted (key_le key) l -> StronglySorted (key_le key) (sinsert key x l).
Proof.
  induction l as [|h t IH]; intros Hs; cbn [sinsert]; [repeat constructor|].
  inversion Hs as [|? ? St Hall]; subst.
  destruct (lex_lt (key h) (key x)) eqn:E.
  - constructor; [apply IH; exact St|]. rewrite Forall_forall in *. intros y Hy. apply sinsert_In in Hy.
    destruct Hy as [->|Hy]; [|apply Hall; exact Hy]. unfold key_le.
    destruct (lex_lt (key x) (key h)) eqn:G; [|reflexivity].
    pose proof (lex_lt_trans _ _ _ E G) as C. rewrite lex_lt_irrefl in C. discriminate.
  - constructor; [exact Hs|]. constructor; [exact E|]. rewrite Forall_forall in *. intros y Hy.
    unfold key_le in *. eapply lex_negtrans; [exact E|apply Hall; exact Hy].
Qed.
Lemma sort_sorted keys : StronglySorted (key_le (fun i => nth i keys [])) (sort_pos keys).
Proof.
  unfold sort_pos. induction (seq 0 (length keys)) as [|x l IH]; [constructor|]. cbn [fold_right].
  apply sinsert_sorted. exact IH.
Qed.

(* stability: interactions with equal keys keep their input order *)
Lemma sinsert_filter key (p : nat -> bool) x l :
  (forall h, lex_lt (key h) (key x) = true -> p h = true -> p x = false) ->
  (forall h, lex_lt (key h) (key x) = true -> p x = true -> p h = false) ->
  filter p (sinsert key x l) = if p x then x :: filter p l else filter p l.
Proof.
  intros H1 H2. induction l as [|h t IH]; [reflexivity|]. cbn [sinsert].
  destruct (lex_lt (key h) (key x)) eqn:E; [|reflexivity].
  cbn [filter]. rewrite IH. destruct (p h) eqn:Ph.
  - rewrite (H1 h E Ph). reflexivity.
  - reflexivity.
Qed.
Fixpoint zl_eqb (a b : list Z) : bool :=
  match a, b with [], [] => true | x :: a', y :: b' => (x =? y)%Z && zl_eqb a' b' | _, _ => false end.
Lemma zl_eqb_eq a : forall b, zl_eqb a b = true -> a = b.
Proof.
  induction a as [|x a IH]; intros [|y b] H; cbn in H; try discriminate; [reflexivity|].
  apply andb_true_iff in H. destruct H as [E H]. apply Z.eqb_eq in E. subst. f_equal. apply IH. exact H.
Qed.
Lemma sort_stable keys k :
  let key := fun i => nth i keys [] in
  filter (fun i => zl_eqb (key i) k) (sort_pos keys) = filter (fun i => zl_eqb (key i) k) (seq 0 (length keys)).
Proof.
  intros key. unfold sort_pos. fold key. induction (seq 0 (length keys)) as [|x l IH]; [reflexivity|].
  cbn [fold_right filter]. rewrite sinsert_filter.
  - rewrite IH. reflexivity.
  - intros h L Ph. destruct (zl_eqb (key x) k) eqn:Px; [|reflexivity].
    apply zl_eqb_eq in Ph. apply zl_eqb_eq in Px. rewrite Ph, Px, lex_lt_irrefl in L. discriminate.
  - intros h L Px. destruct (zl_eqb (key h) k) eqn:Ph; [|reflexivity].
    apply zl_eqb_eq in Ph. apply zl_eqb_eq in Px. rewrite Ph, Px, lex_lt_irrefl in L. discriminate.
Qed.
