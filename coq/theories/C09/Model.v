(* Position model of the ordering / selection filters: a filter maps the input length N (and its
   parameters) to the list of input positions found at each output place. *)
From Coq Require Import ZArith List Bool Arith Lia.
From Coba Require Import Generated.C05_gen Generated.C09_gen Common.Rng.
Import ListNotations.
Open Scope nat_scope.

(* ---- Shuffle (pipes.Shuffle / environments.Shuffle): CobaRandom(seed).shuffle(list(items)) *)
Definition shuffle_pos (N : nat) (s : Z) : list nat := fst (shuffle (seq 0 N) s).

(* ---- Take *)
Definition take_pos (count : option nat) (strict : bool) (N : nat) : list nat :=
  match count with
  | None => seq 0 N
  | Some n => if strict && (N <? n) then [] else seq 0 (Nat.min n N)
  end.

(* ---- Slice: islice(items, start, stop, step), step >= 1 *)
Fixpoint slice_from (fuel : nat) (p step stop : nat) : list nat :=
  match fuel with
  | O => []
  | S f => if p <? stop then p :: slice_from f (p + step) step stop else []
  end.
Definition slice_pos (start : option nat) (stop : option nat) (step : nat) (N : nat) : list nat :=
  let st := match start with Some s => s | None => 0 end in
  let sp := match stop with Some s => Nat.min s N | None => N end in
  slice_from N st (Nat.max step 1) sp.

(* ---- Reservoir (Algorithm L).  skips: for each (r1,r2,r3) triple the harness-supplied skip length
   floor(log(r2, 1-W)) (libm, not modelled), None where the triple is degenerate (r1 = 0 or r2 = 0: skipped).
   The slot int(r3*n) comes from the modelled generator. *)
Fixpoint upd_nat (k : nat) (x : nat) (l : list nat) : list nat :=
  match l, k with
  | [], _ => []
  | _ :: t, O => x :: t
  | h :: t, S k' => h :: upd_nat k' x t
  end.

Fixpoint res_loop (n N : nat) (res : list nat) (nxt : nat) (s : Z) (skips : list (option nat)) : list nat :=
  match skips with
  | [] => res
  | sk :: skips' =>
    let s1 := next s in let s2 := next s1 in let s3 := next s2 in
    match sk with
    | None => res_loop n N res nxt s3 skips'
    | Some S_ =>
      let p := nxt + S_ in
      if N <=? p then res
      else res_loop n N (upd_nat (Z.to_nat (fmul (Z.of_nat n) s3)) p res) (S p) s3 skips'
    end
  end.

Definition reservoir_pos (count : option nat) (strict : bool) (N : nat) (s : Z) (skips : list (option nat)) : list nat :=
  match count with
  | Some O => []
  | None => shuffle_pos N s
  | Some n =>
    if N <? n then (if strict then [] else shuffle_pos N s)
    else let (res, s') := shuffle (seq 0 n) s in res_loop n N res n s' skips
  end.

(* ---- Sort: stable sort of positions by lexicographic integer keys *)
Fixpoint lex_lt (a b : list Z) : bool :=
  match a, b with
  | [], [] => false
  | [], _ :: _ => true
  | _ :: _, [] => false
  | x :: a', y :: b' => (x <? y)%Z || ((x =? y)%Z && lex_lt a' b')
  end.
Fixpoint sinsert (key : nat -> list Z) (x : nat) (l : list nat) : list nat :=
  match l with [] => [x] | h :: t => if lex_lt (key h) (key x) then h :: sinsert key x t else x :: l end.
Definition sort_pos (keys : list (list Z)) : list nat :=
  fold_right (sinsert (fun i => nth i keys [])) [] (seq 0 (length keys)).

(* ---- Riffle: for i in range(int(N/(spacing+1))): insert(i*spacing + randint(0,spacing), pop()) *)
Fixpoint insert_at {A} (k : nat) (x : A) (l : list A) : list A :=
  match k, l with
  | O, _ => x :: l
  | S k', [] => [x]
  | S k', h :: t => h :: insert_at k' x t
  end.
Fixpoint riffle_loop (cnt i spacing : nat) (l : list nat) (s : Z) : list nat :=
  match cnt with
  | O => l
  | S c =>
    let (r, s') := randint 0 (Z.of_nat spacing) s in
    match rev l with
    | [] => l
    | last :: rinit => riffle_loop c (S i) spacing (insert_at (i * spacing + Z.to_nat r) last (rev rinit)) s'
    end
  end.
Definition riffle_pos (spacing N : nat) (s : Z) : list nat :=
  riffle_loop (N / (spacing + 1)) 0 spacing (seq 0 N) s.

(* ---- Where *)
Definition first_some (l : list (option Z)) : Z :=
  match find (fun o => match o with Some _ => true | None => false end) l with Some (Some v) => v | _ => 0%Z end.
Definition where_firstn (mn mx : option Z) : Z :=
  (1 + first_some (if where_peeks_max_first then [mx; mn] else [mn; mx]))%Z.

(* n_act given as the action counts of the interactions; flen = feature count of the first interaction *)
Definition where_pos (n_int n_fet n_act : option Z * option Z) (flen : Z) (acts : list Z) : list nat :=
  let N := length acts in
  let len_first := Z.min (where_firstn (fst n_int) (snd n_int)) (Z.of_nat N) in
  if N =? 0 then []
  else if negb (in_min_max len_first (fst n_int) (snd n_int)) then []
  else if negb (in_min_max flen (fst n_fet) (snd n_fet)) then []
  else filter (fun i => match n_act with
                        | (None, None) => true
                        | _ => in_min_max (nth i acts 0%Z) (fst n_act) (snd n_act)
                        end) (seq 0 N).

(* ---- Batch / Unbatch: chunks of k, last one short; concatenated back *)
Fixpoint chunks_fuel {A} (fuel k : nat) (l : list A) : list (list A) :=
  match fuel with
  | O => []
  | S f => match l with [] => [] | _ => firstn k l :: chunks_fuel f k (skipn k l) end
  end.
Definition chunks {A} (k : nat) (l : list A) : list (list A) := chunks_fuel (length l) k l.
Definition batch_unbatch_pos (k : nat) (N : nat) : list nat :=
  match k with O => seq 0 N | _ => concat (chunks k (seq 0 N)) end.
