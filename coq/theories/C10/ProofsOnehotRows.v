(* C10: the flat one-hot encoding of dense rows (EncodeCatRows('onehot'), what Finalize and Repr('onehot',.) apply to actions) keeps rows of one layout apart:
   the injectivity that reward_aligned assumes is proved for this encoder instead of being checked case by case. *)
From Coq Require Import ZArith List Arith Lia Bool.
From Coba Require Import C13.ModelEncodeCat C13.ProofsEncodeCat.
Import ListNotations.

(* rows of one table: numbers and categoricals at the same places, the categoricals of a place declare the same number of levels and name one of them *)
Definition same_layout (o1 o2 : list cell) : Prop :=
  Forall2 (fun a b => match a, b with Num _, Num _ => True | Cat i n, Cat j m => n = m /\ i < n /\ j < m | _, _ => False end) o1 o2.

Lemma onehot_z_length i n : length (onehot_z i n) = n.
Proof. unfold onehot_z. rewrite map_length, seq_length. reflexivity. Qed.

Lemma onehot_z_nth i n k : k < n -> nth k (onehot_z i n) 0%Z = if k =? i then 1%Z else 0%Z.
Proof.
  intros Hk. unfold onehot_z. set (f := fun p => if p =? i then 1%Z else 0%Z).
  rewrite (nth_indep _ 0%Z (f 0)) by (rewrite map_length, seq_length; exact Hk).
  rewrite (map_nth f), seq_nth by exact Hk. reflexivity.
Qed.

Lemma onehot_z_injective i j n : i < n -> j < n -> onehot_z i n = onehot_z j n -> i = j.
Proof.
  intros Hi Hj H.
  assert (E : nth i (onehot_z i n) 0%Z = nth i (onehot_z j n) 0%Z) by (rewrite H; reflexivity).
  rewrite !onehot_z_nth in E by exact Hi. rewrite Nat.eqb_refl in E.
  destruct (Nat.eqb_spec i j); [assumption | discriminate].
Qed.

Lemma map_Num_injective l1 l2 : map Num l1 = map Num l2 -> l1 = l2.
Proof. revert l2. induction l1 as [|a l1 IH]; intros [|b l2] H; simpl in H; try discriminate; [reflexivity|]. injection H as -> H. f_equal. auto. Qed.

Lemma app_inv_len {A} (a b c d : list A) : length a = length b -> a ++ c = b ++ d -> a = b /\ c = d.
Proof.
  revert b. induction a as [|x a IH]; intros [|y b] Hl H; simpl in *; try discriminate; [split; [reflexivity | exact H]|].
  injection H as -> H. injection Hl as Hl. destruct (IH b Hl H) as [-> ->]. split; reflexivity.
Qed.

Theorem eager_flat_injective o1 o2 : same_layout o1 o2 -> eager_flat o1 = eager_flat o2 -> o1 = o2.
Proof.
  unfold eager_flat. induction 1 as [|a b o1 o2 Hab Hrest IH]; intros H; [reflexivity|].
  simpl in H. destruct a as [z1|i n], b as [z2|j m]; try contradiction.
  - simpl in H. injection H as -> H. f_equal. apply IH. exact H.
  - destruct Hab as (<- & Hi & Hj). simpl in H.
    apply app_inv_len in H; [| rewrite !map_length, !onehot_z_length; reflexivity].
    destruct H as [Hh Ht]. apply map_Num_injective in Hh. apply (onehot_z_injective i j n Hi Hj) in Hh. subst j. f_equal. apply IH. exact Ht.
Qed.

(* the encoder as the code computes it *)
Corollary encode_flat_injective o1 o2 : same_layout o1 o2 -> encode_flat o1 = encode_flat o2 -> o1 = o2.
Proof. rewrite !encode_flat_eq_eager. apply eager_flat_injective. Qed.

(* hence: an action set of pairwise distinct dense actions of one layout is still pairwise distinct after the encoding *)
Corollary encode_flat_keeps_actions_distinct acts : (forall a b, In a acts -> In b acts -> same_layout a b) -> NoDup acts -> NoDup (map encode_flat acts).
Proof.
  intros Hl Hn. induction Hn as [|a acts Hnot Hn IH]; simpl; [constructor|]. constructor.
  - intros Hin. apply in_map_iff in Hin. destruct Hin as (b & Hb & Hinb). apply Hnot.
    assert (a = b) by (apply encode_flat_injective; [apply Hl; simpl; auto | symmetry; exact Hb]). subst. exact Hinb.
  - apply IH. intros x y Hx Hy. apply Hl; simpl; auto.
Qed.
