From Coq Require Import ZArith List Bool QArith Lia.
From Coba Require Import C10.Model.
Import ListNotations.

Section Proofs.
  Context {A B : Type}.
  Variable eqA : A -> A -> bool.
  Variable eqB : B -> B -> bool.
  Hypothesis eqA_spec : forall x y, eqA x y = true <-> x = y.
  Hypothesis eqB_spec : forall x y, eqB x y = true <-> x = y.
  Variable f : A -> B.

  Lemma index_of_nth (eqb : B -> B -> bool) (spec : forall x y, eqb x y = true <-> x = y) (l : list B) :
    NoDup l -> forall i b, nth_error l i = Some b -> index_of eqb b l = Some i.
  Proof.
    induction l as [|h t IH]; intros Hnd i b Hi; [destruct i; discriminate|].
    inversion Hnd as [|? ? Hh Ht]; subst. cbn [index_of]. destruct i as [|i]; cbn in Hi.
    - inversion Hi; subst. rewrite (proj2 (spec b b) eq_refl). reflexivity.
    - destruct (eqb h b) eqn:E.
      + apply spec in E. subst. exfalso. apply Hh. eapply nth_error_In. exact Hi.
      + rewrite (IH Ht i b Hi). reflexivity.
  Qed.

  (* re-keyed reward functions stay aligned: the i-th new action earns what the i-th old action earned *)
  Theorem rekey_aligned (r : A -> Q) acts : NoDup (map f acts) ->
    forall i a, nth_error acts i = Some a -> rekey eqB f r acts (f a) = r a.
  Proof.
    intros Hnd i a Hi. unfold rekey, discrete_reward.
    assert (Hfi : nth_error (map f acts) i = Some (f a)) by (rewrite nth_error_map, Hi; reflexivity).
    rewrite (index_of_nth eqB eqB_spec _ Hnd i (f a) Hfi).
    assert (Hr : nth_error (map r acts) i = Some (r a)) by (rewrite nth_error_map, Hi; reflexivity).
    apply nth_error_nth with (d := 0%Q) in Hr. exact Hr.
  Qed.

  Theorem rekey_binary_aligned argmax value acts : NoDup acts -> NoDup (map f acts) -> In argmax acts ->
    exists r', rekey_binary eqA eqB f argmax value acts = Some r' /\
               forall a, In a acts -> r' (f a) = binary_reward eqA argmax value a.
  Proof.
    intros HndA HndB Hin. apply In_nth_error in Hin. destruct Hin as [i Hi].
    unfold rekey_binary. assert (Hidx : index_of eqA argmax acts = Some i).
    { clear HndB. revert i Hi. induction acts as [|h t IH]; intros i Hi; [destruct i; discriminate|].
      inversion HndA as [|? ? Hh Ht]; subst. cbn [index_of]. destruct i as [|i]; cbn in Hi.
      - inversion Hi; subst. rewrite (proj2 (eqA_spec argmax argmax) eq_refl). reflexivity.
      - destruct (eqA h argmax) eqn:E; [apply eqA_spec in E; subst; exfalso; apply Hh; eapply nth_error_In; exact Hi|].
        rewrite (IH Ht i Hi). reflexivity. }
    rewrite Hidx. rewrite nth_error_map, Hi. cbn [option_map]. eexists; split; [reflexivity|].
    intros a Ha. unfold binary_reward.
    destruct (eqA argmax a) eqn:E.
    - apply eqA_spec in E. subst. rewrite (proj2 (eqB_spec (f a) (f a)) eq_refl). reflexivity.
    - destruct (eqB (f argmax) (f a)) eqn:E2; [|reflexivity]. apply eqB_spec in E2.
      (* f is injective on acts because map f acts has no duplicates *)
      exfalso. apply In_nth_error in Ha. destruct Ha as [j Hj].
      assert (Hfi : nth_error (map f acts) i = Some (f argmax)) by (rewrite nth_error_map, Hi; reflexivity).
      assert (Hfj : nth_error (map f acts) j = Some (f a)) by (rewrite nth_error_map, Hj; reflexivity).
      rewrite <- E2 in Hfj.
      assert (i = j).
      { rewrite (NoDup_nth_error (map f acts)) in HndB. apply HndB; [|congruence]. apply nth_error_Some. congruence. }
      subst j. rewrite Hi in Hj. inversion Hj; subst. rewrite (proj2 (eqA_spec a a) eq_refl) in E. discriminate.
  Qed.

  (* the logged action stays the same member of the action set *)
  Theorem logged_action_member action acts : NoDup (map f acts) -> forall i, nth_error acts i = Some action ->
    logged_index eqB f action acts = Some i.
  Proof.
    intros Hnd i Hi. unfold logged_index. apply (index_of_nth eqB eqB_spec _ Hnd).
    rewrite nth_error_map, Hi. reflexivity.
  Qed.
End Proofs.

(* chains: a composition of representation changes that are injective on the action set is injective on it *)
Lemma chain_injective {A B C} (f : A -> B) (g : B -> C) acts : NoDup (map f acts) -> NoDup (map g (map f acts)) -> NoDup (map (fun a => g (f a)) acts).
Proof. intros _ H. rewrite map_map in H. exact H. Qed.

(* one-hot encoding of the levels of a categorical is injective *)
Definition onehot (n i : nat) : list Z := map (fun j => if Nat.eqb i j then 1%Z else 0%Z) (seq 0 n).
Lemma onehot_nth n i j : (j < n)%nat -> nth j (onehot n i) 0%Z = if Nat.eqb i j then 1%Z else 0%Z.
Proof.
  intros Hj. unfold onehot.
  assert (G : forall (g : nat -> Z) l k d d', (k < length l)%nat -> nth k (map g l) d = g (nth k l d')).
  { intros g l k d d' H. rewrite (nth_indep _ d (g d')) by (rewrite map_length; exact H). apply map_nth. }
  rewrite (G _ _ j 0%Z 0%nat) by (rewrite seq_length; exact Hj). rewrite seq_nth by exact Hj. reflexivity.
Qed.
Lemma onehot_injective n i j : (i < n)%nat -> (j < n)%nat -> onehot n i = onehot n j -> i = j.
Proof.
  intros Hi Hj E. assert (H : nth i (onehot n i) 0%Z = nth i (onehot n j) 0%Z) by (rewrite E; reflexivity).
  rewrite !onehot_nth in H by assumption. rewrite Nat.eqb_refl in H.
  destruct (Nat.eqb j i) eqn:E2; [apply Nat.eqb_eq in E2; congruence|discriminate].
Qed.

(* a stale reward function (not re-keyed) returns 0 for every re-encoded action: the former Sparsify/Densify(action=True) *)
Lemma stale_reward_refuted : binary_reward Z.eqb 1%Z 1%Q (1 + 100)%Z = 0%Q /\ binary_reward Z.eqb 1%Z 1%Q 1%Z = 1%Q.
Proof. split; reflexivity. Qed.
