(* Reward functions keyed by actions (BinaryReward, DiscreteReward: equality-based look-up, first match wins)
   and the re-keying that the representation filters perform when they change the actions
   (Repr, Flatten, Noise, Sparsify, Densify):  rewards' = DiscreteReward(new_actions, map rewards old_actions),
   Binary: BinaryReward(new_actions[old_actions.index(argmax)], value). *)
From Coq Require Import ZArith List Bool QArith Lia.
Import ListNotations.

Section Rewards.
  Context {A : Type}.
  Variable eqb : A -> A -> bool.

  Fixpoint index_of (a : A) (l : list A) : option nat :=
    match l with [] => None | h :: t => if eqb h a then Some 0%nat else option_map S (index_of a t) end.

  Definition discrete_reward (acts : list A) (rs : list Q) (a : A) : Q :=
    match index_of a acts with Some i => nth i rs 0%Q | None => 0%Q end.
  Definition binary_reward (argmax : A) (value : Q) (a : A) : Q := if eqb argmax a then value else 0%Q.
End Rewards.

(* re-keying after the actions went through a representation change f *)
Section Rekey.
  Context {A B : Type}.
  Variable eqA : A -> A -> bool.
  Variable eqB : B -> B -> bool.
  Variable f : A -> B.

  Definition rekey (r : A -> Q) (acts : list A) : B -> Q := discrete_reward eqB (map f acts) (map r acts).
  Definition rekey_binary (argmax : A) (value : Q) (acts : list A) : option (B -> Q) :=
    match index_of eqA argmax acts with
    | Some i => match nth_error (map f acts) i with Some b => Some (binary_reward eqB b value) | None => None end
    | None => None    (* old_actions.index(argmax) raises ValueError *)
    end.
  (* the logged action is re-encoded with the same map *)
  Definition logged_index (action : A) (acts : list A) : option nat := index_of eqB (f action) (map f acts).
End Rekey.

(* executable instance for the correspondence check: actions are integers (equality classes of the
   implementation's action objects before / after the filter) *)
Definition new_rewards_discrete (old_ids new_ids : list Z) (rs : list Q) : list Q :=
  map (discrete_reward Z.eqb new_ids rs) new_ids.
Definition new_rewards_binary (old_ids new_ids : list Z) (argmax : Z) (value : Q) : option (list Q) :=
  match index_of Z.eqb argmax old_ids with
  | Some i => match nth_error new_ids i with Some b => Some (map (binary_reward Z.eqb b value) new_ids) | None => None end
  | None => None
  end.
