(* C10 — Changing representation never changes which action earns which reward.  Property theorems only. *)
From Coq Require Import ZArith List Bool QArith.
From Coba Require Import C10.Model C10.Proofs.
Import ListNotations.

(* For ANY representation change f that keeps the offered actions distinct (injective on the action set), the re-keyed
   reward function gives the i-th new action what the i-th old action earned - whatever the reward function was *)
Theorem reward_aligned : forall (A B : Type) (eqB : B -> B -> bool), (forall x y, eqB x y = true <-> x = y) ->
  forall (f : A -> B) (r : A -> Q) acts, NoDup (map f acts) ->
  forall i a, nth_error acts i = Some a -> rekey eqB f r acts (f a) = r a.
Proof. exact @rekey_aligned. Qed.
Print Assumptions reward_aligned.

Theorem binary_reward_aligned : forall (A B : Type) (eqA : A -> A -> bool) (eqB : B -> B -> bool),
  (forall x y, eqA x y = true <-> x = y) -> (forall x y, eqB x y = true <-> x = y) ->
  forall (f : A -> B) argmax value acts, NoDup acts -> NoDup (map f acts) -> In argmax acts ->
  exists r', rekey_binary eqA eqB f argmax value acts = Some r' /\ forall a, In a acts -> r' (f a) = binary_reward eqA argmax value a.
Proof. exact @rekey_binary_aligned. Qed.
Print Assumptions binary_reward_aligned.

Theorem logged_action_stays_the_same_member : forall (A B : Type) (eqB : B -> B -> bool), (forall x y, eqB x y = true <-> x = y) ->
  forall (f : A -> B) action acts, NoDup (map f acts) -> forall i, nth_error acts i = Some action -> logged_index eqB f action acts = Some i.
Proof. exact @logged_action_member. Qed.
Print Assumptions logged_action_stays_the_same_member.

Theorem chains_stay_injective : forall (A B C : Type) (f : A -> B) (g : B -> C) acts,
  NoDup (map f acts) -> NoDup (map g (map f acts)) -> NoDup (map (fun a => g (f a)) acts).
Proof. exact @chain_injective. Qed.
Theorem onehot_is_injective : forall n i j, (i < n)%nat -> (j < n)%nat -> onehot n i = onehot n j -> i = j.
Proof. exact onehot_injective. Qed.
Print Assumptions onehot_is_injective.

(* without re-keying every re-encoded action earns 0 (the former Sparsify/Densify(action=True)) *)
Theorem stale_reward_function_refuted : binary_reward Z.eqb 1%Z 1%Q (1 + 100)%Z = 0%Q /\ binary_reward Z.eqb 1%Z 1%Q 1%Z = 1%Q.
Proof. exact stale_reward_refuted. Qed.

(* the precondition of reward_aligned - the representation change keeps the offered actions distinct - holds for the flat one-hot encoding of dense actions
   (EncodeCatRows('onehot'): what Finalize and Repr('onehot', .) apply), as the code computes it (C13.ModelEncodeCat.encode_flat, the in-place editing loop):
   rows of one layout (numbers and categoricals at the same places, each categorical naming one of the declared levels of its place) that encode alike are equal,
   so an action set of pairwise distinct actions is still pairwise distinct after the encoding *)
From Coba Require C13.ModelEncodeCat C10.ProofsOnehotRows.
Theorem flat_onehot_rows_stay_distinct : forall acts, (forall a b, In a acts -> In b acts -> ProofsOnehotRows.same_layout a b) -> NoDup acts ->
  NoDup (map ModelEncodeCat.encode_flat acts).
Proof. exact ProofsOnehotRows.encode_flat_keeps_actions_distinct. Qed.
Print Assumptions flat_onehot_rows_stay_distinct.
Theorem flat_onehot_rows_injective : forall o1 o2, ProofsOnehotRows.same_layout o1 o2 -> ModelEncodeCat.encode_flat o1 = ModelEncodeCat.encode_flat o2 -> o1 = o2.
Proof. exact ProofsOnehotRows.encode_flat_injective. Qed.
Print Assumptions flat_onehot_rows_injective.
