From Coq Require Import ZArith List Bool QArith.
From Coba Require Import Common.Sx C10.Model.
Import ListNotations.
Open Scope Z_scope.
(* request: (0 old_ids new_ids rewards) discrete | (1 old_ids new_ids argmax value) binary -> rewards of the new actions, or () when the re-keying raises *)
Definition run (x : sx) : sx :=
  let a := fun n => nth_sx n x in
  match as_z (a 0%nat) with
  | 0 => L_ [L_ (map of_q (new_rewards_discrete (as_zs (a 1%nat)) (as_zs (a 2%nat)) (map as_q (as_l (a 3%nat)))))]
  | _ => of_opt (fun l => L_ (map of_q l)) (new_rewards_binary (as_zs (a 1%nat)) (as_zs (a 2%nat)) (as_z (a 3%nat)) (as_q (a 4%nat)))
  end.
