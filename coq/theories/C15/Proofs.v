From Coq Require Import ZArith List Bool QArith Qabs Lia.
From Coba Require Import Generated.C05_gen Common.Rng C05.Proofs C15.Model.
Import ListNotations.
Open Scope Z_scope.

Definition no_kw : pv := VMap 0 [].
Definition no_hint (kvs : list (Z * pv)) : Prop :=
  find (fun p => fst p =? K_pmf) kvs = None /\ find (fun p => fst p =? K_action) kvs = None /\ find (fun p => fst p =? K_action_prob) kvs = None.

(* ---- (action, prob) *)
Lemma roundtrip_AP acts a p id s : existsb (is_ a) acts = true -> is_map p = false ->
  parse acts (VSeq id [a; p]) s = Ok (a, Some p, no_kw, s).
Proof.
  intros Ha Hp. destruct acts as [|a0 acts]; [discriminate|].
  unfold parse, has_kwargs. cbn [last]. rewrite Hp. cbn [first_row].
  unfold pred_format. cbn [is_map has_len len_ length negb orb Nat.eqb andb]. rewrite Ha. reflexivity.
Qed.

Lemma roundtrip_AP_kw acts a p id kid kws s : existsb (is_ a) acts = true ->
  parse acts (VSeq id [a; p; VMap kid kws]) s = Ok (a, Some p, VMap kid kws, s).
Proof.
  intros Ha. destruct acts as [|a0 acts]; [discriminate|].
  unfold parse, has_kwargs. cbn [last is_map first_row removelast].
  unfold pred_format. cbn [is_map has_len len_ length negb orb Nat.eqb andb]. rewrite Ha. reflexivity.
Qed.

(* ---- bare action: scalars (ints, strings, float objects) *)
Definition scalar (a : pv) : Prop := match a with VInt _ | VStr _ | VFlt _ _ => True | _ => False end.
Lemma roundtrip_A_scalar acts a s : scalar a -> existsb (is_ a) acts = true ->
  parse acts a s = Ok (a, None, no_kw, s).
Proof.
  intros Hs Ha. destruct acts as [|a0 acts]; [discriminate|].
  destruct a; try contradiction; unfold parse, has_kwargs; cbn [first_row];
  unfold pred_format; cbn [is_map has_len len_ negb orb andb]; rewrite Ha; reflexivity.
Qed.

Lemma roundtrip_A_scalar_kw acts a id kid kws s : scalar a -> existsb (is_ a) acts = true ->
  parse acts (VSeq id [a; VMap kid kws]) s = Ok (a, None, VMap kid kws, s).
Proof.
  intros Hs Ha. destruct acts as [|a0 acts]; [discriminate|].
  destruct a; try contradiction; unfold parse, has_kwargs; cbn [last is_map first_row];
  unfold pred_format; cbn [is_map has_len len_ negb orb andb]; rewrite Ha; reflexivity.
Qed.

(* ---- bare action: a dense vector (tuple / list / one-hot) that is one of the offered objects.
   For vectors of length two the first component must not itself be (identical to) an offered action. *)
Lemma roundtrip_A_seq acts id l s : existsb (is_ (VSeq id l)) acts = true -> is_map (last l VNone) = false ->
  (length l = 2%nat -> existsb (is_ (hd VNone l)) acts = false) ->
  parse acts (VSeq id l) s = Ok (VSeq id l, None, no_kw, s).
Proof.
  intros Ha Hk H2. destruct acts as [|a0 acts]; [discriminate|].
  unfold parse, has_kwargs. rewrite Hk. cbn [first_row].
  unfold pred_format. cbn [is_map has_len len_ negb orb].
  destruct (Nat.eqb (length l) 2) eqn:E.
  - apply Nat.eqb_eq in E. specialize (H2 E). cbn [negb andb].
    destruct l as [|x l]; [cbn in E; lia|]. cbn [hd] in H2. rewrite H2. rewrite Ha. reflexivity.
  - cbn [negb andb]. rewrite Ha. reflexivity.
Qed.

(* ---- bare action: a sparse mapping that is one of the offered objects and has no hint key *)
Lemma roundtrip_A_map acts id kvs s : existsb (is_ (VMap id kvs)) acts = true -> no_hint kvs ->
  parse acts (VMap id kvs) s = Ok (VMap id kvs, None, no_kw, s).
Proof.
  intros Ha [H1 [H2 H3]]. destruct acts as [|a0 acts]; [discriminate|].
  unfold parse, has_kwargs. cbn [first_row].
  unfold pred_format. cbn [is_map mget]. rewrite H1, H2, H3. cbn [option_map has_len negb orb andb]. rewrite Ha. reflexivity.
Qed.

(* ---- dict-hinted forms: always understood, whatever the action looks like *)
Lemma roundtrip_hint_action acts id a s : parse acts (VMap id [(K_action, a)]) s = Ok (a, None, no_kw, s).
Proof. unfold parse, has_kwargs. cbn [first_row]. unfold pred_format. cbn. reflexivity. Qed.
Lemma roundtrip_hint_action_prob acts id id2 a p s : parse acts (VMap id [(K_action_prob, VSeq id2 [a; p])]) s = Ok (a, Some p, no_kw, s).
Proof. unfold parse, has_kwargs. cbn [first_row]. unfold pred_format. cbn. reflexivity. Qed.
Lemma roundtrip_hint_action_kw acts id id0 a kid kws s : parse acts (VSeq id0 [VMap id [(K_action, a)]; VMap kid kws]) s = Ok (a, None, VMap kid kws, s).
Proof. unfold parse, has_kwargs. cbn [last is_map first_row]. unfold pred_format. cbn. reflexivity. Qed.

(* ---- PMF: a fresh list of fresh float objects, one per action *)
Definition fresh_flts (l : list pv) (acts : list pv) : Prop :=
  Forall (fun v => match v with VFlt i _ => existsb (is_ v) acts = false | _ => False end) l.

Lemma roundtrip_PMF acts id l qs s : acts <> [] ->
  existsb (is_ (VSeq id l)) acts = false -> fresh_flts l acts -> nums l = Some qs ->
  length l = length acts -> Qle_bool (Qabs (Rng.qsum qs - 1)) (1 # 1000) = true -> forallb (fun q => Qle_bool 0 q) qs = true ->
  parse acts (VSeq id l) s =
  match choice_w (Z.of_nat (length acts)) qs s with
  | (Rng.Ok i, s') => Ok (nth (Z.to_nat i) acts VNone, Some (nth (Z.to_nat i) l VNone), no_kw, s')
  | (Rng.Err c, _) => Err (20 + c)
  end.
Proof.
  intros Hne Hid Hfresh Hnums Hlen Hsum Hpos. destruct acts as [|a0 acts]; [congruence|].
  assert (Hkw : is_map (last l VNone) = false).
  { destruct l as [|x l] using rev_ind; [reflexivity|]. rewrite last_last.
    unfold fresh_flts in Hfresh. rewrite Forall_forall in Hfresh. specialize (Hfresh x ltac:(apply in_or_app; right; left; reflexivity)).
    destruct x; try contradiction. reflexivity. }
  unfold parse, has_kwargs. rewrite Hkw. cbn [first_row].
  assert (Hfmt : pred_format (VSeq id l) (a0 :: acts) = Ok PM).
  { unfold pred_format. cbn [is_map has_len len_ negb orb].
    assert (Hpmf : possible_pmf (VSeq id l) (length (a0 :: acts)) = true).
    { unfold possible_pmf. rewrite Hnums, Hlen, Nat.eqb_refl, Hsum, Hpos. reflexivity. }
    destruct (Nat.eqb (length l) 2) eqn:E.
    - cbn [negb andb]. destruct l as [|x l]; [cbn in E; discriminate|].
      unfold fresh_flts in Hfresh. inversion Hfresh as [|? ? Hx _]; subst. destruct x; try contradiction.
      rewrite Hx. rewrite Hid, Hpmf. reflexivity.
    - cbn [negb andb]. rewrite Hid, Hpmf. reflexivity. }
  rewrite Hfmt. rewrite Hnums. reflexivity.
Qed.

(* the drawn index is in range and has positive weight (C05) *)
Lemma pmf_draw_positive (qs : list Q) s : qs <> [] -> Forall (fun w => 0 <= w)%Q qs -> (0 < Rng.qsum qs)%Q ->
  choice_strict = true ->
  exists i, choice_w (Z.of_nat (length qs)) qs s = (Rng.Ok (Z.of_nat i), next s) /\ (i < length qs)%nat /\ (0 < nth i qs 0)%Q.
Proof. intros H1 H2 H3 Hs. unfold choice_w. rewrite Hs. apply choice_w_strict_spec; assumption. Qed.
