(* C15 — Every supported prediction format is understood the same way (non-batched parser).
   Property theorems only.  The hypotheses are the guards under which the round trip holds; the
   action kinds they exclude are refuted by example. *)
From Coq Require Import ZArith List Bool QArith Qabs.
From Coba Require Import Generated.C05_gen Common.Rng C15.Model C15.Proofs.
Import ListNotations.
Open Scope Z_scope.

(* (action, prob): any offered action object, any probability that is not a mapping; kwargs are returned unchanged *)
Theorem roundtrip_action_prob : forall acts a p id s, existsb (is_ a) acts = true -> is_map p = false ->
  parse acts (VSeq id [a; p]) s = Ok (a, Some p, no_kw, s).
Proof. exact roundtrip_AP. Qed.
Print Assumptions roundtrip_action_prob.
Theorem roundtrip_action_prob_kwargs : forall acts a p id kid kws s, existsb (is_ a) acts = true ->
  parse acts (VSeq id [a; p; VMap kid kws]) s = Ok (a, Some p, VMap kid kws, s).
Proof. exact roundtrip_AP_kw. Qed.
Print Assumptions roundtrip_action_prob_kwargs.

(* bare action: scalars; dense vectors (for pairs: the first component is not itself an offered action); sparse mappings without a hint key *)
Theorem roundtrip_action_scalar : forall acts a s, scalar a -> existsb (is_ a) acts = true -> parse acts a s = Ok (a, None, no_kw, s).
Proof. exact roundtrip_A_scalar. Qed.
Print Assumptions roundtrip_action_scalar.
Theorem roundtrip_action_scalar_kwargs : forall acts a id kid kws s, scalar a -> existsb (is_ a) acts = true ->
  parse acts (VSeq id [a; VMap kid kws]) s = Ok (a, None, VMap kid kws, s).
Proof. exact roundtrip_A_scalar_kw. Qed.
Print Assumptions roundtrip_action_scalar_kwargs.
Theorem roundtrip_action_vector : forall acts id l s, existsb (is_ (VSeq id l)) acts = true -> is_map (last l VNone) = false ->
  (length l = 2%nat -> existsb (is_ (hd VNone l)) acts = false) ->
  parse acts (VSeq id l) s = Ok (VSeq id l, None, no_kw, s).
Proof. exact roundtrip_A_seq. Qed.
Print Assumptions roundtrip_action_vector.
Theorem roundtrip_action_sparse : forall acts id kvs s, existsb (is_ (VMap id kvs)) acts = true -> no_hint kvs ->
  parse acts (VMap id kvs) s = Ok (VMap id kvs, None, no_kw, s).
Proof. exact roundtrip_A_map. Qed.
Print Assumptions roundtrip_action_sparse.

(* dict hints are unconditional *)
Theorem roundtrip_hinted : forall acts id id0 id2 a p kid kws s,
  parse acts (VMap id [(K_action, a)]) s = Ok (a, None, no_kw, s) /\
  parse acts (VMap id [(K_action_prob, VSeq id2 [a; p])]) s = Ok (a, Some p, no_kw, s) /\
  parse acts (VSeq id0 [VMap id [(K_action, a)]; VMap kid kws]) s = Ok (a, None, VMap kid kws, s).
Proof. exact (fun acts id id0 id2 a p kid kws s => conj (roundtrip_hint_action acts id a s) (conj (roundtrip_hint_action_prob acts id id2 a p s) (roundtrip_hint_action_kw acts id id0 a kid kws s))). Qed.
Print Assumptions roundtrip_hinted.

(* PMF: a fresh list of fresh numbers, one per action, summing to 1: the action is drawn by the learner-independent
   generator (CobaRandom.choicew, C05) and the reported probability is that entry of the PMF *)
Theorem roundtrip_pmf : forall acts id l qs s, acts <> [] ->
  existsb (is_ (VSeq id l)) acts = false -> fresh_flts l acts -> nums l = Some qs ->
  length l = length acts -> Qle_bool (Qabs (Rng.qsum qs - 1)) (1 # 1000) = true -> forallb (fun q => Qle_bool 0 q) qs = true ->
  parse acts (VSeq id l) s =
  match choice_w (Z.of_nat (length acts)) qs s with
  | (Rng.Ok i, s') => Ok (nth (Z.to_nat i) acts VNone, Some (nth (Z.to_nat i) l VNone), no_kw, s')
  | (Rng.Err c, _) => Err (20 + c)
  end.
Proof. exact roundtrip_PMF. Qed.
Print Assumptions roundtrip_pmf.
Theorem pmf_draw_has_positive_probability : forall (qs : list Q) s, qs <> [] -> Forall (fun w => 0 <= w)%Q qs -> (0 < Rng.qsum qs)%Q ->
  choice_strict = true ->
  exists i, choice_w (Z.of_nat (length qs)) qs s = (Rng.Ok (Z.of_nat i), next s) /\ (i < length qs)%nat /\ (0 < nth i qs 0)%Q.
Proof. exact pmf_draw_positive. Qed.
Print Assumptions pmf_draw_has_positive_probability.

(* the guard of roundtrip_action_vector is needed: a pair action whose first component is an offered action reads as (action, prob) *)
Example pair_first_component_is_action_refuted :
  parse [VInt 7; VSeq 5 [VInt 7; VInt 9]] (VSeq 5 [VInt 7; VInt 9]) 0 = Ok (VInt 7, Some (VInt 9), no_kw, 0).
Proof. vm_compute. reflexivity. Qed.
(* non-vacuity: a one-hot action set of size two with a PMF of fresh floats is read as a PMF *)
Example onehot_pmf_example :
  pred_format (VSeq 50 [VFlt 51 (1#2); VFlt 52 (1#2)]) [VSeq 1 [VInt 1; VInt 0]; VSeq 2 [VInt 0; VInt 1]] = Ok PM.
Proof. vm_compute. reflexivity. Qed.
