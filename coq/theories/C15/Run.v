From Coq Require Import ZArith List Bool QArith.
From Coba Require Import Common.Sx Common.Rng C15.Model.
Import ListNotations.
Open Scope Z_scope.

Fixpoint dec (fuel : nat) (x : sx) : pv :=
  match fuel with
  | O => VNone
  | S f =>
    match as_z (nth_sx 0 x) with
    | 1 => VInt (as_z (nth_sx 1 x))
    | 2 => VStr (as_z (nth_sx 1 x))
    | 3 => VFlt (as_nat (nth_sx 1 x)) (as_q (nth_sx 2 x))
    | 4 => VSeq (as_nat (nth_sx 1 x)) (map (dec f) (as_l (nth_sx 2 x)))
    | 5 => VMap (as_nat (nth_sx 1 x)) (map (fun kv => (as_z (nth_sx 0 kv), dec f (nth_sx 1 kv))) (as_l (nth_sx 2 x)))
    | _ => VNone
    end
  end.
Fixpoint enc (fuel : nat) (v : pv) : sx :=
  match fuel with
  | O => L_ [Z_ 0]
  | S f =>
    match v with
    | VNone => L_ [Z_ 0]
    | VInt z => L_ [Z_ 1; Z_ z]
    | VStr s => L_ [Z_ 2; Z_ s]
    | VFlt i q => L_ [Z_ 3; of_nat i; of_q q]
    | VSeq i l => L_ [Z_ 4; of_nat i; L_ (map (enc f) l)]
    | VMap i kvs => L_ [Z_ 5; of_nat i; L_ (map (fun kv => L_ [Z_ (fst kv); enc f (snd kv)]) kvs)]
    end
  end.

(* request: (actions pred state) *)
Definition run (x : sx) : sx :=
  let acts := map (dec 6) (as_l (nth_sx 0 x)) in
  match parse acts (dec 6 (nth_sx 1 x)) (as_z (nth_sx 2 x)) with
  | Ok (a, p, kw, s) => L_ [Z_ 0; enc 6 a; of_opt (enc 6) p; enc 6 kw; Z_ s]
  | Err c => L_ [Z_ 1; Z_ c]
  end.
