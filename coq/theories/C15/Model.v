(* SafeLearner (coba/safety.py), non-batched path: has_kwargs, first_row, pred_format, _parse_pred over a
   value universe with object identity.  Ints and strings are interned (identity = equality); floats,
   sequences and dicts are objects with an identity tag.  Keys of dicts are small integers (the harness
   maps the hint keys 'action', 'action_prob', 'pmf' to 1, 2, 3 and any other key to >= 10). *)
From Coq Require Import ZArith List Bool QArith Qabs Lia.
From Coba Require Import Common.Rng.
Import ListNotations.
Open Scope Z_scope.

Inductive pv :=
| VNone
| VInt (z : Z)
| VStr (s : Z)
| VFlt (id : nat) (q : Q)
| VSeq (id : nat) (l : list pv)
| VMap (id : nat) (kvs : list (Z * pv)).

Definition is_ (a b : pv) : bool :=
  match a, b with
  | VInt x, VInt y => x =? y
  | VStr x, VStr y => x =? y
  | VFlt i _, VFlt j _ => Nat.eqb i j
  | VSeq i _, VSeq j _ => Nat.eqb i j
  | VMap i _, VMap j _ => Nat.eqb i j
  | VNone, VNone => true
  | _, _ => false
  end.

Definition has_len (v : pv) : bool := match v with VStr _ | VSeq _ _ | VMap _ _ => true | _ => false end.
Definition len_ (v : pv) : nat := match v with VSeq _ l => length l | VMap _ kvs => length kvs | _ => 1 end.
Definition is_map (v : pv) : bool := match v with VMap _ _ => true | _ => false end.
Definition mget (k : Z) (v : pv) : option pv :=
  match v with VMap _ kvs => option_map snd (find (fun p => fst p =? k) kvs) | _ => None end.
Definition K_action := 1. Definition K_action_prob := 2. Definition K_pmf := 3.

Inductive fmt := PM | AX | AP | PMs | AXs | APs.
Inductive res (A : Type) := Ok (a : A) | Err (code : Z).
Arguments Ok {A}. Arguments Err {A}.

Definition num (v : pv) : option Q := match v with VInt z => Some (inject_Z z) | VFlt _ q => Some q | _ => None end.
Fixpoint nums (l : list pv) : option (list Q) :=
  match l with [] => Some [] | v :: t => match num v, nums t with Some q, Some r => Some (q :: r) | _, _ => None end end.

(* possible_pmf: len(item)==len(actions) and isclose(sum(item),1,abs_tol=.001) and all(i>=0) *)
Definition possible_pmf (item : pv) (n_actions : nat) : bool :=
  match item with
  | VSeq _ l =>
    match nums l with
    | Some qs => Nat.eqb (length l) n_actions
                 && Qle_bool (Qabs (Rng.qsum qs - 1)) (1 # 1000)
                 && forallb (fun q => Qle_bool 0 q) qs
    | None => false
    end
  | _ => false
  end.

(* Python == on the universe (numeric tower across int/float), used by possible_action's `item in actions` *)
Fixpoint eq_ (fuel : nat) (a b : pv) : bool :=
  match fuel with
  | O => false
  | S f =>
    match a, b with
    | VNone, VNone => true
    | VStr x, VStr y => x =? y
    | VSeq _ x, VSeq _ y => (fix go (x y : list pv) := match x, y with [], [] => true | u :: x', v :: y' => eq_ f u v && go x' y' | _, _ => false end) x y
    | VMap _ x, VMap _ y => (fix go (x y : list (Z * pv)) := match x, y with [], [] => true | u :: x', v :: y' => (fst u =? fst v) && eq_ f (snd u) (snd v) && go x' y' | _, _ => false end) x y
    | _, _ => match num a, num b with Some p, Some q => Qeq_bool p q | _, _ => false end
    end
  end.

Definition pred_format (std : pv) (actions : list pv) : res fmt :=
  match (if is_map std then mget K_pmf std else None) with
  | Some pmf => match actions with [] => Err 10 | _ => if has_len pmf && Nat.eqb (len_ pmf) (length actions) && negb (match pmf with VStr _ => true | _ => false end) then Ok PMs else Err 11 end
  | None =>
  match (if is_map std then mget K_action std else None) with
  | Some _ => Ok AXs
  | None =>
  match (if is_map std then mget K_action_prob std else None) with
  | Some ap => if has_len ap && Nat.eqb (len_ ap) 2 then Ok APs else Err 12
  | None =>
    (* bare forms *)
    let single := negb (has_len std) || (match std with VStr _ | VMap _ _ => true | _ => false end) || negb (Nat.eqb (len_ std) 2) in
    let as_pair := if single then false
                   else match actions, std with
                        | [], _ => false
                        | _, VSeq _ (x :: _) => existsb (is_ x) actions
                        | _, _ => false
                        end in
    if negb single && (match actions with [] => true | _ => false end) then Err 13
    else if as_pair then Ok AP
    else match actions with
         | [] => Ok AX
         | _ => if existsb (is_ std) actions then Ok AX
                else if possible_pmf std (length actions) then Ok PM
                else if existsb (eq_ 8 std) actions then Ok AX
                else Err 14
         end
  end end end.

(* has_kwargs (batch 'not'): isinstance(pred[-1], Mapping) *)
Definition has_kwargs (pred : pv) : bool :=
  match pred with VSeq _ l => is_map (last l VNone) | _ => false end.
(* first_row (batch 'not') *)
Definition first_row (pred : pv) (kw : bool) : pv :=
  if kw then match pred with
             | VSeq _ [x; _] => x
             | VSeq i l => VSeq i (removelast l)
             | _ => pred end
  else pred.

(* _parse_pred, batch 'not'.  s is the state of the SafeLearner's own generator. Returns (action, prob, kwargs, new state) *)
Definition parse (actions : list pv) (pred : pv) (s : Z) : res (pv * option pv * pv * Z) :=
  let kw := has_kwargs pred in
  match pred_format (first_row pred kw) actions with
  | Err c => Err c
  | Ok f =>
    let kwargs := if kw then match pred with VSeq _ l => last l VNone | _ => VNone end else VMap 0 [] in
    let p1 := if kw then match pred with VSeq _ [x; _] => x | _ => pred end else pred in
    let p2 := match f with
              | PMs | AXs | APs => match p1 with VMap _ ((_, v) :: _) => v | _ => VNone end
              | _ => p1 end in
    match f with
    | PM | PMs =>
      match p2 with
      | VSeq _ l => match nums l with
                    | Some qs => match choice_w (Z.of_nat (length actions)) qs s with
                                 | (Rng.Ok i, s') => Ok (nth (Z.to_nat i) actions VNone, Some (nth (Z.to_nat i) l VNone), kwargs, s')
                                 | (Rng.Err c, _) => Err (20 + c) end
                    | None => Err 15 end
      | _ => Err 15 end
    | AP | APs => match p2 with VSeq _ (a :: p :: _) => Ok (a, Some p, kwargs, s) | _ => Err 16 end
    | AX | AXs => Ok (p2, None, kwargs, s)
    end
  end.

(* predict: ints 0/1 among the actions are replaced by float objects before the learner sees them *)
Definition make_safe (actions : list pv) : list pv :=
  if existsb (fun a => match a with VInt 0 | VInt 1 => true | VFlt _ q => Qeq_bool q 0 || Qeq_bool q 1 | _ => false end) actions
  then map (fun ia => match snd ia with
                      | VInt 0 => VFlt (1000 + fst ia) 0
                      | VInt 1 => VFlt (1000 + fst ia) 1
                      | a => a end) (combine (seq 0 (length actions)) actions)
  else actions.
