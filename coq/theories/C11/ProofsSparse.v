(* Scale and Impute on sparse contexts, entry by entry. *)
From Coq Require Import ZArith List Bool Arith Lia QArith.
From Coba Require Import C11.Model.
Import ListNotations.
Close Scope Q_scope.

Lemma find_map_key {B} (f : Z -> B) (keys : list Z) k :
  find (fun e : Z * B => (fst e =? k)%Z) (map (fun k0 => (k0, f k0)) keys) = if existsb (Z.eqb k) keys then Some (k, f k) else None.
Proof.
  induction keys as [|h t IH]; [reflexivity|]. cbn [map find existsb fst]. rewrite (Z.eqb_sym k h). destruct (h =? k)%Z eqn:E.
  - apply Z.eqb_eq in E. subst h. reflexivity.
  - cbn [orb]. exact IH.
Qed.
Lemma existsb_eqb_In k l : existsb (Z.eqb k) l = true <-> In k l.
Proof. rewrite existsb_exists. split; [intros [x [Hx E]]; apply Z.eqb_eq in E; subst; exact Hx|intros H; exists k; split; [exact H|apply Z.eqb_refl]]. Qed.
Lemma zdedup_In k : forall l, In k (zdedup l) <-> In k l.
Proof.
  induction l as [|h t IH]; [reflexivity|]. cbn [zdedup]. split.
  - intros [<-|H]; [left; reflexivity|]. apply filter_In in H. right. apply IH. exact (proj1 H).
  - intros [<-|H]; [left; reflexivity|]. destruct (Z.eq_dec k h) as [->|Hne]; [left; reflexivity|]. right. apply filter_In. split; [apply IH; exact H|].
    apply negb_true_iff. apply Z.eqb_neq. exact Hne.
Qed.

Lemma nth_map_lt {A B} (f : A -> B) (l : list A) (d : A) (d' : B) j : (j < length l)%nat -> nth j (map f l) d' = f (nth j l d).
Proof. intros H. rewrite (nth_indep _ d' (f d)) by (rewrite map_length; exact H). apply map_nth. Qed.

(* the keys a sparse filter fits: those that occur in the window and are not excluded by the first row *)
Definition fitted (excluded : list Z) (w : list srow) (k : Z) : bool := existsb (Z.eqb k) (flat_map (map fst) w) && negb (existsb (Z.eqb k) excluded).
Lemma keys_fitted excluded w k :
  existsb (Z.eqb k) (filter (fun k0 => negb (existsb (Z.eqb k0) excluded)) (zdedup (flat_map (map fst) w))) = fitted excluded w k.
Proof.
  unfold fitted. apply eq_true_iff_eq. rewrite andb_true_iff, !existsb_eqb_In, filter_In, zdedup_In. reflexivity.
Qed.

Definition scolumn (w : list srow) (k : Z) : list cell := map (fun r => match sget r k with Some c => c | None => CNum 0 end) w.
Definition unscalable_keys (first : srow) : list Z := map fst (filter (fun p => negb (scalable_first (snd p))) first).

Theorem scale_sparse_entry sh sc usng first rest j i :
  let rows := first :: rest in
  (j < length rows)%nat -> (i < length (nth j rows []))%nat ->
  let p := nth i (nth j rows []) (0%Z, CMiss) in
  length (scale_sparse sh sc usng rows) = length rows /\
  nth i (nth j (scale_sparse sh sc usng rows) []) (0%Z, CMiss) =
  (fst p, apply_ss (if fitted (unscalable_keys first) (window usng rows) (fst p) then shift_and_scale sh sc (scolumn (window usng rows) (fst p)) else None) (snd p)).
Proof.
  intros rows Hj Hi p. unfold scale_sparse. fold rows. cbn [rows]. fold rows. split; [apply map_length|].
  set (w := window usng rows). fold (unscalable_keys first).
  erewrite (nth_map_lt _ rows [] _ j Hj). erewrite (nth_map_lt _ (nth j rows []) (0%Z, CMiss) _ i Hi). fold p. cbn [fst snd]. f_equal.
  rewrite (find_map_key (fun k => shift_and_scale sh sc (map (fun r => match sget r k with Some c => c | None => CNum 0 end) w)) _ (fst p)), keys_fitted.
  fold (scolumn w (fst p)). destruct (fitted _ _ _); reflexivity.
Qed.

Definition spresent (w : list srow) (k : Z) : list cell := flat_map (fun r => match sget r k with Some c => [c] | None => [] end) w.
Definition spadded (w : list srow) (k : Z) : list cell := spresent w k ++ repeat (CNum 0) (length w - length (spresent w k)).
Definition unimputable_keys (st : statk) (first : srow) : list Z := match st with StMode => [] | _ => unscalable_keys first end.

Theorem impute_sparse_entry st ind usng first rest j i :
  let rows := first :: rest in
  (j < length rows)%nat -> (i < length (nth j rows []))%nat ->
  let p := nth i (nth j rows []) (0%Z, CMiss) in
  length (impute_sparse st ind usng rows) = length rows /\
  nth i (nth j (impute_sparse st ind usng rows) []) (0%Z, CMiss) =
  (fst p, match snd p, (if fitted (unimputable_keys st first) (window usng rows) (fst p) then imputation st (spadded (window usng rows) (fst p)) else None)
          with CMiss, Some v => v | c, _ => c end) /\
  exists extra, forall j', (j' < length rows)%nat -> length (nth j' (impute_sparse st ind usng rows) []) = (length (nth j' rows []) + extra)%nat.
Proof.
  intros rows Hj Hi p. unfold impute_sparse. fold rows. cbn [rows]. fold rows. split; [apply map_length|].
  set (w := window usng rows). fold (unscalable_keys first). fold (unimputable_keys st first).
  split.
  - erewrite (nth_map_lt _ rows [] _ j Hj). rewrite app_nth1 by (rewrite map_length; exact Hi). erewrite (nth_map_lt _ (nth j rows []) (0%Z, CMiss) _ i Hi). fold p. cbn [fst snd]. f_equal.
    rewrite (find_map_key (fun k => imputation st (flat_map (fun r => match sget r k with Some c => [c] | None => [] end) w ++ repeat (CNum 0) (length w - length (flat_map (fun r => match sget r k with Some c => [c] | None => [] end) w)))) _ (fst p)), keys_fitted.
    fold (spresent w (fst p)). fold (spadded w (fst p)). destruct (fitted _ _ _); reflexivity.
  - eexists. intros j' Hj'. erewrite (nth_map_lt _ rows [] _ j' Hj'). rewrite app_length, !map_length. reflexivity.
Qed.
