From Coq Require Import ZArith List Bool QArith Lia.
From Coba Require Import Common.Stats C11.Model.
Import ListNotations.
Open Scope Q_scope.

Lemma Qltb_true a b : Qltb a b = true -> a < b.
Proof. unfold Qltb. rewrite negb_true_iff. intros H. apply Qnot_le_lt. intros L. apply Qle_bool_iff in L. congruence. Qed.
Lemma Qltb_false a b : Qltb a b = false -> b <= a.
Proof. unfold Qltb. rewrite negb_false_iff. apply Qle_bool_iff. Qed.

(* ---- min / max are bounds and members *)
Lemma fold_min_spec t : forall m, let r := fold_left (fun m x => if Qltb x m then x else m) t m in
  r <= m /\ (forall x, In x t -> r <= x) /\ In r (m :: t).
Proof.
  induction t as [|h t IH]; intros m; cbn [fold_left].
  - repeat split; [apply Qle_refl|intros x []|left; reflexivity].
  - destruct (Qltb h m) eqn:E.
    + destruct (IH h) as [H1 [H2 H3]]. apply Qltb_true in E. repeat split.
      * eapply Qle_trans; [exact H1|apply Qlt_le_weak; exact E].
      * intros x [<-|Hx]; [exact H1|apply H2; exact Hx].
      * right. exact H3.
    + destruct (IH m) as [H1 [H2 H3]]. apply Qltb_false in E. repeat split.
      * exact H1.
      * intros x [<-|Hx]; [eapply Qle_trans; [exact H1|exact E]|apply H2; exact Hx].
      * destruct H3 as [H3|H3]; [left; exact H3|right; right; exact H3].
Qed.
Lemma qmin_spec vs : vs <> [] -> In (qmin vs) vs /\ forall x, In x vs -> qmin vs <= x.
Proof.
  destruct vs as [|h t]; [congruence|]. intros _. unfold qmin.
  destruct (fold_min_spec t h) as [H1 [H2 H3]]. split; [exact H3|].
  intros x [<-|Hx]; [exact H1|apply H2; exact Hx].
Qed.
Lemma fold_max_spec t : forall m, let r := fold_left (fun m x => if Qltb m x then x else m) t m in
  m <= r /\ (forall x, In x t -> x <= r) /\ In r (m :: t).
Proof.
  induction t as [|h t IH]; intros m; cbn [fold_left].
  - repeat split; [apply Qle_refl|intros x []|left; reflexivity].
  - destruct (Qltb m h) eqn:E.
    + destruct (IH h) as [H1 [H2 H3]]. apply Qltb_true in E. repeat split.
      * eapply Qle_trans; [apply Qlt_le_weak; exact E|exact H1].
      * intros x [<-|Hx]; [exact H1|apply H2; exact Hx].
      * right. exact H3.
    + destruct (IH m) as [H1 [H2 H3]]. apply Qltb_false in E. repeat split.
      * exact H1.
      * intros x [<-|Hx]; [eapply Qle_trans; [exact E|exact H1]|apply H2; exact Hx].
      * destruct H3 as [H3|H3]; [left; exact H3|right; right; exact H3].
Qed.
Lemma qmax_spec vs : vs <> [] -> In (qmax vs) vs /\ forall x, In x vs -> x <= qmax vs.
Proof.
  destruct vs as [|h t]; [congruence|]. intros _. unfold qmax.
  destruct (fold_max_spec t h) as [H1 [H2 H3]]. split; [exact H3|].
  intros x [<-|Hx]; [exact H1|apply H2; exact Hx].
Qed.

(* shift=min, scale=minmax maps every value of the fitting window into [0,1] *)
Lemma minmax_unit vs x : In x vs -> eps <= qmax vs - qmin vs ->
  match shift_value ShMin vs with
  | Some s => match scale_value ScMinMax vs s with
              | Some k => 0 <= (x + s) * k /\ (x + s) * k <= 1
              | None => False end
  | None => False end.
Proof.
  intros Hx Hd. destruct vs as [|h t]; [destruct Hx|].
  assert (Hne : h :: t <> []) by discriminate.
  destruct (qmin_spec _ Hne) as [_ Hmin]. destruct (qmax_spec _ Hne) as [_ Hmax].
  cbn [shift_value scale_value]. set (vs := h :: t) in *.
  assert (Hlt : Qltb (qmax vs - qmin vs) eps = false).
  { unfold Qltb. rewrite negb_false_iff. apply Qle_bool_iff. exact Hd. }
  rewrite Hlt. set (d := qmax vs - qmin vs) in *.
  assert (Hd0 : 0 < d). { eapply Qlt_le_trans; [|exact Hd]. reflexivity. }
  assert (H0 : 0 <= x + - qmin vs). { rewrite <- (Qplus_opp_r (qmin vs)). apply Qplus_le_l. apply Hmin. exact Hx. }
  assert (H1 : x + - qmin vs <= d). { unfold d. apply Qplus_le_l. apply Hmax. exact Hx. }
  split.
  - apply Qmult_le_0_compat; [exact H0|]. apply Qlt_le_weak. unfold Qdiv. rewrite Qmult_1_l. apply Qinv_lt_0_compat. exact Hd0.
  - unfold Qdiv. rewrite Qmult_1_l. apply (Qmult_le_r _ _ d Hd0).
    rewrite <- Qmult_assoc, (Qmult_comm (/ d)), Qmult_inv_r, Qmult_1_r, Qmult_1_l; [exact H1|].
    intros E. rewrite E in Hd0. apply (Qlt_irrefl _ Hd0).
Qed.

(* ---- cell-level behaviour of the dense filters *)
Lemma nth_map_indexed {A B} (f : nat * A -> B) (d : A) (d' : B) : forall (r : list A) i, (i < length r)%nat ->
  nth i (map f (combine (seq 0 (length r)) r)) d' = f (i, nth i r d).
Proof.
  intros r. assert (G : forall k i, (i < length r)%nat -> nth i (map f (combine (seq k (length r)) r)) d' = f ((k + i)%nat, nth i r d)).
  { induction r as [|a r IH]; intros k i Hi; [cbn in Hi; lia|]. cbn [length seq combine map].
    destruct i as [|i]; [cbn [nth]; rewrite Nat.add_0_r; reflexivity|]. cbn [nth]. cbn in Hi.
    rewrite IH by lia. f_equal. f_equal. lia. }
  intros i Hi. rewrite G by exact Hi. reflexivity.
Qed.

(* Scale: every row keeps its length; a numeric cell of a scaled column becomes (x+shift)*scale,
   every other cell is returned unchanged *)
Lemma scale_dense_rows sh sc usng rows : length (scale_dense sh sc usng rows) = length rows.
Proof. destruct rows; [reflexivity|]. unfold scale_dense. apply map_length. Qed.

Lemma nth_map_lt {A B} (g : A -> B) (l : list A) j d d' : (j < length l)%nat -> nth j (map g l) d' = g (nth j l d).
Proof. intros H. rewrite (nth_indep _ d' (g d)) by (rewrite map_length; exact H). apply map_nth. Qed.

Lemma scale_dense_cell sh sc usng first rest j i :
  let rows := first :: rest in
  (j < length rows)%nat -> (i < length (nth j rows []))%nat ->
  let ss := if scalable_first (nth i first CMiss) then shift_and_scale sh sc (column i (window usng rows)) else None in
  nth i (nth j (scale_dense sh sc usng rows) []) CMiss = apply_ss (if (i <? length first)%nat then ss else None) (nth i (nth j rows []) CMiss).
Proof.
  intros rows Hj Hi. cbn zeta. unfold scale_dense. unfold rows at 1. cbv beta iota zeta. fold rows.
  set (sss := map (fun i0 => if scalable_first (nth i0 first CMiss) then shift_and_scale sh sc (column i0 (window usng rows)) else None) (seq 0 (length first))).
  rewrite (nth_map_lt _ rows j []) by exact Hj.
  rewrite (nth_map_indexed _ CMiss CMiss) by exact Hi. cbn [fst snd].
  f_equal.
  destruct (i <? length first)%nat eqn:B.
  - apply Nat.ltb_lt in B. unfold sss.
    rewrite (nth_map_lt _ (seq 0 (length first)) i 0%nat) by (rewrite seq_length; exact B).
    rewrite seq_nth by exact B. reflexivity.
  - apply Nat.ltb_ge in B. apply nth_overflow. unfold sss. rewrite map_length, seq_length. exact B.
Qed.

(* Impute never changes a non-missing value; a missing value of a column that has a statistic
   becomes that statistic; every row gets the same number of 0/1 indicator cells appended *)
Lemma impute_dense_cell st ind usng first rest j i :
  let rows := first :: rest in
  (j < length rows)%nat -> (i < length (nth j rows []))%nat ->
  let imp := if (i <? length first)%nat then (if imputable_first st (nth i first CMiss) then imputation st (column i (window usng rows)) else None) else None in
  nth i (nth j (impute_dense st ind usng rows) []) CMiss =
  match nth i (nth j rows []) CMiss, imp with CMiss, Some v => v | c, _ => c end.
Proof.
  intros rows Hj Hi. cbn zeta. unfold impute_dense. unfold rows at 1. cbv beta iota zeta. fold rows.
  set (imps := map (fun i0 => if imputable_first st (nth i0 first CMiss) then imputation st (column i0 (window usng rows)) else None) (seq 0 (length first))).
  rewrite (nth_map_lt _ rows j []) by exact Hj.
  rewrite app_nth1 by (rewrite map_length, combine_length, seq_length; lia).
  rewrite (nth_map_indexed _ CMiss CMiss) by exact Hi. cbn [fst snd].
  assert (E : nth i imps None = if (i <? length first)%nat then (if imputable_first st (nth i first CMiss) then imputation st (column i (window usng rows)) else None) else None).
  { destruct (i <? length first)%nat eqn:B.
    - apply Nat.ltb_lt in B. unfold imps.
      rewrite (nth_map_lt _ (seq 0 (length first)) i 0%nat) by (rewrite seq_length; exact B).
      rewrite seq_nth by exact B. reflexivity.
    - apply Nat.ltb_ge in B. apply nth_overflow. unfold imps. rewrite map_length, seq_length. exact B. }
  rewrite E. reflexivity.
Qed.

Lemma impute_dense_indicator_count st ind usng first rest j :
  let rows := first :: rest in (j < length rows)%nat ->
  exists k, length (nth j (impute_dense st ind usng rows) []) = (length (nth j rows []) + k)%nat /\
            forall j', (j' < length rows)%nat -> length (nth j' (impute_dense st ind usng rows) []) = (length (nth j' rows []) + k)%nat.
Proof.
  intros rows Hj. unfold impute_dense. unfold rows at 1 3. cbv beta iota zeta. fold rows.
  set (imps := map _ (seq 0 (length first))).
  set (flagged := filter _ (seq 0 (length first))).
  exists (length flagged).
  assert (G : forall j', (j' < length rows)%nat ->
    length (nth j' (map (fun r => map (fun ic => match snd ic, nth (fst ic) imps None with CMiss, Some v => v | c, _ => c end) (combine (seq 0 (length r)) r)
                                  ++ map (fun i => match nth i r CMiss, nth i imps None with CMiss, Some _ => CNum 1 | _, _ => CNum 0 end) flagged) rows) [])
    = (length (nth j' rows []) + length flagged)%nat).
  { intros j' Hj'. rewrite (nth_map_lt _ rows j' []) by exact Hj'.
    rewrite app_length, !map_length, combine_length, seq_length. lia. }
  split; [apply G; exact Hj|exact G].
Qed.
