(* C11 — Scale and Impute apply exactly the statistics of their fitting window.  Property theorems only. *)
From Coq Require Import ZArith List Bool QArith.
From Coba Require Import Common.Stats C11.Model C11.Proofs C11.ProofsSparse.
Import ListNotations.
Open Scope Q_scope.

(* the window statistics: min / max are members and bounds *)
Theorem min_is_member_and_lower_bound : forall vs, vs <> [] -> In (qmin vs) vs /\ forall x, In x vs -> qmin vs <= x.
Proof. exact qmin_spec. Qed.
Print Assumptions min_is_member_and_lower_bound.
Theorem max_is_member_and_upper_bound : forall vs, vs <> [] -> In (qmax vs) vs /\ forall x, In x vs -> x <= qmax vs.
Proof. exact qmax_spec. Qed.
Print Assumptions max_is_member_and_upper_bound.

(* shift='min', scale='minmax': every value of the fitting window lands in [0,1] *)
Theorem minmax_scales_window_to_unit_interval : forall vs x, In x vs -> eps <= qmax vs - qmin vs ->
  match shift_value ShMin vs with
  | Some s => match scale_value ScMinMax vs s with Some k => 0 <= (x + s) * k /\ (x + s) * k <= 1 | None => False end
  | None => False end.
Proof. exact minmax_unit. Qed.
Print Assumptions minmax_scales_window_to_unit_interval.

(* Scale, dense contexts: every numeric cell x of a scaled column becomes (x+shift)*scale with the
   statistics of the first `using` rows; missing / non-numeric cells, row lengths and row order are untouched *)
Theorem scale_applies : forall sh sc usng first rest j i,
  let rows := first :: rest in
  (j < length rows)%nat -> (i < length (nth j rows []))%nat ->
  length (scale_dense sh sc usng rows) = length rows /\
  nth i (nth j (scale_dense sh sc usng rows) []) CMiss =
  apply_ss (if (i <? length first)%nat
            then (if scalable_first (nth i first CMiss) then shift_and_scale sh sc (column i (window usng rows)) else None)
            else None) (nth i (nth j rows []) CMiss).
Proof. exact (fun sh sc usng first rest j i Hj Hi => conj (scale_dense_rows sh sc usng (first :: rest)) (scale_dense_cell sh sc usng first rest j i Hj Hi)). Qed.
Print Assumptions scale_applies.

(* Impute, dense contexts: no non-missing value changes; a missing value of a feature that has a
   window statistic becomes that statistic; all rows receive the same number of indicator cells *)
Theorem impute_spec : forall st ind usng first rest j i,
  let rows := first :: rest in
  (j < length rows)%nat -> (i < length (nth j rows []))%nat ->
  nth i (nth j (impute_dense st ind usng rows) []) CMiss =
  match nth i (nth j rows []) CMiss,
        (if (i <? length first)%nat then (if imputable_first st (nth i first CMiss) then imputation st (column i (window usng rows)) else None) else None)
  with CMiss, Some v => v | c, _ => c end.
Proof. exact impute_dense_cell. Qed.
Print Assumptions impute_spec.

Theorem impute_indicator_width_uniform : forall st ind usng first rest j,
  let rows := first :: rest in (j < length rows)%nat ->
  exists k, length (nth j (impute_dense st ind usng rows) []) = (length (nth j rows []) + k)%nat /\
            forall j', (j' < length rows)%nat -> length (nth j' (impute_dense st ind usng rows) []) = (length (nth j' rows []) + k)%nat.
Proof. exact impute_dense_indicator_count. Qed.
Print Assumptions impute_indicator_width_uniform.

(* Scale, sparse contexts: every entry (key, x) of every row becomes (key, (x+shift)*scale) with the statistics of the key's column over the window, a row that
   does not hold the key counting as 0; keys that do not occur in the window, or whose value in the first row is not numeric, are left alone; no entry is
   added, dropped or re-keyed *)
Theorem scale_sparse_applies : forall sh sc usng first rest j i,
  let rows := first :: rest in
  (j < length rows)%nat -> (i < length (nth j rows []))%nat ->
  let p := nth i (nth j rows []) (0%Z, CMiss) in
  length (scale_sparse sh sc usng rows) = length rows /\
  nth i (nth j (scale_sparse sh sc usng rows) []) (0%Z, CMiss) =
  (fst p, apply_ss (if fitted (unscalable_keys first) (window usng rows) (fst p) then shift_and_scale sh sc (scolumn (window usng rows) (fst p)) else None) (snd p)).
Proof. exact scale_sparse_entry. Qed.
Print Assumptions scale_sparse_applies.

(* Impute, sparse contexts: a missing value of a fitted key becomes the statistic of the values the window holds for that key, padded with zeros to the window
   length; no other value changes; every row receives the same number of indicator entries *)
Theorem impute_sparse_spec : forall st ind usng first rest j i,
  let rows := first :: rest in
  (j < length rows)%nat -> (i < length (nth j rows []))%nat ->
  let p := nth i (nth j rows []) (0%Z, CMiss) in
  length (impute_sparse st ind usng rows) = length rows /\
  nth i (nth j (impute_sparse st ind usng rows) []) (0%Z, CMiss) =
  (fst p, match snd p, (if fitted (unimputable_keys st first) (window usng rows) (fst p) then imputation st (spadded (window usng rows) (fst p)) else None)
          with CMiss, Some v => v | c, _ => c end) /\
  exists extra, forall j', (j' < length rows)%nat -> length (nth j' (impute_sparse st ind usng rows) []) = (length (nth j' rows []) + extra)%nat.
Proof. exact impute_sparse_entry. Qed.
Print Assumptions impute_sparse_spec.

(* the former test isinstance(v,(int,float) or v is None) excluded a column whose first value is
   missing; with the repaired test it is imputed *)
Example impute_first_row_missing :
  impute_dense StMean true None [[CMiss; CNum 1]; [CNum 3; CNum 2]; [CMiss; CNum 4]]
  = [[CNum 3; CNum 1; CNum 1]; [CNum 3; CNum 2; CNum 0]; [CNum 3; CNum 4; CNum 1]].
Proof. vm_compute. reflexivity. Qed.
