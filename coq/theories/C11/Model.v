(* Executable model of Scale and Impute (coba/environments/filters.py) for dense and sparse
   contexts, exact rationals.  std is not modelled (sqrt): it is checked by the oracle only. *)
From Coq Require Import ZArith List Bool QArith Lia.
From Coba Require Import Common.Stats.
Import ListNotations.
Open Scope Q_scope.

Inductive cell := CNum (q : Q) | CMiss | CStr (s : Z).

Inductive shiftk := ShNum (q : Q) | ShMin | ShMean | ShMedian.
Inductive scalek := ScNum (q : Q) | ScMinMax | ScIqr | ScMaxAbs.

Definition nums (col : list cell) : list Q := flat_map (fun c => match c with CNum q => [q] | _ => [] end) col.
Definition has_str (col : list cell) : bool := existsb (fun c => match c with CStr _ => true | _ => false end) col.
Definition has_miss (col : list cell) : bool := existsb (fun c => match c with CMiss => true | _ => false end) col.

(* _get_shift_and_scale: None where the code's computation raises TypeError/ValueError *)
Definition shift_value (k : shiftk) (vs : list Q) : option Q :=
  match k with
  | ShNum q => Some q
  | ShMin => match vs with [] => None | _ => Some (- qmin vs) end
  | ShMean => match vs with [] => None | _ => Some (- qmean vs) end
  | ShMedian => match vs with [] => None | _ => Some (- qmedian vs) end
  end.
Definition eps : Q := 1 # 1000000.
Definition scale_value (k : scalek) (vs : list Q) (shift : Q) : option Q :=
  let fin := fun (num den : Q) => if Qltb den eps then num else num / den in
  match k with
  | ScNum q => Some q
  | ScMinMax => match vs with [] => None | _ => Some (fin 1 (qmax vs - qmin vs)) end
  | ScIqr => Some (fin 1 (qiqr vs))
  | ScMaxAbs => match vs with [] => None | _ => Some (fin 1 (qmax (map (fun v => qabs (shift + v)) vs))) end
  end.
Definition shift_and_scale (sh : shiftk) (sc : scalek) (col : list cell) : option (Q * Q) :=
  if has_str col then None
  else let vs := nums col in
       match shift_value sh vs with
       | None => None
       | Some s => match scale_value sc vs s with None => None | Some c => Some (s, c) end
       end.

Definition window {A} (usng : option nat) (rows : list A) : list A :=
  match usng with None => rows | Some n => firstn n rows end.

Definition apply_ss (ss : option (Q * Q)) (c : cell) : cell :=
  match ss, c with Some (s, k), CNum x => CNum ((x + s) * k) | _, _ => c end.

(* ---- dense *)
Definition column (i : nat) (rows : list (list cell)) : list cell := map (fun r => nth i r CMiss) rows.
Definition scalable_first (c : cell) : bool := match c with CStr _ => false | _ => true end.

Definition scale_dense (sh : shiftk) (sc : scalek) (usng : option nat) (rows : list (list cell)) : list (list cell) :=
  match rows with
  | [] => []
  | first :: _ =>
    let w := window usng rows in
    let sss := map (fun i => if scalable_first (nth i first CMiss) then shift_and_scale sh sc (column i w) else None) (seq 0 (length first)) in
    map (fun r => map (fun ic => apply_ss (nth (fst ic) sss None) (snd ic)) (combine (seq 0 (length r)) r)) rows
  end.

(* ---- sparse: rows are association lists; a key absent from a row counts as 0 in the statistics *)
Definition srow := list (Z * cell).
Definition sget (r : srow) (k : Z) : option cell := option_map snd (find (fun p => (fst p =? k)%Z) r).
Fixpoint zdedup (l : list Z) : list Z :=
  match l with [] => [] | h :: t => h :: filter (fun x => negb (x =? h)%Z) (zdedup t) end.
Definition scale_sparse (sh : shiftk) (sc : scalek) (usng : option nat) (rows : list srow) : list srow :=
  match rows with
  | [] => []
  | first :: _ =>
    let w := window usng rows in
    let unscalable := map fst (filter (fun p => negb (scalable_first (snd p))) first) in
    let keys := filter (fun k => negb (existsb (Z.eqb k) unscalable)) (zdedup (flat_map (map fst) w)) in
    let ss := map (fun k => (k, shift_and_scale sh sc (map (fun r => match sget r k with Some c => c | None => CNum 0 end) w))) keys in
    map (fun r => map (fun p => (fst p, apply_ss (match find (fun e => (fst e =? fst p)%Z) ss with Some e => snd e | None => None end) (snd p))) r) rows
  end.

(* ---- Impute *)
Inductive statk := StMean | StMedian | StMode.

(* statistics.mode: the first value with the highest count (cells compared structurally) *)
Definition cell_eqb (a b : cell) : bool :=
  match a, b with
  | CNum x, CNum y => Qeq_bool x y
  | CStr x, CStr y => (x =? y)%Z
  | CMiss, CMiss => true
  | _, _ => false
  end.
Definition cmode (vs : list cell) : option cell :=
  let cnt := fun v => length (filter (cell_eqb v) vs) in
  match vs with
  | [] => None
  | h :: t => Some (fold_left (fun best v => if Nat.ltb (cnt best) (cnt v) then v else best) t h)
  end.

Definition imputation (st : statk) (col : list cell) : option cell :=
  let vals := filter (fun c => match c with CMiss => false | _ => true end) col in
  match st with
  | StMode => cmode vals
  | StMean => if has_str vals then None else match nums vals with [] => None | vs => Some (CNum (qmean vs)) end
  | StMedian => if has_str vals then None else match nums vals with [] => None | vs => Some (CNum (qmedian vs)) end
  end.

Definition imputable_first (st : statk) (c : cell) : bool :=
  match st with StMode => true | _ => scalable_first c end.

Definition impute_dense (st : statk) (indicator : bool) (usng : option nat) (rows : list (list cell)) : list (list cell) :=
  match rows with
  | [] => []
  | first :: _ =>
    let w := window usng rows in
    let imps := map (fun i => if imputable_first st (nth i first CMiss) then imputation st (column i w) else None) (seq 0 (length first)) in
    let flagged := filter (fun i => indicator && (match nth i imps None with Some _ => true | None => false end) && has_miss (column i w)) (seq 0 (length first)) in
    map (fun r =>
           let r' := map (fun ic => match snd ic, nth (fst ic) imps None with CMiss, Some v => v | c, _ => c end) (combine (seq 0 (length r)) r) in
           r' ++ map (fun i => match nth i r CMiss, nth i imps None with CMiss, Some _ => CNum 1 | _, _ => CNum 0 end) flagged) rows
  end.

(* sparse: statistics over the rows of the window that have the key, padded with zeros to the window length *)
Definition impute_sparse (st : statk) (indicator : bool) (usng : option nat) (rows : list srow) : list srow :=
  match rows with
  | [] => []
  | first :: _ =>
    let w := window usng rows in
    let unimp := match st with StMode => [] | _ => map fst (filter (fun p => negb (scalable_first (snd p))) first) end in
    let keys := filter (fun k => negb (existsb (Z.eqb k) unimp)) (zdedup (flat_map (map fst) w)) in
    let colof := fun k => flat_map (fun r => match sget r k with Some c => [c] | None => [] end) w in
    let imps := map (fun k => let col := colof k in (k, imputation st (col ++ repeat (CNum 0) (length w - length col)))) keys in
    let impof := fun k => match find (fun e => (fst e =? k)%Z) imps with Some e => snd e | None => None end in
    let flagged := filter (fun k => indicator && (match impof k with Some _ => true | None => false end) && has_miss (colof k)) keys in
    map (fun r =>
           map (fun p => (fst p, match snd p, impof (fst p) with CMiss, Some v => v | c, _ => c end)) r
           ++ map (fun k => ((k + 1000)%Z, match sget r k, impof k with Some CMiss, Some _ => CNum 1 | _, _ => CNum 0 end)) flagged) rows
  end.
