From Coq Require Import ZArith List Bool QArith.
From Coba Require Import Common.Sx C11.Model.
Import ListNotations.
Open Scope Z_scope.

Definition dec_cell (x : sx) : cell :=
  match as_z (nth_sx 0 x) with 0 => CNum (as_q (nth_sx 1 x)) | 1 => CMiss | _ => CStr (as_z (nth_sx 1 x)) end.
Definition enc_cell (c : cell) : sx :=
  match c with CNum q => L_ [Z_ 0; of_q q] | CMiss => L_ [Z_ 1] | CStr s => L_ [Z_ 2; Z_ s] end.
Definition dec_shift (x : sx) : shiftk :=
  match as_z (nth_sx 0 x) with 0 => ShNum (as_q (nth_sx 1 x)) | 1 => ShMin | 2 => ShMean | _ => ShMedian end.
Definition dec_scale (x : sx) : scalek :=
  match as_z (nth_sx 0 x) with 0 => ScNum (as_q (nth_sx 1 x)) | 1 => ScMinMax | 2 => ScIqr | _ => ScMaxAbs end.
Definition dec_stat (z : Z) : statk := match z with 0 => StMean | 1 => StMedian | _ => StMode end.
Definition dec_rows (x : sx) : list (list cell) := map (fun r => map dec_cell (as_l r)) (as_l x).
Definition dec_srows (x : sx) : list srow := map (fun r => map (fun p => (as_z (nth_sx 0 p), dec_cell (nth_sx 1 p))) (as_l r)) (as_l x).
Definition enc_rows (rs : list (list cell)) : sx := L_ (map (fun r => L_ (map enc_cell r)) rs).
Definition enc_srows (rs : list srow) : sx := L_ (map (fun r => L_ (map (fun p => L_ [Z_ (fst p); enc_cell (snd p)]) r)) rs).

Definition run (x : sx) : sx :=
  let a := fun n => nth_sx n x in
  match as_z (a 0%nat) with
  | 0 => enc_rows (scale_dense (dec_shift (a 1%nat)) (dec_scale (a 2%nat)) (as_opt as_nat (a 3%nat)) (dec_rows (a 4%nat)))
  | 1 => enc_srows (scale_sparse (dec_shift (a 1%nat)) (dec_scale (a 2%nat)) (as_opt as_nat (a 3%nat)) (dec_srows (a 4%nat)))
  | 2 => enc_rows (impute_dense (dec_stat (as_z (a 1%nat))) (as_bool (a 2%nat)) (as_opt as_nat (a 3%nat)) (dec_rows (a 4%nat)))
  | _ => enc_srows (impute_sparse (dec_stat (as_z (a 1%nat))) (as_bool (a 2%nat)) (as_opt as_nat (a 3%nat)) (dec_srows (a 4%nat)))
  end.
