From Coq Require Import ZArith List Bool QArith Lia Lqa.
From Coba Require Import Common.Stats C11.Proofs C16.Model.
Import ListNotations.
Open Scope Q_scope.

Definition valid_pmf (pmf : list Q) : Prop := Forall (fun p => 0 <= p) pmf /\ qsum pmf == 1.

Lemma qn_S n : qn (S n) == qn n + 1.
Proof. unfold qn. rewrite Nat2Z.inj_succ. unfold Z.succ. rewrite inject_Z_plus. reflexivity. Qed.
Lemma qn_nonneg n : 0 <= qn n.
Proof. unfold qn. change 0 with (inject_Z 0). rewrite <- Zle_Qle. lia. Qed.
Lemma qn_pos n : (0 < n)%nat -> 0 < qn n.
Proof. intros H. unfold qn. change 0 with (inject_Z 0). rewrite <- Zlt_Qlt. lia. Qed.

Lemma qsum_cons x l : qsum (x :: l) = x + qsum l.
Proof. reflexivity. Qed.

Lemma qsum_map_affine (a b : Q) l : qsum (map (fun d => a + d * b) l) == qn (length l) * a + b * qsum l.
Proof.
  induction l as [|d l IH]; [cbn; unfold qn; cbn; ring|].
  cbn [map length]. rewrite !qsum_cons, IH, qn_S. ring.
Qed.
Lemma qsum_map_scale (b : Q) l : qsum (map (fun d => d * b) l) == b * qsum l.
Proof. induction l as [|d l IH]; [cbn; ring|]. cbn [map]. rewrite !qsum_cons, IH. ring. Qed.
Lemma qsum_repeat c n : qsum (repeat c n) == qn n * c.
Proof. induction n as [|n IH]; [cbn; unfold qn; cbn; ring|]. cbn [repeat]. rewrite qsum_cons, IH, qn_S. ring. Qed.
Lemma qsum_nonneg l : Forall (fun p => 0 <= p) l -> 0 <= qsum l.
Proof. induction 1 as [|x l Hx _ IH]; [cbn; apply Qle_refl|]. rewrite qsum_cons. rewrite <- (Qplus_0_r 0). apply Qplus_le_compat; assumption. Qed.

Lemma qsum_map_ext {A} (f g : A -> Q) l : (forall x, f x == g x) -> qsum (map f l) == qsum (map g l).
Proof. intros H. induction l as [|x l IH]; [reflexivity|]. cbn [map]. rewrite !qsum_cons, IH, H. reflexivity. Qed.

(* ---- Random *)
Lemma random_pmf_valid n : (0 < n)%nat -> valid_pmf (random_pmf n) /\ length (random_pmf n) = n.
Proof.
  intros Hn. pose proof (qn_pos n Hn) as Hp. unfold random_pmf. repeat split.
  - apply Forall_forall. intros p Hp'. apply repeat_spec in Hp'. subst. apply Qlt_le_weak. apply Qlt_shift_div_l; [exact Hp|]. rewrite Qmult_0_l. reflexivity.
  - rewrite qsum_repeat. field. intros E. rewrite E in Hp. apply (Qlt_irrefl _ Hp).
  - apply repeat_length.
Qed.

(* ---- greedy indicators *)
Lemma ind_nonneg b : 0 <= ind b. Proof. destruct b; cbn; discriminate. Qed.
Lemma argmax_ind_nonneg values : Forall (fun p => 0 <= p) (argmax_ind values).
Proof. unfold argmax_ind. apply Forall_forall. intros p Hp. apply in_map_iff in Hp. destruct Hp as [v [<- _]]. apply ind_nonneg. Qed.
Lemma qsum_ge_member x l : Forall (fun p => 0 <= p) l -> In x l -> x <= qsum l.
Proof.
  induction 1 as [|y l Hy Hl IH]; intros Hin; [destruct Hin|]. rewrite qsum_cons. destruct Hin as [->|Hin].
  - rewrite <- (Qplus_0_r x) at 1. apply Qplus_le_r. apply qsum_nonneg. exact Hl.
  - rewrite <- (Qplus_0_l x). apply Qplus_le_compat; [exact Hy|apply IH; exact Hin].
Qed.
Lemma argmax_ind_sum_pos values : values <> [] -> 1 <= qsum (argmax_ind values).
Proof.
  intros Hne. destruct (qmax_spec values Hne) as [Hin _].
  apply (qsum_ge_member 1 _ (argmax_ind_nonneg values)).
  unfold argmax_ind. apply in_map_iff. exists (qmax values). split; [|exact Hin].
  assert (E : Qeq_bool (qmax values) (qmax values) = true) by (apply Qeq_bool_iff; reflexivity). rewrite E. reflexivity.
Qed.

(* ---- BanditEpsilon *)
Lemma epsilon_pmf_valid eps values : values <> [] -> 0 <= eps -> eps <= 1 ->
  valid_pmf (epsilon_pmf eps values) /\ length (epsilon_pmf eps values) = length values.
Proof.
  intros Hne H0 H1. unfold epsilon_pmf.
  set (d := argmax_ind values). set (k := qsum d). set (n := qn (length values)).
  assert (Hk : 1 <= k) by (apply argmax_ind_sum_pos; exact Hne).
  assert (Hk0 : 0 < k) by (eapply Qlt_le_trans; [|exact Hk]; reflexivity).
  assert (Hn : 0 < n). { unfold n. apply qn_pos. destruct values; [congruence|cbn; lia]. }
  assert (Hd : Forall (fun p => 0 <= p) d) by apply argmax_ind_nonneg.
  repeat split.
  - apply Forall_forall. intros p Hp. apply in_map_iff in Hp. destruct Hp as [di [<- Hdi]].
    rewrite Forall_forall in Hd. specialize (Hd di Hdi).
    rewrite <- (Qplus_0_r 0). apply Qplus_le_compat.
    + apply Qmult_le_0_compat; [|exact H0]. apply Qlt_le_weak. apply Qlt_shift_div_l; [exact Hn|]. rewrite Qmult_0_l. reflexivity.
    + apply Qmult_le_0_compat; [|lra]. apply Qle_shift_div_l; [exact Hk0|]. rewrite Qmult_0_l. exact Hd.
  - rewrite (qsum_map_ext _ (fun di => 1 / n * eps + di * ((1 - eps) / k))).
    + rewrite qsum_map_affine. fold k. unfold d, argmax_ind at 1. rewrite map_length. fold n. field.
      repeat split; intros E; first [rewrite E in Hk0; exact (Qlt_irrefl _ Hk0)|rewrite E in Hn; exact (Qlt_irrefl _ Hn)].
    + intros di. field.
      repeat split; intros E; first [rewrite E in Hk0; exact (Qlt_irrefl _ Hk0)|rewrite E in Hn; exact (Qlt_irrefl _ Hn)].
  - rewrite map_length. unfold d, argmax_ind. apply map_length.
Qed.

(* ---- BanditUCB: valid whatever the confidence values are *)
Lemma uniform_over_valid (d : list Q) : Forall (fun p => 0 <= p) d -> 0 < qsum d -> valid_pmf (map (fun di => di / qsum d) d).
Proof.
  intros Hd Hk. split.
  - apply Forall_forall. intros p Hp. apply in_map_iff in Hp. destruct Hp as [di [<- Hdi]]. rewrite Forall_forall in Hd.
    apply Qle_shift_div_l; [exact Hk|]. rewrite Qmult_0_l. apply Hd. exact Hdi.
  - rewrite (qsum_map_ext _ (fun di => di * (1 / qsum d))) by (intros; field; intros E; rewrite E in Hk; apply (Qlt_irrefl _ Hk)).
    rewrite qsum_map_scale. field. intros E; rewrite E in Hk; apply (Qlt_irrefl _ Hk).
Qed.

Lemma ind_list_sum_pos (bs : list bool) : existsb (fun b => b) bs = true -> 1 <= qsum (map ind bs).
Proof.
  intros H. apply existsb_exists in H. destruct H as [b [Hin Hb]]. subst b.
  apply (qsum_ge_member 1); [apply Forall_forall; intros p Hp; apply in_map_iff in Hp; destruct Hp as [b [<- _]]; apply ind_nonneg|].
  apply in_map_iff. exists true. split; [reflexivity|exact Hin].
Qed.

Lemma ucb_pmf_valid unseen values : values <> [] -> length unseen = length values ->
  valid_pmf (ucb_pmf unseen values) /\ length (ucb_pmf unseen values) = length values.
Proof.
  intros Hne Hlen. unfold ucb_pmf. destruct (existsb (fun b => b) unseen) eqn:E.
  - split; [|rewrite map_length; exact Hlen].
    pose proof (ind_list_sum_pos unseen E) as Hk.
    rewrite <- (map_map ind (fun di => di / qsum (map ind unseen))).
    apply uniform_over_valid; [apply Forall_forall; intros p Hp; apply in_map_iff in Hp; destruct Hp as [b [<- _]]; apply ind_nonneg|].
    eapply Qlt_le_trans; [|exact Hk]. reflexivity.
  - split; [|rewrite map_length; unfold argmax_ind; apply map_length].
    apply uniform_over_valid; [apply argmax_ind_nonneg|]. eapply Qlt_le_trans; [|apply argmax_ind_sum_pos; exact Hne]. reflexivity.
Qed.

(* ---- Corral: the mixture of the base learners' choices *)
Lemma qsum_map_plus {A} (f g : A -> Q) l : qsum (map (fun x => f x + g x) l) == qsum (map f l) + qsum (map g l).
Proof. induction l as [|x l IH]; [cbn; ring|]. cbn [map]. rewrite !qsum_cons, IH. ring. Qed.
Lemma qsum_app a b : qsum (a ++ b) == qsum a + qsum b.
Proof. induction a as [|x a IH]; [change (qsum b == 0 + qsum b); ring|]. cbn [app]. rewrite !qsum_cons, IH. ring. Qed.
Lemma qsum_ind_lt b n : qsum (map (fun a => ind (Nat.eqb a b)) (seq 0 n)) == ind (b <? n)%nat.
Proof.
  induction n as [|n IH]; [reflexivity|]. rewrite seq_S, map_app, qsum_app, IH. cbn [Nat.add map]. rewrite qsum_cons. cbn [qsum fold_right].
  destruct (Nat.eqb n b) eqn:E.
  - apply Nat.eqb_eq in E. subst. replace (b <? b)%nat with false by (symmetry; apply Nat.ltb_ge; lia).
    replace (b <? S b)%nat with true by (symmetry; apply Nat.ltb_lt; lia). cbn. ring.
  - apply Nat.eqb_neq in E. destruct (b <? n)%nat eqn:E1.
    + apply Nat.ltb_lt in E1. replace (b <? S n)%nat with true by (symmetry; apply Nat.ltb_lt; lia). cbn. ring.
    + apply Nat.ltb_ge in E1. replace (b <? S n)%nat with false by (symmetry; apply Nat.ltb_ge; lia). cbn. ring.
Qed.
Lemma qsum_ind_eq n b : (b < n)%nat -> qsum (map (fun a => ind (Nat.eqb a b)) (seq 0 n)) == 1.
Proof. intros H. rewrite qsum_ind_lt. replace (b <? n)%nat with true by (symmetry; apply Nat.ltb_lt; exact H). reflexivity. Qed.

Lemma qsum_map_scale_gen {A} (f : A -> Q) (c : Q) l : qsum (map (fun a => f a * c) l) == c * qsum (map f l).
Proof. induction l as [|x l IH]; [cbn; ring|]. cbn [map]. rewrite !qsum_cons, IH. ring. Qed.
Lemma qsum_map_zero {A} (l : list A) : qsum (map (fun _ => 0) l) == 0.
Proof. induction l as [|x l IH]; [reflexivity|]. cbn [map]. rewrite qsum_cons, IH. ring. Qed.

(* exchanging the two sums: every base learner's mass lands on exactly one action *)
Lemma corral_mass n : forall (ps : list Q) (bs : list nat), length ps = length bs -> Forall (fun b => (b < n)%nat) bs ->
  qsum (map (fun a => qsum (map (fun pb : Q * nat => fst pb * ind (Nat.eqb a (snd pb))) (combine ps bs))) (seq 0 n)) == qsum ps.
Proof.
  induction ps as [|p ps IH]; intros [|b bs] Hl Hb; cbn in Hl; try lia.
  - cbn [combine map]. rewrite (qsum_map_ext _ (fun _ => 0)) by (intros; reflexivity). apply qsum_map_zero.
  - inversion Hb as [|? ? Hb1 Hb2]; subst. cbn [combine map].
    rewrite (qsum_map_ext _ (fun a => ind (Nat.eqb a b) * p + qsum (map (fun pb : Q * nat => fst pb * ind (Nat.eqb a (snd pb))) (combine ps bs)))) by (intros; rewrite qsum_cons; cbn [fst snd]; ring).
    rewrite qsum_map_plus, qsum_map_scale_gen, (qsum_ind_eq n b Hb1), IH by (try lia; assumption). rewrite qsum_cons. ring.
Qed.

Lemma corral_pmf_valid n p_bars base_actions : length p_bars = length base_actions ->
  Forall (fun p => 0 <= p) p_bars -> qsum p_bars == 1 -> Forall (fun b => (b < n)%nat) base_actions ->
  valid_pmf (corral_pmf n p_bars base_actions) /\ length (corral_pmf n p_bars base_actions) = n.
Proof.
  intros Hlen Hpos Hsum Hin. unfold corral_pmf. split; [|rewrite map_length, seq_length; reflexivity]. split.
  - apply Forall_forall. intros p Hp. apply in_map_iff in Hp. destruct Hp as [a [<- _]]. apply qsum_nonneg.
    apply Forall_forall. intros q Hq. apply in_map_iff in Hq. destruct Hq as [[pb ba] [<- Hpb]]. cbn [fst snd].
    apply Qmult_le_0_compat; [|apply ind_nonneg]. rewrite Forall_forall in Hpos. apply Hpos. apply in_combine_l in Hpb. exact Hpb.
  - rewrite corral_mass by assumption. exact Hsum.
Qed.

(* ---- Corral's log-barrier step: below the first pole every new weight is positive; the smoothing keeps a positive distribution *)
Lemma omd_step_positive ps etas losses lambda : length ps = length etas -> length ps = length losses ->
  Forall (fun t => match t with (p, eta, loss) => 0 < p /\ 0 < eta /\ lambda < loss + 1 / (p * eta) end) (combine (combine ps etas) losses) ->
  Forall (fun p => 0 < p) (omd_step ps etas losses lambda).
Proof.
  intros _ _ H. unfold omd_step. apply Forall_forall. intros q Hq. apply in_map_iff in Hq. destruct Hq as [[[p eta] loss] [<- Hin]].
  rewrite Forall_forall in H. specialize (H _ Hin). cbn in H. destruct H as [Hp [He Hl]].
  assert (Hden : 0 < 1 / p + eta * (loss - lambda)).
  { assert (Hpe : 0 < p * eta) by (apply Qmult_lt_0_compat; assumption).
    assert (E : 1 / p + eta * (loss - lambda) == eta * (loss + 1 / (p * eta) - lambda)).
    { field. split; intros Z; [rewrite Z in He; apply (Qlt_irrefl _ He)|rewrite Z in Hp; apply (Qlt_irrefl _ Hp)]. }
    rewrite E. apply Qmult_lt_0_compat; [exact He|lra]. }
  apply Qlt_shift_div_l; [exact Hden|]. rewrite Qmult_0_l. reflexivity.
Qed.

Lemma p_bars_positive gamma ps : ps <> [] -> 0 <= gamma -> gamma <= 1 -> Forall (fun p => 0 < p) ps -> qsum ps == 1 ->
  Forall (fun p => 0 < p) (p_bars_of gamma ps) /\ qsum (p_bars_of gamma ps) == 1.
Proof.
  intros Hne G0 G1 Hpos Hsum. unfold p_bars_of.
  assert (Hn : 0 < qn (length ps)) by (apply qn_pos; destruct ps; [congruence|cbn; lia]).
  split.
  - apply Forall_forall. intros q Hq. apply in_map_iff in Hq. destruct Hq as [p [<- Hp]]. rewrite Forall_forall in Hpos. specialize (Hpos p Hp).
    assert (H1 : 0 <= (1 - gamma) * p) by (apply Qmult_le_0_compat; lra).
    assert (H2 : 0 <= gamma * (1 / qn (length ps))).
    { apply Qmult_le_0_compat; [exact G0|]. apply Qlt_le_weak. apply Qlt_shift_div_l; [exact Hn|]. rewrite Qmult_0_l. reflexivity. }
    destruct (Qlt_le_dec gamma 1) as [L|L].
    + assert (0 < (1 - gamma) * p) by (apply Qmult_lt_0_compat; lra). lra.
    + assert (Eg : gamma == 1) by lra.
      assert (0 < gamma * (1 / qn (length ps))).
      { apply Qmult_lt_0_compat; [lra|]. apply Qlt_shift_div_l; [exact Hn|]. rewrite Qmult_0_l. reflexivity. }
      lra.
  - rewrite (qsum_map_ext _ (fun p => gamma * (1 / qn (length ps)) + p * (1 - gamma))) by (intros; ring).
    rewrite qsum_map_affine, Hsum. field. intros Z; rewrite Z in Hn; apply (Qlt_irrefl _ Hn).
Qed.
