(* C16 — Built-in learners always return a valid, self-consistent distribution.  Property theorems only.
   Validity holds for EVERY internal state (value estimates, counts, confidence values), hence after every history. *)
From Coq Require Import ZArith List Bool QArith.
From Coba Require Import Generated.C05_gen Common.Rng Common.Stats C15.Proofs C16.Model C16.Proofs.
Import ListNotations.
Open Scope Q_scope.

Theorem random_policy_valid : forall n, (0 < n)%nat -> valid_pmf (random_pmf n) /\ length (random_pmf n) = n.
Proof. exact random_pmf_valid. Qed.
Print Assumptions random_policy_valid.

Theorem epsilon_policy_valid : forall eps values, values <> [] -> 0 <= eps -> eps <= 1 ->
  valid_pmf (epsilon_pmf eps values) /\ length (epsilon_pmf eps values) = length values.
Proof. exact epsilon_pmf_valid. Qed.
Print Assumptions epsilon_policy_valid.

Theorem ucb_policy_valid : forall unseen values, values <> [] -> length unseen = length values ->
  valid_pmf (ucb_pmf unseen values) /\ length (ucb_pmf unseen values) = length values.
Proof. exact ucb_pmf_valid. Qed.
Print Assumptions ucb_policy_valid.

Theorem corral_policy_valid : forall n p_bars base_actions, length p_bars = length base_actions ->
  Forall (fun p => 0 <= p) p_bars -> qsum p_bars == 1 -> Forall (fun b => (b < n)%nat) base_actions ->
  valid_pmf (corral_pmf n p_bars base_actions) /\ length (corral_pmf n p_bars base_actions) = n.
Proof. exact corral_pmf_valid. Qed.
Print Assumptions corral_policy_valid.

(* Corral's weights stay strictly positive: the log-barrier step below the first pole, then the smoothing *)
Theorem corral_weights_positive : forall ps etas losses lambda, length ps = length etas -> length ps = length losses ->
  Forall (fun t => match t with (p, eta, loss) => 0 < p /\ 0 < eta /\ lambda < loss + 1 / (p * eta) end) (combine (combine ps etas) losses) ->
  Forall (fun p => 0 < p) (omd_step ps etas losses lambda).
Proof. exact omd_step_positive. Qed.
Print Assumptions corral_weights_positive.
Theorem corral_smoothing_keeps_distribution : forall gamma ps, ps <> [] -> 0 <= gamma -> gamma <= 1 -> Forall (fun p => 0 < p) ps -> qsum ps == 1 ->
  Forall (fun p => 0 < p) (p_bars_of gamma ps) /\ qsum (p_bars_of gamma ps) == 1.
Proof. exact p_bars_positive. Qed.
Print Assumptions corral_smoothing_keeps_distribution.

(* predict: the action is drawn from the PMF by CobaRandom.choicew; the index is in range and its probability is positive (C05, strict comparison) *)
Theorem predict_consistent : forall (pmf : list Q) s, pmf <> [] -> Forall (fun w => 0 <= w) pmf -> 0 < Rng.qsum pmf -> choice_strict = true ->
  exists i, choice_w (Z.of_nat (length pmf)) pmf s = (Rng.Ok (Z.of_nat i), next s) /\ (i < length pmf)%nat /\ 0 < nth i pmf 0.
Proof. exact pmf_draw_positive. Qed.
Print Assumptions predict_consistent.

Example epsilon_example : epsilon_pmf (1#10) [0; 1#2; 1#2] = [ 1 / 3 * (1#10) + 0 / 2 * (1 - (1#10)); 1 / 3 * (1#10) + 1 / 2 * (1 - (1#10)); 1 / 3 * (1#10) + 1 / 2 * (1 - (1#10)) ].
Proof. reflexivity. Qed.
