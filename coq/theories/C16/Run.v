From Coq Require Import ZArith List Bool QArith.
From Coba Require Import Common.Sx C16.Model.
Import ListNotations.
Open Scope Z_scope.
Definition qs (x : sx) : list Q := map as_q (as_l x).
Definition run (x : sx) : sx :=
  let a := fun n => nth_sx n x in
  L_ (map of_q
    match as_z (a 0%nat) with
    | 0 => epsilon_pmf (as_q (a 1%nat)) (qs (a 2%nat))
    | 1 => ucb_pmf (map as_bool (as_l (a 1%nat))) (qs (a 2%nat))
    | 2 => corral_pmf (as_nat (a 1%nat)) (qs (a 2%nat)) (as_nats (a 3%nat))
    | 3 => omd_step (qs (a 1%nat)) (qs (a 2%nat)) (qs (a 3%nat)) (as_q (a 4%nat))
    | _ => random_pmf (as_nat (a 1%nat))
    end).
