(* Policies of the built-in learners (coba/learners/bandit.py, corral.py) as exact-rational PMFs.
   BanditUCB's confidence bonus (sqrt/log) is not modelled: its PMF is a function of the list of
   upper-confidence values, whatever they are.  Corral's log-barrier update is modelled for a given
   multiplier lambda (the root search itself is oracle-checked). *)
From Coq Require Import ZArith List Bool QArith Lia.
From Coba Require Import Common.Stats.
Import ListNotations.
Open Scope Q_scope.

Definition ind (b : bool) : Q := if b then 1 else 0.
Definition qn (n : nat) : Q := inject_Z (Z.of_nat n).

(* RandomLearner *)
Definition random_pmf (n : nat) : list Q := repeat (1 / qn n) n.

(* greedy indicator: which entries equal the maximum *)
Definition argmax_ind (values : list Q) : list Q := map (fun v => ind (Qeq_bool v (qmax values))) values.

(* BanditEpsilonLearner._pmf *)
Definition epsilon_pmf (eps : Q) (values : list Q) : list Q :=
  let n := qn (length values) in
  let d := argmax_ind values in
  let k := qsum d in
  map (fun di => 1 / n * eps + di / k * (1 - eps)) d.

(* BanditUCBLearner._pmf: uniform over the never observed actions, else over the arg-max of the UCB values *)
Definition ucb_pmf (unseen : list bool) (values : list Q) : list Q :=
  if existsb (fun b => b) unseen
  then let k := qsum (map ind unseen) in map (fun b => ind b / k) unseen
  else let d := argmax_ind values in let k := qsum d in map (fun di => di / k) d.

(* CorralLearner._pmf: the mass of every base learner goes to the action it chose *)
Definition corral_pmf (n_actions : nat) (p_bars : list Q) (base_actions : list nat) : list Q :=
  map (fun a => qsum (map (fun pb => fst pb * ind (Nat.eqb a (snd pb))) (combine p_bars base_actions))) (seq 0 n_actions).

(* log-barrier OMD step for a given lambda, and the smoothing *)
Definition omd_step (ps etas losses : list Q) (lambda : Q) : list Q :=
  map (fun t => match t with (p, eta, loss) => 1 / (1 / p + eta * (loss - lambda)) end) (combine (combine ps etas) losses).
Definition p_bars_of (gamma : Q) (ps : list Q) : list Q := map (fun p => (1 - gamma) * p + gamma * (1 / qn (length ps))) ps.

(* BanditEpsilonLearner.learn: running mean *)
Definition eps_learn (q : Q) (n : nat) (reward : Q) : Q * nat :=
  let alpha := 1 / qn (n + 1) in ((1 - alpha) * q + alpha * reward, S n).
