(* C01 — Experiment results do not depend on execution configuration.  Property theorems only (model: Exp/Model.v). *)
From Coq Require Import List Arith Bool Permutation.
From Coba Require Import Generated.Exp_gen Exp.Model Exp.Proofs.
Import ListNotations.

(* the shape of MakeTasks.read / ProcessTasks.filter that Exp/Model.v assumes is the one the translator found in the source on this run *)
Theorem source_shape : (gen_copy_when_count_exceeds, gen_count_basis_is_triples, gen_ids_by_first_appearance, gen_rows_materialised_before_yield, gen_per_task_handler) = (1, true, true, true, true).
Proof. reflexivity. Qed.

(* Two executions of the same experiment that differ in processes / maxchunksperchild / maxtasksperchunk / the schedule of the workers differ, in the
   model, only in how a permutation of the same tasks is cut into groups evaluated on fresh objects. They record the same rows for the same triples;
   since the Result tables are rebuilt sorted by ids (C07) the Results are identical. Running the experiment again is the case groups1 = groups2. *)
Theorem configuration_independence : forall (rows lstate : Type) (evalf : nat -> lstate -> nat -> option rows * lstate) (pristine : nat -> lstate) triples groups1 groups2,
  Permutation (concat groups1) (make_tasks triples) -> Permutation (concat groups2) (make_tasks triples) ->
  forall k r, In (k, r) (run_groups rows lstate evalf pristine groups1) <-> In (k, r) (run_groups rows lstate evalf pristine groups2).
Proof.
  intros rows lstate evalf pristine triples g1 g2 H1 H2 k r.
  rewrite (groups_spec rows lstate evalf pristine triples g1 H1 k r), (groups_spec rows lstate evalf pristine triples g2 H2 k r). reflexivity.
Qed.
Print Assumptions configuration_independence.

(* every triple is recorded at most with one row set: duplicates of a triple agree, so arrival order cannot matter *)
Theorem rows_functional : forall (rows lstate : Type) evalf pristine triples groups k r1 r2,
  Permutation (concat groups) (make_tasks triples) ->
  In (k, r1) (run_groups rows lstate evalf pristine groups) -> In (k, r2) (run_groups rows lstate evalf pristine groups) -> r1 = r2.
Proof.
  intros rows lstate evalf pristine triples groups k r1 r2 HP H1 H2.
  apply (groups_spec rows lstate evalf pristine triples groups HP) in H1, H2. destruct H1 as [_ H1], H2 as [_ H2]. congruence.
Qed.
Print Assumptions rows_functional.

(* ids by order of first appearance are a renaming: distinct objects get distinct ids whatever happens to the tasks later *)
Theorem ids_injective : forall seen x y, In x seen -> In y seen -> id_of x seen = id_of y seen -> x = y.
Proof. exact id_of_inj. Qed.
Print Assumptions ids_injective.
