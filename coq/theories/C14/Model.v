(* SupervisedSimulation.read (coba/environments/supervised.py) with the reward classes it uses
   (BinaryReward, HammingReward restricted to single-label actions, L1Reward): labels are integers
   (classification / regression) or lists of integers (multi-label). *)
From Coq Require Import ZArith List Bool QArith Lia.
Import ListNotations.
Open Scope Z_scope.

(* sorted(set(labels)) *)
Fixpoint zins (x : Z) (l : list Z) : list Z :=
  match l with [] => [x] | h :: t => if x <? h then x :: l else if x =? h then l else h :: zins x t end.
Definition sorted_set (l : list Z) : list Z := fold_right zins [] l.

Definition binary_reward (y a : Z) : Q := if a =? y then 1%Q else 0%Q.
Definition l1_reward (y a : Z) : Q := inject_Z (- Z.abs (a - y)).
Definition zmem (a : Z) (Y : list Z) : bool := existsb (Z.eqb a) Y.
(* HammingReward(Y)([a]) : n_intersect / (len(Y) + 1 - n_intersect) *)
Definition hamming_reward (Y : list Z) (a : Z) : Q :=
  let k := if zmem a Y then 1 else 0 in Qmake k (Z.to_pos (Z.of_nat (length Y) + 1 - k)).

Inductive labels := LC (ys : list Z) | LR (ys : list Z) | LM (ys : list (list Z)).

Definition actions_of (ls : labels) : list Z :=
  match ls with
  | LC ys => sorted_set ys
  | LR _ => []
  | LM ys => sorted_set (concat ys)
  end.

(* per interaction: the rewards of the offered actions, in action order (for 'r' there are no actions:
   the reward function is probed at the given points instead) *)
Definition rewards_of (ls : labels) (probe : list Z) : list (list Q) :=
  match ls with
  | LC ys => map (fun y => map (binary_reward y) (sorted_set ys)) ys
  | LR ys => map (fun y => map (l1_reward y) probe) ys
  | LM ys => map (fun Y => map (hamming_reward Y) (sorted_set (concat ys))) ys
  end.
