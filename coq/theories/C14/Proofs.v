From Coq Require Import ZArith List Bool QArith Lia Sorting.Sorted.
From Coba Require Import C14.Model.
Import ListNotations.
Open Scope Z_scope.

Lemma zins_In x l y : In y (zins x l) <-> y = x \/ In y l.
Proof.
  induction l as [|h t IH]; cbn [zins]; [cbn; intuition|].
  destruct (x <? h); [cbn; intuition|]. destruct (x =? h) eqn:E.
  - apply Z.eqb_eq in E. subst. cbn. intuition.
  - cbn [In]. rewrite IH. intuition.
Qed.
Lemma sorted_set_In l y : In y (sorted_set l) <-> In y l.
Proof. unfold sorted_set. induction l as [|h t IH]; cbn [fold_right]; [reflexivity|]. rewrite zins_In, IH. cbn. intuition. Qed.

Lemma zins_sorted x l : StronglySorted Z.lt l -> StronglySorted Z.lt (zins x l).
Proof.
  induction l as [|h t IH]; intros Hs; cbn [zins]; [repeat constructor|].
  inversion Hs as [|? ? St Hall]; subst.
  destruct (x <? h) eqn:E1.
  - apply Z.ltb_lt in E1. constructor; [exact Hs|]. constructor; [exact E1|]. rewrite Forall_forall in *. intros y Hy. specialize (Hall y Hy). lia.
  - destruct (x =? h) eqn:E2; [exact Hs|]. apply Z.ltb_ge in E1. apply Z.eqb_neq in E2.
    constructor; [apply IH; exact St|]. rewrite Forall_forall in *. intros y Hy. apply zins_In in Hy.
    destruct Hy as [->|Hy]; [lia|apply Hall; exact Hy].
Qed.
Lemma sorted_set_sorted l : StronglySorted Z.lt (sorted_set l).
Proof. unfold sorted_set. induction l as [|h t IH]; cbn [fold_right]; [constructor|apply zins_sorted; exact IH]. Qed.
Lemma sorted_lt_NoDup l : StronglySorted Z.lt l -> NoDup l.
Proof.
  induction 1 as [|h t Hs IH Hall]; constructor; [|exact IH].
  intros Hin. rewrite Forall_forall in Hall. specialize (Hall h Hin). lia.
Qed.

(* classification: 1 for the label, 0 for every other action; the label is offered; so the best action is the label *)
Lemma classification_reward ys y : In y ys ->
  In y (sorted_set ys) /\ NoDup (sorted_set ys) /\
  binary_reward y y = 1%Q /\ (forall a, a <> y -> binary_reward y a = 0%Q) /\
  (forall a, In a (sorted_set ys) -> (binary_reward y a <= binary_reward y y)%Q /\ (binary_reward y a == binary_reward y y -> a = y)%Q).
Proof.
  intros Hy. repeat split.
  - apply sorted_set_In. exact Hy.
  - apply sorted_lt_NoDup, sorted_set_sorted.
  - unfold binary_reward. rewrite Z.eqb_refl. reflexivity.
  - intros a Ha. unfold binary_reward. destruct (a =? y) eqn:E; [apply Z.eqb_eq in E; contradiction|reflexivity].
  - unfold binary_reward. rewrite Z.eqb_refl. destruct (a =? y); discriminate.
  - unfold binary_reward. rewrite Z.eqb_refl. destruct (a =? y) eqn:E; [apply Z.eqb_eq in E; auto|]. intros C. discriminate C.
Qed.

(* regression: the negative absolute error, maximal (zero) exactly at the label *)
Lemma regression_reward y a : l1_reward y a = inject_Z (- Z.abs (a - y)) /\ (l1_reward y a <= 0)%Q /\ (l1_reward y a == 0 <-> a = y)%Q.
Proof.
  unfold l1_reward. split; [reflexivity|]. split.
  - change 0%Q with (inject_Z 0). rewrite <- Zle_Qle. lia.
  - change 0%Q with (inject_Z 0). rewrite inject_Z_injective. lia.
Qed.

(* multi-label: the Jaccard overlap of {a} with the label set Y (no duplicates): 1/|Y| if a is one of them, else 0 *)
Lemma zmem_In a Y : zmem a Y = true <-> In a Y.
Proof. unfold zmem. rewrite existsb_exists. split; [intros [x [H E]]; apply Z.eqb_eq in E; subst; exact H|intros H; exists a; split; [exact H|apply Z.eqb_refl]]. Qed.
Lemma multilabel_jaccard Y a : Y <> [] ->
  (In a Y -> hamming_reward Y a = Qmake 1 (Z.to_pos (Z.of_nat (length Y)))) /\ (~ In a Y -> (hamming_reward Y a == 0)%Q).
Proof.
  intros Hne. unfold hamming_reward. split.
  - intros H. apply zmem_In in H. rewrite H. f_equal.
    replace (Z.of_nat (length Y) + 1 - 1) with (Z.of_nat (length Y)) by lia. reflexivity.
  - intros H. destruct (zmem a Y) eqn:E; [apply zmem_In in E; contradiction|]. reflexivity.
Qed.

(* every interaction offers the same actions; one interaction per example, in order *)
Lemma rewards_shape_c ys : length (rewards_of (LC ys) []) = length ys /\ Forall (fun r => length r = length (actions_of (LC ys))) (rewards_of (LC ys) []).
Proof.
  cbn [rewards_of actions_of]. split; [apply map_length|]. rewrite Forall_forall. intros r Hr. apply in_map_iff in Hr.
  destruct Hr as [y [<- _]]. apply map_length.
Qed.
