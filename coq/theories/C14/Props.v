(* C14 — Supervised data becomes a bandit problem whose best action is the true label.  Property theorems only. *)
From Coq Require Import ZArith List Bool QArith Sorting.Sorted.
From Coba Require Import C14.Model C14.Proofs.
Import ListNotations.
Open Scope Z_scope.

(* the action set is the sorted set of distinct labels: same for every interaction, no duplicates, exactly the labels of the data *)
Theorem actions_are_sorted_distinct_labels : forall ys,
  StronglySorted Z.lt (actions_of (LC ys)) /\ NoDup (actions_of (LC ys)) /\ forall y, In y (actions_of (LC ys)) <-> In y ys.
Proof. exact (fun ys => conj (sorted_set_sorted ys) (conj (sorted_lt_NoDup _ (sorted_set_sorted ys)) (fun y => sorted_set_In ys y))). Qed.
Print Assumptions actions_are_sorted_distinct_labels.

(* classification: reward 1 for the example's label, 0 for every other action, the label is offered, hence it is the unique best action *)
Theorem classification_best_action_is_label : forall ys y, In y ys ->
  In y (sorted_set ys) /\ NoDup (sorted_set ys) /\
  binary_reward y y = 1%Q /\ (forall a, a <> y -> binary_reward y a = 0%Q) /\
  (forall a, In a (sorted_set ys) -> (binary_reward y a <= binary_reward y y)%Q /\ (binary_reward y a == binary_reward y y -> a = y)%Q).
Proof. exact classification_reward. Qed.
Print Assumptions classification_best_action_is_label.

Theorem regression_reward_is_negative_abs_error : forall y a,
  l1_reward y a = inject_Z (- Z.abs (a - y)) /\ (l1_reward y a <= 0)%Q /\ (l1_reward y a == 0 <-> a = y)%Q.
Proof. exact regression_reward. Qed.
Print Assumptions regression_reward_is_negative_abs_error.

(* multi-label (single-label actions, as SupervisedSimulation offers them): the Jaccard overlap of {a} with Y *)
Theorem multilabel_reward_is_jaccard : forall Y a, Y <> [] ->
  (In a Y -> hamming_reward Y a = Qmake 1 (Z.to_pos (Z.of_nat (length Y)))) /\ (~ In a Y -> (hamming_reward Y a == 0)%Q).
Proof. exact multilabel_jaccard. Qed.
Print Assumptions multilabel_reward_is_jaccard.

Theorem one_interaction_per_example_same_actions : forall ys,
  length (rewards_of (LC ys) []) = length ys /\ Forall (fun r => length r = length (actions_of (LC ys))) (rewards_of (LC ys) []).
Proof. exact rewards_shape_c. Qed.
Print Assumptions one_interaction_per_example_same_actions.
