From Coq Require Import ZArith List Bool QArith.
From Coba Require Import Common.Sx C14.Model.
Import ListNotations.
Open Scope Z_scope.
(* request: (kind labels probe) kind 0='c' 1='r' 2='m' -> (actions rewards-per-interaction) *)
Definition run (x : sx) : sx :=
  let ls := match as_z (nth_sx 0 x) with
            | 0 => LC (as_zs (nth_sx 1 x)) | 1 => LR (as_zs (nth_sx 1 x)) | _ => LM (map as_zs (as_l (nth_sx 1 x))) end in
  L_ [of_zs (actions_of ls); L_ (map (fun r => L_ (map of_q r)) (rewards_of ls (as_zs (nth_sx 2 x))))].
