(* C06 — Sequential evaluation feeds and records exactly what the environment provides.  Property theorems only.
   req_pred / req_off / req_rwds / should_pred are Generated/C06_gen.v, translated from SequentialCB._required and _results. *)
From Coq Require Import ZArith List Bool.
From Coba Require Import Generated.C06_gen C06.Model C06.Proofs C06.ModelLoop C06.ProofsLoop.
From Coq Require Import QArith.
Close Scope Q_scope.
Import ListNotations.
Open Scope Z_scope.

(* an environment lacking a field a mode needs is rejected: for EVERY mode of learn in {None,on,off,ips} x eval in {None,on,ips},
   has_score and record flags (a finite domain, decided by vm_compute and lifted with forallb_forall) every field the loop
   dereferences is demanded by _required *)
Theorem required_sound : forall l e hs ra rp, In l [0;1;2;3] -> In e [0;1;3] ->
  (needs_actions l e hs ra rp = true -> req_pred l e hs ra rp = true) /\
  (needs_rewards l e = true -> req_rwds l e hs ra rp = true) /\
  (needs_logged l e = true -> req_off l e hs ra rp = true).
Proof. exact Proofs.required_sound. Qed.
Print Assumptions required_sound.

(* on-policy: predict(context_k, actions_k) then learn(context_k, the chosen action, the environment's reward for it, the learner's own
   probability and kwargs), strictly in environment order; the row records exactly those values and the extra fields *)
Theorem on_policy_step : forall (Ctx Act Kw LState : Type) predict learn (st : LState) (i : @interaction Ctx Act) env,
  exists a p kw st1, predict st (i_ctx i) (i_actions i) = ((a, p, kw), st1) /\
  run_on (Kw:=Kw) predict learn st (i :: env) =
    (EPredict (i_ctx i) (i_actions i) :: ELearn (i_ctx i) a (i_rewards i a) p kw :: fst (run_on predict learn (learn st1 (i_ctx i) a (i_rewards i a) p kw) env),
     {| r_action := a; r_reward := i_rewards i a; r_prob := p; r_extra := i_extra i |} :: snd (run_on predict learn (learn st1 (i_ctx i) a (i_rewards i a) p kw) env)).
Proof. exact @run_on_step. Qed.
Print Assumptions on_policy_step.

Theorem on_policy_one_row_per_interaction : forall (Ctx Act Kw LState : Type) predict learn (env : list (@interaction Ctx Act)) (st : LState),
  let (ev, rows) := run_on (Kw:=Kw) predict learn st env in
  length ev = (2 * length env)%nat /\ length rows = length env /\ map r_extra rows = map i_extra env.
Proof. exact @run_on_shape. Qed.
Print Assumptions on_policy_one_row_per_interaction.

(* off-policy learning: the logged action, reward and probability are what the learner is taught *)
Theorem off_policy_step : forall (Ctx Act Kw LState : Type) predict learn_off (st : LState) (i : @interaction Ctx Act) env,
  exists a p kw st1, predict st (i_ctx i) (i_actions i) = ((a, p, kw), st1) /\
  run_off (Kw:=Kw) predict learn_off st (i :: env) =
    (EPredict (i_ctx i) (i_actions i) :: ELearnOff (Kw:=Kw) (i_ctx i) (i_action i) (i_reward i) (i_prob i) :: fst (run_off predict learn_off (learn_off st1 (i_ctx i) (i_action i) (i_reward i) (i_prob i)) env),
     {| r_action := a; r_reward := i_rewards i a; r_prob := p; r_extra := i_extra i |} :: snd (run_off predict learn_off (learn_off st1 (i_ctx i) (i_action i) (i_reward i) (i_prob i)) env)).
Proof. exact @run_off_step. Qed.
Print Assumptions off_policy_step.


(* ---- every mode.  ModelLoop.step is one iteration of _results for learn in {None,on,off,ips} x eval in {None,on,ips} over an abstract learner with an
   explicit state; the extracted loop is run against the real evaluator with a scripted learner on every mode (correspondence), so these statements are
   about the loop the code runs. *)
Theorem learn_on_teaches_the_learners_own_choice : forall (Ctx Act Kw LState : Type) act_eqb predict learn score em hs ra rp rr (st : LState) (i : @inter Ctx Act) a p (kw : Kw) st1,
  predict st (x_ctx i) (x_actions i) = ((a, p, kw), st1) ->
  fst (fst (ModelLoop.step act_eqb predict learn score 1 em hs ra rp rr st i)) = [EP (x_ctx i) (x_actions i); EL (x_ctx i) a (x_rewards i a) p (Some kw)] /\
  snd (ModelLoop.step act_eqb predict learn score 1 em hs ra rp rr st i) = learn st1 (x_ctx i) a (x_rewards i a) p (Some kw).
Proof. exact @step_learn_on. Qed.
Print Assumptions learn_on_teaches_the_learners_own_choice.

Theorem learn_ips_teaches_the_ips_reward : forall (Ctx Act Kw LState : Type) act_eqb predict learn score em hs ra rp rr (st : LState) (i : @inter Ctx Act) a p (kw : Kw) st1,
  predict st (x_ctx i) (x_actions i) = ((a, p, kw), st1) ->
  fst (fst (ModelLoop.step act_eqb predict learn score 3 em hs ra rp rr st i)) = [EP (x_ctx i) (x_actions i); EL (x_ctx i) a (ips act_eqb i a) p (Some kw)] /\
  snd (ModelLoop.step act_eqb predict learn score 3 em hs ra rp rr st i) = learn st1 (x_ctx i) a (ips act_eqb i a) p (Some kw).
Proof. exact @step_learn_ips. Qed.
Print Assumptions learn_ips_teaches_the_ips_reward.

Theorem learn_off_teaches_the_logged_triple : forall (Ctx Act Kw LState : Type) act_eqb predict learn score em hs ra rp rr (st : LState) (i : @inter Ctx Act),
  exists pre st1, fst (fst (ModelLoop.step (Kw:=Kw) act_eqb predict learn score 2 em hs ra rp rr st i)) = pre ++ [EL (x_ctx i) (x_action i) (x_reward i) (x_prob i) None] /\
                  snd (ModelLoop.step act_eqb predict learn score 2 em hs ra rp rr st i) = learn st1 (x_ctx i) (x_action i) (x_reward i) (x_prob i) None /\
                  (forall e, In e pre -> match e with EL _ _ _ _ _ => False | _ => True end).
Proof. exact @step_learn_off. Qed.
Print Assumptions learn_off_teaches_the_logged_triple.

Theorem learn_none_never_teaches : forall (Ctx Act Kw LState : Type) act_eqb predict learn score em hs ra rp rr (st : LState) (i : @inter Ctx Act) e,
  In e (fst (fst (ModelLoop.step (Kw:=Kw) act_eqb predict learn score 0 em hs ra rp rr st i))) -> match e with EL _ _ _ _ _ => False | _ => True end.
Proof. exact @step_no_learn. Qed.
Print Assumptions learn_none_never_teaches.

Theorem recorded_reward : forall (Ctx Act Kw LState : Type) act_eqb predict learn score lm hs ra rp (st : LState) (i : @inter Ctx Act) a p (kw : Kw) st1,
  predict st (x_ctx i) (x_actions i) = ((a, p, kw), st1) ->
  o_reward (snd (fst (ModelLoop.step act_eqb predict learn score lm 1 hs ra rp true st i))) = Some (x_rewards i a) /\
  (should_pred lm 3 hs ra rp = true -> o_reward (snd (fst (ModelLoop.step act_eqb predict learn score lm 3 hs ra rp true st i))) = Some (ips act_eqb i a)).
Proof. exact (fun Ctx Act Kw LState act_eqb predict learn score lm hs ra rp st i a p kw st1 E =>
  conj (row_reward_on act_eqb predict learn score lm hs ra rp st i a p kw st1 E) (row_reward_ips act_eqb predict learn score lm hs ra rp st i a p kw st1 E)). Qed.
Print Assumptions recorded_reward.

Theorem recorded_reward_by_score : forall (Ctx Act Kw LState : Type) act_eqb predict learn score lm ra rp (st : LState) (i : @inter Ctx Act),
  should_pred lm 3 true ra rp = false ->
  o_reward (snd (fst (ModelLoop.step (Kw:=Kw) act_eqb predict learn score lm 3 true ra rp true st i))) = Some (score st (x_ctx i) (x_actions i) (x_action i) * ips act_eqb i (x_action i))%Q.
Proof. exact @row_reward_ips_score. Qed.
Print Assumptions recorded_reward_by_score.

Theorem one_row_per_interaction_in_every_mode : forall (Ctx Act Kw LState : Type) act_eqb predict learn score lm em hs ra rp rr (env : list (@inter Ctx Act)) (st : LState),
  length (snd (ModelLoop.run (Kw:=Kw) act_eqb predict learn score lm em hs ra rp rr st env)) = length env /\
  map o_extra (snd (ModelLoop.run act_eqb predict learn score lm em hs ra rp rr st env)) = map x_extra env.
Proof. exact @run_rows. Qed.
Print Assumptions one_row_per_interaction_in_every_mode.

(* the documented IPS transform *)
Theorem ips_transform : forall (Ctx Act : Type) (act_eqb : Act -> Act -> bool) (i : @inter Ctx Act) a,
  ips act_eqb i a = if act_eqb a (x_action i) then (x_reward i / match x_prob i with Some p => if Qeq_bool p 0 then 1 else p | None => 1 end)%Q else 0%Q.
Proof. exact @ips_spec. Qed.
Print Assumptions ips_transform.

(* the former _required (without the record flags) accepted a logged-only environment although predict was called: *)
Example required_without_record_flags_refuted :
  should_pred 2 3 true true false = true /\ (((negb (2 =? 0)) && (negb (2 =? 2))) || ((negb (3 =? 0)) && ((negb (3 =? 3)) || (negb true)))) = false.
Proof. vm_compute. split; reflexivity. Qed.
