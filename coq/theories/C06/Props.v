(* C06 — Sequential evaluation feeds and records exactly what the environment provides.  Property theorems only.
   req_pred / req_off / req_rwds / should_pred are Generated/C06_gen.v, translated from SequentialCB._required and _results. *)
From Coq Require Import ZArith List Bool.
From Coba Require Import Generated.C06_gen C06.Model C06.Proofs.
Import ListNotations.
Open Scope Z_scope.

(* an environment lacking a field a mode needs is rejected: for EVERY mode of learn in {None,on,off,ips} x eval in {None,on,ips},
   has_score and record flags (a finite domain, decided by vm_compute and lifted with forallb_forall) every field the loop
   dereferences is demanded by _required *)
Theorem required_sound : forall l e hs ra rp, In l [0;1;2;3] -> In e [0;1;3] ->
  (needs_actions l e hs ra rp = true -> req_pred l e hs ra rp = true) /\
  (needs_rewards l e = true -> req_rwds l e hs ra rp = true) /\
  (needs_logged l e = true -> req_off l e hs ra rp = true).
Proof. exact Proofs.required_sound. Qed.
Print Assumptions required_sound.

(* on-policy: predict(context_k, actions_k) then learn(context_k, the chosen action, the environment's reward for it, the learner's own
   probability and kwargs), strictly in environment order; the row records exactly those values and the extra fields *)
Theorem on_policy_step : forall (Ctx Act Kw LState : Type) predict learn (st : LState) (i : @interaction Ctx Act) env,
  exists a p kw st1, predict st (i_ctx i) (i_actions i) = ((a, p, kw), st1) /\
  run_on (Kw:=Kw) predict learn st (i :: env) =
    (EPredict (i_ctx i) (i_actions i) :: ELearn (i_ctx i) a (i_rewards i a) p kw :: fst (run_on predict learn (learn st1 (i_ctx i) a (i_rewards i a) p kw) env),
     {| r_action := a; r_reward := i_rewards i a; r_prob := p; r_extra := i_extra i |} :: snd (run_on predict learn (learn st1 (i_ctx i) a (i_rewards i a) p kw) env)).
Proof. exact @run_on_step. Qed.
Print Assumptions on_policy_step.

Theorem on_policy_one_row_per_interaction : forall (Ctx Act Kw LState : Type) predict learn (env : list (@interaction Ctx Act)) (st : LState),
  let (ev, rows) := run_on (Kw:=Kw) predict learn st env in
  length ev = (2 * length env)%nat /\ length rows = length env /\ map r_extra rows = map i_extra env.
Proof. exact @run_on_shape. Qed.
Print Assumptions on_policy_one_row_per_interaction.

(* off-policy learning: the logged action, reward and probability are what the learner is taught *)
Theorem off_policy_step : forall (Ctx Act Kw LState : Type) predict learn_off (st : LState) (i : @interaction Ctx Act) env,
  exists a p kw st1, predict st (i_ctx i) (i_actions i) = ((a, p, kw), st1) /\
  run_off (Kw:=Kw) predict learn_off st (i :: env) =
    (EPredict (i_ctx i) (i_actions i) :: ELearnOff (Kw:=Kw) (i_ctx i) (i_action i) (i_reward i) (i_prob i) :: fst (run_off predict learn_off (learn_off st1 (i_ctx i) (i_action i) (i_reward i) (i_prob i)) env),
     {| r_action := a; r_reward := i_rewards i a; r_prob := p; r_extra := i_extra i |} :: snd (run_off predict learn_off (learn_off st1 (i_ctx i) (i_action i) (i_reward i) (i_prob i)) env)).
Proof. exact @run_off_step. Qed.
Print Assumptions off_policy_step.

(* the former _required (without the record flags) accepted a logged-only environment although predict was called: *)
Example required_without_record_flags_refuted :
  should_pred 2 3 true true false = true /\ (((negb (2 =? 0)) && (negb (2 =? 2))) || ((negb (3 =? 0)) && ((negb (3 =? 3)) || (negb true)))) = false.
Proof. vm_compute. split; reflexivity. Qed.
