(* SequentialCB._results for every mode learn in {None,on,off,ips} x eval in {None,on,ips}: one step of the loop over an abstract learner
   (predict / learn / score with an explicit learner state), the IPS transform of OpeRewards('IPS'), the call trace and the recorded row. *)
From Coq Require Import ZArith QArith List Bool.
From Coba Require Import Generated.C06_gen.
Import ListNotations.
Close Scope Q_scope.
Open Scope Z_scope.

Section Gen.
  Context {Ctx Act Kw LState : Type}.
  Variable act_eqb : Act -> Act -> bool.
  Variable predict : LState -> Ctx -> list Act -> (Act * option Q * Kw) * LState.
  Variable learn : LState -> Ctx -> Act -> Q -> option Q -> option Kw -> LState.      (* kwargs: None when learning from logged data *)
  Variable score : LState -> Ctx -> list Act -> Act -> Q.

  Record inter := { x_ctx : Ctx; x_actions : list Act; x_rewards : Act -> Q; x_action : Act; x_reward : Q; x_prob : option Q; x_extra : Z }.
  Inductive ev := EP (c : Ctx) (A : list Act) | ES (c : Ctx) (A : list Act) (a : Act) | EL (c : Ctx) (a : Act) (r : Q) (p : option Q) (kw : option Kw).
  Record row := { o_action : option Act; o_reward : option Q; o_prob : option Q; o_extra : Z }.

  (* OpeRewards('IPS'): BinaryReward(logged action, logged reward / (logged probability or 1)) *)
  Definition ips_prob (i : inter) : Q := match x_prob i with Some p => if Qeq_bool p 0 then 1%Q else p | None => 1%Q end.
  Definition ips (i : inter) (a : Act) : Q := if act_eqb a (x_action i) then (x_reward i / ips_prob i)%Q else 0%Q.

  Definition step (lm em : Z) (hs ra rp rr : bool) (st : LState) (i : inter) : list ev * row * LState :=
    let sp := should_pred lm em hs ra rp in
    let pr := if sp then Some (predict st (x_ctx i) (x_actions i)) else None in
    let st1 := match pr with Some (_, s) => s | None => st end in
    let on := match pr with Some ((a, p, kw), _) => Some (a, p, kw) | None => None end in
    let on_act := match on with Some (a, _, _) => a | None => x_action i end in      (* only read when a prediction was made *)
    let on_p := match on with Some (_, p, _) => p | None => None end in
    let on_kw := match on with Some (_, _, kw) => Some kw | None => None end in
    let use_score := (em =? 3) && hs && negb sp in
    let eval_reward :=
      if em =? 1 then Some (x_rewards i on_act)
      else if em =? 3 then Some (if use_score then (score st1 (x_ctx i) (x_actions i) (x_action i) * ips i (x_action i))%Q else ips i on_act)
      else None in
    let lev :=
      if lm =? 1 then Some (on_act, x_rewards i on_act, on_p, on_kw)
      else if lm =? 2 then Some (x_action i, x_reward i, x_prob i, None)
      else if lm =? 3 then Some (on_act, ips i on_act, on_p, on_kw)
      else None in
    let st2 := match lev with Some (a, r, p, kw) => learn st1 (x_ctx i) a r p kw | None => st1 end in
    let evs := (if sp then [EP (x_ctx i) (x_actions i)] else [])
               ++ (if use_score then [ES (x_ctx i) (x_actions i) (x_action i)] else [])
               ++ (match lev with Some (a, r, p, kw) => [EL (x_ctx i) a r p kw] | None => [] end) in
    let evalb := negb (em =? 0) in
    (evs, {| o_action := if ra && evalb then Some on_act else None;
             o_reward := if rr && evalb then eval_reward else None;
             o_prob := if rp && evalb && sp then on_p else None;
             o_extra := x_extra i |}, st2).

  Fixpoint run (lm em : Z) (hs ra rp rr : bool) (st : LState) (env : list inter) : list ev * list row :=
    match env with
    | [] => ([], [])
    | i :: env' => let '(e, r, st') := step lm em hs ra rp rr st i in
                   let (es, rs) := run lm em hs ra rp rr st' env' in (e ++ es, r :: rs)
    end.
End Gen.

(* ---- the scripted learner of the correspondence: state = number of predictions so far; it names action (n mod |A|) of its n-th call,
   states probability 1/2 (or none), hands out its call number as kwargs, and scores 1/4 *)
Definition s_predict (with_prob : bool) (st : nat) (c : Z) (A : list Z) : (Z * option Q * Z) * nat :=
  let n := S st in ((nth (Nat.modulo n (length A)) A 0, if with_prob then Some (1 # 2)%Q else None, Z.of_nat n), n).
Definition s_learn (st : nat) (c : Z) (a : Z) (r : Q) (p : option Q) (kw : option Z) : nat := st.
Definition s_score (st : nat) (c : Z) (A : list Z) (a : Z) : Q := (1 # 4)%Q.
