From Coq Require Import ZArith List Bool Lia.
From Coba Require Import Generated.C06_gen C06.Model.
Import ListNotations.
Open Scope Z_scope.

(* for every mode of the (finite) domain learn in {None,on,off,ips} x eval in {None,on,ips} x has_score x record flags:
   every field the loop needs is a field _required demands *)
Lemma all_modes_sound : forallb sound_mode modes = true.
Proof. vm_compute. reflexivity. Qed.

Lemma modes_complete l e hs ra rp : In l [0;1;2;3] -> In e [0;1;3] -> In (l, e, hs, ra, rp) modes.
Proof.
  intros Hl He. unfold modes. apply in_flat_map. exists l. split; [exact Hl|].
  apply in_flat_map. exists e. split; [exact He|].
  apply in_flat_map. exists hs. split; [destruct hs; cbn; auto|].
  apply in_flat_map. exists ra. split; [destruct ra; cbn; auto|].
  apply in_map_iff. exists rp. split; [reflexivity|destruct rp; cbn; auto].
Qed.

Lemma required_sound l e hs ra rp : In l [0;1;2;3] -> In e [0;1;3] ->
  (needs_actions l e hs ra rp = true -> req_pred l e hs ra rp = true) /\
  (needs_rewards l e = true -> req_rwds l e hs ra rp = true) /\
  (needs_logged l e = true -> req_off l e hs ra rp = true).
Proof.
  intros Hl He. pose proof (proj1 (forallb_forall _ _) all_modes_sound _ (modes_complete l e hs ra rp Hl He)) as H.
  unfold sound_mode in H. apply andb_true_iff in H. destruct H as [H H3]. apply andb_true_iff in H. destruct H as [H1 H2].
  repeat split; intros N; [rewrite N in H1; exact H1|rewrite N in H2; exact H2|rewrite N in H3; exact H3].
Qed.

Section LoopProofs.
  Context {Ctx Act Kw LState : Type}.
  Variable predict : LState -> Ctx -> list Act -> (Act * Z * Kw) * LState.
  Variable learn : LState -> Ctx -> Act -> Z -> Z -> Kw -> LState.
  Variable learn_off : LState -> Ctx -> Act -> Z -> Z -> LState.
  Notation interaction := (@interaction Ctx Act).

  (* strictly in environment order: one predict then one learn per interaction, one row per interaction *)
  Lemma run_on_shape env : forall st, let (ev, rows) := run_on predict learn st env in
    length ev = (2 * length env)%nat /\ length rows = length env /\
    map r_extra rows = map i_extra env.
  Proof.
    induction env as [|i env IH]; intros st; cbn [run_on]; [repeat split|].
    destruct (predict st (i_ctx i) (i_actions i)) as [[[a p] kw] st1].
    specialize (IH (learn st1 (i_ctx i) a (i_rewards i a) p kw)).
    destruct (run_on predict learn (learn st1 (i_ctx i) a (i_rewards i a) p kw) env) as [ev rows].
    destruct IH as [H1 [H2 H3]]. cbn [length map r_extra]. repeat split; [lia|lia|f_equal; exact H3].
  Qed.

  (* the k-th pair of events is Predict(context_k, actions_k) followed by Learn(context_k, the action the learner chose,
     the environment's reward for that action, the learner's own probability and kwargs); the k-th row records those values *)
  Lemma run_on_step st i env :
    exists a p kw st1, predict st (i_ctx i) (i_actions i) = ((a, p, kw), st1) /\
    run_on predict learn st (i :: env) =
      (EPredict (i_ctx i) (i_actions i) :: ELearn (i_ctx i) a (i_rewards i a) p kw :: fst (run_on predict learn (learn st1 (i_ctx i) a (i_rewards i a) p kw) env),
       {| r_action := a; r_reward := i_rewards i a; r_prob := p; r_extra := i_extra i |} :: snd (run_on predict learn (learn st1 (i_ctx i) a (i_rewards i a) p kw) env)).
  Proof.
    cbn [run_on]. destruct (predict st (i_ctx i) (i_actions i)) as [[[a p] kw] st1]. exists a, p, kw, st1. split; [reflexivity|].
    destruct (run_on predict learn (learn st1 (i_ctx i) a (i_rewards i a) p kw) env); reflexivity.
  Qed.

  Lemma run_off_step st i env :
    exists a p kw st1, predict st (i_ctx i) (i_actions i) = ((a, p, kw), st1) /\
    run_off predict learn_off st (i :: env) =
      (EPredict (i_ctx i) (i_actions i) :: ELearnOff (Kw:=Kw) (i_ctx i) (i_action i) (i_reward i) (i_prob i) :: fst (run_off predict learn_off (learn_off st1 (i_ctx i) (i_action i) (i_reward i) (i_prob i)) env),
       {| r_action := a; r_reward := i_rewards i a; r_prob := p; r_extra := i_extra i |} :: snd (run_off predict learn_off (learn_off st1 (i_ctx i) (i_action i) (i_reward i) (i_prob i)) env)).
  Proof.
    cbn [run_off]. destruct (predict st (i_ctx i) (i_actions i)) as [[[a p] kw] st1]. exists a, p, kw, st1. split; [reflexivity|].
    destruct (run_off predict learn_off (learn_off st1 (i_ctx i) (i_action i) (i_reward i) (i_prob i)) env); reflexivity.
  Qed.
End LoopProofs.
