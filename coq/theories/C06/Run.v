From Coq Require Import ZArith List Bool.
From Coba Require Import Common.Sx Generated.C06_gen C06.Model.
Import ListNotations.
Open Scope Z_scope.
(* request: (learn eval has_score rec_action rec_prob) -> (req_pred req_off req_rwds should_pred) *)
Definition run (x : sx) : sx :=
  let l := as_z (nth_sx 0 x) in let e := as_z (nth_sx 1 x) in
  let hs := as_bool (nth_sx 2 x) in let ra := as_bool (nth_sx 3 x) in let rp := as_bool (nth_sx 4 x) in
  L_ [of_bool (req_pred l e hs ra rp); of_bool (req_off l e hs ra rp); of_bool (req_rwds l e hs ra rp); of_bool (should_pred l e hs ra rp)].

(* ---- the loop of every mode with the scripted learner of the correspondence *)
From Coq Require Import QArith.
From Coba Require Import C06.ModelLoop.
Close Scope Q_scope.
Fixpoint rew_of (acts : list Z) (rews : list Q) (a : Z) : Q :=
  match acts, rews with x :: acts', r :: rews' => if x =? a then r else rew_of acts' rews' a | _, _ => 0%Q end.
Definition dec_inter (x : sx) : @inter Z Z :=
  let acts := as_zs (nth_sx 1 x) in
  {| x_ctx := as_z (nth_sx 0 x); x_actions := acts; x_rewards := rew_of acts (map as_q (as_l (nth_sx 2 x)));
     x_action := nth (as_nat (nth_sx 3 x)) acts 0; x_reward := as_q (nth_sx 4 x); x_prob := as_opt as_q (nth_sx 5 x); x_extra := as_z (nth_sx 6 x) |}.
Definition enc_ev (e : @ev Z Z Z) : sx :=
  match e with
  | EP c A => L_ [Z_ 0; Z_ c; of_zs A]
  | ES c A a => L_ [Z_ 1; Z_ c; of_zs A; Z_ a]
  | EL c a r p kw => L_ [Z_ 2; Z_ c; Z_ a; of_q r; of_opt of_q p; of_opt Z_ kw]
  end.
Definition enc_row (r : @row Z) : sx := L_ [of_opt Z_ (o_action r); of_opt of_q (o_reward r); of_opt of_q (o_prob r); Z_ (o_extra r)].
Definition run_loop (x : sx) : sx :=
  let m := nth_sx 0 x in
  let b k := as_bool (nth_sx k m) in
  let '(evs, rows) := run Z.eqb (s_predict (b 6%nat)) s_learn s_score (as_z (nth_sx 0 m)) (as_z (nth_sx 1 m)) (b 2%nat) (b 3%nat) (b 4%nat) (b 5%nat) O (map dec_inter (as_l (nth_sx 1 x))) in
  L_ [L_ (map enc_ev evs); L_ (map enc_row rows)].
