From Coq Require Import ZArith List Bool.
From Coba Require Import Common.Sx Generated.C06_gen C06.Model.
Import ListNotations.
Open Scope Z_scope.
(* request: (learn eval has_score rec_action rec_prob) -> (req_pred req_off req_rwds should_pred) *)
Definition run (x : sx) : sx :=
  let l := as_z (nth_sx 0 x) in let e := as_z (nth_sx 1 x) in
  let hs := as_bool (nth_sx 2 x) in let ra := as_bool (nth_sx 3 x) in let rp := as_bool (nth_sx 4 x) in
  L_ [of_bool (req_pred l e hs ra rp); of_bool (req_off l e hs ra rp); of_bool (req_rwds l e hs ra rp); of_bool (should_pred l e hs ra rp)].
