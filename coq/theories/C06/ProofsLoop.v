From Coq Require Import ZArith QArith List Bool Lia.
From Coba Require Import Generated.C06_gen.
From Coba Require Import C06.ModelLoop.
Import ListNotations.
Close Scope Q_scope.
Open Scope Z_scope.

Section P.
  Context {Ctx Act Kw LState : Type}.
  Variable act_eqb : Act -> Act -> bool.
  Variable predict : LState -> Ctx -> list Act -> (Act * option Q * Kw) * LState.
  Variable learn : LState -> Ctx -> Act -> Q -> option Q -> option Kw -> LState.
  Variable score : LState -> Ctx -> list Act -> Act -> Q.
  Notation step := (step act_eqb predict learn score).
  Notation run := (run act_eqb predict learn score).
  Notation ips := (ips act_eqb).

  Lemma sp_learn_on em hs ra rp : should_pred 1 em hs ra rp = true. Proof. reflexivity. Qed.
  Lemma sp_learn_ips em hs ra rp : should_pred 3 em hs ra rp = true. Proof. reflexivity. Qed.

  (* learn='on' (any eval mode): one predict, then one learn with the chosen action, the environment's reward for it and the learner's own probability and kwargs *)
  Lemma step_learn_on em hs ra rp rr st (i : @inter Ctx Act) a p kw st1 : predict st (x_ctx i) (x_actions i) = ((a, p, kw), st1) ->
    fst (fst (step 1 em hs ra rp rr st i)) = [EP (x_ctx i) (x_actions i); EL (x_ctx i) a (x_rewards i a) p (Some kw)] /\
    snd (step 1 em hs ra rp rr st i) = learn st1 (x_ctx i) a (x_rewards i a) p (Some kw).
  Proof. intros E. unfold ModelLoop.step. rewrite sp_learn_on, E. cbn. rewrite andb_false_r. cbn. split; reflexivity. Qed.

  (* learn='ips': the same, with the IPS reward of the chosen action *)
  Lemma step_learn_ips em hs ra rp rr st (i : @inter Ctx Act) a p kw st1 : predict st (x_ctx i) (x_actions i) = ((a, p, kw), st1) ->
    fst (fst (step 3 em hs ra rp rr st i)) = [EP (x_ctx i) (x_actions i); EL (x_ctx i) a (ips i a) p (Some kw)] /\
    snd (step 3 em hs ra rp rr st i) = learn st1 (x_ctx i) a (ips i a) p (Some kw).
  Proof. intros E. unfold ModelLoop.step. rewrite sp_learn_ips, E. cbn. rewrite andb_false_r. cbn. split; reflexivity. Qed.

  (* learn='off': the learner is taught the logged action, reward and probability, whatever it predicted *)
  Lemma step_learn_off em hs ra rp rr st (i : @inter Ctx Act) :
    exists pre st1, fst (fst (step 2 em hs ra rp rr st i)) = pre ++ [EL (x_ctx i) (x_action i) (x_reward i) (x_prob i) None] /\
                    snd (step 2 em hs ra rp rr st i) = learn st1 (x_ctx i) (x_action i) (x_reward i) (x_prob i) None /\
                    (forall e, In e pre -> match e with EL _ _ _ _ _ => False | _ => True end).
  Proof.
    unfold ModelLoop.step. destruct (should_pred 2 em hs ra rp) eqn:Esp.
    - destruct (predict st (x_ctx i) (x_actions i)) as [[[a p] kw] st1] eqn:E. cbn. rewrite andb_false_r. cbn.
      exists [EP (x_ctx i) (x_actions i)], st1. repeat split. intros e [<-|[]]. exact I.
    - cbn. destruct ((em =? 3) && hs && true) eqn:Eu; cbn.
      + exists [ES (x_ctx i) (x_actions i) (x_action i)], st. repeat split. intros e [<-|[]]. exact I.
      + exists [], st. repeat split. intros e [].
  Qed.

  (* no learn mode: the learner is never taught *)
  Lemma step_no_learn em hs ra rp rr st (i : @inter Ctx Act) : forall e, In e (fst (fst (step 0 em hs ra rp rr st i))) -> match e with EL _ _ _ _ _ => False | _ => True end.
  Proof.
    unfold ModelLoop.step. intros e. cbn. rewrite app_nil_r. intros H. apply in_app_or in H. destruct H as [H|H].
    - destruct (should_pred 0 em hs ra rp); [destruct H as [<-|[]]; exact I|destruct H].
    - destruct ((em =? 3) && hs && negb (should_pred 0 em hs ra rp)); [destruct H as [<-|[]]; exact I|destruct H].
  Qed.

  (* the recorded reward: eval='on' records the environment's reward of the chosen action, eval='ips' its IPS reward (or score x IPS reward of the logged action
     when the learner can score and no prediction is needed) *)
  Lemma row_reward_on lm hs ra rp st (i : @inter Ctx Act) a p kw st1 : predict st (x_ctx i) (x_actions i) = ((a, p, kw), st1) ->
    o_reward (snd (fst (step lm 1 hs ra rp true st i))) = Some (x_rewards i a).
  Proof.
    intros E. unfold ModelLoop.step. assert (should_pred lm 1 hs ra rp = true) as -> by (unfold should_pred; cbn; rewrite orb_true_r; reflexivity).
    rewrite E. cbn. reflexivity.
  Qed.
  Lemma row_reward_ips lm hs ra rp st (i : @inter Ctx Act) a p kw st1 : predict st (x_ctx i) (x_actions i) = ((a, p, kw), st1) -> should_pred lm 3 hs ra rp = true ->
    o_reward (snd (fst (step lm 3 hs ra rp true st i))) = Some (ips i a).
  Proof. intros E Hs. unfold ModelLoop.step. rewrite Hs, E. cbn. rewrite andb_false_r. reflexivity. Qed.
  Lemma row_reward_ips_score lm ra rp st (i : @inter Ctx Act) : should_pred lm 3 true ra rp = false ->
    o_reward (snd (fst (step lm 3 true ra rp true st i))) = Some (score st (x_ctx i) (x_actions i) (x_action i) * ips i (x_action i))%Q.
  Proof. intros Hs. unfold ModelLoop.step. rewrite Hs. cbn. reflexivity. Qed.

  (* one row per interaction, in environment order, carrying the extra fields *)
  Lemma run_rows lm em hs ra rp rr : forall env st, length (snd (run lm em hs ra rp rr st env)) = length env /\ map o_extra (snd (run lm em hs ra rp rr st env)) = map x_extra env.
  Proof.
    induction env as [|i env IH]; intros st; [split; reflexivity|]. cbn [ModelLoop.run].
    destruct (step lm em hs ra rp rr st i) as [[e r] st'] eqn:Es. specialize (IH st'). destruct (run lm em hs ra rp rr st' env) as [es rs]. cbn [snd length map] in *.
    destruct IH as [I1 I2]. split; [rewrite I1; reflexivity|]. rewrite I2. f_equal.
    unfold ModelLoop.step in Es. injection Es as _ <- _. reflexivity.
  Qed.
End P.

(* the IPS transform: the logged reward divided by the logged probability (a missing or zero probability counts as 1) for the logged action, 0 for every other *)
Lemma ips_spec {Ctx Act : Type} (act_eqb : Act -> Act -> bool) (i : @inter Ctx Act) a :
  ips act_eqb i a = if act_eqb a (x_action i) then (x_reward i / match x_prob i with Some p => if Qeq_bool p 0 then 1 else p | None => 1 end)%Q else 0%Q.
Proof. reflexivity. Qed.
