(* SequentialCB (coba/evaluators/sequential.py).
   (1) What the evaluation loop dereferences, per mode - compared with what _required demands
       (both over the generated mode flags of Generated/C06_gen.v).
   (2) The on-policy / off-policy loop over an abstract learner: call trace and recorded rows. *)
From Coq Require Import ZArith List Bool.
From Coba Require Import Generated.C06_gen.
Import ListNotations.
Open Scope Z_scope.

(* ---- (1) fields the loop needs (hand model of _results) *)
Definition needs_actions (learn eval : Z) (has_score ra rp : bool) : bool := should_pred learn eval has_score ra rp.
Definition needs_rewards (learn eval : Z) : bool := (learn =? 1) || (eval =? 1).
Definition needs_logged (learn eval : Z) : bool := (learn =? 2) || (learn =? 3) || (eval =? 3).   (* off: logged action/reward to learn; ips: OpeRewards *)

Definition modes : list (Z * Z * bool * bool * bool) :=
  flat_map (fun l => flat_map (fun e => flat_map (fun hs => flat_map (fun ra => map (fun rp => (l, e, hs, ra, rp)) [false; true]) [false; true]) [false; true]) [0; 1; 3]) [0; 1; 2; 3].

Definition sound_mode (m : Z * Z * bool * bool * bool) : bool :=
  let '(l, e, hs, ra, rp) := m in
  implb (needs_actions l e hs ra rp) (req_pred l e hs ra rp)
  && implb (needs_rewards l e) (req_rwds l e hs ra rp)
  && implb (needs_logged l e) (req_off l e hs ra rp).

(* ---- (2) the loop with an abstract learner *)
Section Loop.
  Context {Ctx Act Kw LState : Type}.
  Variable predict : LState -> Ctx -> list Act -> (Act * Z * Kw) * LState.       (* probabilities are integers here: opaque payloads *)
  Variable learn : LState -> Ctx -> Act -> Z -> Z -> Kw -> LState.
  Variable learn_off : LState -> Ctx -> Act -> Z -> Z -> LState.

  Record interaction := { i_ctx : Ctx; i_actions : list Act; i_rewards : Act -> Z; i_action : Act; i_reward : Z; i_prob : Z; i_extra : Z }.
  Inductive event := EPredict (c : Ctx) (A : list Act) | ELearn (c : Ctx) (a : Act) (r : Z) (p : Z) (kw : Kw) | ELearnOff (c : Ctx) (a : Act) (r : Z) (p : Z).
  Record row := { r_action : Act; r_reward : Z; r_prob : Z; r_extra : Z }.

  (* learn='on', eval='on' *)
  Fixpoint run_on (st : LState) (env : list interaction) : list event * list row :=
    match env with
    | [] => ([], [])
    | i :: env' =>
      let '((a, p, kw), st1) := predict st (i_ctx i) (i_actions i) in
      let r := i_rewards i a in
      let st2 := learn st1 (i_ctx i) a r p kw in
      let (ev, rows) := run_on st2 env' in
      (EPredict (i_ctx i) (i_actions i) :: ELearn (i_ctx i) a r p kw :: ev, {| r_action := a; r_reward := r; r_prob := p; r_extra := i_extra i |} :: rows)
    end.

  (* learn='off', eval='on': the learner still predicts for the record, but learns from the logged data *)
  Fixpoint run_off (st : LState) (env : list interaction) : list event * list row :=
    match env with
    | [] => ([], [])
    | i :: env' =>
      let '((a, p, kw), st1) := predict st (i_ctx i) (i_actions i) in
      let st2 := learn_off st1 (i_ctx i) (i_action i) (i_reward i) (i_prob i) in
      let (ev, rows) := run_off st2 env' in
      (EPredict (i_ctx i) (i_actions i) :: ELearnOff (i_ctx i) (i_action i) (i_reward i) (i_prob i) :: ev,
       {| r_action := a; r_reward := i_rewards i a; r_prob := p; r_extra := i_extra i |} :: rows)
    end.
End Loop.
