From Coq Require Import ZArith List Bool Lia.
From Coba Require Import C12.Model C12.ModelArff.
Import ListNotations.
Open Scope Z_scope.

Section P.
  Variable q : Z.
  Hypothesis Hq : q = 39 \/ q = 34.

  Lemma q_esc : esc_char q = true. Proof. destruct Hq; subst; reflexivity. Qed.
  Lemma q_not_bs : (q =? 92) = false. Proof. destruct Hq; subst; reflexivity. Qed.

  Lemma quoted_body v : forall cur rest, arff_go q AQuoted cur (escape v ++ q :: rest) = arff_go q AField (cur ++ v) rest.
  Proof.
    induction v as [|c t IH]; intros cur rest.
    - cbn. rewrite q_not_bs, Z.eqb_refl, app_nil_r. reflexivity.
    - cbn [escape]. destruct (esc_char c) eqn:E.
      + cbn [app arff_go]. rewrite Z.eqb_refl. cbn [arff_go]. rewrite IH, <- app_assoc. reflexivity.
      + assert ((c =? 92) = false /\ (c =? q) = false) as [E1 E2].
        { unfold esc_char in E. repeat (apply orb_false_elim in E; destruct E as [E ?]). split; [assumption|]. destruct Hq; subst; assumption. }
        cbn [app arff_go]. rewrite E1, E2, IH, <- app_assoc. reflexivity.
  Qed.

  Definition plain (c : Z) : Prop := special c = false.
  Lemma plain_facts c : plain c -> (c =? q) = false /\ (c =? 92) = false /\ (c =? 32) = false /\ (c =? 44) = false.
  Proof.
    unfold plain, special, esc_char. intros E. repeat (apply orb_false_elim in E; destruct E as [E ?]). repeat split; try assumption.
    destruct Hq; subst; assumption.
  Qed.
  Lemma field_plain v : Forall plain v -> forall cur rest, arff_go q AField cur (v ++ 44 :: rest) = (cur ++ v) :: arff_go q AStart [] rest.
  Proof.
    induction 1 as [|c t Hc Ht IH]; intros cur rest.
    - cbn. rewrite app_nil_r. reflexivity.
    - destruct (plain_facts c Hc) as [_ [E1 [_ E3]]]. cbn [app arff_go]. rewrite E1, E3, IH, <- app_assoc. reflexivity.
  Qed.
  Lemma field_plain_end v : Forall plain v -> forall cur, arff_go q AField cur v = [cur ++ v].
  Proof.
    induction 1 as [|c t Hc Ht IH]; intros cur.
    - cbn. rewrite app_nil_r. reflexivity.
    - destruct (plain_facts c Hc) as [_ [E1 [_ E3]]]. cbn [arff_go]. rewrite E1, E3, IH, <- app_assoc. reflexivity.
  Qed.

  Lemma existsb_false_Forall v : existsb special v = false -> Forall plain v.
  Proof. induction v as [|c t IH]; cbn; intros E; [constructor|]. apply orb_false_elim in E. destruct E. constructor; [assumption|apply IH; assumption]. Qed.

  Lemma value_step v rest : arff_go q AStart [] (arff_value q v ++ 44 :: rest) = v :: arff_go q AStart [] rest.
  Proof.
    unfold arff_value. destruct (needs_quotes v) eqn:E.
    - cbn [app arff_go]. rewrite Z.eqb_refl. rewrite <- app_assoc. cbn [app]. rewrite quoted_body. cbn. reflexivity.
    - destruct v as [|c t]; [discriminate|]. unfold needs_quotes in E. apply orb_false_elim in E. destruct E as [_ E'].
      pose proof (existsb_false_Forall _ E') as HF. inversion HF as [|? ? Hc Ht]; subst.
      destruct (plain_facts c Hc) as [E0 [E1 [E2 E3]]]. cbn [app arff_go]. rewrite E0, E1, E2, E3. rewrite field_plain by exact Ht. reflexivity.
  Qed.
  Lemma value_end v : arff_go q AStart [] (arff_value q v) = [v].
  Proof.
    unfold arff_value. destruct (needs_quotes v) eqn:E.
    - cbn [arff_go]. rewrite Z.eqb_refl. rewrite quoted_body. cbn. reflexivity.
    - destruct v as [|c t]; [discriminate|]. unfold needs_quotes in E. apply orb_false_elim in E. destruct E as [_ E'].
      pose proof (existsb_false_Forall _ E') as HF. inversion HF as [|? ? Hc Ht]; subst.
      destruct (plain_facts c Hc) as [E0 [E1 [E2 E3]]]. cbn [arff_go]. rewrite E0, E1, E2, E3. rewrite field_plain_end by exact Ht. reflexivity.
  Qed.

  Theorem arff_line_roundtrip_lemma cells : cells <> [] -> arff_parse q (arff_line q cells) = cells.
  Proof.
    intros Hne. unfold arff_parse, arff_line. induction cells as [|c r IH]; [congruence|]. destruct r as [|c' r'].
    - cbn [map join]. apply value_end.
    - change (join 44 (map (arff_value q) (c :: c' :: r'))) with (arff_value q c ++ 44 :: join 44 (map (arff_value q) (c' :: r'))).
      rewrite value_step. f_equal. apply IH. discriminate.
  Qed.
End P.
