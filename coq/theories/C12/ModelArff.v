(* C12, ARFF dense data lines: the csv automaton with the dialect ArffLineReader uses (one quote character per file, backslash as escape
   character, doublequote off, skipinitialspace on, comma delimiter) and the Weka/OpenML way of writing a value. *)
From Coq Require Import ZArith List Bool.
From Coba Require Import C12.Model.
Import ListNotations.
Open Scope Z_scope.

Inductive ast := AStart | AField | AEsc | AQuoted | AQEsc.
Section Arff.
  Variable q : Z.                     (* the quote character of the file: 39 or 34 *)
  Fixpoint arff_go (st : ast) (cur : list Z) (s : list Z) : list (list Z) :=
    match s with
    | [] => [cur]
    | c :: t =>
      match st with
      | AStart => if c =? q then arff_go AQuoted cur t
                  else if c =? 92 then arff_go AEsc cur t
                  else if c =? 32 then arff_go AStart cur t            (* skipinitialspace *)
                  else if c =? 44 then cur :: arff_go AStart [] t
                  else arff_go AField (cur ++ [c]) t
      | AField => if c =? 92 then arff_go AEsc cur t
                  else if c =? 44 then cur :: arff_go AStart [] t
                  else arff_go AField (cur ++ [c]) t
      | AEsc => arff_go AField (cur ++ [c]) t
      | AQuoted => if c =? 92 then arff_go AQEsc cur t
                   else if c =? q then arff_go AField cur t           (* doublequote off: the quote just ends *)
                   else arff_go AQuoted (cur ++ [c]) t
      | AQEsc => arff_go AQuoted (cur ++ [c]) t
      end
    end.
  Definition arff_parse (line : list Z) : list (list Z) := arff_go AStart [] line.

  (* Weka's Utils.quote restricted to the characters of the property: escape the two quote characters, backslash and percent with a backslash; quote when one of those, a space, a comma,
     a brace occurs, or the value is empty or a lone question mark *)
  Definition esc_char (c : Z) : bool := (c =? 39) || (c =? 34) || (c =? 92) || (c =? 37).
  Definition special (c : Z) : bool := esc_char c || (c =? 32) || (c =? 44) || (c =? 123) || (c =? 125).
  Fixpoint escape (v : list Z) : list Z := match v with [] => [] | c :: t => if esc_char c then 92 :: c :: escape t else c :: escape t end.
  Definition lone_qmark (v : list Z) : bool := match v with [c] => c =? 63 | _ => false end.
  Definition needs_quotes (v : list Z) : bool := match v with [] => true | _ => lone_qmark v || existsb special v end.
  Definition arff_value (v : list Z) : list Z := if needs_quotes v then q :: escape v ++ [q] else v.
  Definition arff_line (cells : list (list Z)) : list Z := join 44 (map arff_value cells).
End Arff.
