(* C12 — What coba reads from a dataset file is what the file says.  Property theorems only. *)
From Coq Require Import ZArith List Bool.
From Coba Require Import C12.ModelArffSparse C12.ProofsArffSparse C12.ModelArffAttr C12.ProofsArffAttr.
From Coba Require Import Generated.C12_gen C12.Model C12.ModelArff C12.ProofsLines C12.ProofsRest C12.ProofsArff.
Import ListNotations.
Open Scope Z_scope.

(* the characters and code shapes that Model.v fixes are the ones the translator found in the source on this run
   (Generated/C12_gen.v is regenerated from coba/pipes/{sources,sinks,readers}.py; the translator fails closed on any other shape) *)
Theorem source_constants :
  (gen_decoder_state_carried, gen_delim_lf, gen_delim_cr, gen_disk_source_strip, gen_disk_sink_terminator, gen_libsvm_seps, gen_csv_strip, gen_csv_terminator)
  = (true, 10, 13, [13; 10], [10], (32, 58, 44), [13; 10], [10]).
Proof. reflexivity. Qed.

(* Delivery: however a text is cut into pieces (empty pieces, a CR LF pair cut in two, pieces ending in any of CPython's line
   boundaries), DelimSource's re-assembly yields exactly the lines of the whole text *)
Theorem delim_chunk_invariant : forall texts : list (list Z), delim_read brk_py texts = splitlines brk_py (concat texts).
Proof. exact (delim_read_splitlines brk_py eq_refl eq_refl). Qed.
Print Assumptions delim_chunk_invariant.

(* Delivery: grouping UTF-8 bytes into characters with one decoder state carried across the chunks does not depend on the chunking *)
Theorem utf8_chunk_invariant : forall (chunks : list (list Z)) st, uchunks st chunks = urun st (concat chunks).
Proof. exact uchunks_concat. Qed.
Print Assumptions utf8_chunk_invariant.
(* ... while decoding each chunk on its own (the repaired defect) does *)
Theorem utf8_per_chunk_refuted : uchunks_reset [[195]; [169]] <> fst (urun ([], O) [195; 169]).
Proof. exact uchunks_reset_refuted. Qed.

(* Framing: lines free of CR and LF written by DiskSink (any batching, any number of write calls) are read back identically by DiskSource *)
Theorem disk_roundtrip : forall writes : list (list (list Z)), Forall clean (concat writes) -> disk_read (disk_write writes) = concat writes.
Proof. exact disk_roundtrip_lemma. Qed.
Print Assumptions disk_roundtrip.

(* str.split undoes str.join when no piece holds the delimiter *)
Theorem split_join : forall d xs, xs <> [] -> Forall (free d) xs -> split d (join d xs) = xs.
Proof. exact split_join_lemma. Qed.
Print Assumptions split_join.

(* LibSVM / Manik: a printed row is parsed back to its labels and features *)
Theorem libsvm_roundtrip : forall labels feats, labels <> [] -> Forall tok labels -> Forall (fun kv => tok (fst kv) /\ tok (snd kv)) feats ->
  libsvm_line (libsvm_print labels feats) = Row labels feats.
Proof. exact libsvm_roundtrip_lemma. Qed.
Print Assumptions libsvm_roundtrip.

(* CSV: RFC-4180 minimal quoting (quote a cell iff it is empty or holds a comma or a quote, double the quotes) is parsed back to the cells;
   the model is one record on one line, cells hold no line break *)
Theorem csv_roundtrip : forall cells : list (list Z), cells <> [] -> csv_parse (csv_print cells) = cells.
Proof. exact csv_roundtrip_lemma. Qed.
Print Assumptions csv_roundtrip.

(* ARFF dense data lines: the csv automaton with ArffLineReader's dialect (one quote character per file, backslash escapes, doublequote off,
   skipinitialspace on) parses a line written the Weka/OpenML way (backslash before the two quote characters, backslash and percent; quotes
   around a value that holds one of those, a space, a comma, a brace, or is empty or a lone question mark) back to the values *)
Theorem arff_dense_line_roundtrip : forall q, q = 39 \/ q = 34 -> forall cells, cells <> [] -> arff_parse q (arff_line q cells) = cells.
Proof. exact arff_line_roundtrip_lemma. Qed.
Print Assumptions arff_dense_line_roundtrip.

(* ARFF sparse data lines  {k v, k v, ...}: the reader's steps (strip, drop the braces, split at commas, split key from value at white space, join the pieces of a
   quoted value while it is unclosed, strip, unquote, unescape) read a line written the Weka/OpenML way back to its (key, value) pairs - for all values over
   any characters (commas, both quote characters, backslashes, spaces, percent, braces ...), white space other than the blank excluded *)
Theorem arff_sparse_line_roundtrip : forall q, q = 39 \/ q = 34 -> forall pairs,
  Forall (fun kv => key_ok (fst kv) /\ val_ok (snd kv)) pairs -> sparse_parse (sparse_line q pairs) = Some pairs.
Proof. exact sparse_line_roundtrip_lemma. Qed.
Print Assumptions arff_sparse_line_roundtrip.

(* ARFF nominal attributes: the level list of  @attribute name {l1,l2,...}  - split at commas keeping the separators, pieces of a quoted level joined again
   while it is unclosed, stripped, unquoted, unescaped (ArffAttrReader._split) - reads levels written the Weka way back, for levels over any characters *)
Theorem arff_nominal_levels_roundtrip : forall q, q = 39 \/ q = 34 -> forall levels, levels <> [] -> Forall val_ok levels -> levels_parse (levels_line q levels) = levels.
Proof. exact levels_roundtrip_lemma. Qed.
Print Assumptions arff_nominal_levels_roundtrip.

Example sparse_example :
  sparse_parse (sparse_line 39 [([49], [97; 44; 32; 98]); ([50], []); ([51; 52], [120; 39; 92]); ([53], [32; 44])]) =
  Some [([49], [97; 44; 32; 98]); ([50], []); ([51; 52], [120; 39; 92]); ([53], [32; 44])].
Proof. vm_compute. reflexivity. Qed.

Example delim_example : delim_read brk_py [[97; 13]; [10; 98; 11]; []; [99]] = [[97]; [98]; [99]].
Proof. vm_compute. reflexivity. Qed.
Example libsvm_example : libsvm_line (libsvm_print [[49]; [50]] [([51], [52; 46; 53])]) = Row [[49]; [50]] [([51], [52; 46; 53])].
Proof. vm_compute. reflexivity. Qed.
Example csv_example : csv_parse (csv_print [[97; 44; 34]; []; [98]]) = [[97; 44; 34]; []; [98]].
Proof. vm_compute. reflexivity. Qed.
