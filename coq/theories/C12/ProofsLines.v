From Coq Require Import ZArith List Bool Lia.
From Coba Require Import C12.Model.
Import ListNotations.
Open Scope Z_scope.

Section LinesProofs.
  Variable brk : Z -> bool.
  Hypothesis brk_cr : brk 13 = true.
  Hypothesis brk_lf : brk 10 = true.

  Notation sl := (sl brk). Notation emit := (emit brk). Notation after := (after brk).

  Definition tailcur (cur : list Z) : list (list Z) := match cur with [] => [] | _ => [cur] end.

  Lemma sl_emit s : forall cur cr, sl cur cr s = emit cur cr s ++ tailcur (fst (after cur cr s)).
  Proof.
    induction s as [|c t IH]; intros cur cr; cbn [Model.sl Model.emit Model.after].
    - destruct cur; reflexivity.
    - destruct (cr && (c =? 10)); [apply IH|]. destruct (brk c); [cbn; f_equal; apply IH|apply IH].
  Qed.

  Lemma emit_app a : forall cur cr b, emit cur cr (a ++ b) = emit cur cr a ++ emit (fst (after cur cr a)) (snd (after cur cr a)) b.
  Proof.
    induction a as [|c t IH]; intros cur cr b; cbn [app Model.emit Model.after fst snd]; [reflexivity|].
    destruct (cr && (c =? 10)); [apply IH|]. destruct (brk c); [cbn; f_equal; apply IH|apply IH].
  Qed.
  Lemma after_app a : forall cur cr b, after cur cr (a ++ b) = after (fst (after cur cr a)) (snd (after cur cr a)) b.
  Proof.
    induction a as [|c t IH]; intros cur cr b; cbn [app Model.after fst snd]; [reflexivity|].
    destruct (cr && (c =? 10)); [apply IH|]. destruct (brk c); apply IH.
  Qed.

  (* a prefix of the current line only shows up in the first completed line (or in the line still open) *)
  Lemma emit_prefix s : forall p cur cr, emit (p ++ cur) cr s = match emit cur cr s with [] => [] | l :: r => (p ++ l) :: r end.
  Proof.
    induction s as [|c t IH]; intros p cur cr; cbn [Model.emit]; [reflexivity|].
    destruct (cr && (c =? 10)); [apply IH|]. destruct (brk c); [reflexivity|]. rewrite <- app_assoc. apply IH.
  Qed.
  Lemma after_prefix s : forall p cur cr, after (p ++ cur) cr s =
    match emit cur cr s with [] => (p ++ fst (after cur cr s), snd (after cur cr s)) | _ => after cur cr s end.
  Proof.
    induction s as [|c t IH]; intros p cur cr; cbn [Model.emit Model.after fst snd]; [reflexivity|].
    destruct (cr && (c =? 10)); [apply IH|]. destruct (brk c); [reflexivity|]. rewrite <- app_assoc. apply IH.
  Qed.

  (* the state after a non-empty text is determined by its last character *)
  Lemma after_last t : forall c cur cr, (cr = true -> cur = []) ->
    let s := c :: t in
    snd (after cur cr s) = (lastc s =? 13) /\
    (brk (lastc s) = true -> fst (after cur cr s) = []) /\
    (brk (lastc s) = false -> fst (after cur cr s) <> []) /\
    (snd (after cur cr s) = true -> fst (after cur cr s) = []).
  Proof.
    induction t as [|c' t IH]; intros c cur cr Hinv.
    - cbn [Model.after lastc last fst snd]. destruct (cr && (c =? 10)) eqn:E.
      + apply andb_prop in E. destruct E as [Ecr Ec]. apply Z.eqb_eq in Ec. subst c. cbn [fst snd].
        rewrite (Hinv Ecr). repeat split; try reflexivity; intros H; try congruence.
      + destruct (brk c) eqn:Eb; cbn [fst snd].
        * repeat split; try reflexivity; intros H; congruence.
        * assert (c =? 13 = false) as Hc. { destruct (c =? 13) eqn:E13; [|reflexivity]. apply Z.eqb_eq in E13. subst c. congruence. }
          rewrite Hc. repeat split; try reflexivity; intros H; try congruence. destruct cur; discriminate.
    - assert (lastc (c :: c' :: t) = lastc (c' :: t)) as Hl by reflexivity. cbn zeta. rewrite Hl.
      cbn [Model.after]. destruct (cr && (c =? 10)); [apply IH; intros; discriminate|].
      destruct (brk c) eqn:Eb.
      + apply IH. intros _. reflexivity.
      + apply IH. intros; discriminate.
  Qed.

  Lemma emit_nonempty t : forall c cur, brk (lastc (c :: t)) = true -> emit cur false (c :: t) <> [].
  Proof.
    induction t as [|c' t IH]; intros c cur Hb.
    - cbn in Hb. cbn [Model.emit andb]. rewrite Hb. discriminate.
    - assert (lastc (c :: c' :: t) = lastc (c' :: t)) as Hl by reflexivity. rewrite Hl in Hb.
      cbn [Model.emit andb]. destruct (brk c); [discriminate|]. apply IH. exact Hb.
  Qed.

  Lemma emit_norm c t cur cr : cr && (c =? 10) = false -> emit cur cr (c :: t) = emit cur false (c :: t) /\ after cur cr (c :: t) = after cur false (c :: t).
  Proof. intros E. cbn [Model.emit Model.after]. rewrite E. cbn [andb]. split; reflexivity. Qed.

  (* ------------------------------------------------------------ DelimSource *)
  Definition Rel (st : dstate) (cur : list Z) (cr : bool) : Prop :=
    after_cr st = cr /\ cur = match pending st with Some p => p | None => [] end /\ pending st <> Some [] /\ (cr = true -> cur = []).

  (* one non-empty text read in a state whose CR flag is off *)
  Lemma step_text1 pend cur c t :
    cur = match pend with Some p => p | None => [] end -> pend <> Some [] ->
    let s := c :: t in
    let lines := splitlines brk s in
    let lines1 := match pend with Some (x :: p) => prepend (x :: p) lines | _ => lines end in
    let out := if brk (lastc s) then lines1 else removelast lines1 in
    let pend' := if brk (lastc s) then match pend with Some [] => Some [] | _ => None end else Some (last lines1 []) in
    out = emit cur false s /\ Rel {| pending := pend'; after_cr := lastc s =? 13 |} (fst (after cur false s)) (snd (after cur false s)).
  Proof.
    intros Hcur Hne s lines lines1 out pend'.
    pose proof (after_last t c [] false (fun H => eq_refl)) as [Hcr0 [Hb1 [Hb0 _]]]. fold s in Hcr0, Hb1, Hb0.
    pose proof (after_last t c cur false (fun H => ltac:(discriminate))) as [Hcr [_ [_ Hcrcur]]]. fold s in Hcr, Hcrcur. rewrite Hcr in Hcrcur.
    assert (lines = emit [] false s ++ tailcur (fst (after [] false s))) as Hsl by apply sl_emit.
    pose proof (emit_prefix s cur [] false) as HP. pose proof (after_prefix s cur [] false) as HA. rewrite app_nil_r in HP, HA.
    unfold Rel; cbn [pending after_cr]. rewrite Hcr.
    unfold out, pend'. destruct (brk (lastc s)) eqn:Eb.
    - (* the text ends with a boundary: every line is complete *)
      specialize (Hb1 eq_refl). rewrite Hb1 in Hsl. cbn [tailcur] in Hsl. rewrite app_nil_r in Hsl.
      pose proof (emit_nonempty t c [] Eb) as Hnn. fold s in Hnn.
      destruct (emit [] false s) as [|l r] eqn:Ee; [congruence|]. rewrite HA.
      assert (lines1 = (cur ++ l) :: r) as H1.
      { unfold lines1. rewrite Hsl. destruct pend as [[|x p]|]; [congruence| |]; subst cur; reflexivity. }
      split; [rewrite H1, HP; reflexivity|]. split; [reflexivity|]. rewrite Hb1.
      split; [destruct pend as [[|x p]|]; [congruence|reflexivity|reflexivity]|].
      split; [destruct pend as [[|x p]|]; [congruence|discriminate|discriminate]|]. reflexivity.
    - (* the last line is still open: it is held back *)
      specialize (Hb0 eq_refl). destruct (fst (after [] false s)) as [|z zs] eqn:Ecur'; [congruence|]. cbn [tailcur] in Hsl.
      destruct (emit [] false s) as [|l r] eqn:Ee.
      + cbn [app] in Hsl. rewrite HA. cbn [fst snd].
        assert (lines1 = [cur ++ z :: zs]) as H1.
        { unfold lines1. rewrite Hsl. destruct pend as [[|x p]|]; [congruence| |]; subst cur; reflexivity. }
        rewrite H1, HP. cbn [removelast last]. split; [reflexivity|]. split; [reflexivity|].
        split; [reflexivity|]. split; [intros E; inversion E as [E1]; destruct cur; discriminate|].
        intros E. rewrite E in Hcrcur. specialize (Hcrcur eq_refl). rewrite HA in Hcrcur. cbn in Hcrcur. destruct cur; discriminate.
      + rewrite HA.
        assert (lines1 = ((cur ++ l) :: r) ++ [z :: zs]) as H1.
        { unfold lines1. rewrite Hsl. destruct pend as [[|x p]|]; [congruence| |]; subst cur; reflexivity. }
        rewrite H1, HP, removelast_last, last_last, Ecur'. split; [reflexivity|]. split; [reflexivity|].
        split; [reflexivity|]. split; [discriminate|].
        intros E. rewrite E in Hcrcur. specialize (Hcrcur eq_refl). rewrite HA, Ecur' in Hcrcur. discriminate.
  Qed.

  Lemma dstep_spec st cur cr text : Rel st cur cr ->
    fst (dstep brk st text) = emit cur cr text /\ Rel (snd (dstep brk st text)) (fst (after cur cr text)) (snd (after cur cr text)).
  Proof.
    intros [Hcr [Hcur [Hne Hinv]]]. destruct text as [|c0 t0]; [cbn; split; [reflexivity|repeat split; assumption]|].
    unfold dstep. rewrite Hcr. destruct (cr && (c0 =? 10)) eqn:E.
    - (* the LF of a CR LF pair that was cut in two is dropped *)
      apply andb_prop in E. destruct E as [Ecr Ec]. specialize (Hinv Ecr). subst cur.
      assert (pending st = None) as Hp. { destruct (pending st) as [[|x p]|]; [congruence|discriminate|reflexivity]. }
      cbn [Model.emit Model.after]. rewrite Ecr, Ec. cbn [andb].
      destruct t0 as [|c1 t1].
      + cbn. rewrite Hp. split; [reflexivity|]. unfold Rel; cbn. repeat split; try reflexivity; try discriminate.
      + pose proof (step_text1 (pending st) [] c1 t1) as S. rewrite Hp in S. specialize (S eq_refl ltac:(discriminate)).
        cbn zeta in S. rewrite Hp. destruct (brk (lastc (c1 :: t1))); exact S.
    - destruct (emit_norm c0 t0 cur cr E) as [He Ha]. rewrite He, Ha.
      pose proof (step_text1 (pending st) cur c0 t0 Hcur Hne) as S. cbn zeta in S.
      destruct (brk (lastc (c0 :: t0))); exact S.
  Qed.

  Lemma dread_spec texts : forall st cur cr, Rel st cur cr -> dread brk st texts = sl cur cr (concat texts).
  Proof.
    induction texts as [|t ts IH]; intros st cur cr HR.
    - cbn. destruct HR as [_ [Hcur [Hne _]]]. destruct (pending st) as [[|x p]|]; [congruence| |]; subst cur; reflexivity.
    - cbn [dread concat]. destruct (dstep_spec st cur cr t HR) as [Ho HR']. destruct (dstep brk st t) as [out st'].
      cbn [fst snd] in Ho, HR'. rewrite (IH _ _ _ HR'), Ho.
      rewrite !sl_emit, emit_app, after_app, app_assoc. reflexivity.
  Qed.

  Theorem delim_read_splitlines texts : delim_read brk texts = splitlines brk (concat texts).
  Proof. apply dread_spec. unfold Rel, d0; cbn. repeat split; try reflexivity; discriminate. Qed.
End LinesProofs.
