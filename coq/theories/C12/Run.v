From Coq Require Import ZArith List Bool.
From Coba Require Import Common.Sx C12.Model C12.ModelArff C12.ModelArffSparse C12.ModelArffAttr.
Import ListNotations.
Open Scope Z_scope.
Definition zss (x : sx) : list (list Z) := map as_zs (as_l x).
Definition of_zss (l : list (list Z)) : sx := L_ (map of_zs l).
Definition run (x : sx) : sx :=
  let a := nth_sx 1 x in
  match as_z (nth_sx 0 x) with
  | 0 => of_zss (delim_read brk_py (zss a))
  | 1 => of_zss (fst (uchunks ([], O) (zss a)))
  | 2 => of_zss (disk_read (disk_write (map zss (as_l a))))
  | 3 => L_ (flat_map (fun l => match libsvm_line l with
                                 | Row ls fs => [L_ [of_zss ls; L_ (map (fun kv : list Z * list Z => L_ [of_zs (fst kv); of_zs (snd kv)]) fs)]]
                                 | Skip => []
                                 | Raise => [Z_ (-1)]
                                 end) (zss a))
  | 4 => L_ (map (fun l => of_zss (csv_parse l)) (zss a))
  | 5 => of_zss (arff_parse (as_z a) (as_zs (nth_sx 2 x)))
  | 6 => match sparse_parse (as_zs a) with
         | None => Z_ (-1)
         | Some ps => L_ (map (fun kv : list Z * list Z => L_ [match key_value (fst kv) with Some k => Z_ k | None => Z_ (-1) end; of_zs (snd kv)]) ps)
         end
  | 7 => of_zss (levels_parse (as_zs a))
  | _ => err 99
  end.
