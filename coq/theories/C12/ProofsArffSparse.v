(* Round trip of ARFF sparse data lines: a line written the Weka way is read back by the model of ArffLineReader._sparse_quoted. *)
From Coq Require Import ZArith List Bool Arith Lia.
From Coba Require Import C12.Model C12.ModelArff C12.ModelArffSparse C12.ProofsRest.
Import ListNotations.
Open Scope Z_scope.

(* ---- stripping *)
Definition nows (s : list Z) : Prop := forall c, In c s -> ws_py c = false.
Lemma lstripw_nows_head c t : ws_py c = false -> lstripw (c :: t) = c :: t.
Proof. intros H. cbn. rewrite H. reflexivity. Qed.
Lemma lstripw_snoc a c : ws_py c = false -> lstripw (a ++ [c]) = lstripw a ++ [c].
Proof. intros H. induction a as [|x a IH]; cbn; [rewrite H; reflexivity|]. destruct (ws_py x); [exact IH|reflexivity]. Qed.
Lemma rstripw_snoc s c : ws_py c = false -> rstripw (s ++ [c]) = s ++ [c].
Proof. intros H. unfold rstripw. rewrite rev_unit. cbn [lstripw]. rewrite H. rewrite <- rev_unit, rev_involutive. reflexivity. Qed.
Lemma rstripw_cons c s : ws_py c = false -> rstripw (c :: s) = c :: rstripw s.
Proof. intros H. unfold rstripw. cbn [rev]. rewrite (lstripw_snoc _ c H), rev_unit. reflexivity. Qed.
Lemma rstripw_nows s : nows s -> rstripw s = s.
Proof.
  intros H. destruct (rev s) as [|c r] eqn:E.
  - apply (f_equal (@rev Z)) in E. rewrite rev_involutive in E. subst s. reflexivity.
  - apply (f_equal (@rev Z)) in E. rewrite rev_involutive in E. cbn in E. subst s. apply rstripw_snoc. apply H. apply in_or_app. right. left. reflexivity.
Qed.
(* what is left of a string after rstrip: nothing, or something that ends in a non-space character; the rest was white space *)
Lemma lstripw_shape l : exists t, l = t ++ lstripw l /\ (lstripw l = [] \/ exists c r, lstripw l = c :: r /\ ws_py c = false).
Proof.
  induction l as [|x l [t [E H]]]; [exists []; split; [reflexivity|left; reflexivity]|]. cbn [lstripw]. destruct (ws_py x) eqn:Ex.
  - exists (x :: t). split; [cbn; f_equal; exact E|exact H].
  - exists []. split; [reflexivity|]. right. exists x, l. split; [reflexivity|exact Ex].
Qed.
Lemma rstripw_shape s : exists t, s = rstripw s ++ t /\ (rstripw s = [] \/ exists e c, rstripw s = e ++ [c] /\ ws_py c = false).
Proof.
  destruct (lstripw_shape (rev s)) as [t [E H]]. exists (rev t). unfold rstripw. split.
  - apply (f_equal (@rev Z)) in E. rewrite rev_involutive, rev_app_distr in E. exact E.
  - destruct H as [H|[c [r [H Hc]]]]; [left; rewrite H; reflexivity|]. right. exists (rev r), c. rewrite H. cbn. split; [reflexivity|exact Hc].
Qed.

Lemma take_tok_app k c t : nows k -> ws_py c = true -> take_tok (k ++ c :: t) = k.
Proof. intros Hk Hc. induction k as [|x k IH]; cbn; [rewrite Hc; reflexivity|]. rewrite (Hk x (or_introl eq_refl)). f_equal. apply IH. intros y Hy. apply Hk. right. exact Hy. Qed.
Lemma drop_tok_app k c t : nows k -> ws_py c = true -> drop_tok (k ++ c :: t) = c :: t.
Proof. intros Hk Hc. induction k as [|x k IH]; cbn; [rewrite Hc; reflexivity|]. rewrite (Hk x (or_introl eq_refl)). apply IH. intros y Hy. apply Hk. right. exact Hy. Qed.

(* ---- escaping *)
Lemma escape_app a b : escape (a ++ b) = escape a ++ escape b.
Proof. induction a as [|c a IH]; [reflexivity|]. cbn [app escape]. destruct (esc_char c); cbn; rewrite IH; reflexivity. Qed.
Lemma unescape_escape v : unescape (escape v) = v.
Proof.
  induction v as [|c v IH]; [reflexivity|]. cbn [escape]. destruct (esc_char c) eqn:E.
  - cbn [unescape]. assert ((c =? 10) = false) as ->.
    { unfold esc_char in E. destruct (c =? 10) eqn:E10; [|reflexivity]. apply Z.eqb_eq in E10. subst c. discriminate. }
    rewrite IH. reflexivity.
  - assert ((c =? 92) = false) as Hb by (unfold esc_char in E; repeat (apply orb_false_elim in E; destruct E as [E ?]); assumption).
    destruct c as [|p|p]; try (cbn [unescape]; rewrite IH; reflexivity).
    cbn [unescape]. destruct (Z.pos p =? 92) eqn:E2; [congruence|]. apply Z.eqb_neq in E2.
    (* the match on the literal 92 does not fire *)
    destruct p as [p|p|]; try (rewrite IH; reflexivity); repeat (destruct p as [p|p|]; try (rewrite IH; reflexivity)); try lia; congruence.
Qed.

(* ---- backslash runs: tb s = number of backslashes at the end of s *)
Definition tb (s : list Z) : nat := lead_bs (rev s).
Lemma tb_snoc s c : tb (s ++ [c]) = if c =? 92 then S (tb s) else O.
Proof. unfold tb. rewrite rev_unit. reflexivity. Qed.
Lemma tb_escape_even v : Nat.even (tb (escape v)) = true.
Proof.
  induction v as [|c v IH] using rev_ind; [reflexivity|]. rewrite escape_app. cbn [escape]. destruct (esc_char c) eqn:E; cbn [app].
  - change (escape v ++ [92; c]) with (escape v ++ [92] ++ [c]). rewrite app_assoc, tb_snoc. destruct (c =? 92) eqn:Ec; [|reflexivity].
    rewrite tb_snoc. cbn. exact IH.
  - rewrite tb_snoc. assert ((c =? 92) = false) as -> by (unfold esc_char in E; repeat (apply orb_false_elim in E; destruct E as [E ?]); assumption). reflexivity.
Qed.
(* a character of the escaped text that is not a backslash comes from the value; if it is one of the escaped characters its own backslash stands before it *)
Lemma escape_occurrence : forall v e c rest, escape v = e ++ c :: rest -> (c =? 92) = false ->
  exists v1 v2, v = v1 ++ c :: v2 /\ e = escape v1 ++ (if esc_char c then [92] else []).
Proof.
  induction v as [|x v IH]; intros e c rest H Hc; [destruct e; discriminate|]. cbn [escape] in H. destruct (esc_char x) eqn:Ex.
  - destruct e as [|e0 e]; [cbn in H; injection H as H _; subst c; discriminate|]. cbn in H. injection H as Ee H. subst e0.
    destruct e as [|e1 e].
    + cbn in H. injection H as Ee _. subst x. exists [], v. rewrite Ex. split; reflexivity.
    + cbn in H. injection H as Ee H. subst e1. destruct (IH e c rest H Hc) as [v1 [v2 [E1 E2]]]. exists (x :: v1), v2. split; [cbn; f_equal; exact E1|]. cbn [escape]. rewrite Ex. cbn. f_equal. f_equal. exact E2.
  - destruct e as [|e0 e].
    + cbn in H. injection H as Ee _. subst x. exists [], v. rewrite Ex. split; reflexivity.
    + cbn in H. injection H as Ee H. subst e0. destruct (IH e c rest H Hc) as [v1 [v2 [E1 E2]]]. exists (x :: v1), v2. split; [cbn; f_equal; exact E1|]. cbn [escape]. rewrite Ex. cbn. f_equal. exact E2.
Qed.
Lemma escaped_quote_odd v e c rest : escape v = e ++ c :: rest -> esc_char c = true -> (c =? 92) = false -> Nat.odd (tb e) = true.
Proof.
  intros H Hc Hb. destruct (escape_occurrence v e c rest H Hb) as [v1 [v2 [_ E]]]. rewrite Hc in E. subst e. rewrite tb_snoc.
  replace (92 =? 92) with true by reflexivity. rewrite Nat.odd_succ. apply tb_escape_even.
Qed.

(* ---- split *)
Lemma split_go_app d x : forall cur rest, split_go d cur (x ++ d :: rest) = split_go d cur x ++ split_go d [] rest.
Proof.
  induction x as [|c x IH]; intros cur rest; cbn [app split_go]; [rewrite Z.eqb_refl; reflexivity|]. destruct (c =? d); [cbn; f_equal; apply IH|apply IH].
Qed.
Lemma split_go_cur d : forall s cur, split_go d cur s = (cur ++ hd [] (split_go d [] s)) :: tl (split_go d [] s).
Proof.
  induction s as [|c s IH]; intros cur; cbn [split_go]; [rewrite app_nil_r; reflexivity|]. destruct (c =? d); [cbn; rewrite app_nil_r; reflexivity|].
  rewrite (IH (cur ++ [c])), (IH ([] ++ [c])). cbn. rewrite <- app_assoc. reflexivity.
Qed.
Lemma split_join_flat d xs : xs <> [] -> split d (join d xs) = flat_map (split d) xs.
Proof.
  intros Hne. induction xs as [|x r IH]; [congruence|]. destruct r as [|y r'].
  - cbn. rewrite app_nil_r. reflexivity.
  - change (join d (x :: y :: r')) with (x ++ d :: join d (y :: r')). unfold split at 1. rewrite split_go_app. cbn [flat_map]. f_equal. apply IH. discriminate.
Qed.
Lemma split_free_prefix d a w : free d a -> split d (a ++ w) = (a ++ hd [] (split d w)) :: tl (split d w).
Proof.
  intros Hf. unfold split. assert (forall cur, split_go d cur (a ++ w) = split_go d (cur ++ a) w) as G.
  { induction a as [|c a IH]; intros cur; [rewrite app_nil_r; reflexivity|]. cbn [app split_go]. rewrite (Hf c (or_introl eq_refl)).
    rewrite IH by (intros y Hy; apply Hf; right; exact Hy). rewrite <- app_assoc. reflexivity. }
  rewrite G. cbn [app]. apply split_go_cur.
Qed.
Lemma first_comma (w : list Z) : free 44 w \/ exists a b, w = a ++ 44 :: b /\ free 44 a.
Proof.
  induction w as [|c w IH]; [left; intros c []|]. destruct (c =? 44) eqn:E.
  - apply Z.eqb_eq in E. subst c. right. exists [], w. split; [reflexivity|intros c []].
  - destruct IH as [Hf|[a [b [Ew Ha]]]].
    + left. intros y [<-|Hy]; [exact E|exact (Hf y Hy)].
    + right. exists (c :: a), b. split; [cbn; f_equal; exact Ew|]. intros y [<-|Hy]; [exact E|exact (Ha y Hy)].
Qed.

(* joining the pieces of a quoted value again: every piece boundary is judged unclosed, the whole is judged closed *)
Lemma join_closed_split q : forall n w acc R, (length w <= n)%nat ->
  (forall p s, w = p ++ 44 :: s -> unclosed q (acc ++ p) = true) -> unclosed q (acc ++ w) = false ->
  join_closed q (acc ++ hd [] (split 44 w)) (tl (split 44 w) ++ R) = Some (acc ++ w, R).
Proof.
  induction n as [|n IH]; intros w acc R Hn Hopen Hclosed.
  - destruct w; [|cbn in Hn; lia]. cbn. rewrite app_nil_r in *. destruct R; cbn; rewrite Hclosed; reflexivity.
  - destruct (first_comma w) as [Hf|[a [b [Ew Ha]]]].
    + unfold split. rewrite (split_go_free_end 44 w Hf []). cbn [hd tl app]. destruct R; cbn [join_closed]; rewrite Hclosed; reflexivity.
    + subst w. unfold split. rewrite (split_go_free 44 a Ha [] b). cbn [hd tl app]. fold (split 44 b).
      assert (exists h t, split 44 b = h :: t) as [h [t Eb]] by (unfold split; rewrite split_go_cur; eexists; eexists; reflexivity).
      rewrite Eb. cbn [app join_closed]. rewrite (Hopen a b eq_refl).
      assert (length b <= n)%nat as Hb by (rewrite app_length in Hn; cbn in Hn; lia).
      specialize (IH b (acc ++ a ++ [44]) R Hb). rewrite Eb in IH. cbn [hd tl] in IH. rewrite <- !app_assoc in IH. cbn [app] in IH. rewrite <- app_assoc. apply IH.
      * intros p s Eps. specialize (Hopen (a ++ 44 :: p) s). rewrite <- !app_assoc in Hopen. cbn [app] in Hopen. rewrite <- !app_assoc. cbn [app]. apply Hopen. rewrite Eps. reflexivity.
      * exact Hclosed.
Qed.

Lemma lead_bs_snoc l c : (c =? 92) = false -> lead_bs (l ++ [c]) = lead_bs l.
Proof. intros H. induction l as [|x l IH]; cbn; [rewrite H; reflexivity|]. destruct (x =? 92); [f_equal; exact IH|reflexivity]. Qed.
Lemma snoc_split (x e1 s : list Z) (q d : Z) : q <> d -> x ++ [q] = e1 ++ d :: s -> exists s', s = s' ++ [q] /\ x = e1 ++ d :: s'.
Proof.
  intros Hne H. destruct s as [|z s] using rev_ind.
  - exfalso. change (e1 ++ [d]) with (e1 ++ [d]) in H. apply app_inj_tail in H. destruct H as [_ H]. congruence.
  - clear IHs. change (e1 ++ d :: s ++ [z]) with (e1 ++ (d :: s) ++ [z]) in H. rewrite app_assoc in H. apply app_inj_tail in H. destruct H as [H1 H2]. subst z.
    exists s. split; [reflexivity|exact H1].
Qed.

Section Q.
  Variable q : Z.
  Hypothesis Hq : q = 39 \/ q = 34.
  Lemma q_esc : esc_char q = true. Proof. destruct Hq; subst; reflexivity. Qed.
  Lemma q_nbs : (q =? 92) = false. Proof. destruct Hq; subst; reflexivity. Qed.
  Lemma q_nws : ws_py q = false. Proof. destruct Hq; subst; reflexivity. Qed.
  Lemma q_ncomma : q <> 44. Proof. destruct Hq; subst; discriminate. Qed.

  Lemma closed_whole v : unclosed q (q :: escape v ++ [q]) = false.
  Proof.
    unfold unclosed. change (q :: escape v ++ [q]) with ((q :: escape v) ++ [q]). rewrite (rstripw_snoc _ q q_nws), rev_unit. cbn [rev].
    destruct (rev (escape v) ++ [q]) as [|b0 bs] eqn:E; [destruct (rev (escape v)); discriminate|]. rewrite <- E, Z.eqb_refl. cbn [negb orb].
    rewrite (lead_bs_snoc _ q q_nbs). fold (tb (escape v)). rewrite <- Nat.negb_even, tb_escape_even. reflexivity.
  Qed.

  Lemma open_prefix v p s : q :: escape v ++ [q] = p ++ 44 :: s -> unclosed q p = true.
  Proof.
    intros H. destruct p as [|p0 e1]; [cbn in H; injection H as H _; exfalso; exact (q_ncomma H)|]. cbn in H. injection H as <- H.
    destruct (snoc_split _ _ _ q 44 q_ncomma H) as [s' [-> Ev]]. unfold unclosed. rewrite (rstripw_cons q e1 q_nws).
    destruct (rstripw_shape e1) as [t [Et [Hs|[e [c [Hs Hc]]]]]]; rewrite Hs; [reflexivity|].
    change (q :: e ++ [c]) with ((q :: e) ++ [c]). rewrite rev_unit. cbn [rev].
    destruct (rev e ++ [q]) as [|b0 bs] eqn:E; [destruct (rev e); discriminate|]. rewrite <- E. destruct (c =? q) eqn:Ec; [|reflexivity]. cbn [negb orb].
    apply Z.eqb_eq in Ec. subst c. rewrite (lead_bs_snoc _ q q_nbs). fold (tb e).
    apply (escaped_quote_odd v e q (t ++ 44 :: s')); [|exact q_esc|exact q_nbs]. rewrite Ev, Et, Hs, <- !app_assoc. reflexivity.
  Qed.

  (* ---- one cell *)
  Definition key_ok (k : list Z) : Prop := k <> [] /\ forallb digit k = true.
  Definition val_ok (v : list Z) : Prop := forall c, In c v -> ws_py c = true -> c = 32.
  Lemma digit_facts c : digit c = true -> ws_py c = false /\ (c =? 44) = false.
  Proof. unfold digit. intros H. apply andb_true_iff in H. destruct H as [H1 H2]. apply Z.leb_le in H1, H2. unfold ws_py, ws. split; repeat (apply orb_false_intro); try (apply andb_false_iff); lia. Qed.
  Lemma key_nows k : key_ok k -> nows k /\ free 44 k.
  Proof. intros [_ H]. rewrite forallb_forall in H. split; intros c Hc; apply digit_facts; apply H; exact Hc. Qed.

  Lemma plain_value v : val_ok v -> needs_quotes_sp v = false -> v <> [] /\ nows v /\ free 44 v /\ (forall c r, v = c :: r -> ((c =? 39) || (c =? 34)) = false).
  Proof.
    intros Hv H. unfold needs_quotes_sp in H. apply orb_false_elim in H. destruct H as [H1 H2]. unfold needs_quotes in H1.
    destruct v as [|c0 r0]; [discriminate|]. apply orb_false_elim in H1. destruct H1 as [_ H1].
    assert (forall c, In c (c0 :: r0) -> special c = false) as Hsp.
    { intros c Hc. destruct (special c) eqn:E; [|reflexivity]. exfalso. assert (existsb special (c0 :: r0) = true) as C by (apply existsb_exists; exists c; split; assumption). congruence. }
    assert (forall c, In c (c0 :: r0) -> ws_py c = false) as Hw.
    { intros c Hc. destruct (ws_py c) eqn:E; [|reflexivity]. exfalso. assert (existsb ws_py (c0 :: r0) = true) as C by (apply existsb_exists; exists c; split; assumption). congruence. }
    split; [discriminate|]. split; [exact Hw|]. split.
    - intros c Hc. specialize (Hsp c Hc). unfold special in Hsp. repeat (apply orb_false_elim in Hsp; destruct Hsp as [Hsp ?]). assumption.
    - intros c r E. injection E as <- <-. specialize (Hsp c0 (or_introl eq_refl)). unfold special, esc_char in Hsp. repeat (apply orb_false_elim in Hsp; destruct Hsp as [Hsp ?]).
      apply orb_false_intro; assumption.
  Qed.
End Q.

Section Main.
  Variable q : Z.
  Hypothesis Hq : q = 39 \/ q = 34.

  Lemma cell_step k v R fuel : key_ok k -> val_ok v -> (length (split 44 (sparse_cell q (k, v)) ++ R) <= fuel)%nat ->
    exists fuel', (length R <= fuel')%nat /\ sparse_go fuel (split 44 (sparse_cell q (k, v)) ++ R) = option_map (cons (k, v)) (sparse_go fuel' R).
  Proof.
    intros Hk Hv Hf. destruct (key_nows k Hk) as [Kw Kc]. destruct Hk as [Kne _]. unfold sparse_cell, sparse_value in *. cbn [fst snd] in *.
    assert (free 44 (k ++ [32])) as Kc' by (intros c Hc; apply in_app_or in Hc; destruct Hc as [Hc|[<-|[]]]; [exact (Kc c Hc)|reflexivity]).
    destruct (needs_quotes_sp v) eqn:En.
    - (* a quoted value *)
      set (w := q :: escape v ++ [q]) in *.
      change (k ++ 32 :: w) with (k ++ [32] ++ w) in *. rewrite app_assoc in *. rewrite (split_free_prefix 44 (k ++ [32]) w Kc') in *.
      assert (exists h t, split 44 w = h :: t /\ exists h', h = q :: h') as [h [t [Ew [h' Eh]]]].
      { unfold split, w. cbn [split_go]. assert ((q =? 44) = false) as -> by (apply Z.eqb_neq; exact (q_ncomma q Hq)). rewrite split_go_cur. eexists. eexists. split; [reflexivity|]. eexists. reflexivity. }
      rewrite Ew in *. cbn [hd tl app length] in Hf |- *. destruct fuel as [|f]; [lia|]. exists f. split; [rewrite app_length in Hf; lia|].
      cbn [sparse_go]. rewrite <- app_assoc. cbn [app]. destruct k as [|k0 kr]; [congruence|]. cbn [app]. rewrite (lstripw_nows_head k0 _ (Kw k0 (or_introl eq_refl))).
      change (k0 :: kr ++ 32 :: h) with ((k0 :: kr) ++ 32 :: h). rewrite (take_tok_app (k0 :: kr) 32 h Kw eq_refl), (drop_tok_app (k0 :: kr) 32 h Kw eq_refl).
      cbn [lstripw]. change (ws_py 32) with true. cbv iota. subst h. rewrite (lstripw_nows_head q h' (q_nws q Hq)).
      assert (((q =? 39) || (q =? 34)) = true) as -> by (destruct Hq; subst; reflexivity).
      pose proof (join_closed_split q (length w) w [] R (le_n _)) as J. rewrite Ew in J. cbn [hd tl app] in J. rewrite J; [|intros p s E; exact (open_prefix q Hq v p s E)|exact (closed_whole q Hq v)].
      unfold w at 1. change (q :: escape v ++ [q]) with ((q :: escape v) ++ [q]). rewrite (rstripw_snoc _ q (q_nws q Hq)). unfold unquote. cbn [tl app]. rewrite removelast_last, unescape_escape. reflexivity.
    - (* a plain value *)
      destruct (plain_value v Hv En) as [Vne [Vw [Vc Vq]]].
      assert (free 44 (k ++ 32 :: v)) as Fc by (intros c Hc; apply in_app_or in Hc; destruct Hc as [Hc|[<-|Hc]]; [exact (Kc c Hc)|reflexivity|exact (Vc c Hc)]).
      unfold split in *. rewrite (split_go_free_end 44 _ Fc []) in *. cbn [app length] in Hf |- *. destruct fuel as [|f]; [lia|]. exists f. split; [lia|].
      cbn [sparse_go]. destruct k as [|k0 kr]; [congruence|]. cbn [app]. rewrite (lstripw_nows_head k0 _ (Kw k0 (or_introl eq_refl))).
      change (k0 :: kr ++ 32 :: v) with ((k0 :: kr) ++ 32 :: v). rewrite (take_tok_app (k0 :: kr) 32 v Kw eq_refl), (drop_tok_app (k0 :: kr) 32 v Kw eq_refl).
      cbn [lstripw]. change (ws_py 32) with true. cbv iota. destruct v as [|c r]; [congruence|]. rewrite (lstripw_nows_head c r (Vw c (or_introl eq_refl))).
      rewrite (Vq c r eq_refl). rewrite (rstripw_nows (c :: r) Vw). reflexivity.
  Qed.

  Lemma cells_go : forall pairs R fuel, Forall (fun kv => key_ok (fst kv) /\ val_ok (snd kv)) pairs ->
    (length (flat_map (split 44) (map (sparse_cell q) pairs) ++ R) <= fuel)%nat ->
    exists fuel', (length R <= fuel')%nat /\ sparse_go fuel (flat_map (split 44) (map (sparse_cell q) pairs) ++ R) = option_map (app pairs) (sparse_go fuel' R).
  Proof.
    induction pairs as [|[k v] r IH]; intros R fuel Hok Hf.
    - exists fuel. split; [exact Hf|]. cbn. destruct (sparse_go fuel R); reflexivity.
    - inversion Hok as [|? ? [Hk Hv] Hr]; subst. cbn [map flat_map] in *. rewrite <- app_assoc in *.
      destruct (cell_step k v _ fuel Hk Hv Hf) as [f1 [L1 E1]]. destruct (IH R f1 Hr L1) as [f2 [L2 E2]]. exists f2. split; [exact L2|].
      rewrite E1, E2. destruct (sparse_go f2 R); reflexivity.
  Qed.

  Theorem sparse_line_roundtrip_lemma pairs : Forall (fun kv => key_ok (fst kv) /\ val_ok (snd kv)) pairs -> sparse_parse (sparse_line q pairs) = Some pairs.
  Proof.
    intros Hok. unfold sparse_parse, sparse_body, sparse_line.
    assert (ws_py 123 = false /\ ws_py 125 = false) as [W1 W2] by (split; reflexivity).
    rewrite (lstripw_nows_head 123 _ W1). change (123 :: join 44 (map (sparse_cell q) pairs) ++ [125]) with ((123 :: join 44 (map (sparse_cell q) pairs)) ++ [125]).
    rewrite (rstripw_snoc _ 125 W2). unfold unquote. cbn [tl app]. rewrite removelast_last.
    destruct pairs as [|p r]; [reflexivity|]. rewrite split_join_flat by discriminate.
    set (ps := flat_map (split 44) (map (sparse_cell q) (p :: r))).
    destruct (cells_go (p :: r) [] (length ps) Hok) as [f [_ E]]; [rewrite app_nil_r; apply le_n|]. fold ps in E. rewrite app_nil_r in E. rewrite E. destruct f; cbn; rewrite app_nil_r; reflexivity.
  Qed.
End Main.
