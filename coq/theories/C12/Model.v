(* C12 — what coba reads from a dataset file is what the file says.
   Executable models over code points / bytes (Z):
     sl            - str.splitlines as a character automaton (parametrised by the line-boundary predicate)
     delim_read    - DelimSource.read (splitlines branch): per-text splitlines, pending last line, CR carried over
     utf8_*        - grouping of UTF-8 bytes into characters with a carry buffer (the incremental decoder)
     disk_write / disk_read - DiskSink.write / DiskSource.read framing
     split / join / strip, libsvm_print / libsvm_parse - LibsvmReader (ManikReader = the same after dropping the first line)
     csv_print / csv_parse  - the csv automaton for (comma delimiter, double-quote quotechar, doubled quotes) and RFC-4180 minimal quoting *)
From Coq Require Import ZArith List Bool.
Import ListNotations.
Open Scope Z_scope.

(* ---------------------------------------------------------------- lines *)
(* CPython's str.splitlines boundaries: \n \v \f \r \x1c \x1d \x1e \x85     *)
Definition brk_py (c : Z) : bool :=
  (c =? 10) || (c =? 11) || (c =? 12) || (c =? 13) || (c =? 28) || (c =? 29) || (c =? 30) || (c =? 133) || (c =? 8232) || (c =? 8233).
(* universal-newline text files: \n \r \r\n *)
Definition brk_file (c : Z) : bool := (c =? 10) || (c =? 13).

Section Lines.
  Variable brk : Z -> bool.

  (* state: the line collected so far, and whether the previous character was a CR (whose LF is still to be swallowed) *)
  Fixpoint sl (cur : list Z) (cr : bool) (s : list Z) : list (list Z) :=
    match s with
    | [] => match cur with [] => [] | _ => [cur] end
    | c :: t =>
      if cr && (c =? 10) then sl cur false t
      else if brk c then cur :: sl [] (c =? 13) t
      else sl (cur ++ [c]) false t
    end.
  Definition splitlines (s : list Z) : list (list Z) := sl [] false s.

  (* the lines completed while reading s, and the state afterwards *)
  Fixpoint emit (cur : list Z) (cr : bool) (s : list Z) : list (list Z) :=
    match s with
    | [] => []
    | c :: t =>
      if cr && (c =? 10) then emit cur false t
      else if brk c then cur :: emit [] (c =? 13) t
      else emit (cur ++ [c]) false t
    end.
  Fixpoint after (cur : list Z) (cr : bool) (s : list Z) : list Z * bool :=
    match s with
    | [] => (cur, cr)
    | c :: t =>
      if cr && (c =? 10) then after cur false t
      else if brk c then after [] (c =? 13) t
      else after (cur ++ [c]) false t
    end.

  (* DelimSource.read, splitlines branch (after the fixes): *)
  Record dstate := { pending : option (list Z); after_cr : bool }.
  Definition d0 := {| pending := None; after_cr := false |}.

  Definition lastc (s : list Z) : Z := last s 0.
  Definition prepend (p : list Z) (ls : list (list Z)) : list (list Z) :=
    match ls with [] => [p] | l :: r => (p ++ l) :: r end.

  Definition dstep (st : dstate) (text : list Z) : list (list Z) * dstate :=
    match text with
    | [] => ([], st)                                                    (* filter(None, ...) *)
    | c0 :: t0 =>
      let text1 := if after_cr st && (c0 =? 10) then t0 else text in   (* the LF of a CR LF pair cut in two *)
      let cr' := match text1 with [] => false | _ => lastc text1 =? 13 end in
      match text1 with
      | [] => ([], {| pending := pending st; after_cr := cr' |})
      | _ =>
        let lines := splitlines text1 in
        let lines1 := match pending st with Some (x :: p) => prepend (x :: p) lines | _ => lines end in
        if brk (lastc text1)
        then (lines1, {| pending := match pending st with Some [] => Some [] | _ => None end; after_cr := cr' |})
        else (removelast lines1, {| pending := Some (last lines1 []); after_cr := cr' |})
      end
    end.

  Fixpoint dread (st : dstate) (texts : list (list Z)) : list (list Z) :=
    match texts with
    | [] => match pending st with Some p => [p] | None => [] end
    | t :: ts => let (out, st') := dstep st t in out ++ dread st' ts
    end.
  Definition delim_read (texts : list (list Z)) : list (list Z) := dread d0 texts.
End Lines.

(* ---------------------------------------------------------------- UTF-8 grouping *)
Definition need (b : Z) : nat :=
  if b <? 192 then 1%nat else if b <? 224 then 2%nat else if b <? 240 then 3%nat else if b <? 248 then 4%nat else 1%nat.

(* state: the bytes of the character under construction and how many more are needed *)
Definition ustate := (list Z * nat)%type.
Definition ustep (st : ustate) (b : Z) : list (list Z) * ustate :=
  match st with
  | (cur, O) => match need b with S (S k) => ([], ([b], S k)) | _ => ([[b]], ([], O)) end
  | (cur, S O) => ([cur ++ [b]], ([], O))
  | (cur, S k) => ([], (cur ++ [b], k))
  end.
Fixpoint urun (st : ustate) (s : list Z) : list (list Z) * ustate :=
  match s with
  | [] => ([], st)
  | b :: t => let (o1, st1) := ustep st b in let (o2, st2) := urun st1 t in (o1 ++ o2, st2)
  end.
(* the incremental decoder: one state carried across the chunks *)
Fixpoint uchunks (st : ustate) (chunks : list (list Z)) : list (list Z) * ustate :=
  match chunks with
  | [] => ([], st)
  | c :: cs => let (o1, st1) := urun st c in let (o2, st2) := uchunks st1 cs in (o1 ++ o2, st2)
  end.
(* decoding every chunk on its own (the defect that was repaired) *)
Fixpoint uchunks_reset (chunks : list (list Z)) : list (list Z) :=
  match chunks with
  | [] => []
  | c :: cs => fst (urun ([], O) c) ++ uchunks_reset cs
  end.

(* ---------------------------------------------------------------- DiskSink / DiskSource *)
Definition disk_write (writes : list (list (list Z))) : list Z :=
  flat_map (fun w => flat_map (fun l => l ++ [10]) w) writes.
Definition rstrip_crlf (l : list Z) : list Z :=
  rev ((fix go (r : list Z) := match r with c :: t => if brk_file c then go t else r | [] => [] end) (rev l)).
Definition disk_read (s : list Z) : list (list Z) := map rstrip_crlf (splitlines brk_file s).

(* ---------------------------------------------------------------- split / join / strip *)
Fixpoint split_go (d : Z) (cur : list Z) (s : list Z) : list (list Z) :=
  match s with
  | [] => [cur]
  | c :: t => if c =? d then cur :: split_go d [] t else split_go d (cur ++ [c]) t
  end.
Definition split (d : Z) (s : list Z) : list (list Z) := split_go d [] s.
Fixpoint join (d : Z) (xs : list (list Z)) : list Z :=
  match xs with [] => [] | [x] => x | x :: r => x ++ d :: join d r end.

Definition ws (c : Z) : bool := (c =? 32) || ((9 <=? c) && (c <=? 13)) || ((28 <=? c) && (c <=? 31)) || (c =? 133) || (c =? 160).
Fixpoint lstrip (s : list Z) : list Z := match s with c :: t => if ws c then lstrip t else s | [] => [] end.
Definition strip (s : list Z) : list Z := rev (lstrip (rev (lstrip s))).
Definition mem (c : Z) (s : list Z) : bool := existsb (Z.eqb c) s.

(* LibsvmReader: one line -> Some (labels, [(key, value)]) | None (skipped: blank or label-less); a feature without exactly one colon raises *)
Inductive lres := Row (labels : list (list Z)) (feats : list (list Z * list Z)) | Skip | Raise.
Fixpoint feats_of (items : list (list Z)) : option (list (list Z * list Z)) :=
  match items with
  | [] => Some []
  | i :: r => match split 58 i, feats_of r with [k; v], Some fs => Some ((k, v) :: fs) | _, _ => None end
  end.
Definition libsvm_line (line : list Z) : lres :=
  match line with
  | [] => Skip
  | _ =>
    match split 32 (strip line) with
    | [] => Skip
    | i0 :: rest =>
      if match i0 with [] => true | _ => mem 58 i0 end then Skip
      else match feats_of rest with Some fs => Row (split 44 i0) fs | None => Raise end
    end
  end.
Definition libsvm_print (labels : list (list Z)) (feats : list (list Z * list Z)) : list Z :=
  join 32 (join 44 labels :: map (fun kv => fst kv ++ 58 :: snd kv) feats).

(* ---------------------------------------------------------------- CSV *)
Inductive cst := StartField | InField | InQuoted | QuoteInQuoted.
Fixpoint csv_go (st : cst) (cur : list Z) (s : list Z) : list (list Z) :=
  match s with
  | [] => [cur]                                           (* end of the record: the field is saved (also for an unterminated quote, strict=False) *)
  | c :: t =>
    match st with
    | StartField => if c =? 44 then cur :: csv_go StartField [] t
                    else if c =? 34 then csv_go InQuoted cur t
                    else csv_go InField (cur ++ [c]) t
    | InField => if c =? 44 then cur :: csv_go StartField [] t else csv_go InField (cur ++ [c]) t
    | InQuoted => if c =? 34 then csv_go QuoteInQuoted cur t else csv_go InQuoted (cur ++ [c]) t
    | QuoteInQuoted => if c =? 34 then csv_go InQuoted (cur ++ [c]) t
                       else if c =? 44 then cur :: csv_go StartField [] t
                       else csv_go InField (cur ++ [c]) t
    end
  end.
Definition csv_parse (line : list Z) : list (list Z) := csv_go StartField [] line.

Fixpoint dbl (c : list Z) : list Z := match c with [] => [] | x :: t => if x =? 34 then 34 :: 34 :: dbl t else x :: dbl t end.
Definition needs_quote (c : list Z) : bool := match c with [] => true | _ => mem 44 c || mem 34 c end.
Definition csv_cell (c : list Z) : list Z := if needs_quote c then 34 :: dbl c ++ [34] else c.
Definition csv_print (cells : list (list Z)) : list Z := join 44 (map csv_cell cells).
