(* C12, ARFF nominal attributes: the level list  {l1,l2,...}  as ArffAttrReader._encoder reads it - ArffAttrReader._split with the capturing pattern "(,)":
   re.split keeps the separators as items of their own; items that are empty or a separator are skipped; an item that starts with a quote character is
   extended with the following items (separators included) while it is _unclosed, then stripped, unquoted and _unescape'd; any other item is stripped. *)
From Coq Require Import ZArith List Bool Arith.
From Coba Require Import C12.Model C12.ModelArff C12.ModelArffSparse.
Import ListNotations.
Open Scope Z_scope.

(* re.split("(,)", s): pieces and separators alternate *)
Fixpoint interleave (ps : list (list Z)) : list (list Z) :=
  match ps with [] => [] | [p] => [p] | p :: r => p :: [44] :: interleave r end.
Definition comma_items (s : list Z) : list (list Z) := interleave (split 44 s).

(* while _unclosed(item,q): item += next(items)       (None: StopIteration - the generator ends without yielding the item) *)
Fixpoint join_items (q : Z) (val : list Z) (items : list (list Z)) : option (list Z * list (list Z)) :=
  if unclosed q val then match items with [] => None | it :: r => join_items q (val ++ it) r end else Some (val, items).

Definition stripw (s : list Z) : list Z := rstripw (lstripw s).
Fixpoint levels_go (fuel : nat) (items : list (list Z)) : list (list Z) :=
  match items with
  | [] => []
  | it :: rest =>
    match fuel with
    | O => []
    | S f =>
      match lstripw it with
      | [] => levels_go f rest                                    (* if not item: continue *)
      | c :: t =>
        if c =? 44 then levels_go f rest                          (* pattern.match(item): a separator *)
        else if (c =? 39) || (c =? 34) then
          match join_items c (c :: t) rest with
          | None => []
          | Some (v, rest') => unescape (unquote (rstripw (stripw v))) :: levels_go f rest'
          end
        else stripw (c :: t) :: levels_go f rest
      end
    end
  end.
Definition levels_parse (body : list Z) : list (list Z) := let items := comma_items body in levels_go (length items) items.

(* the writer: levels quoted the Weka way, separated by commas *)
Definition levels_line (q : Z) (levels : list (list Z)) : list Z := join 44 (map (sparse_value q) levels).
