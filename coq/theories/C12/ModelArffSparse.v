(* C12, ARFF sparse data lines  {k v, k v, ...}  as ArffLineReader._sparse reads them when a quote character occurs in the line (_sparse_quoted):
   strip, drop the braces, split at commas; per piece: str.split(None,1) into key and value; a value that starts with a quote character is joined with
   the following pieces while it is _unclosed, then stripped on the right, unquoted and _unescape'd; any other value is stripped on the right.
   The functions follow the Python text line by line (they are not an automaton). *)
From Coq Require Import ZArith List Bool Arith.
From Coba Require Import C12.Model C12.ModelArff.
Import ListNotations.
Open Scope Z_scope.

(* str.isspace *)
Definition ws_py (c : Z) : bool :=
  ws c || (c =? 5760) || ((8192 <=? c) && (c <=? 8202)) || (c =? 8232) || (c =? 8233) || (c =? 8239) || (c =? 8287) || (c =? 12288).
Fixpoint lstripw (s : list Z) : list Z := match s with c :: t => if ws_py c then lstripw t else s | [] => [] end.
Definition rstripw (s : list Z) : list Z := rev (lstripw (rev s)).
Fixpoint take_tok (s : list Z) : list Z := match s with c :: t => if ws_py c then [] else c :: take_tok t | [] => [] end.
Fixpoint drop_tok (s : list Z) : list Z := match s with c :: t => if ws_py c then s else drop_tok t | [] => [] end.

(* _unclosed(item, quote) *)
Fixpoint lead_bs (s : list Z) : nat := match s with c :: t => if c =? 92 then S (lead_bs t) else O | [] => O end.
Definition unclosed (q : Z) (item : list Z) : bool :=
  match rev (rstripw item) with
  | [] => true
  | [_] => true                                        (* len(item) < 2 *)
  | c :: before => negb (c =? q) || Nat.odd (lead_bs before)      (* the closing quote is itself escaped *)
  end.

(* _unescape: re.sub(r"\\(.)", group 1) - the dot does not match a line feed *)
Fixpoint unescape (s : list Z) : list Z :=
  match s with
  | 92 :: c :: t => if c =? 10 then 92 :: c :: unescape t else c :: unescape t
  | c :: t => c :: unescape t
  | [] => []
  end.

Definition unquote (s : list Z) : list Z := removelast (tl s).      (* s[1:-1] *)

(* while _unclosed(val, q): val += "," + d_line.popleft()      (None: IndexError, the pieces ran out) *)
Fixpoint join_closed (q : Z) (val : list Z) (rest : list (list Z)) : option (list Z * list (list Z)) :=
  if unclosed q val then match rest with [] => None | p :: r => join_closed q (val ++ 44 :: p) r end else Some (val, rest).

Fixpoint sparse_go (fuel : nat) (pieces : list (list Z)) : option (list (list Z * list Z)) :=
  match pieces with
  | [] => Some []
  | item :: rest =>
    match fuel with
    | O => None
    | S f =>
      match lstripw item with
      | [] => sparse_go f rest                                              (* if not item.strip(): continue *)
      | s =>
        let key := take_tok s in
        let val := lstripw (drop_tok s) in                                   (* item.split(None,1) *)
        match val with
        | [] => option_map (cons (key, [])) (sparse_go f rest)
        | c :: _ =>
          if (c =? 39) || (c =? 34) then
            match join_closed c val rest with
            | None => None
            | Some (v, rest') => option_map (cons (key, unescape (unquote (rstripw v)))) (sparse_go f rest')
            end
          else option_map (cons (key, rstripw val)) (sparse_go f rest)
        end
      end
    end
  end.

Definition sparse_body (line : list Z) : list Z := unquote (rstripw (lstripw line)).      (* line.strip()[1:-1] *)
Definition sparse_parse (line : list Z) : option (list (list Z * list Z)) :=
  let pieces := split 44 (sparse_body line) in sparse_go (length pieces) pieces.

(* int(key) for the plain decimal keys a writer emits *)
Definition digit (c : Z) : bool := (48 <=? c) && (c <=? 57).
Definition key_value (k : list Z) : option Z :=
  match k with [] => None | _ => if forallb digit k then Some (fold_left (fun a c => a * 10 + (c - 48)) k 0) else None end.

(* the writer: Weka's quoting of a value (ModelArff.arff_value with quote character q), where every white-space character counts as special *)
Section Print.
  Variable q : Z.
  Definition needs_quotes_sp (v : list Z) : bool := needs_quotes v || existsb ws_py v.
  Definition sparse_value (v : list Z) : list Z := if needs_quotes_sp v then q :: escape v ++ [q] else v.
  Definition sparse_cell (kv : list Z * list Z) : list Z := fst kv ++ 32 :: sparse_value (snd kv).
  Definition sparse_line (pairs : list (list Z * list Z)) : list Z := 123 :: join 44 (map sparse_cell pairs) ++ [125].
End Print.
