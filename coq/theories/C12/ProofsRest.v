From Coq Require Import ZArith List Bool Lia.
From Coba Require Import C12.Model C12.ProofsLines.
Import ListNotations.
Open Scope Z_scope.

(* ---------------------------------------------------------------- UTF-8 grouping *)
Lemma urun_app a : forall st b, urun st (a ++ b) = let (o1, st1) := urun st a in let (o2, st2) := urun st1 b in (o1 ++ o2, st2).
Proof.
  induction a as [|x t IH]; intros st b; cbn [app urun].
  - destruct (urun st b). reflexivity.
  - destruct (ustep st x) as [o1 st1]. rewrite IH. destruct (urun st1 t) as [o2 st2]. destruct (urun st2 b) as [o3 st3].
    rewrite app_assoc. reflexivity.
Qed.

Lemma uchunks_concat chunks : forall st, uchunks st chunks = urun st (concat chunks).
Proof.
  induction chunks as [|c cs IH]; intros st; cbn [uchunks concat]; [reflexivity|].
  rewrite urun_app. destruct (urun st c) as [o1 st1]. rewrite IH. reflexivity.
Qed.

(* decoding each chunk on its own differs as soon as a character straddles two chunks *)
Lemma uchunks_reset_refuted : uchunks_reset [[195]; [169]] <> fst (urun ([], O) [195; 169]).
Proof. vm_compute. discriminate. Qed.

(* ---------------------------------------------------------------- DiskSink / DiskSource *)
Definition clean (l : list Z) : Prop := forall c, In c l -> brk_file c = false.

Lemma sl_clean_line l : clean l -> forall cur rest, sl brk_file cur false (l ++ 10 :: rest) = (cur ++ l) :: sl brk_file [] false rest.
Proof.
  induction l as [|c t IH]; intros Hc cur rest.
  - cbn. rewrite app_nil_r. reflexivity.
  - cbn [app Model.sl andb]. rewrite (Hc c (or_introl eq_refl)). rewrite IH by (intros x Hx; apply Hc; right; exact Hx).
    rewrite <- app_assoc. reflexivity.
Qed.

Lemma rstrip_clean l : clean l -> rstrip_crlf l = l.
Proof.
  intros Hc. unfold rstrip_crlf. destruct (rev l) as [|c t] eqn:E.
  - apply (f_equal (@rev Z)) in E. rewrite rev_involutive in E. subst l. reflexivity.
  - assert (In c l) as Hin. { apply in_rev. rewrite E. left. reflexivity. }
    rewrite (Hc c Hin). rewrite <- E. apply rev_involutive.
Qed.

Lemma splitlines_written lines : Forall clean lines -> splitlines brk_file (flat_map (fun l => l ++ [10]) lines) = lines.
Proof.
  induction 1 as [|l r Hl Hr IH]; [reflexivity|]. cbn [flat_map]. unfold splitlines. rewrite <- app_assoc. cbn [app].
  rewrite sl_clean_line by exact Hl. cbn [app]. f_equal. exact IH.
Qed.

Lemma flat_map_concat {A B} (f : A -> list B) (ls : list (list A)) : flat_map (flat_map f) ls = flat_map f (concat ls).
Proof. induction ls as [|l r IH]; [reflexivity|]. cbn [flat_map concat]. rewrite flat_map_app, IH. reflexivity. Qed.

Theorem disk_roundtrip_lemma writes : Forall clean (concat writes) -> disk_read (disk_write writes) = concat writes.
Proof.
  intros H. unfold disk_read, disk_write. rewrite flat_map_concat, splitlines_written by exact H.
  induction H as [|l r Hl Hr IH]; [reflexivity|]. cbn [map]. rewrite rstrip_clean by exact Hl. f_equal. exact IH.
Qed.

(* ---------------------------------------------------------------- split / join *)
Definition free (d : Z) (x : list Z) : Prop := forall c, In c x -> (c =? d) = false.

Lemma split_go_free d x : free d x -> forall cur rest, split_go d cur (x ++ d :: rest) = (cur ++ x) :: split_go d [] rest.
Proof.
  induction x as [|c t IH]; intros Hf cur rest.
  - cbn. rewrite Z.eqb_refl, app_nil_r. reflexivity.
  - cbn [app split_go]. rewrite (Hf c (or_introl eq_refl)). rewrite IH by (intros y Hy; apply Hf; right; exact Hy).
    rewrite <- app_assoc. reflexivity.
Qed.
Lemma split_go_free_end d x : free d x -> forall cur, split_go d cur x = [cur ++ x].
Proof.
  induction x as [|c t IH]; intros Hf cur.
  - cbn. rewrite app_nil_r. reflexivity.
  - cbn [split_go]. rewrite (Hf c (or_introl eq_refl)). rewrite IH by (intros y Hy; apply Hf; right; exact Hy).
    rewrite <- app_assoc. reflexivity.
Qed.

Theorem split_join_lemma d xs : xs <> [] -> Forall (free d) xs -> split d (join d xs) = xs.
Proof.
  intros Hne H. induction H as [|x r Hx Hr IH]; [congruence|]. unfold split.
  destruct r as [|y r'].
  - cbn [join]. apply split_go_free_end. exact Hx.
  - change (join d (x :: y :: r')) with (x ++ d :: join d (y :: r')). rewrite split_go_free by exact Hx. cbn [app]. f_equal.
    apply IH. discriminate.
Qed.

(* ---------------------------------------------------------------- strip *)
Lemma lstrip_id c t : ws c = false -> lstrip (c :: t) = c :: t.
Proof. intros H. cbn. rewrite H. reflexivity. Qed.
Lemma strip_id s c t c' t' : s = c :: t -> rev s = c' :: t' -> ws c = false -> ws c' = false -> strip s = s.
Proof.
  intros Hs Hr Hc Hc'. unfold strip. rewrite Hs, lstrip_id by exact Hc. rewrite <- Hs, Hr, lstrip_id by exact Hc'. rewrite <- Hr. apply rev_involutive.
Qed.

(* ---------------------------------------------------------------- LibSVM *)
Definition tok (x : list Z) : Prop := x <> [] /\ forall c, In c x -> ws c = false /\ (c =? 32) = false /\ (c =? 58) = false /\ (c =? 44) = false.

Lemma tok_free d x : (d = 32 \/ d = 58 \/ d = 44) -> tok x -> free d x.
Proof. intros Hd [_ H] c Hc. destruct (H c Hc) as [_ [A [B C]]]. destruct Hd as [->|[->| ->]]; assumption. Qed.

Lemma mem_free d x : free d x -> mem d x = false.
Proof.
  induction x as [|c t IH]; intros H; [reflexivity|]. cbn. rewrite Z.eqb_sym, (H c (or_introl eq_refl)). cbn.
  apply IH. intros y Hy. apply H. right. exact Hy.
Qed.

Lemma feats_of_print feats : Forall (fun kv => tok (fst kv) /\ tok (snd kv)) feats ->
  feats_of (map (fun kv => fst kv ++ 58 :: snd kv) feats) = Some feats.
Proof.
  induction 1 as [|[k v] r [Hk Hv] Hr IH]; [reflexivity|]. cbn [map feats_of fst snd]. unfold split.
  rewrite split_go_free by (apply tok_free; [right; left; reflexivity|exact Hk]).
  rewrite split_go_free_end by (apply tok_free; [right; left; reflexivity|exact Hv]). cbn [app]. rewrite IH. reflexivity.
Qed.

Lemma free_app d a b : free d a -> free d b -> free d (a ++ b).
Proof. intros Ha Hb c Hc. apply in_app_or in Hc. destruct Hc; [apply Ha|apply Hb]; assumption. Qed.

Lemma free_join d e xs : (e =? d) = false -> Forall (free d) xs -> free d (join e xs).
Proof.
  intros He H. induction H as [|x r Hx Hr IH]; [intros c []|]. destruct r as [|y r']; [exact Hx|].
  change (join e (x :: y :: r')) with (x ++ e :: join e (y :: r')). apply free_app; [exact Hx|].
  intros c [<-|Hc]; [exact He|apply IH; exact Hc].
Qed.

Definition nows (x : list Z) : Prop := forall c, In c x -> ws c = false.

Lemma nows_join d xs : ws d = false -> Forall nows xs -> nows (join d xs).
Proof.
  intros Hd H. induction H as [|x r Hx Hr IH]; [intros c []|]. destruct r as [|y r']; [exact Hx|].
  change (join d (x :: y :: r')) with (x ++ d :: join d (y :: r')). intros c Hc. apply in_app_or in Hc.
  destruct Hc as [Hc|[<-|Hc]]; [apply Hx; exact Hc|exact Hd|apply IH; exact Hc].
Qed.

Lemma ends_join d xs : xs <> [] -> Forall (fun x => x <> [] /\ nows x) xs ->
  exists a m z m', join d xs = a :: m /\ join d xs = m' ++ [z] /\ ws a = false /\ ws z = false.
Proof.
  intros Hne H. induction H as [|x r [Hxn Hx] Hr IH]; [congruence|].
  destruct x as [|a mx]; [congruence|]. destruct (@exists_last _ (a :: mx) ltac:(discriminate)) as [px [zx Ex]].
  destruct r as [|y r'].
  - cbn [join]. exists a, mx, zx, px. repeat split; [exact Ex|apply Hx; left; reflexivity|apply Hx; rewrite Ex; apply in_or_app; right; left; reflexivity].
  - destruct (IH ltac:(discriminate)) as [a' [m [z [m' [E1 [E2 [Ha' Hz]]]]]]].
    change (join d ((a :: mx) :: y :: r')) with ((a :: mx) ++ d :: join d (y :: r')).
    exists a, (mx ++ d :: join d (y :: r')), z, ((a :: mx) ++ d :: m'). repeat split.
    + rewrite E2 at 1. rewrite <- app_assoc. reflexivity.
    + apply Hx. left. reflexivity.
    + exact Hz.
Qed.

Lemma strip_ends s a m z m' : s = a :: m -> s = m' ++ [z] -> ws a = false -> ws z = false -> strip s = s.
Proof.
  intros E1 E2 Ha Hz. apply (strip_id s a m z (rev m')); [exact E1| |exact Ha|exact Hz]. rewrite E2, rev_app_distr. reflexivity.
Qed.

Lemma tok_nows x : tok x -> x <> [] /\ nows x.
Proof. intros [Hn H]. split; [exact Hn|]. intros c Hc. apply (H c Hc). Qed.

Theorem libsvm_roundtrip_lemma labels feats :
  labels <> [] -> Forall tok labels -> Forall (fun kv => tok (fst kv) /\ tok (snd kv)) feats ->
  libsvm_line (libsvm_print labels feats) = Row labels feats.
Proof.
  intros Hne Hl Hf.
  set (T := join 44 labels :: map (fun kv : list Z * list Z => fst kv ++ 58 :: snd kv) feats).
  assert (Forall (fun x => x <> [] /\ nows x) T) as HT.
  { constructor.
    - destruct (ends_join 44 labels Hne) as [a [m [_ [_ [E _]]]]]; [eapply Forall_impl; [|exact Hl]; intros x Hx; apply tok_nows; exact Hx|].
      split; [rewrite E; discriminate|]. apply nows_join; [reflexivity|]. eapply Forall_impl; [|exact Hl]. intros x Hx. apply tok_nows. exact Hx.
    - clear - Hf. induction Hf as [|[k v] r [Hk Hv] Hr IH]; constructor; [|exact IH]. cbn [fst snd].
      split; [destruct k; discriminate|]. intros c Hc. apply in_app_or in Hc. destruct Hc as [Hc|[<-|Hc]]; [apply Hk; exact Hc|reflexivity|apply Hv; exact Hc]. }
  destruct (ends_join 32 T ltac:(discriminate) HT) as [a [m [z [m' [E1 [E2 [Ha Hz]]]]]]].
  unfold libsvm_line. fold T in E1, E2. change (libsvm_print labels feats) with (join 32 T). rewrite E1. rewrite <- E1.
  rewrite (strip_ends _ a m z m' E1 E2 Ha Hz).
  assert (Forall (free 32) T) as HF32.
  { constructor.
    - apply free_join; [reflexivity|]. eapply Forall_impl; [|exact Hl]. intros x Hx. apply tok_free; [left; reflexivity|exact Hx].
    - clear - Hf. induction Hf as [|[k v] r [Hk Hv] Hr IH]; constructor; [|exact IH]. cbn [fst snd].
      apply free_app; [apply tok_free; [left; reflexivity|exact Hk]|]. intros c [<-|Hc]; [reflexivity|]. apply (tok_free 32 v); [left; reflexivity|exact Hv|exact Hc]. }
  rewrite (split_join_lemma 32 T ltac:(discriminate) HF32). unfold T at 1.
  assert (mem 58 (join 44 labels) = false) as Hm.
  { apply mem_free. apply free_join; [reflexivity|]. eapply Forall_impl; [|exact Hl]. intros x Hx. apply tok_free; [right; left; reflexivity|exact Hx]. }
  destruct (ends_join 44 labels Hne) as [a0 [m0 [_ [_ [E0 _]]]]]; [eapply Forall_impl; [|exact Hl]; intros x Hx; apply tok_nows; exact Hx|].
  assert (split 44 (join 44 labels) = labels) as Hsp.
  { apply split_join_lemma; [exact Hne|]. eapply Forall_impl; [|exact Hl]. intros x Hx. apply tok_free; [right; right; reflexivity|exact Hx]. }
  destruct (join 44 labels) as [|a1 m1] eqn:Ej; [discriminate|]. rewrite Hm, feats_of_print by exact Hf. rewrite Hsp. reflexivity.
Qed.

(* ---------------------------------------------------------------- CSV *)

Lemma csv_infield c : mem 44 c = false -> forall cur rest, csv_go InField cur (c ++ 44 :: rest) = (cur ++ c) :: csv_go StartField [] rest.
Proof.
  induction c as [|x t IH]; intros Hm cur rest.
  - cbn. rewrite app_nil_r. reflexivity.
  - unfold mem in Hm; cbn [existsb] in Hm. apply orb_false_elim in Hm. destruct Hm as [Hx Ht]. cbn [app csv_go]. rewrite Z.eqb_sym, Hx. rewrite IH by exact Ht. rewrite <- app_assoc. reflexivity.
Qed.
Lemma csv_infield_end c : mem 44 c = false -> forall cur, csv_go InField cur c = [cur ++ c].
Proof.
  induction c as [|x t IH]; intros Hm cur.
  - cbn. rewrite app_nil_r. reflexivity.
  - unfold mem in Hm; cbn [existsb] in Hm. apply orb_false_elim in Hm. destruct Hm as [Hx Ht]. cbn [csv_go]. rewrite Z.eqb_sym, Hx. rewrite IH by exact Ht. rewrite <- app_assoc. reflexivity.
Qed.
Lemma csv_inquoted c : forall cur rest, csv_go InQuoted cur (dbl c ++ 34 :: rest) = csv_go QuoteInQuoted (cur ++ c) rest.
Proof.
  induction c as [|x t IH]; intros cur rest.
  - cbn. rewrite app_nil_r. reflexivity.
  - cbn [dbl]. destruct (x =? 34) eqn:E.
    + apply Z.eqb_eq in E. subst x. cbn [app csv_go]. cbn. rewrite IH. rewrite <- app_assoc. reflexivity.
    + cbn [app csv_go]. rewrite E. rewrite IH. rewrite <- app_assoc. reflexivity.
Qed.

Lemma csv_cell_step c rest : csv_go StartField [] (csv_cell c ++ 44 :: rest) = c :: csv_go StartField [] rest.
Proof.
  unfold csv_cell. destruct (needs_quote c) eqn:En.
  - cbn [app csv_go]. cbn. rewrite <- app_assoc. cbn [app]. rewrite csv_inquoted. cbn. reflexivity.
  - destruct c as [|x t]; [discriminate|]. unfold needs_quote, mem in En; cbn [existsb] in En. apply orb_false_elim in En. destruct En as [E44 E34].
    apply orb_false_elim in E44. destruct E44 as [Ex44 Et44]. apply orb_false_elim in E34. destruct E34 as [Ex34 Et34].
    cbn [app csv_go]. rewrite Z.eqb_sym, Ex44, Z.eqb_sym, Ex34. rewrite csv_infield by exact Et44. reflexivity.
Qed.
Lemma csv_cell_end c : csv_go StartField [] (csv_cell c) = [c].
Proof.
  unfold csv_cell. destruct (needs_quote c) eqn:En.
  - cbn [app csv_go]. cbn. rewrite csv_inquoted. cbn. reflexivity.
  - destruct c as [|x t]; [discriminate|]. unfold needs_quote, mem in En; cbn [existsb] in En. apply orb_false_elim in En. destruct En as [E44 E34].
    apply orb_false_elim in E44. destruct E44 as [Ex44 Et44]. apply orb_false_elim in E34. destruct E34 as [Ex34 Et34].
    cbn [csv_go]. rewrite Z.eqb_sym, Ex44, Z.eqb_sym, Ex34. rewrite csv_infield_end by exact Et44. reflexivity.
Qed.

Theorem csv_roundtrip_lemma cells : cells <> [] -> csv_parse (csv_print cells) = cells.
Proof.
  intros Hne. unfold csv_parse, csv_print. induction cells as [|c r IH]; [congruence|].
  destruct r as [|c' r'].
  - cbn [map join]. apply csv_cell_end.
  - change (join 44 (map csv_cell (c :: c' :: r'))) with (csv_cell c ++ 44 :: join 44 (map csv_cell (c' :: r'))).
    rewrite csv_cell_step. f_equal. apply IH. discriminate.
Qed.
