From Coq Require Import ZArith List Bool Arith Lia.
From Coba Require Import C12.Model C12.ModelArff C12.ModelArffSparse C12.ProofsRest C12.ProofsArffSparse.
From Coba Require Import C12.ModelArffAttr.
Import ListNotations.
Open Scope Z_scope.

Definition seps (t : list (list Z)) : list (list Z) := flat_map (fun p => [[44]; p]) t.
Lemma interleave_cons : forall t h, interleave (h :: t) = h :: seps t.
Proof. induction t as [|x t IH]; intros h; [reflexivity|]. change (interleave (h :: x :: t)) with (h :: [44] :: interleave (x :: t)). rewrite (IH x). reflexivity. Qed.
Lemma interleave_app a b : a <> [] -> b <> [] -> interleave (a ++ b) = interleave a ++ [44] :: interleave b.
Proof.
  intros Ha Hb. induction a as [|x a IH]; [congruence|]. destruct a as [|y a'].
  - cbn [app]. destruct b as [|z b']; [congruence|]. reflexivity.
  - change (interleave ((x :: y :: a') ++ b)) with (x :: [44] :: interleave ((y :: a') ++ b)).
    change (interleave (x :: y :: a')) with (x :: [44] :: interleave (y :: a')). rewrite IH by discriminate. reflexivity.
Qed.
Lemma split_nonempty d s : split d s <> [].
Proof. unfold split. rewrite split_go_cur. discriminate. Qed.

Lemma unclosed_comma q p : q <> 44 -> unclosed q (p ++ [44]) = true.
Proof.
  intros Hq. unfold unclosed. assert (ws_py 44 = false) as W by reflexivity. rewrite (rstripw_snoc p 44 W), rev_unit.
  destruct (rev p) as [|b bs]; [reflexivity|]. assert ((44 =? q) = false) as -> by (apply Z.eqb_neq; congruence). reflexivity.
Qed.

Lemma join_items_split q : q <> 44 -> forall n w acc R, (length w <= n)%nat ->
  (forall p s, w = p ++ 44 :: s -> unclosed q (acc ++ p) = true) -> unclosed q (acc ++ w) = false ->
  join_items q (acc ++ hd [] (split 44 w)) (seps (tl (split 44 w)) ++ R) = Some (acc ++ w, R).
Proof.
  intros Hq. induction n as [|n IH]; intros w acc R Hn Hopen Hclosed.
  - destruct w; [|cbn in Hn; lia]. cbn. rewrite app_nil_r in *. destruct R; cbn; rewrite Hclosed; reflexivity.
  - destruct (first_comma w) as [Hf|[a [b [Ew Ha]]]].
    + unfold split. rewrite (split_go_free_end 44 w Hf []). cbn [hd tl app seps flat_map]. destruct R; cbn [join_items]; rewrite Hclosed; reflexivity.
    + subst w. unfold split. rewrite (split_go_free 44 a Ha [] b). cbn [hd tl app]. fold (split 44 b).
      assert (exists h t, split 44 b = h :: t) as [h [t Eb]] by (unfold split; rewrite split_go_cur; eexists; eexists; reflexivity).
      rewrite Eb. cbn [seps flat_map app join_items]. rewrite (Hopen a b eq_refl).
      assert (unclosed q ((acc ++ a) ++ [44]) = true) as -> by (apply unclosed_comma; exact Hq).
      assert (length b <= n)%nat as Hb by (rewrite app_length in Hn; cbn in Hn; lia).
      specialize (IH b (acc ++ a ++ [44]) R Hb). rewrite Eb in IH. cbn [hd tl] in IH. fold (seps t).
      replace (((acc ++ a) ++ [44]) ++ h) with ((acc ++ a ++ [44]) ++ h) by (rewrite <- !app_assoc; reflexivity).
      replace (acc ++ a ++ 44 :: b) with ((acc ++ a ++ [44]) ++ b) by (rewrite <- !app_assoc; reflexivity). apply IH.
      * intros p s Eps. specialize (Hopen (a ++ 44 :: p) s). rewrite <- !app_assoc in Hopen. cbn [app] in Hopen. rewrite <- !app_assoc. cbn [app]. apply Hopen. rewrite Eps. reflexivity.
      * rewrite <- !app_assoc. cbn [app]. exact Hclosed.
Qed.

Section Main.
  Variable q : Z.
  Hypothesis Hq : q = 39 \/ q = 34.

  Definition cell_items (w : list Z) : list (list Z) := hd [] (split 44 w) :: seps (tl (split 44 w)).
  Lemma cell_items_interleave w : interleave (split 44 w) = cell_items w.
  Proof. unfold cell_items. destruct (split 44 w) as [|h t] eqn:E; [exfalso; exact (split_nonempty 44 w E)|]. apply interleave_cons. Qed.

  Fixpoint items_of (levels : list (list Z)) : list (list Z) :=
    match levels with [] => [] | [l] => cell_items (sparse_value q l) | l :: r => cell_items (sparse_value q l) ++ [44] :: items_of r end.

  Lemma comma_items_line levels : levels <> [] -> comma_items (levels_line q levels) = items_of levels.
  Proof.
    intros Hne. unfold comma_items, levels_line. rewrite split_join_flat by (destruct levels; [congruence|discriminate]).
    induction levels as [|l r IH]; [congruence|]. destruct r as [|l2 r'].
    - cbn [map flat_map items_of]. rewrite app_nil_r. apply cell_items_interleave.
    - change (map (sparse_value q) (l :: l2 :: r')) with (sparse_value q l :: map (sparse_value q) (l2 :: r')). cbn [flat_map].
      rewrite interleave_app; [|apply split_nonempty|cbn [map flat_map]; intros E; apply app_eq_nil in E; destruct E as [E _]; exact (split_nonempty 44 _ E)].
      rewrite cell_items_interleave. change (items_of (l :: l2 :: r')) with (cell_items (sparse_value q l) ++ [44] :: items_of (l2 :: r')). f_equal. f_equal. apply IH. discriminate.
  Qed.

  Lemma level_step v R fuel : val_ok v -> (length (cell_items (sparse_value q v) ++ R) <= fuel)%nat ->
    exists fuel', (length R <= fuel')%nat /\ levels_go fuel (cell_items (sparse_value q v) ++ R) = v :: levels_go fuel' R.
  Proof.
    intros Hv Hf. unfold sparse_value in *. destruct (needs_quotes_sp v) eqn:En.
    - set (w := q :: escape v ++ [q]) in *.
      assert (exists h', hd [] (split 44 w) = q :: h') as [h' Eh].
      { unfold split, w. cbn [split_go]. assert ((q =? 44) = false) as -> by (apply Z.eqb_neq; exact (q_ncomma q Hq)). rewrite split_go_cur. eexists. reflexivity. }
      unfold cell_items in *. cbn [app length] in Hf |- *. destruct fuel as [|f]; [lia|]. exists f. split; [rewrite app_length in Hf; lia|].
      cbn [levels_go]. rewrite Eh. rewrite (lstripw_nows_head q h' (q_nws q Hq)).
      assert ((q =? 44) = false) as -> by (apply Z.eqb_neq; exact (q_ncomma q Hq)).
      assert (((q =? 39) || (q =? 34)) = true) as -> by (destruct Hq; subst; reflexivity).
      pose proof (join_items_split q (q_ncomma q Hq) (length w) w [] R (le_n _)) as J. cbn [app] in J. rewrite Eh in J.
      rewrite J; [|intros p s E; exact (open_prefix q Hq v p s E)|exact (closed_whole q Hq v)].
      f_equal. unfold stripw, w. rewrite (lstripw_nows_head q _ (q_nws q Hq)). change (q :: escape v ++ [q]) with ((q :: escape v) ++ [q]).
      rewrite !(rstripw_snoc _ q (q_nws q Hq)). unfold unquote. cbn [tl app]. rewrite removelast_last. apply unescape_escape.
    - destruct (plain_value v Hv En) as [Vne [Vw [Vc Vq]]]. unfold cell_items in *. unfold split in *. rewrite (split_go_free_end 44 v Vc []) in *.
      cbn [hd tl seps flat_map app length] in Hf |- *. destruct fuel as [|f]; [lia|]. exists f. split; [lia|].
      cbn [levels_go]. destruct v as [|c r]; [congruence|]. rewrite (lstripw_nows_head c r (Vw c (or_introl eq_refl))).
      rewrite (Vc c (or_introl eq_refl)), (Vq c r eq_refl). f_equal. unfold stripw. rewrite (lstripw_nows_head c r (Vw c (or_introl eq_refl))). apply rstripw_nows. exact Vw.
  Qed.

  Lemma levels_go_items : forall levels fuel, Forall val_ok levels -> (length (items_of levels) <= fuel)%nat -> levels_go fuel (items_of levels) = levels.
  Proof.
    induction levels as [|l r IH]; intros fuel Hok Hf; [destruct fuel; reflexivity|]. inversion Hok as [|? ? Hl Hr]; subst. destruct r as [|l2 r'].
    - cbn [items_of] in *. destruct (level_step l [] fuel Hl) as [f1 [_ E]]; [rewrite app_nil_r; exact Hf|]. rewrite app_nil_r in E. rewrite E. destruct f1; reflexivity.
    - change (items_of (l :: l2 :: r')) with (cell_items (sparse_value q l) ++ [44] :: items_of (l2 :: r')) in *.
      destruct (level_step l ([44] :: items_of (l2 :: r')) fuel Hl Hf) as [f1 [L1 E]]. rewrite E. f_equal.
      cbn [length] in L1. destruct f1 as [|f2]; [lia|]. cbn [levels_go lstripw]. change (ws_py 44) with false. cbv iota. rewrite Z.eqb_refl. apply IH; [exact Hr|lia].
  Qed.

  Theorem levels_roundtrip_lemma levels : levels <> [] -> Forall val_ok levels -> levels_parse (levels_line q levels) = levels.
  Proof. intros Hne Hok. unfold levels_parse. rewrite (comma_items_line levels Hne). apply levels_go_items; [exact Hok|apply le_n]. Qed.
End Main.
