From Coq Require Import ZArith List Bool Arith Lia.
From Coba Require Import C08.Model.
Import ListNotations.

Lemma upd_length {A} (l : list A) : forall i x, length (upd i x l) = length l.
Proof. induction l as [|h t IH]; intros [|i] x; cbn; auto. Qed.
Lemma nth_error_upd {A} (l : list A) : forall i x, i < length l -> nth_error (upd i x l) i = Some x.
Proof. induction l as [|h t IH]; intros [|i] x H; cbn in *; try lia; auto. apply IH. lia. Qed.
Lemma nth_error_upd_other {A} (l : list A) : forall i j x, i <> j -> nth_error (upd i x l) j = nth_error l j.
Proof. induction l as [|h t IH]; intros [|i] [|j] x H; cbn; auto; try congruence. Qed.
Lemma nth_error_upd_inv {A} (l : list A) i j x y : nth_error (upd i x l) j = Some y -> (i = j /\ y = x) \/ (i <> j /\ nth_error l j = Some y).
Proof.
  intros H. destruct (Nat.eq_dec i j) as [->|Hne].
  - left. split; [reflexivity|]. assert (j < length l) as Hl. { rewrite <- (upd_length l j x). apply nth_error_Some. congruence. }
    rewrite nth_error_upd in H by exact Hl. congruence.
  - right. split; [exact Hne|]. rewrite nth_error_upd_other in H by exact Hne. exact H.
Qed.
Lemma Forall_upd {A} (P : A -> Prop) (l : list A) : forall i x, Forall P l -> P x -> Forall P (upd i x l).
Proof. induction l as [|h t IH]; intros [|i] x H Hx; cbn; auto; inversion H; subst; constructor; auto. Qed.
Lemma upd_neq {A} (l : list A) i x y : nth_error l i = Some y -> x <> y -> upd i x l <> l.
Proof.
  intros H Hne E. assert (i < length l) as Hl by (apply nth_error_Some; congruence).
  pose proof (nth_error_upd l i x Hl) as H1. rewrite E in H1. congruence.
Qed.

Definition tot (f : wst -> nat) (l : list wst) : nat := fold_right (fun w a => f w + a) 0 l.
Lemma tot_upd f l : forall i w w', nth_error l i = Some w -> tot f (upd i w' l) + f w = tot f l + f w'.
Proof. unfold tot. induction l as [|h t IH]; intros [|i] w w' H; cbn in *; try discriminate. - inversion H; subst. lia. - specialize (IH i w w' H). lia. Qed.
Lemma tot_repeat f w k : tot f (repeat w k) = k * f w.
Proof. unfold tot. induction k; cbn in *; [reflexivity|]. lia. Qed.
Lemma tot_member f l : forall i w, nth_error l i = Some w -> f w <= tot f l.
Proof. unfold tot. induction l as [|h t IH]; intros [|i] w H; cbn in *; try discriminate. - inversion H; subst. lia. - specialize (IH i w H). lia. Qed.
Lemma tot_pos f l : 1 <= tot f l -> exists i w, nth_error l i = Some w /\ 1 <= f w.
Proof.
  unfold tot. induction l as [|h t IH]; cbn; intros H; [lia|]. destruct (f h) eqn:E.
  - destruct IH as [i [w [A B]]]; [lia|]. exists (S i), w. split; assumption.
  - exists 0, h. split; [reflexivity|lia].
Qed.
Lemma tot_le f g l : (forall w, f w <= g w) -> tot f l <= tot g l.
Proof. intros H. unfold tot. induction l as [|h t IH]; cbn; [lia|]. specialize (H h). lia. Qed.
Lemma tot_zero_all f l : tot f l = 0 -> forall i w, nth_error l i = Some w -> f w = 0.
Proof. intros H i w Hi. pose proof (tot_member f l i w Hi). lia. Qed.
Lemma tot_all f l k : (forall i w, nth_error l i = Some w -> f w = k) -> tot f l = length l * k.
Proof.
  unfold tot. induction l as [|h t IH]; intros H; cbn; [reflexivity|]. rewrite (H 0 h eq_refl). rewrite IH; [lia|].
  intros i w Hi. apply (H (S i) w Hi).
Qed.

(* counting *)
Definition cnt (z : Z) (l : list Z) : nat := count_occ Z.eq_dec l z.
Lemma cnt_app z a b : cnt z (a ++ b) = cnt z a + cnt z b. Proof. apply count_occ_app. Qed.
Fixpoint npill {A} (q : list (option A)) : nat := match q with [] => 0 | None :: t => S (npill t) | Some _ :: t => npill t end.
Lemma npill_app {A} (a b : list (option A)) : npill (a ++ b) = npill a + npill b.
Proof. induction a as [|[x|] t IH]; cbn; auto. Qed.
Lemma npill_In {A} (q : list (option A)) : In None q <-> 1 <= npill q.
Proof.
  induction q as [|[x|] t IH]; cbn.
  - split; [intros []|lia].
  - split; [intros [H|H]; [discriminate|tauto]|intros H; right; tauto].
  - split; [lia|intros _; left; reflexivity].
Qed.
Fixpoint cnt_items (z : Z) (q : list (option item)) : nat := match q with [] => 0 | Some x :: t => cnt z (outs x) + cnt_items z t | None :: t => cnt_items z t end.
Lemma cnt_items_app z a b : cnt_items z (a ++ b) = cnt_items z a + cnt_items z b.
Proof. induction a as [|[x|] t IH]; cbn; auto. rewrite IH. lia. Qed.
Lemma cnt_items_none z q : (forall x, ~ In (Some x) q) -> cnt_items z q = 0.
Proof. induction q as [|[x|] t IH]; cbn; intros H; auto. - exfalso. apply (H x). left. reflexivity. - apply IH. intros x Hx. apply (H x). right. exact Hx. Qed.
Fixpoint cnt_outq (z : Z) (q : list (option Z)) : nat := match q with [] => 0 | Some y :: t => (if Z.eq_dec y z then 1 else 0) + cnt_outq z t | None :: t => cnt_outq z t end.
Lemma cnt_outq_app z a b : cnt_outq z (a ++ b) = cnt_outq z a + cnt_outq z b.
Proof. induction a as [|[x|] t IH]; cbn; auto. rewrite IH. lia. Qed.
