From Coq Require Import ZArith List Bool Arith Lia.
From Coba Require Import C08.Model C08.Basics C08.Inv.
Import ListNotations.

(* a potential that every state-changing step of an unfinished run decreases: so at most mu(init) moves happen before the consumer finishes *)
Definition wt (w : wst) : nat := match w with WPut os _ _ => 2 * length os + 3 | WExit _ _ => 2 | _ => 0 end.
Definition itw (x : item) : nat := 2 * length (outs x) + 4.
Fixpoint todow (l : list item) : nat := match l with [] => 0 | x :: t => S (itw x) + todow t end.
Fixpoint inqw (q : list (option item)) : nat := match q with [] => 0 | Some x :: t => itw x + inqw t | None :: t => 3 + inqw t end.
Definition lpw (l : lph) (np : nat) : nat := match l with LInit => 3 + 4 * np | LRun => 2 + 4 * np | LEnded => 1 + 4 * np | LPills j => 4 * j | LFin => 0 end.
Definition mu (s : st) : nat := todow (todo s) + inqw (inq s) + lpw (lp s) (nprocs s) + tot wt (ws s) + length (outq s).

Lemma inqw_app a b : inqw (a ++ b) = inqw a + inqw b.
Proof. induction a as [|[x|] t IH]; cbn; lia. Qed.

Section M.
  Variables (n m : nat) (ab : option nat) (items0 : list item).
  Hypothesis Hn : 1 <= n.
  Hypothesis Hitems : items0 <> [].

  Lemma wt_after r k : wt (after_item m r k) <= 2.
  Proof. unfold after_item. destruct r; [cbn; lia|]. destruct (negb (m =? 0) && (S k =? m)); cbn; lia. Qed.
  Lemma wt_begin x k : wt (begin_item m x k) <= 2 * length (outs x) + 3.
  Proof. unfold begin_item. destruct (outs x) as [|o os]; [pose proof (wt_after (raises x) k); cbn; lia|cbn; lia]. Qed.

  Theorem measure_decreases s a : Inv' n m items0 s -> kp s = KRun -> step n m ab s a <> s -> isfin (kp (step n m ab s a)) = false ->
    mu (step n m ab s a) < mu s.
  Proof.
    intros H Hk Hmove Hnf. destruct a as [| | |i|i]; cbn [step] in *.
    - (* consumer *)
      unfold stepK in *. rewrite Hk in *. destruct (match ab with Some j => length (yielded s) =? j | None => false end); [discriminate Hnf|].
      destruct (outq s) as [|[o|] r] eqn:Eq; [congruence| |discriminate Hnf]. unfold mu. proj. rewrite Eq. cbn [length]. lia.
    - (* loader *)
      unfold stepL in *. destruct (lp s) eqn:El; try congruence. destruct (todo s) as [|x t] eqn:Et; [congruence|].
      destruct (length (inq s) <? cap n); [|congruence]. unfold mu. proj. rewrite El, Et, inqw_app. cbn [todow inqw lpw].
      destruct (stopped s || match t with [] => true | _ :: _ => false end); cbn [lpw]; lia.
    - (* loader callback *)
      unfold stepLC in *. destruct (lp s) as [| | |j|] eqn:El; try congruence.
      + unfold set_lp_inq, mu. proj. rewrite El. destruct (stopped s); [cbn [lpw]; lia|]. destruct (nprocs s); cbn [lpw]; lia.
      + destruct j as [|j]; [congruence|]. destruct (length (inq s) <? cap n); [|congruence]. unfold set_lp_inq, mu. proj. rewrite El, inqw_app. cbn [inqw lpw].
        destruct (stopped s); [cbn [lpw]; lia|]. destruct j; cbn [lpw]; lia.
    - (* worker *)
      unfold stepW in *. destruct (nth_error (ws s) i) as [[|k|os r k|p e|]|] eqn:Ei; try congruence.
      + destruct (inq s) as [|[x|] q] eqn:Eq; [congruence| |]; unfold mu; proj; rewrite Eq; cbn [inqw].
        * pose proof (tot_upd wt (ws s) i _ (begin_item m x k) Ei) as T. cbn [wt] in T. pose proof (wt_begin x k). unfold itw. lia.
        * pose proof (tot_upd wt (ws s) i _ (WExit true false) Ei) as T. cbn [wt] in T. lia.
      + destruct os as [|o os]; [congruence|]. unfold mu. proj. rewrite app_length. cbn [length].
        pose proof (tot_upd wt (ws s) i _ (match os with [] => after_item m r k | _ :: _ => WPut os r k end) Ei) as T. cbn [wt length] in T.
        destruct os as [|o2 os2]; [pose proof (wt_after r k)|cbn [wt length] in T]; lia.
    - (* completion callback *)
      unfold stepC in *. destruct (nth_error (ws s) i) as [[|k|os r k|p e|]|] eqn:Ei; try congruence.
      assert (1 <= nprocs s) as Hnp. { rewrite (i_np _ _ _ _ H). pose proof (tot_member nonEnd _ _ _ Ei). cbn in H0. lia. }
      destruct (negb p && (excs s + (if e then 1 else 0) =? 0)); unfold mu; proj.
      + pose proof (tot_upd wt (ws s) i _ (WGet 0) Ei) as T. cbn [wt] in T. lia.
      + pose proof (tot_upd wt (ws s) i _ WEnd Ei) as T. cbn [wt] in T.
        assert (lpw (lp s) (pred (nprocs s)) <= lpw (lp s) (nprocs s)) by (destruct (lp s); cbn [lpw]; lia).
        destruct (pred (nprocs s) =? 0); [rewrite app_length; cbn [length]|]; lia.
  Qed.
End M.
