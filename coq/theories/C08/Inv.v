From Coq Require Import ZArith List Bool Arith Lia.
From Coba Require Import C08.Model C08.Basics.
Import ListNotations.

Definition nonEnd (w : wst) : nat := match w with WEnd => 0 | _ => 1 end.
Definition need (w : wst) : nat := match w with WGet _ | WPut _ _ _ | WExit false false => 1 | _ => 0 end.
Definition pe (w : wst) : nat := match w with WExit true _ | WEnd => 1 | _ => 0 end.
Definition excp (w : wst) : nat := match w with WExit _ true | WPut _ true _ => 1 | _ => 0 end.
Definition wcnt (z : Z) (w : wst) : nat := match w with WPut os _ _ => cnt z os | _ => 0 end.
Definition isfin (k : kph) : bool := match k with KFin _ _ => true | _ => false end.

Ltac proj := cbn [todo lp stopped inq ws outq nprocs excs kp yielded lost ptaken] in *.

Section Inv.
  Variables (n m : nat) (ab : option nat) (items0 : list item).
  Hypothesis Hn : 1 <= n.
  Hypothesis Hitems : items0 <> [].

  Definition okw (w : wst) : Prop :=
    match w with WGet k => m = 0 \/ k < m | WPut os _ k => os <> [] /\ (m = 0 \/ k < m) | WNot => False | _ => True end.
  Definition allouts (z : Z) : nat := cnt z (flat_map outs items0).

  Record Inv' (s : st) : Prop := {
    i_k : kp s <> KInit;
    i_len : length (ws s) = n;
    i_np : nprocs s = tot nonEnd (ws s);
    i_stop : stopped s = isfin (kp s);
    i_lp : lp s <> LInit;
    i_lrun : lp s = LRun -> todo s <> [];
    i_lpills : forall j, lp s = LPills j -> 1 <= j;
    i_okw : Forall okw (ws s);
    i_pill_out : In None (outq s) -> tot nonEnd (ws s) = 0;
    i_wellq : forall a b, outq s = a ++ None :: b -> b = [];
    i_np0 : kp s = KRun -> nprocs s = 0 -> In None (outq s);
    i_sorted : forall a b, inq s = a ++ None :: b -> forall x, ~ In (Some x) b;
    i_phase : In None (inq s) \/ 1 <= ptaken s -> (exists j, lp s = LPills j) \/ lp s = LFin;
    i_ldone : lp s <> LRun -> todo s = [] \/ stopped s = true;
    i_noitems : 1 <= ptaken s -> forall x, ~ In (Some x) (inq s);
    i_pe : excs s = 0 -> tot pe (ws s) = ptaken s;
    i_pillsP : stopped s = false -> forall j, lp s = LPills j -> tot need (ws s) <= npill (inq s) + j;
    i_pillsF : stopped s = false -> lp s = LFin -> tot need (ws s) <= npill (inq s);
    i_lost : lost s = true -> 1 <= excs s + tot excp (ws s);
    i_cons : lost s = false -> kp s = KRun -> forall z,
             cnt z (yielded s) + cnt_outq z (outq s) + tot (wcnt z) (ws s) + cnt_items z (inq s) + cnt z (flat_map outs (todo s)) = allouts z;
    i_fin : kp s = KFin false false -> tot nonEnd (ws s) = 0 /\ lost s = false /\ forall z, cnt z (yielded s) = allouts z
  }.
  Definition Inv (s : st) : Prop := s = init n items0 \/ Inv' s.

  Lemma nonEnd_need w : need w <= nonEnd w. Proof. destruct w as [|k|os r k|[|] [|]|]; cbn; lia. Qed.

  (* ------------------------------------------------------------ the first step *)
  Lemma init_steps a : a <> AK -> step n m ab (init n items0) a = init n items0.
  Proof.
    intros Ha. destruct a as [| | |i|i]; try congruence; cbn; try reflexivity.
    - unfold stepW. cbn. destruct (nth_error (repeat WNot n) i) as [w|] eqn:E; [|reflexivity].
      apply nth_error_In, repeat_spec in E. subst w. reflexivity.
    - unfold stepC. cbn. destruct (nth_error (repeat WNot n) i) as [w|] eqn:E; [|reflexivity].
      apply nth_error_In, repeat_spec in E. subst w. reflexivity.
  Qed.

  Lemma Forall_repeat {A} (P : A -> Prop) x k : P x -> Forall P (repeat x k).
  Proof. intros H. induction k; cbn; constructor; auto. Qed.

  Lemma init_K : Inv' (stepK n ab (init n items0)).
  Proof.
    unfold stepK, init. proj. constructor; proj; try discriminate; try tauto.
    - apply repeat_length.
    - rewrite tot_repeat. cbn. lia.
    - apply Forall_repeat. cbn. destruct m; [left; reflexivity|right; lia].
    - intros [].
    - intros a b E. destruct a; discriminate.
    - intros _ E. lia.
    - intros a b E. destruct a; discriminate.
    - intros [[]|H]; lia.
    - intros _. rewrite tot_repeat. cbn. lia.
    - intros _ _ z. rewrite tot_repeat. cbn. unfold allouts. lia.
  Qed.

  Lemma lrun_nopill s : Inv' s -> lp s = LRun -> ~ In None (inq s) /\ ptaken s = 0.
  Proof.
    intros H El. split.
    - intros Hin. destruct (i_phase s H (or_introl Hin)) as [[j E]|E]; congruence.
    - destruct (Nat.eq_dec (ptaken s) 0) as [Ep|Ep]; [exact Ep|]. assert (1 <= ptaken s) as Hp by lia. destruct (i_phase s H (or_intror Hp)) as [[j E]|E]; congruence.
  Qed.

  Lemma In_app_single {A} (x y : A) l : In x (l ++ [y]) <-> In x l \/ x = y.
  Proof. rewrite in_app_iff. cbn. intuition. Qed.

  (* ------------------------------------------------------------ the loader *)
  Lemma stepL_inv s : Inv' s -> Inv' (stepL n s).
  Proof.
    intros H. unfold stepL. destruct (lp s) eqn:El; try exact H. destruct (todo s) as [|x t] eqn:Et; [exact H|].
    destruct (length (inq s) <? cap n) eqn:Ecap; [|exact H].
    destruct (lrun_nopill s H El) as [Hnp Hpt].
    set (c := stopped s || match t with [] => true | _ :: _ => false end).
    constructor; proj.
    - exact (i_k s H).
    - exact (i_len s H).
    - exact (i_np s H).
    - exact (i_stop s H).
    - destruct c; discriminate.
    - destruct c eqn:Ec; [discriminate|]. intros _. unfold c in Ec. apply orb_false_elim in Ec. destruct Ec as [_ Ec]. destruct t; [discriminate|discriminate].
    - intros j. destruct c; discriminate.
    - exact (i_okw s H).
    - exact (i_pill_out s H).
    - exact (i_wellq s H).
    - exact (i_np0 s H).
    - intros a b E. exfalso. assert (In None (inq s ++ [Some x])) as Hin by (rewrite E; apply in_or_app; right; left; reflexivity).
      apply In_app_single in Hin. destruct Hin as [Hin|Hin]; [exact (Hnp Hin)|discriminate].
    - intros [Hin|Hp]; [|lia]. apply In_app_single in Hin. destruct Hin as [Hin|Hin]; [exfalso; exact (Hnp Hin)|discriminate].
    - destruct c eqn:Ec; [|congruence]. intros _. unfold c in Ec. apply orb_prop in Ec. destruct Ec as [Ec|Ec]; [right; exact Ec|left; destruct t; [reflexivity|discriminate]].
    - intros Hp. lia.
    - exact (i_pe s H).
    - intros _ j. destruct c; discriminate.
    - intros _. destruct c; discriminate.
    - exact (i_lost s H).
    - intros Hl Hk z. pose proof (i_cons s H Hl Hk z) as E. rewrite Et in E. cbn [flat_map] in E. rewrite cnt_app in E. rewrite cnt_items_app. cbn [cnt_items]. lia.
    - exact (i_fin s H).
  Qed.

  (* ------------------------------------------------------------ the loader's completion callback *)
  Lemma stepLC_inv s : Inv' s -> Inv' (stepLC n s).
  Proof.
    intros H. unfold stepLC. destruct (lp s) as [| | |j|] eqn:El; try exact H.
    - (* the loader ended: take n_procs pills *)
      unfold set_lp_inq.
      assert (~ In None (inq s) /\ ptaken s = 0) as [Hnp Hpt].
      { split.
        - intros Hin. destruct (i_phase s H (or_introl Hin)) as [[j E]|E]; congruence.
        - destruct (Nat.eq_dec (ptaken s) 0) as [Ep|Ep]; [exact Ep|]. assert (1 <= ptaken s) as Hp by lia. destruct (i_phase s H (or_intror Hp)) as [[j E]|E]; congruence. }
      set (l' := if stopped s then LFin else match nprocs s with 0 => LFin | S j => LPills (S j) end).
      constructor; proj.
      + exact (i_k s H).
      + exact (i_len s H).
      + exact (i_np s H).
      + exact (i_stop s H).
      + unfold l'. destruct (stopped s); [discriminate|]. destruct (nprocs s); discriminate.
      + unfold l'. destruct (stopped s); [discriminate|]. destruct (nprocs s); discriminate.
      + intros j. unfold l'. destruct (stopped s); [discriminate|]. destruct (nprocs s); [discriminate|]. intros E. inversion E. lia.
      + exact (i_okw s H).
      + exact (i_pill_out s H).
      + exact (i_wellq s H).
      + exact (i_np0 s H).
      + exact (i_sorted s H).
      + intros [Hin|Hp]; [exfalso; exact (Hnp Hin)|lia].
      + intros _. apply (i_ldone s H). congruence.
      + intros Hp. lia.
      + exact (i_pe s H).
      + intros Hs j. unfold l'. rewrite Hs. destruct (nprocs s) eqn:En; [discriminate|]. intros E. inversion E. subst j.
        pose proof (tot_le need nonEnd (ws s) nonEnd_need). rewrite <- (i_np s H), En in H0. lia.
      + intros Hs. unfold l'. rewrite Hs. destruct (nprocs s) eqn:En; [|discriminate]. intros _.
        pose proof (tot_le need nonEnd (ws s) nonEnd_need). rewrite <- (i_np s H), En in H0. lia.
      + exact (i_lost s H).
      + exact (i_cons s H).
      + exact (i_fin s H).
    - (* one more pill *)
      destruct j as [|j]; [exact H|]. destruct (length (inq s) <? cap n) eqn:Ecap; [|exact H]. unfold set_lp_inq.
      set (l' := if stopped s then LFin else match j with 0 => LFin | S _ => LPills j end).
      constructor; proj.
      + exact (i_k s H).
      + exact (i_len s H).
      + exact (i_np s H).
      + exact (i_stop s H).
      + unfold l'. destruct (stopped s); [discriminate|]. destruct j; discriminate.
      + unfold l'. destruct (stopped s); [discriminate|]. destruct j; discriminate.
      + intros j'. unfold l'. destruct (stopped s); [discriminate|]. destruct j; [discriminate|]. intros E. inversion E. lia.
      + exact (i_okw s H).
      + exact (i_pill_out s H).
      + exact (i_wellq s H).
      + exact (i_np0 s H).
      + intros a b E x Hx. destruct b as [|y b'] using rev_ind; [destruct Hx|].
        rewrite app_comm_cons, app_assoc in E. apply app_inj_tail in E. destruct E as [E Ey]. subst y.
        apply in_app_or in Hx. destruct Hx as [Hx|[Hx|[]]]; [|discriminate]. exact (i_sorted s H a b' E x Hx).
      + intros _. unfold l'. destruct (stopped s); [right; reflexivity|]. destruct j; [right; reflexivity|left; eexists; reflexivity].
      + intros _. apply (i_ldone s H). congruence.
      + intros Hp x Hx. apply In_app_single in Hx. destruct Hx as [Hx|Hx]; [exact (i_noitems s H Hp x Hx)|discriminate].
      + exact (i_pe s H).
      + intros Hs j'. unfold l'. rewrite Hs. destruct j; [discriminate|]. intros E. inversion E. subst j'.
        pose proof (i_pillsP s H Hs (S (S j)) El). rewrite npill_app. cbn [npill]. lia.
      + intros Hs. unfold l'. rewrite Hs. destruct j; [|discriminate]. intros _.
        pose proof (i_pillsP s H Hs 1 El). rewrite npill_app. cbn [npill]. lia.
      + exact (i_lost s H).
      + intros Hl Hk z. rewrite cnt_items_app. cbn [cnt_items]. pose proof (i_cons s H Hl Hk z). lia.
      + exact (i_fin s H).
  Qed.

  (* ------------------------------------------------------------ the consumer *)
  Lemma tot_allEnd f l : tot nonEnd l = 0 -> f WEnd = 0 -> tot f l = 0.
  Proof.
    intros H0 Hf. rewrite (tot_all f l 0); [lia|]. intros i w Hi. pose proof (tot_zero_all nonEnd l H0 i w Hi) as E. destruct w; cbn in E; try discriminate. exact Hf.
  Qed.
  Lemma tot_allEnd_pe l : tot nonEnd l = 0 -> tot pe l = length l.
  Proof.
    intros H0. rewrite (tot_all pe l 1); [lia|]. intros i w Hi. pose proof (tot_zero_all nonEnd l H0 i w Hi) as E. destruct w; cbn in E; try discriminate. reflexivity.
  Qed.
  Lemma excp_nonEnd w : excp w <= nonEnd w. Proof. destruct w as [|k|os [|] k|[|] [|]|]; cbn; lia. Qed.

  Lemma finally_inv s abd : Inv' s -> kp s = KRun ->
    (abd = false -> exists r, outq s = None :: r) -> Inv' (finally s abd).
  Proof.
    intros H Hk Hpill. unfold finally. constructor; proj; try discriminate.
    - exact (i_len s H).
    - exact (i_np s H).
    - reflexivity.
    - exact (i_lp s H).
    - exact (i_lrun s H).
    - exact (i_lpills s H).
    - exact (i_okw s H).
    - intros [].
    - intros a b E. destruct a; discriminate.
    - intros a b E. destruct a; discriminate.
    - intros [[]|Hp]. exact (i_phase s H (or_intror Hp)).
    - intros _. right. reflexivity.
    - intros _ x [].
    - exact (i_pe s H).
    - exact (i_lost s H).
    - intros E. injection E as Ea Er. destruct (Hpill Ea) as [r Hq].
      assert (excs s = 0) as Hex. { destruct (excs s =? 0) eqn:Ez; [apply Nat.eqb_eq; exact Ez|discriminate]. }
      assert (tot nonEnd (ws s) = 0) as Hend. { apply (i_pill_out s H). rewrite Hq. left. reflexivity. }
      assert (r = []) as Hr. { apply (i_wellq s H [] r). exact Hq. } subst r.
      assert (lost s = false) as Hl.
      { destruct (lost s) eqn:El; [|reflexivity]. pose proof (i_lost s H El). pose proof (tot_le excp nonEnd (ws s) excp_nonEnd). lia. }
      split; [exact Hend|]. split; [exact Hl|]. intros z.
      assert (1 <= ptaken s) as Hp. { rewrite <- (i_pe s H Hex), (tot_allEnd_pe _ Hend), (i_len s H). exact Hn. }
      pose proof (i_cons s H Hl Hk z) as C. rewrite Hq in C. cbn [cnt_outq] in C.
      rewrite (tot_allEnd (wcnt z) _ Hend eq_refl) in C. rewrite (cnt_items_none z _ (i_noitems s H Hp)) in C.
      assert (todo s = []) as Ht.
      { destruct (i_ldone s H) as [Ht|Hs]; [|exact Ht|].
        - destruct (i_phase s H (or_intror Hp)) as [[j E']|E']; congruence.
        - rewrite (i_stop s H), Hk in Hs. discriminate. }
      rewrite Ht in C. cbn in C. lia.
  Qed.

  Lemma stepK_inv s : Inv' s -> Inv' (stepK n ab s).
  Proof.
    intros H. unfold stepK. destruct (kp s) eqn:Hk; [exfalso; exact (i_k s H Hk)| |exact H].
    destruct (match ab with Some j => length (yielded s) =? j | None => false end).
    - apply finally_inv; [exact H|exact Hk|discriminate].
    - destruct (outq s) as [|[o|] r] eqn:Hq; [exact H| |].
      + constructor; proj; try discriminate.
        * exact (i_len s H).
        * exact (i_np s H).
        * rewrite (i_stop s H), Hk. reflexivity.
        * exact (i_lp s H).
        * exact (i_lrun s H).
        * exact (i_lpills s H).
        * exact (i_okw s H).
        * intros Hin. apply (i_pill_out s H). rewrite Hq. right. exact Hin.
        * intros a b E. apply (i_wellq s H (Some o :: a) b). rewrite Hq, E. reflexivity.
        * intros _ Hn0. pose proof (i_np0 s H Hk Hn0) as Hin. rewrite Hq in Hin. destruct Hin as [Hin|Hin]; [discriminate|exact Hin].
        * exact (i_sorted s H).
        * exact (i_phase s H).
        * exact (i_ldone s H).
        * exact (i_noitems s H).
        * exact (i_pe s H).
        * exact (i_pillsP s H).
        * exact (i_pillsF s H).
        * exact (i_lost s H).
        * intros Hl _ z. pose proof (i_cons s H Hl Hk z) as C. rewrite Hq in C. cbn [cnt_outq] in C. rewrite cnt_app. unfold cnt at 2. cbn [count_occ]. destruct (Z.eq_dec o z); lia.
      + apply finally_inv; [exact H|exact Hk|]. intros _. exists r. exact Hq.
  Qed.

  (* ------------------------------------------------------------ a worker incarnation *)
  Lemma after_item_cases r k : (m = 0 \/ k < m) ->
    let w := after_item m r k in
    okw w /\ nonEnd w = 1 /\ need w <= 1 /\ pe w = 0 /\ excp w = (if r then 1 else 0) /\ forall z, wcnt z w = 0.
  Proof.
    intros Hk. unfold after_item. destruct r; [cbn; repeat split; auto|].
    destruct (negb (m =? 0) && (S k =? m)) eqn:E; [cbn; repeat split; auto|]. cbn. repeat split; auto.
    apply andb_false_iff in E. destruct E as [E|E].
    - left. apply negb_false_iff, Nat.eqb_eq in E. exact E.
    - apply Nat.eqb_neq in E. destruct Hk as [Hk|Hk]; [left; exact Hk|right; lia].
  Qed.
  Lemma begin_item_cases x k : (m = 0 \/ k < m) ->
    let w := begin_item m x k in
    okw w /\ nonEnd w = 1 /\ need w <= 1 /\ pe w = 0 /\ excp w = (if raises x then 1 else 0) /\ forall z, wcnt z w = cnt z (outs x).
  Proof.
    intros Hk. unfold begin_item. destruct (outs x) as [|o os] eqn:Eo.
    - destruct (after_item_cases (raises x) k Hk) as [A [B [C [D [E F]]]]]. repeat split; auto.
    - cbn. repeat split; auto; try discriminate.
  Qed.

  Lemma member_nonEnd_pos l i w : nth_error l i = Some w -> nonEnd w = 1 -> tot nonEnd l = 0 -> False.
  Proof. intros Hi Hw H0. pose proof (tot_member nonEnd l i w Hi). lia. Qed.

  Lemma okw_nth s i w : Inv' s -> nth_error (ws s) i = Some w -> okw w.
  Proof. intros H Hi. exact (proj1 (Forall_forall okw (ws s)) (i_okw s H) w (nth_error_In _ _ Hi)). Qed.

  Lemma stepW_inv i s : Inv' s -> Inv' (stepW m i s).
  Proof.
    intros H. unfold stepW. destruct (nth_error (ws s) i) as [[|k|os r k|p e|]|] eqn:Ei; try exact H.
    - (* parked at in_queue.get *)
      pose proof (okw_nth s i _ H Ei) as Hok. cbn in Hok.
      pose proof (i_sorted s H) as Fsorted; pose proof (i_phase s H) as Fphase; pose proof (i_noitems s H) as Fnoitems; pose proof (i_cons s H) as Fcons;
      pose proof (i_pillsP s H) as FpillsP; pose proof (i_pillsF s H) as FpillsF.
      destruct (inq s) as [|[x|] q] eqn:Eq; [exact H| |].
      + (* an item *)
        destruct (begin_item_cases x k Hok) as [Bok [Bne [Bnd [Bpe [Bex Bw]]]]]. set (w' := begin_item m x k) in *.
        assert (forall f, tot f (upd i w' (ws s)) + f (WGet k) = tot f (ws s) + f w') as TU by (intros f; apply tot_upd; exact Ei).
        constructor; proj.
        * exact (i_k s H).
        * rewrite upd_length. exact (i_len s H).
        * rewrite (i_np s H). pose proof (TU nonEnd). cbn [nonEnd] in H0. lia.
        * exact (i_stop s H).
        * exact (i_lp s H).
        * exact (i_lrun s H).
        * exact (i_lpills s H).
        * apply Forall_upd; [exact (i_okw s H)|exact Bok].
        * intros Hin. exfalso. exact (member_nonEnd_pos _ _ _ Ei eq_refl (i_pill_out s H Hin)).
        * exact (i_wellq s H).
        * exact (i_np0 s H).
        * intros a b E. apply (Fsorted (Some x :: a) b). rewrite E. reflexivity.
        * intros [Hin|Hp]; apply Fphase; [left; right; exact Hin|right; exact Hp].
        * exact (i_ldone s H).
        * intros Hp y Hy. apply (Fnoitems Hp y). right. exact Hy.
        * intros Hex. rewrite <- (i_pe s H Hex). pose proof (TU pe). cbn [pe] in H0. lia.
        * intros Hs j El. pose proof (FpillsP Hs j El). pose proof (TU need). cbn [need npill] in *. lia.
        * intros Hs El. pose proof (FpillsF Hs El). pose proof (TU need). cbn [need npill] in *. lia.
        * intros Hl. pose proof (TU excp) as T. cbn [excp] in T. rewrite Bex in T. destruct (raises x) eqn:Er; [lia|].
          rewrite orb_false_r in Hl. pose proof (i_lost s H Hl). lia.
        * intros Hl Hk z. apply orb_false_elim in Hl. destruct Hl as [Hl Hr]. pose proof (Fcons Hl Hk z) as C. cbn [cnt_items] in C.
          pose proof (TU (wcnt z)) as T. cbn [wcnt] in T. rewrite Bw in T. lia.
        * intros Hk. exfalso. exact (member_nonEnd_pos _ _ _ Ei eq_refl (proj1 (i_fin s H Hk))).
      + (* the pill *)
        assert (forall f, tot f (upd i (WExit true false) (ws s)) + f (WGet k) = tot f (ws s) + f (WExit true false)) as TU by (intros f; apply tot_upd; exact Ei).
        constructor; proj.
        * exact (i_k s H).
        * rewrite upd_length. exact (i_len s H).
        * rewrite (i_np s H). pose proof (TU nonEnd). cbn [nonEnd] in H0. lia.
        * exact (i_stop s H).
        * exact (i_lp s H).
        * exact (i_lrun s H).
        * exact (i_lpills s H).
        * apply Forall_upd; [exact (i_okw s H)|exact I].
        * intros Hin. exfalso. exact (member_nonEnd_pos _ _ _ Ei eq_refl (i_pill_out s H Hin)).
        * exact (i_wellq s H).
        * exact (i_np0 s H).
        * intros a b E. apply (Fsorted (None :: a) b). rewrite E. reflexivity.
        * intros _. apply Fphase. left. left. reflexivity.
        * exact (i_ldone s H).
        * intros _. exact (Fsorted [] q eq_refl).
        * intros Hex. rewrite <- (i_pe s H Hex). pose proof (TU pe). cbn [pe] in H0. lia.
        * intros Hs j El. pose proof (FpillsP Hs j El). pose proof (TU need). cbn [need npill] in *. lia.
        * intros Hs El. pose proof (FpillsF Hs El). pose proof (TU need). cbn [need npill] in *. lia.
        * intros Hl. pose proof (i_lost s H Hl). pose proof (TU excp). cbn [excp] in *. lia.
        * intros Hl Hk z. pose proof (Fcons Hl Hk z) as C. cbn [cnt_items] in C. pose proof (TU (wcnt z)) as T. cbn [wcnt] in T. lia.
        * intros Hk. exfalso. exact (member_nonEnd_pos _ _ _ Ei eq_refl (proj1 (i_fin s H Hk))).
    - (* parked at out_queue.put *)
      destruct os as [|o os]; [exact H|].
      pose proof (okw_nth s i _ H Ei) as [_ Hok].
      set (w' := match os with [] => after_item m r k | _ :: _ => WPut os r k end).
      assert (okw w' /\ nonEnd w' = 1 /\ need w' <= 1 /\ pe w' = 0 /\ excp w' = (if r then 1 else 0) /\ forall z, wcnt z w' = cnt z os) as [Bok [Bne [Bnd [Bpe [Bex Bw]]]]].
      { unfold w'. destruct os as [|o2 os2]; [exact (after_item_cases r k Hok)|]. cbn. repeat split; auto; try discriminate. }
      assert (forall f, tot f (upd i w' (ws s)) + f (WPut (o :: os) r k) = tot f (ws s) + f w') as TU by (intros f; apply tot_upd; exact Ei).
      assert (~ In None (outq s)) as Hnp. { intros Hin. exact (member_nonEnd_pos _ _ _ Ei eq_refl (i_pill_out s H Hin)). }
      constructor; proj.
      + exact (i_k s H).
      + rewrite upd_length. exact (i_len s H).
      + rewrite (i_np s H). pose proof (TU nonEnd). cbn [nonEnd] in H0. lia.
      + exact (i_stop s H).
      + exact (i_lp s H).
      + exact (i_lrun s H).
      + exact (i_lpills s H).
      + apply Forall_upd; [exact (i_okw s H)|exact Bok].
      + intros Hin. exfalso. apply In_app_single in Hin. destruct Hin as [Hin|Hin]; [exact (Hnp Hin)|discriminate].
      + intros a b E. exfalso. assert (In None (outq s ++ [Some o])) as Hin by (rewrite E; apply in_or_app; right; left; reflexivity).
        apply In_app_single in Hin. destruct Hin as [Hin|Hin]; [exact (Hnp Hin)|discriminate].
      + intros Hk Hn0. apply in_or_app. left. exact (i_np0 s H Hk Hn0).
      + exact (i_sorted s H).
      + exact (i_phase s H).
      + exact (i_ldone s H).
      + exact (i_noitems s H).
      + intros Hex. rewrite <- (i_pe s H Hex). pose proof (TU pe). cbn [pe] in H0. lia.
      + intros Hs j El. pose proof (i_pillsP s H Hs j El). pose proof (TU need). cbn [need] in *. lia.
      + intros Hs El. pose proof (i_pillsF s H Hs El). pose proof (TU need). cbn [need] in *. lia.
      + intros Hl. pose proof (i_lost s H Hl). pose proof (TU excp) as T. cbn [excp] in T. rewrite Bex in T. destruct r; lia.
      + intros Hl Hk z. pose proof (i_cons s H Hl Hk z) as C. pose proof (TU (wcnt z)) as T. cbn [wcnt] in T. rewrite Bw in T.
        rewrite cnt_outq_app. cbn [cnt_outq]. unfold cnt in T at 1. cbn [count_occ] in T. fold (cnt z os) in T. destruct (Z.eq_dec o z); lia.
      + intros Hk. exfalso. exact (member_nonEnd_pos _ _ _ Ei eq_refl (proj1 (i_fin s H Hk))).
  Qed.

  (* ------------------------------------------------------------ the completion callback of an incarnation *)
  Lemma stepC_inv i s : Inv' s -> Inv' (stepC i s).
  Proof.
    intros H. unfold stepC. destruct (nth_error (ws s) i) as [[|k|os r k|p e|]|] eqn:Ei; try exact H.
    set (ex := excs s + (if e then 1 else 0)).
    assert (~ In None (outq s)) as Hnp. { intros Hin. exact (member_nonEnd_pos _ _ _ Ei eq_refl (i_pill_out s H Hin)). }
    destruct (negb p && (ex =? 0)) eqn:Eb.
    - (* restart the lineage *)
      apply andb_prop in Eb. destruct Eb as [Ep Eex]. apply negb_true_iff in Ep. apply Nat.eqb_eq in Eex. subst p.
      assert (e = false /\ excs s = 0) as [He Hex0]. { unfold ex in Eex. destruct e; [lia|split; [reflexivity|lia]]. } subst e.
      assert (forall f, tot f (upd i (WGet 0) (ws s)) + f (WExit false false) = tot f (ws s) + f (WGet 0)) as TU by (intros f; apply tot_upd; exact Ei).
      constructor; proj.
      + exact (i_k s H).
      + rewrite upd_length. exact (i_len s H).
      + rewrite (i_np s H). pose proof (TU nonEnd). cbn [nonEnd] in H0. lia.
      + exact (i_stop s H).
      + exact (i_lp s H).
      + exact (i_lrun s H).
      + exact (i_lpills s H).
      + apply Forall_upd; [exact (i_okw s H)|]. cbn. destruct m; [left; reflexivity|right; lia].
      + intros Hin. exfalso. exact (Hnp Hin).
      + exact (i_wellq s H).
      + exact (i_np0 s H).
      + exact (i_sorted s H).
      + exact (i_phase s H).
      + exact (i_ldone s H).
      + exact (i_noitems s H).
      + intros _. rewrite <- (i_pe s H Hex0). pose proof (TU pe). cbn [pe] in H0. lia.
      + intros Hs j El. pose proof (i_pillsP s H Hs j El). pose proof (TU need). cbn [need] in *. lia.
      + intros Hs El. pose proof (i_pillsF s H Hs El). pose proof (TU need). cbn [need] in *. lia.
      + intros Hl. pose proof (i_lost s H Hl). pose proof (TU excp). cbn [excp] in *. unfold ex. lia.
      + intros Hl Hk z. pose proof (i_cons s H Hl Hk z) as C. pose proof (TU (wcnt z)) as T. cbn [wcnt] in T. lia.
      + intros Hk. exfalso. exact (member_nonEnd_pos _ _ _ Ei eq_refl (proj1 (i_fin s H Hk))).
    - (* the lineage is over *)
      assert (forall f, tot f (upd i WEnd (ws s)) + f (WExit p e) = tot f (ws s) + f WEnd) as TU by (intros f; apply tot_upd; exact Ei).
      assert (1 <= nprocs s) as Hnp1. { rewrite (i_np s H). pose proof (tot_member nonEnd _ _ _ Ei). cbn in H0. lia. }
      assert (tot nonEnd (upd i WEnd (ws s)) = pred (nprocs s)) as Hnew. { rewrite (i_np s H). pose proof (TU nonEnd). cbn [nonEnd] in H0. lia. }
      constructor; proj.
      + exact (i_k s H).
      + rewrite upd_length. exact (i_len s H).
      + symmetry. exact Hnew.
      + exact (i_stop s H).
      + exact (i_lp s H).
      + exact (i_lrun s H).
      + exact (i_lpills s H).
      + apply Forall_upd; [exact (i_okw s H)|exact I].
      + rewrite Hnew. destruct (pred (nprocs s) =? 0) eqn:E0; [intros _; apply Nat.eqb_eq; exact E0|]. intros Hin. exfalso. exact (Hnp Hin).
      + destruct (pred (nprocs s) =? 0) eqn:E0; [|exact (i_wellq s H)]. intros a b E.
        destruct b as [|y b'] using rev_ind; [reflexivity|]. exfalso.
        rewrite app_comm_cons, app_assoc in E. apply app_inj_tail in E. destruct E as [E _]. apply Hnp. rewrite E. apply in_or_app. right. left. reflexivity.
      + intros Hk Hn0. rewrite Hn0. cbn. apply in_or_app. right. left. reflexivity.
      + exact (i_sorted s H).
      + exact (i_phase s H).
      + exact (i_ldone s H).
      + exact (i_noitems s H).
      + intros Hex. assert (e = false /\ excs s = 0) as [He Hex0]. { unfold ex in Hex. destruct e; [lia|split; [reflexivity|lia]]. } subst e.
        assert (p = true) as Hp. { destruct p; [reflexivity|]. unfold ex in Eb. rewrite Hex0 in Eb. discriminate. } subst p.
        rewrite <- (i_pe s H Hex0). pose proof (TU pe). cbn [pe] in H0. lia.
      + intros Hs j El. pose proof (i_pillsP s H Hs j El). pose proof (TU need). cbn [need] in *. lia.
      + intros Hs El. pose proof (i_pillsF s H Hs El). pose proof (TU need). cbn [need] in *. lia.
      + intros Hl. pose proof (i_lost s H Hl). pose proof (TU excp) as T. cbn [excp] in T. unfold ex. destruct e; lia.
      + intros Hl Hk z. pose proof (i_cons s H Hl Hk z) as C. pose proof (TU (wcnt z)) as T. cbn [wcnt] in T.
        destruct (pred (nprocs s) =? 0); [rewrite cnt_outq_app; cbn [cnt_outq]|]; lia.
      + intros Hk. exfalso. exact (member_nonEnd_pos _ _ _ Ei eq_refl (proj1 (i_fin s H Hk))).
  Qed.

  Theorem step_inv s a : Inv s -> Inv (step n m ab s a).
  Proof.
    intros [E|H].
    - subst s. destruct a as [| | |i|i]; try (left; apply init_steps; discriminate). right. exact init_K.
    - right. destruct a as [| | |i|i]; cbn [step]; [apply stepK_inv|apply stepL_inv|apply stepLC_inv|apply stepW_inv|apply stepC_inv]; exact H.
  Qed.
  Theorem run_inv sched : forall s, Inv s -> Inv (fold_left (step n m ab) sched s).
  Proof. induction sched as [|a r IH]; intros s H; [exact H|]. cbn [fold_left]. apply IH, step_inv, H. Qed.
End Inv.
