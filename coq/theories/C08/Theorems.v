From Coq Require Import ZArith List Bool Arith Lia Permutation.
From Coba Require Import C08.Model C08.Basics C08.Inv.
Import ListNotations.

Section Thm.
  Variables (n m : nat) (ab : option nat) (items0 : list item).
  Hypothesis Hn : 1 <= n.
  Hypothesis Hitems : items0 <> [].

  Notation Inv := (Inv n m items0). Notation Inv' := (Inv' n m items0).

  Lemma reachable_inv sched : Inv (run n m ab items0 sched).
  Proof. unfold run. apply (run_inv n m ab items0 Hn Hitems). left. reflexivity. Qed.

  (* ---------------------------------------------------------- exactly once *)
  Theorem returned_exactly_once sched ys : result_of (run n m ab items0 sched) = Returned ys ->
    Permutation ys (flat_map outs items0) /\ lost (run n m ab items0 sched) = false.
  Proof.
    intros R. destruct (reachable_inv sched) as [E|H].
    - rewrite E in R. discriminate.
    - unfold result_of in R. destruct (kp (run n m ab items0 sched)) as [| |[|] [|]] eqn:Hk; try discriminate.
      injection R as R. destruct (i_fin _ _ _ _ H Hk) as [_ [Hl Hc]]. split; [|exact Hl].
      apply (Permutation_count_occ Z.eq_dec). intros z. rewrite <- R. exact (Hc z).
  Qed.

  (* a filter error on an item that a worker took never ends in a normal return *)
  Theorem error_surfaces sched : lost (run n m ab items0 sched) = true -> forall ys, result_of (run n m ab items0 sched) <> Returned ys.
  Proof. intros Hl ys R. destruct (returned_exactly_once sched ys R) as [_ Hf]. congruence. Qed.

  (* no incarnation works on more than maxtasksperchild items: at a get it has completed k < m, while processing it is on item k+1 <= m *)
  Theorem worker_bound sched i w : nth_error (ws (run n m ab items0 sched)) i = Some w -> 1 <= m ->
    match w with WGet k => k < m | WPut _ _ k => k < m | _ => True end.
  Proof.
    intros Hi Hm. destruct (reachable_inv sched) as [E|H].
    - rewrite E in Hi. cbn in Hi. apply nth_error_In, repeat_spec in Hi. subst w. exact I.
    - pose proof (okw_nth n m items0 _ i w H Hi) as Hok. destruct w as [|k|os r k|p e|]; cbn in Hok; try exact I; [|destruct Hok as [_ Hok]]; destruct Hok; lia.
  Qed.

  (* at most one pill ever sits on the output queue *)
  Theorem one_out_pill sched : npill (outq (run n m ab items0 sched)) <= 1.
  Proof.
    destruct (reachable_inv sched) as [E|H]; [rewrite E; cbn; lia|].
    pose proof (i_wellq _ _ _ _ H) as W. revert W. generalize (outq (run n m ab items0 sched)) as q.
    induction q as [|[z|] t IH]; intros W; cbn; [lia| |].
    - apply IH. intros a b E. apply (W (Some z :: a) b). rewrite E. reflexivity.
    - rewrite (W [] t eq_refl). cbn. lia.
  Qed.

  (* ---------------------------------------------------------- no deadlock *)
  Definition isExit w := match w with WExit _ _ => true | _ => false end.
  Definition isPut w := match w with WPut _ _ _ => true | _ => false end.
  Definition isGet w := match w with WGet _ => true | _ => false end.

  Lemma existsb_nth (f : wst -> bool) l : existsb f l = true -> exists i w, nth_error l i = Some w /\ f w = true.
  Proof. intros H. apply existsb_exists in H. destruct H as [w [Hin Hf]]. apply In_nth_error in Hin. destruct Hin as [i Hi]. exists i, w. split; assumption. Qed.

  Lemma ws_neq (s s' : st) : ws s' <> ws s -> s' <> s. Proof. intros H E. apply H. rewrite E. reflexivity. Qed.

  Theorem no_deadlock s : Inv s -> isfin (kp s) = false -> exists a, step n m ab s a <> s.
  Proof.
    intros [E|H] Hk.
    - exists AK. subst s. cbn. intros E. apply (f_equal kp) in E. discriminate.
    - destruct (kp s) eqn:Ek; [exfalso; exact (i_k _ _ _ _ H Ek)| |discriminate]. clear Hk.
      (* the consumer itself *)
      destruct (match ab with Some j => length (yielded s) =? j | None => false end) eqn:Eab.
      { exists AK. cbn [step]. unfold stepK. rewrite Ek, Eab. unfold finally. intros E. apply (f_equal kp) in E. cbn in E. congruence. }
      destruct (outq s) as [|[o|] r] eqn:Eq.
      2:{ exists AK. cbn [step]. unfold stepK. rewrite Ek, Eab, Eq. intros E. apply (f_equal outq) in E. cbn in E. rewrite Eq in E.
          apply (f_equal (@length _)) in E. cbn in E. lia. }
      2:{ exists AK. cbn [step]. unfold stepK. rewrite Ek, Eab, Eq. unfold finally. intros E. apply (f_equal kp) in E. cbn in E. congruence. }
      (* the output queue is empty *)
      destruct (existsb isExit (ws s)) eqn:E1.
      { destruct (existsb_nth _ _ E1) as [i [w [Hi Hw]]]. destruct w as [|k|os r k|p e|]; try discriminate. exists (AC i). cbn [step]. unfold stepC. rewrite Hi.
        destruct (negb p && (excs s + (if e then 1 else 0) =? 0)); apply ws_neq; cbn [ws]; apply (upd_neq _ _ _ _ Hi); discriminate. }
      destruct (existsb isPut (ws s)) eqn:E2.
      { destruct (existsb_nth _ _ E2) as [i [w [Hi Hw]]]. destruct w as [|k|os r k|p e|]; try discriminate.
        pose proof (okw_nth n m items0 _ i _ H Hi) as [Hos _]. destruct os as [|o os]; [congruence|].
        exists (AW i). cbn [step]. unfold stepW. rewrite Hi. intros E. apply (f_equal outq) in E. cbn in E. rewrite Eq in E. discriminate. }
      destruct (existsb isGet (ws s)) eqn:E3.
      2:{ (* every lineage is over: the pill must be on the output queue *)
          exfalso. assert (tot nonEnd (ws s) = 0) as H0.
          { rewrite (tot_all nonEnd (ws s) 0); [lia|]. intros i w Hi. pose proof (okw_nth n m items0 _ i _ H Hi) as Hok.
            assert (In w (ws s)) as Hin by (eapply nth_error_In; exact Hi).
            destruct w as [|k|os r k|p e|]; cbn in Hok; try contradiction; try reflexivity.
            - assert (existsb isGet (ws s) = true) by (apply existsb_exists; exists (WGet k); split; [exact Hin|reflexivity]). congruence.
            - assert (existsb isPut (ws s) = true) by (apply existsb_exists; exists (WPut os r k); split; [exact Hin|reflexivity]). congruence.
            - assert (existsb isExit (ws s) = true) by (apply existsb_exists; exists (WExit p e); split; [exact Hin|reflexivity]). congruence. }
          pose proof (i_np0 _ _ _ _ H Ek) as P. rewrite (i_np _ _ _ _ H), H0, Eq in P. exact (P eq_refl). }
      destruct (existsb_nth _ _ E3) as [i [w [Hi Hw]]]. destruct w as [|k|os r k|p e|]; try discriminate.
      destruct (inq s) as [|x q] eqn:Ei.
      2:{ exists (AW i). cbn [step]. unfold stepW. rewrite Hi, Ei. destruct x as [x|]; intros E; apply (f_equal inq) in E; cbn in E; rewrite Ei in E;
          apply (f_equal (@length _)) in E; cbn in E; lia. }
      (* both queues are empty and a worker waits for input: the loader side must be able to move *)
      assert (stopped s = false) as Hs by (rewrite (i_stop _ _ _ _ H), Ek; reflexivity).
      assert (0 <? cap n = true) as Hcap by (apply Nat.ltb_lt; unfold cap; lia).
      destruct (lp s) as [| | |j|] eqn:El.
      + exfalso. exact (i_lp _ _ _ _ H El).
      + exists AL. cbn [step]. unfold stepL. rewrite El. destruct (todo s) as [|y t] eqn:Et; [exfalso; exact (i_lrun _ _ _ _ H El Et)|].
        rewrite Ei. cbn [length]. rewrite Hcap. intros E. apply (f_equal inq) in E. cbn in E. rewrite Ei in E. discriminate.
      + exists ALC. cbn [step]. unfold stepLC. rewrite El. unfold set_lp_inq. intros E. apply (f_equal lp) in E. cbn in E. rewrite Hs, El in E.
        destruct (nprocs s); discriminate.
      + exists ALC. cbn [step]. unfold stepLC. rewrite El. pose proof (i_lpills _ _ _ _ H j El). destruct j as [|j]; [lia|].
        rewrite Ei. cbn [length]. rewrite Hcap. unfold set_lp_inq. intros E. apply (f_equal inq) in E. cbn in E. rewrite Ei in E. discriminate.
      + exfalso. pose proof (i_pillsF _ _ _ _ H Hs El) as P. rewrite Ei in P. cbn in P. pose proof (tot_member need _ _ _ Hi). cbn in H0. lia.
  Qed.

  Corollary reachable_no_deadlock sched : isfin (kp (run n m ab items0 sched)) = false -> exists a, step n m ab (run n m ab items0 sched) a <> run n m ab items0 sched.
  Proof. apply no_deadlock, reachable_inv. Qed.
End Thm.
