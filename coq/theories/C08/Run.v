From Coq Require Import ZArith List Bool Arith.
From Coba Require Import Common.Sx C08.Model.
Import ListNotations.
Open Scope Z_scope.
(* request: (n m ab items sched)   ab = () | (j);  items = ((outs raises) ...);  sched = actor codes 0=K 1=L 2=LC 3+2i=W i 4+2i=C i
   reply:   ((len-inq len-outq nprocs excs len-yielded kcode) per step ...) followed by the final (rescode yielded) *)
Definition dec_actor (z : Z) : actor :=
  if z =? 0 then AK else if z =? 1 then AL else if z =? 2 then ALC
  else if Z.even (z - 3) then AW (Z.to_nat ((z - 3) / 2)) else AC (Z.to_nat ((z - 4) / 2)).
Definition kcode (k : kph) : Z := match k with KInit => 0 | KRun => 1 | KFin false false => 2 | KFin false true => 3 | KFin true _ => 4 end.
Definition obs (s : st) : sx :=
  L_ [of_nat (length (inq s)); of_nat (length (outq s)); of_nat (nprocs s); of_nat (excs s); of_nat (length (yielded s)); Z_ (kcode (kp s))].
Fixpoint trace (n m : nat) (ab : option nat) (s : st) (sched : list actor) : list sx * st :=
  match sched with
  | [] => ([], s)
  | a :: r => let s' := step n m ab s a in let (o, sf) := trace n m ab s' r in (obs s' :: o, sf)
  end.
Definition run (x : sx) : sx :=
  let n := as_nat (nth_sx 0 x) in let m := as_nat (nth_sx 1 x) in let ab := as_opt as_nat (nth_sx 2 x) in
  let items := map (fun i => {| outs := as_zs (nth_sx 0 i); raises := as_bool (nth_sx 1 i) |}) (as_l (nth_sx 3 x)) in
  let sched := map dec_actor (as_zs (nth_sx 4 x)) in
  let (o, sf) := trace n m ab (init n items) sched in
  L_ (o ++ [L_ [Z_ (kcode (kp sf)); of_zs (yielded sf)]]).
