(* C08 — Multiprocessor.filter as an interleaving model.
   Actors: the consumer K (the caller iterating the result), the loader thread L, its completion callback LC,
   one worker lineage W i per process slot (a sequence of incarnations) and one callback C i per finished incarnation.
   A step is what an actor does between two blocking / visible operations (queue put, queue get, thread join):
     L   : put the next pickled item on the bounded input queue (no-op when full), then test the stop flag / end of items
     LC  : after the loader ended: take n_procs, then put one pill per step (no-op when full), testing the stop flag before each
     W i : get from the input queue (no-op when empty): a pill ends the incarnation poisoned; an item is processed, its outputs
           are put one per step on the output queue; a filter error or the maxtasksperchild-th item ends the incarnation
     C i : the completion callback of an ended incarnation: record the error; restart the lineage iff it was not poisoned and
           no error has been recorded, else n_procs -= 1 and at zero put the pill on the output queue
     K   : start everything; get from the output queue (no-op when empty) and yield, or stop at the pill, or abandon after a given
           number of outputs; stopping runs the finally block (stop flag, drain both queues)
   A schedule is any list of actors; a step of an actor that cannot move leaves the state unchanged. *)
From Coq Require Import ZArith List Bool Arith Lia.
Import ListNotations.

Record item := { outs : list Z; raises : bool }.

Inductive wst :=
| WNot                                              (* not started yet *)
| WGet (k : nat)                                    (* parked at in_queue.get having completed k items *)
| WPut (os : list Z) (r : bool) (k : nat)           (* parked at out_queue.put of the head of os; r: the item raises after its outputs *)
| WExit (poisoned exc : bool)                       (* incarnation ended, completion callback pending *)
| WEnd.                                             (* lineage over *)
Inductive lph := LInit | LRun | LEnded | LPills (j : nat) | LFin.
Inductive kph := KInit | KRun | KFin (abandoned raised : bool).
Inductive actor := AK | AL | ALC | AW (i : nat) | AC (i : nat).

Record st := {
  todo : list item; lp : lph; stopped : bool;
  inq : list (option item);                       (* None = poison pill *)
  ws : list wst;
  outq : list (option Z);
  nprocs : nat; excs : nat;
  kp : kph; yielded : list Z;
  lost : bool;                                     (* ghost: some incarnation has hit a filter error *)
  ptaken : nat                                     (* ghost: pills taken from the input queue *)
}.

Fixpoint upd {A} (i : nat) (x : A) (l : list A) : list A :=
  match l, i with
  | [], _ => []
  | _ :: t, O => x :: t
  | h :: t, S j => h :: upd j x t
  end.

Section Model.
  Variable n : nat.                 (* n_processes *)
  Variable m : nat.                 (* maxtasksperchild, 0 = unlimited *)
  Variable ab : option nat.         (* the consumer abandons after this many outputs *)

  Definition cap := (2 * n)%nat.

  Definition init (items : list item) : st :=
    {| todo := items; lp := LInit; stopped := false; inq := []; ws := repeat WNot n; outq := []; nprocs := n; excs := 0;
       kp := KInit; yielded := []; lost := false; ptaken := 0 |}.

  (* what an incarnation does after the last output of an item went out *)
  Definition after_item (r : bool) (k : nat) : wst :=
    if r then WExit false true
    else if (negb (m =? 0)) && (S k =? m) then WExit false false else WGet (S k).
  Definition begin_item (x : item) (k : nat) : wst :=
    match outs x with [] => after_item (raises x) k | os => WPut os (raises x) k end.

  Definition set_ws (s : st) (w : list wst) : st :=
    {| todo := todo s; lp := lp s; stopped := stopped s; inq := inq s; ws := w; outq := outq s; nprocs := nprocs s; excs := excs s;
       kp := kp s; yielded := yielded s; lost := lost s; ptaken := ptaken s |}.

  Definition finally (s : st) (abandoned : bool) : st :=
    {| todo := todo s; lp := lp s; stopped := true; inq := []; ws := ws s; outq := []; nprocs := nprocs s; excs := excs s;
       kp := KFin abandoned (negb (excs s =? 0)); yielded := yielded s; lost := lost s; ptaken := ptaken s |}.

  Definition stepK (s : st) : st :=
    match kp s with
    | KInit => {| todo := todo s; lp := LRun; stopped := stopped s; inq := inq s; ws := repeat (WGet 0) n; outq := outq s; nprocs := nprocs s;
                  excs := excs s; kp := KRun; yielded := yielded s; lost := lost s; ptaken := ptaken s |}
    | KRun =>
      if match ab with Some j => length (yielded s) =? j | None => false end then finally s true
      else match outq s with
           | [] => s
           | Some o :: r => {| todo := todo s; lp := lp s; stopped := stopped s; inq := inq s; ws := ws s; outq := r; nprocs := nprocs s;
                               excs := excs s; kp := KRun; yielded := yielded s ++ [o]; lost := lost s; ptaken := ptaken s |}
           | None :: r => finally s false
           end
    | KFin _ _ => s
    end.

  Definition stepL (s : st) : st :=
    match lp s, todo s with
    | LRun, x :: t =>
      if length (inq s) <? cap
      then {| todo := t; lp := (if stopped s || match t with [] => true | _ => false end then LEnded else LRun); stopped := stopped s;
              inq := inq s ++ [Some x]; ws := ws s; outq := outq s; nprocs := nprocs s; excs := excs s; kp := kp s; yielded := yielded s; lost := lost s; ptaken := ptaken s |}
      else s
    | _, _ => s
    end.

  Definition set_lp_inq (s : st) (l : lph) (q : list (option item)) : st :=
    {| todo := todo s; lp := l; stopped := stopped s; inq := q; ws := ws s; outq := outq s; nprocs := nprocs s; excs := excs s;
       kp := kp s; yielded := yielded s; lost := lost s; ptaken := ptaken s |}.

  Definition stepLC (s : st) : st :=
    match lp s with
    | LEnded => set_lp_inq s (if stopped s then LFin else match nprocs s with O => LFin | S j => LPills (S j) end) (inq s)
    | LPills (S j) =>
      if length (inq s) <? cap
      then set_lp_inq s (if stopped s then LFin else match j with O => LFin | _ => LPills j end) (inq s ++ [None])
      else s
    | _ => s
    end.

  Definition stepW (i : nat) (s : st) : st :=
    match nth_error (ws s) i with
    | Some (WGet k) =>
      match inq s with
      | [] => s
      | Some x :: q =>
        {| todo := todo s; lp := lp s; stopped := stopped s; inq := q; ws := upd i (begin_item x k) (ws s); outq := outq s; nprocs := nprocs s;
           excs := excs s; kp := kp s; yielded := yielded s; lost := lost s || raises x; ptaken := ptaken s |}
      | None :: q =>
        {| todo := todo s; lp := lp s; stopped := stopped s; inq := q; ws := upd i (WExit true false) (ws s); outq := outq s; nprocs := nprocs s;
           excs := excs s; kp := kp s; yielded := yielded s; lost := lost s; ptaken := S (ptaken s) |}
      end
    | Some (WPut (o :: os) r k) =>
      {| todo := todo s; lp := lp s; stopped := stopped s; inq := inq s;
         ws := upd i (match os with [] => after_item r k | _ => WPut os r k end) (ws s);
         outq := outq s ++ [Some o]; nprocs := nprocs s; excs := excs s; kp := kp s; yielded := yielded s; lost := lost s; ptaken := ptaken s |}
    | _ => s
    end.

  Definition stepC (i : nat) (s : st) : st :=
    match nth_error (ws s) i with
    | Some (WExit p e) =>
      let ex := (excs s + (if e then 1 else 0))%nat in
      if negb p && (ex =? 0)
      then {| todo := todo s; lp := lp s; stopped := stopped s; inq := inq s; ws := upd i (WGet 0) (ws s); outq := outq s; nprocs := nprocs s;
              excs := ex; kp := kp s; yielded := yielded s; lost := lost s; ptaken := ptaken s |}
      else {| todo := todo s; lp := lp s; stopped := stopped s; inq := inq s; ws := upd i WEnd (ws s);
              outq := (if pred (nprocs s) =? 0 then outq s ++ [None] else outq s); nprocs := pred (nprocs s);
              excs := ex; kp := kp s; yielded := yielded s; lost := lost s; ptaken := ptaken s |}
    | _ => s
    end.

  Definition step (s : st) (a : actor) : st :=
    match a with AK => stepK s | AL => stepL s | ALC => stepLC s | AW i => stepW i s | AC i => stepC i s end.
  Definition run (items : list item) (sched : list actor) : st := fold_left step sched (init items).

  (* what the caller sees once the consumer has finished *)
  Inductive result := Running | Raised | Returned (ys : list Z) | Abandoned (ys : list Z).
  Definition result_of (s : st) : result :=
    match kp s with
    | KFin true _ => Abandoned (yielded s)
    | KFin false false => Returned (yielded s)
    | KFin false true => Raised
    | _ => Running
    end.
End Model.
