(* C08 — Multi-process filtering delivers every output exactly once and never hangs.  Property theorems only.
   The model (C08/Model.v) is an interleaving semantics of Multiprocessor.filter: run n m ab items sched is the state after ANY schedule
   (list of actors: consumer, loader, loader callback, worker lineage i, completion callback i); a step of an actor that cannot move is the identity. *)
From Coq Require Import ZArith List Bool Arith Permutation.
From Coba Require Import C08.Model C08.Basics C08.Inv C08.Theorems C08.Measure.
Import ListNotations.

(* a call that returns normally has yielded exactly the multiset of all outputs of all items, and no worker met a filter error *)
Theorem exactly_once : forall n m ab items sched ys, 1 <= n -> items <> [] ->
  result_of (run n m ab items sched) = Returned ys -> Permutation ys (flat_map outs items) /\ lost (run n m ab items sched) = false.
Proof. intros n m ab items sched ys Hn Hi. exact (returned_exactly_once n m ab items Hn Hi sched ys). Qed.
Print Assumptions exactly_once.

(* once a worker has taken an item on which the filter raises, the call can no longer return normally: it raises (or was abandoned) *)
Theorem error_never_dropped : forall n m ab items sched, 1 <= n -> items <> [] ->
  lost (run n m ab items sched) = true -> forall ys, result_of (run n m ab items sched) <> Returned ys.
Proof. intros n m ab items sched Hn Hi. exact (error_surfaces n m ab items Hn Hi sched). Qed.
Print Assumptions error_never_dropped.

(* maxtasksperchild: an incarnation parked at get has completed k < m items, one that is processing is on item k+1 <= m *)
Theorem maxtasksperchild_bound : forall n m ab items sched i w, 1 <= n -> items <> [] -> 1 <= m ->
  nth_error (ws (run n m ab items sched)) i = Some w -> match w with WGet k => k < m | WPut _ _ k => k < m | _ => True end.
Proof. intros n m ab items sched i w Hn Hi Hm Hw. exact (worker_bound n m ab items Hn Hi sched i w Hw Hm). Qed.
Print Assumptions maxtasksperchild_bound.

Theorem at_most_one_output_pill : forall n m ab items sched, 1 <= n -> items <> [] -> npill (outq (run n m ab items sched)) <= 1.
Proof. intros n m ab items sched Hn Hi. exact (one_out_pill n m ab items Hn Hi sched). Qed.
Print Assumptions at_most_one_output_pill.

(* never hangs, part 1: in every reachable state in which the consumer has not finished, some actor can move
   (normal path, error path and early abandon alike) *)
Theorem no_deadlock : forall n m ab items sched, 1 <= n -> items <> [] ->
  isfin (kp (run n m ab items sched)) = false -> exists a, step n m ab (run n m ab items sched) a <> run n m ab items sched.
Proof. intros n m ab items sched Hn Hi. exact (reachable_no_deadlock n m ab items Hn Hi sched). Qed.
Print Assumptions no_deadlock.

(* never hangs, part 2: every move of an unfinished run decreases the potential mu, so no schedule can move for ever:
   at most mu (state after the consumer's first step) moves happen before the consumer finishes *)
Theorem every_move_decreases_mu : forall n m ab items s a, 1 <= n -> items <> [] -> Inv' n m items s -> kp s = KRun ->
  step n m ab s a <> s -> isfin (kp (step n m ab s a)) = false -> mu (step n m ab s a) < mu s.
Proof. intros n m ab items s a Hn Hi HI Hk Hm Hf. apply (measure_decreases n m ab items); assumption. Qed.
Print Assumptions every_move_decreases_mu.
Theorem reachable_states_satisfy_Inv : forall n m ab items sched, 1 <= n -> items <> [] ->
  run n m ab items sched = init n items \/ Inv' n m items (run n m ab items sched).
Proof. intros n m ab items sched Hn Hi. exact (reachable_inv n m ab items Hn Hi sched). Qed.

(* the hypotheses are satisfiable and the model moves: two processes, three items, one schedule *)
Example run_example :
  result_of (run 2 0 None [{| outs := [1%Z]; raises := false |}; {| outs := [2%Z; 3%Z]; raises := false |}; {| outs := []; raises := false |}]
    [AK; AL; AW 0; AL; AW 1; AW 0; AL; AW 1; AW 1; ALC; ALC; AW 0; ALC; AW 0; AW 1; AC 0; AC 1; AK; AK; AK; AK]) = Returned [1%Z; 2%Z; 3%Z].
Proof. vm_compute. reflexivity. Qed.
