(* Executable model of coba.encodings.InteractionsEncoder (_pows, _cross, encode).
   _pows is modelled as the code computes it: per level a list `terms` and per feature a 1-based
   offset `starts` into the previous level; the update of `starts` is selected by the generated
   flag starts_variant (0 = the original shuffle of offsets, 1 = block sizes). *)
From Coq Require Import ZArith List Bool Arith Lia.
From Coba Require Import Generated.C20_gen.
Import ListNotations.

Section Pows.
  Context {A : Type}.
  Variable mul : A -> A -> A.
  Variable one : A.

  Fixpoint accum (acc : nat) (l : list nat) : list nat :=
    match l with [] => [] | x :: t => (acc + x) :: accum (acc + x) t end.

  Fixpoint zipw {B C} (f : A -> B -> C) (l : list A) (r : list B) : list C :=
    match l, r with a :: l', b :: r' => f a b :: zipw f l' r' | _, _ => [] end.

  (* starts[:1] + starts[-1:] + starts[1:-1] *)
  Definition rot (starts : list nat) : list nat :=
    firstn 1 starts ++ skipn (length starts - 1) starts ++ removelast (skipn 1 starts).

  Definition new_starts (variant : nat) (n_terms : nat) (starts : list nat) : list nat :=
    match variant with
    | O => accum 0 (rot starts)
    | _ => accum 0 (1 :: map (fun s => n_terms - s + 1) (removelast starts))
    end.

  Definition level (vs : list A) (terms : list A) (starts : list nat) : list A :=
    concat (zipw (fun v s => map (mul v) (skipn (s - 1) terms)) vs starts).

  (* returns terms[0..degree] (a list of degree+1 levels); [] for no values *)
  Fixpoint pows_loop (variant : nat) (d : nat) (vs : list A) (terms : list A) (starts : list nat) : list (list A) :=
    match d with
    | O => []
    | S d' => let t' := level vs terms starts in
              t' :: pows_loop variant d' vs t' (new_starts variant (length terms) starts)
    end.

  Definition pows_v (variant : nat) (vs : list A) (degree : nat) : list (list A) :=
    match vs with
    | [] => []
    | _ => [one] :: pows_loop variant degree vs [one] (repeat 1 (length vs))
    end.

  (* outer product, left major *)
  Definition cross2 (l r : list A) : list A := flat_map (fun o => map (fun v => mul o v) r) l.
  Definition cross (ls : list (list A)) : list A :=
    match ls with [] => [] | h :: t => fold_left cross2 t h end.
End Pows.

Definition pows {A} (mul : A -> A -> A) (one : A) := pows_v mul one starts_variant.

(* ---- encode.  A term is a list of (namespace, power) in order of first occurrence. *)
Definition term := list (nat * nat).

Definition max_pow (ns : nat) (terms : list term) : nat :=
  fold_right Nat.max 0 (map (fun t => fold_right Nat.max 0 (map (fun p => if Nat.eqb (fst p) ns then snd p else 0) t)) terms).

Section Encode.
  Context {A : Type}.
  Variable mul : A -> A -> A.
  Variable one : A.
  (* values of namespace 0 (x) and 1 (a) *)
  Variable vals : nat -> list A.

  Definition ns_pows (terms : list term) (ns : nat) : list (list A) := pows mul one (vals ns) (max_pow ns terms).

  Definition cross_term (terms : list term) (t : term) : list A :=
    if existsb (fun p => match ns_pows terms (fst p) with [] => true | _ => false end) t then []
    else cross mul (map (fun p => nth (snd p) (ns_pows terms (fst p)) []) t).

  Definition encode_terms (terms : list term) : list A := concat (map (cross_term terms) terms).
End Encode.
