(* C20 — Feature interaction encoding equals the mathematical polynomial expansion.
   Property theorems only. starts_variant is Generated/C20_gen.v (which update of the offsets
   the source uses), re-created from coba/encodings.py on every run. *)
From Coq Require Import ZArith List Bool Arith.
From Coba Require Import Generated.C20_gen C20.Model C20.Proofs.
Import ListNotations.

(* the source uses the block-size update of the offsets ... *)
Theorem pows_update_is_block_sizes : starts_variant = 1.
Proof. reflexivity. Qed.

(* ... for which level d of _pows is exactly: every combination with replacement of d features,
   once each, in lexicographic order, multiplied out -- for any number of features, any degree,
   any multiplication (numbers: *, feature names: string concatenation) *)
Theorem pows_full : forall (A : Type) (mul : A -> A -> A) (one : A) (vs : list A) (D d : nat),
  vs <> [] -> d <= D -> nth d (pows_v mul one 1 vs D) [] = map (prod mul one) (cwr d vs).
Proof. exact @pows_level. Qed.
Print Assumptions pows_full.

Theorem pows_all_levels : forall (A : Type) (mul : A -> A -> A) (one : A) (vs : list A) (D : nat),
  vs <> [] -> pows_v mul one 1 vs D = map (fun k => M mul one k vs) (seq 0 (S D)).
Proof. exact @pows_correct. Qed.
Print Assumptions pows_all_levels.

Theorem monomials_are_products_of_combinations : forall (A : Type) (mul : A -> A -> A) (one : A) d l,
  M mul one d l = map (prod mul one) (cwr d l).
Proof. exact @M_cwr. Qed.
Print Assumptions monomials_are_products_of_combinations.

(* the original update (shuffle of the old offsets) is wrong for 4 features, degree 3 *)
Theorem pows_refuted_for_original_update :
  length (nth 3 (pows_v Z.mul 1%Z 0 [2;3;5;7]%Z 3) []) = 21 /\ length (cwr 3 [2;3;5;7]%Z) = 20.
Proof. exact pows_variant0_wrong. Qed.

(* namespaces are crossed as a full outer product, left factor major *)
Theorem cross_is_outer_product : forall (A : Type) (mul : A -> A -> A) (l r : list A) d i j,
  i < length l -> j < length r ->
  length (cross2 mul l r) = length l * length r /\
  nth (i * length r + j) (cross2 mul l r) d = mul (nth i l d) (nth j r d).
Proof. exact (fun A mul l r d i j Hi Hj => conj (cross2_length mul l r) (cross2_nth mul l r d i j Hi Hj)). Qed.
Print Assumptions cross_is_outer_product.

Example pows_example : nth 2 (pows_v Z.mul 1%Z 1 [2;3;5]%Z 2) [] = [4;6;10;9;15;25]%Z.
Proof. vm_compute. reflexivity. Qed.
