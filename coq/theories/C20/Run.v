(* wire codec for the C20 correspondence check *)
From Coq Require Import ZArith List Bool.
From Coba Require Import Common.Sx C20.Model.
Import ListNotations.
Open Scope Z_scope.

Definition dec_term (x : sx) : term := map (fun p => (as_nat (nth_sx 0 p), as_nat (nth_sx 1 p))) (as_l x).

(* request: (mode const terms ((ns values) ...))
   dense  values: list of integers
   sparse values: list of (key-string is_str str-value num-value) *)
Definition lookup {B} (d : B) (tbl : list (nat * B)) (ns : nat) : B :=
  match find (fun p => Nat.eqb (fst p) ns) tbl with Some p => snd p | None => d end.

Definition run (x : sx) : sx :=
  let mode := as_z (nth_sx 0 x) in
  let c := as_z (nth_sx 1 x) in
  let terms := map dec_term (as_l (nth_sx 2 x)) in
  let nss := as_l (nth_sx 3 x) in
  if mode =? 0 then
    let tbl := map (fun e => (as_nat (nth_sx 0 e), as_zs (nth_sx 1 e))) nss in
    let enc := encode_terms Z.mul 1 (lookup [] tbl) terms in
    of_zs (if c =? 0 then enc else c :: enc)
  else
    let feat_key (ns : nat) (f : sx) : list Z :=
        (Z.of_nat ns :: as_zs (nth_sx 0 f)) ++ (if as_bool (nth_sx 1 f) then as_zs (nth_sx 2 f) else []) in
    let feat_val (f : sx) : Z := if as_bool (nth_sx 1 f) then 1 else as_z (nth_sx 3 f) in
    let ktbl := map (fun e => let ns := as_nat (nth_sx 0 e) in (ns, map (feat_key ns) (as_l (nth_sx 1 e)))) nss in
    let vtbl := map (fun e => (as_nat (nth_sx 0 e), map feat_val (as_l (nth_sx 1 e)))) nss in
    let ks := encode_terms (@app Z) [] (lookup [] ktbl) terms in
    let vs := encode_terms Z.mul 1 (lookup [] vtbl) terms in
    L_ (map (fun kv => L_ [of_zs (fst kv); Z_ (snd kv)]) (combine ks vs)
        ++ (if c =? 0 then [] else [L_ [of_zs [99;111;110;115;116]; Z_ c]])).
