(* _pows (block-size update of the offsets) computes, level by level, the monomials of each degree:
   every combination with replacement of the features exactly once, in lexicographic order. *)
From Coq Require Import ZArith List Bool Arith Lia.
From Coba Require Import Generated.C20_gen C20.Model.
Import ListNotations.

Section Spec.
  Context {A : Type}.
  Variable mul : A -> A -> A.
  Variable one : A.

  (* combinations with replacement of size d, lexicographic by position *)
  Fixpoint cwr (d : nat) : list A -> list (list A) :=
    match d with
    | O => fun _ => [[]]
    | S d' => fix go (l : list A) : list (list A) :=
                match l with
                | [] => []
                | v :: l' => map (cons v) (cwr d' (v :: l')) ++ go l'
                end
    end.
  Definition prod (c : list A) : A := fold_right mul one c.

  (* the monomials of degree d over the features l *)
  Fixpoint M (d : nat) : list A -> list A :=
    match d with
    | O => fun _ => [one]
    | S d' => fix go (l : list A) : list A :=
                match l with
                | [] => []
                | v :: l' => map (mul v) (M d' (v :: l')) ++ go l'
                end
    end.

  Lemma M_S_cons d v l : M (S d) (v :: l) = map (mul v) (M d (v :: l)) ++ M (S d) l.
  Proof. reflexivity. Qed.
  Lemma M_S_nil d : M (S d) [] = [].
  Proof. reflexivity. Qed.
  Lemma cwr_S_cons d v l : cwr (S d) (v :: l) = map (cons v) (cwr d (v :: l)) ++ cwr (S d) l.
  Proof. reflexivity. Qed.

  Lemma M_cwr d : forall l, M d l = map prod (cwr d l).
  Proof.
    induction d as [|d IH]; intros l; [reflexivity|].
    induction l as [|v l IHl]; [reflexivity|].
    rewrite M_S_cons, cwr_S_cons, map_app, IHl, IH, !map_map. reflexivity.
  Qed.

  Lemma M_nonempty d v l : 1 <= length (M d (v :: l)).
  Proof.
    induction d as [|d IH]; [cbn; lia|].
    rewrite M_S_cons, app_length, map_length. lia.
  Qed.

  Lemma M_suffix d : forall p l, exists X, M d (p ++ l) = X ++ M d l.
  Proof.
    destruct d as [|d]; intros p l; [exists []; reflexivity|].
    induction p as [|v p IH]; [exists []; reflexivity|].
    destruct IH as [X HX]. cbn [app]. rewrite M_S_cons, HX.
    eexists. rewrite app_assoc. reflexivity.
  Qed.

  Lemma M_suffix_len d p l : length (M d l) <= length (M d (p ++ l)).
  Proof. destruct (M_suffix d p l) as [X HX]. rewrite HX, app_length. lia. Qed.

  Lemma M_suffix_skipn d p l :
    skipn (length (M d (p ++ l)) - length (M d l)) (M d (p ++ l)) = M d l.
  Proof.
    destruct (M_suffix d p l) as [X HX]. rewrite HX, app_length.
    replace (length X + length (M d l) - length (M d l)) with (length X) by lia.
    rewrite skipn_app, skipn_all, Nat.sub_diag. reflexivity.
  Qed.

  (* non-empty suffixes *)
  Fixpoint sufs (l : list A) : list (list A) :=
    match l with [] => [] | v :: l' => (v :: l') :: sufs l' end.

  Lemma sufs_length l : length (sufs l) = length l.
  Proof. induction l; cbn; auto. Qed.

  Lemma removelast_cons2' {B} (a b : B) l : removelast (a :: b :: l) = a :: removelast (b :: l).
  Proof. reflexivity. Qed.

  Lemma sufs_in l : forall sf, In sf (sufs l) -> exists p v t, sf = v :: t /\ l = p ++ sf.
  Proof.
    induction l as [|v l IH]; intros sf H; [destruct H|].
    destruct H as [H|H].
    - subst sf. exists [], v, l. split; reflexivity.
    - destruct (IH sf H) as [p [w [t [E1 E2]]]]. exists (v :: p), w, t. split; [exact E1|].
      cbn [app]. f_equal. exact E2.
  Qed.

  Lemma removelast_map {B C} (f : B -> C) l : removelast (map f l) = map f (removelast l).
  Proof.
    induction l as [|a l IH]; [reflexivity|]. destruct l as [|b l]; [reflexivity|].
    cbn [map] in *. rewrite !removelast_cons2'. cbn [map]. f_equal. exact IH.
  Qed.

  Lemma In_removelast {B} (x : B) l : In x (removelast l) -> In x l.
  Proof.
    induction l as [|a l IH]; [auto|]. destruct l as [|b l]; [intros []|].
    rewrite removelast_cons2'. intros [H|H]; [left; exact H|right; apply IH; exact H].
  Qed.

  Variable vs : list A.

  Definition start_of (d : nat) (sf : list A) : nat := 1 + (length (M d vs) - length (M d sf)).
  Definition Inv (d : nat) (terms : list A) (starts : list nat) : Prop :=
    terms = M d vs /\ starts = map (start_of d) (sufs vs).

  Lemma level_correct d : forall p l, vs = p ++ l ->
    concat (zipw (fun v s => map (mul v) (skipn (s - 1) (M d vs))) l (map (start_of d) (sufs l))) = M (S d) l.
  Proof.
    intros p l; revert p. induction l as [|v l IH]; intros p Hp; [reflexivity|].
    cbn [sufs map zipw concat]. rewrite M_S_cons. f_equal.
    - unfold start_of. replace (1 + (length (M d vs) - length (M d (v :: l))) - 1) with (length (M d vs) - length (M d (v :: l))) by lia.
      rewrite Hp. rewrite M_suffix_skipn. reflexivity.
    - apply (IH (p ++ [v])). rewrite <- app_assoc. exact Hp.
  Qed.

  Lemma removelast_cons2 {B} (a b : B) l : removelast (a :: b :: l) = a :: removelast (b :: l).
  Proof. reflexivity. Qed.

  Lemma starts_tail d : forall l v p acc, vs = p ++ v :: l ->
    acc = start_of (S d) (v :: l) ->
    accum acc (map (fun sf => length (M d sf)) (removelast (sufs (v :: l)))) = map (start_of (S d)) (sufs l).
  Proof.
    induction l as [|w l IH]; intros v p acc Hp Hacc; [reflexivity|].
    change (sufs (v :: w :: l)) with ((v :: w :: l) :: (w :: l) :: sufs l).
    rewrite removelast_cons2. cbn [map accum].
    change ((w :: l) :: sufs l) with (sufs (w :: l)).
    assert (E : acc + length (M d (v :: w :: l)) = start_of (S d) (w :: l)).
    { subst acc. unfold start_of. rewrite (M_S_cons d v (w :: l)), app_length, map_length.
      pose proof (M_suffix_len (S d) p (v :: w :: l)) as L. rewrite <- Hp in L.
      rewrite (M_S_cons d v (w :: l)), app_length, map_length in L. lia. }
    rewrite E. cbn [sufs map]. f_equal.
    apply (IH w (p ++ [v])); [rewrite <- app_assoc; exact Hp|reflexivity].
  Qed.

  Lemma new_starts_correct d : vs <> [] ->
    new_starts 1 (length (M d vs)) (map (start_of d) (sufs vs)) = map (start_of (S d)) (sufs vs).
  Proof.
    intros Hne. unfold new_starts.
    assert (R : map (fun s => length (M d vs) - s + 1) (removelast (map (start_of d) (sufs vs)))
                = map (fun sf => length (M d sf)) (removelast (sufs vs))).
    { rewrite removelast_map, map_map. apply map_ext_in. intros sf Hin.
      apply In_removelast in Hin. destruct (sufs_in _ _ Hin) as [p [v [l [E1 E2]]]].
      unfold start_of. pose proof (M_suffix_len d p sf) as L. rewrite <- E2 in L.
      subst sf. pose proof (M_nonempty d v l). lia. }
    rewrite R.
    assert (G : forall l, vs = l ->
      accum 0 (1 :: map (fun sf => length (M d sf)) (removelast (sufs l))) = map (start_of (S d)) (sufs l)).
    { intros l Hl. destruct l as [|v l]; [congruence|].
      cbn [accum]. cbn [sufs map]. f_equal.
      - unfold start_of. rewrite Hl, Nat.sub_diag. reflexivity.
      - apply (starts_tail d l v [] (0 + 1)); [exact Hl|].
        unfold start_of. rewrite Hl, Nat.sub_diag. reflexivity. }
    apply G. reflexivity.
  Qed.

  Lemma pows_loop_correct : vs <> [] -> forall D d,
    pows_loop mul 1 D vs (M d vs) (map (start_of d) (sufs vs)) = map (fun k => M k vs) (seq (S d) D).
  Proof.
    intros Hne. induction D as [|D IH]; intros d; [reflexivity|].
    cbn [pows_loop seq map].
    assert (L : level mul vs (M d vs) (map (start_of d) (sufs vs)) = M (S d) vs).
    { unfold level. apply (level_correct d []). reflexivity. }
    rewrite L. f_equal. rewrite new_starts_correct by exact Hne. apply IH.
  Qed.

  Lemma repeat_starts : repeat 1 (length vs) = map (start_of 0) (sufs vs).
  Proof.
    unfold start_of. cbn [M length]. generalize vs as l.
    induction l as [|v l IH]; [reflexivity|]. cbn [length repeat sufs map]. f_equal. exact IH.
  Qed.

  Theorem pows_correct D : vs <> [] ->
    pows_v mul one 1 vs D = map (fun k => M k vs) (seq 0 (S D)).
  Proof.
    intros Hne. unfold pows_v.
    assert (G : forall l, vs = l -> match l with [] => [] | _ => [one] :: pows_loop mul 1 D vs [one] (repeat 1 (length vs)) end
                                    = map (fun k => M k vs) (seq 0 (S D))).
    { intros l Hl. destruct l as [|v l]; [congruence|].
      cbn [seq map]. f_equal. rewrite repeat_starts. apply (pows_loop_correct Hne D 0). }
    specialize (G vs eq_refl). exact G.
  Qed.

  Corollary pows_level D d : vs <> [] -> d <= D ->
    nth d (pows_v mul one 1 vs D) [] = map prod (cwr d vs).
  Proof.
    intros Hne Hd. rewrite pows_correct by exact Hne.
    rewrite <- M_cwr.
    rewrite (nth_indep _ [] ((fun k => M k vs) (S D))) by (rewrite map_length, seq_length; lia).
    rewrite (map_nth (fun k => M k vs) (seq 0 (S D)) (S D) d). rewrite seq_nth by lia. reflexivity.
  Qed.
End Spec.

(* the original update is wrong from 4 features / degree 3 on *)
Lemma pows_variant0_wrong :
  length (nth 3 (pows_v Z.mul 1%Z 0 [2;3;5;7]%Z 3) []) = 21 /\ length (cwr 3 [2;3;5;7]%Z) = 20.
Proof. vm_compute. split; reflexivity. Qed.

(* the cross of two blocks is the full outer product, left factor major *)
Section Cross.
  Context {A : Type}.
  Variable mul : A -> A -> A.
  Lemma cross2_length (l r : list A) : length (cross2 mul l r) = length l * length r.
  Proof.
    unfold cross2. induction l as [|o l IH]; [reflexivity|].
    cbn [flat_map length]. rewrite app_length, map_length, IH. lia.
  Qed.
  Lemma cross2_nth (l r : list A) d i j : i < length l -> j < length r ->
    nth (i * length r + j) (cross2 mul l r) d = mul (nth i l d) (nth j r d).
  Proof.
    unfold cross2. revert i. induction l as [|o l IH]; intros i Hi Hj; [cbn in Hi; lia|].
    cbn [flat_map]. destruct i as [|i].
    - cbn [Nat.mul Nat.add nth]. rewrite app_nth1 by (rewrite map_length; exact Hj).
      rewrite (nth_indep _ d (mul o d)) by (rewrite map_length; exact Hj).
      rewrite (map_nth (fun v => mul o v)). reflexivity.
    - cbn [nth]. rewrite app_nth2 by (rewrite map_length; cbn; lia).
      rewrite map_length. replace (S i * length r + j - length r) with (i * length r + j) by (cbn; lia).
      apply IH; [cbn in Hi; lia|exact Hj].
  Qed.
End Cross.
