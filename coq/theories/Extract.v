(* Extraction of the executable models (ExtrOcamlBasic only; Z, positive, Q stay inductive). *)
From Coq Require Import ZArith List Extraction ExtrOcamlBasic.
From Coba Require Import Common.Sx Dispatch.
Extraction Language OCaml.
Extraction "model.ml" dispatch Z.add Z.mul Z.opp Z.div_eucl Z.of_nat Z.to_nat Z.eqb Z.ltb.
