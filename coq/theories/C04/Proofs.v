From Coq Require Import List Arith Lia Bool.
From Coba Require Import C04.Model.
Import ListNotations.

Section Proofs.
  Context {A : Type}.
  Variable n : nat.
  Hypothesis Hn : 1 <= n.
  Variable source : list A.

  Definition Inv (st : cstate (A:=A)) : Prop :=
    match cache st, rest st with
    | None, None => True
    | Some c, Some r => c ++ r = source
    | Some c, None => c = source
    | None, Some _ => False
    end.

  Lemma take_app_after k (l1 l2 : list A) : take k (l1 ++ l2) = take k l1 ++ take (after k (length l1)) l2.
  Proof. destruct k as [m|]; cbn; [apply firstn_app|reflexivity]. Qed.
  Lemma take_done k (l : list A) : done k = true -> take k l = [].
  Proof. destruct k as [[|m]|]; cbn; try discriminate. reflexivity. Qed.
  Lemma after_after k a b : after (after k a) b = after k (a + b).
  Proof. destruct k; cbn; [f_equal; lia|reflexivity]. Qed.

  Lemma pull_spec fuel : forall need c r, length r < fuel -> c ++ r = source ->
    let (o, st) := pull n fuel need c r in o = take need r /\ Inv st /\ (need = None -> cache st = Some source /\ rest st = None).
  Proof.
    induction fuel as [|f IH]; intros need c r Hf Hs; [lia|]. cbn [pull].
    destruct (done need) eqn:Ed.
    - rewrite (take_done need r Ed). split; [reflexivity|]. split; [unfold Inv; cbn; exact Hs|]. intros ->. discriminate.
    - destruct (firstn n r) as [|x sl] eqn:Es.
      + (* upstream exhausted *)
        assert (r = []). { destruct r as [|y r]; [reflexivity|]. destruct n; [lia|]. cbn in Es. discriminate. }
        subst r. rewrite app_nil_r in Hs. split; [destruct need; cbn; rewrite ?firstn_nil; reflexivity|].
        split; [unfold Inv; cbn; exact Hs|]. intros _. cbn. split; [f_equal; exact Hs|reflexivity].
      + set (slice := x :: sl) in *.
        assert (Hlen : 1 <= length slice) by (cbn; lia).
        assert (Hr : r = slice ++ skipn n r) by (rewrite <- Es; symmetry; apply firstn_skipn).
        specialize (IH (after need (length slice)) (c ++ slice) (skipn n r)).
        assert (Hlt : length (skipn n r) < f).
        { rewrite skipn_length. assert (length slice <= length r) by (rewrite <- Es, firstn_length; lia). lia. }
        assert (Hs' : (c ++ slice) ++ skipn n r = source) by (rewrite <- app_assoc, <- Hr; exact Hs).
        specialize (IH Hlt Hs'). destruct (pull n f (after need (length slice)) (c ++ slice) (skipn n r)) as [o st].
        destruct IH as [Ho [Hi Hfull]]. split; [|split].
        * rewrite Ho. rewrite Hr at 2. rewrite take_app_after. reflexivity.
        * exact Hi.
        * intros ->. apply Hfull. reflexivity.
  Qed.

  (* every read of a consistent cache returns the prefix of the source that the consumer asked for; a full read returns the source *)
  Theorem read_spec k st : Inv st ->
    let (o, st') := read n source k st in o = take k source /\ Inv st' /\ (k = None -> cache st' = Some source /\ rest st' = None).
  Proof.
    intros Hi. unfold read. unfold Inv in Hi.
    destruct (cache st) as [c|] eqn:Ec, (rest st) as [r|] eqn:Er; try contradiction.
    - try rewrite Ec; try rewrite Er. pose proof (pull_spec (S (length r)) (after k (length c)) c r (Nat.lt_succ_diag_r _) Hi) as P.
      destruct (pull n (S (length r)) (after k (length c)) c r) as [o st2]. destruct P as [Ho [Hi2 Hf]].
      split; [|split].
      + rewrite Ho, <- Hi. symmetry. apply take_app_after.
      + exact Hi2.
      + intros ->. apply Hf. reflexivity.
    - try rewrite Ec; try rewrite Er. subst c. split; [reflexivity|]. split; [unfold Inv; rewrite Ec, Er; reflexivity|]. intros _. rewrite ?Ec, ?Er. split; reflexivity.
    - cbn [cache rest].
      pose proof (pull_spec (S (length source)) (after k (length (@nil A))) [] source (Nat.lt_succ_diag_r _) eq_refl) as P.
      destruct (pull n (S (length source)) (after k (length (@nil A))) [] source) as [o st2]. destruct P as [Ho [Hi2 Hf]].
      split; [|split].
      + rewrite Ho. destruct k as [m|]; cbn; [rewrite Nat.sub_0_r, firstn_nil|]; reflexivity.
      + exact Hi2.
      + intros ->. apply Hf. reflexivity.
  Qed.

  (* any history of complete and abandoned reads on one Cache object: every read returns its prefix of the source *)
  Theorem reads_spec h : forall st, Inv st -> reads n source h st = map (fun k => take k source) h.
  Proof.
    induction h as [|k h IH]; intros st Hi; [reflexivity|]. cbn [reads map].
    pose proof (read_spec k st Hi) as P. destruct (read n source k st) as [o st']. destruct P as [Ho [Hi' _]].
    rewrite Ho, IH by exact Hi'. reflexivity.
  Qed.

  Corollary fresh_cache_history h : reads n source h init = map (fun k => take k source) h.
  Proof. apply reads_spec. unfold Inv, init. cbn. exact I. Qed.
End Proofs.

(* marking the cache complete when a read is dropped (e.g. `finally: self._iter = None`) loses data *)
Lemma premature_completion_refuted :
  let bad := {| cache := Some [1;2]; rest := None |} in
  fst (read 2 [1;2;3;4;5] None bad) = [1;2] /\ fst (read 2 [1;2;3;4;5] None (snd (read 2 [1;2;3;4;5] (Some 1) init))) = [1;2;3;4;5].
Proof. vm_compute. split; reflexivity. Qed.

(* logged Shuffle with a local seed: whatever reads start, overlap, finish or are dropped, every read shuffles with alt(seed) and the filter keeps its seed *)
Lemma sruns_local alt s0 evs : seed (sruns false alt s0 evs) = s0 /\ Forall (fun u => u = alt s0) (used (sruns false alt s0 evs)).
Proof.
  unfold sruns. set (st0 := {| seed := s0; saved := []; used := [] |}).
  assert (seed st0 = s0 /\ Forall (fun u => u = alt s0) (used st0)) as H0 by (split; [reflexivity|constructor]).
  revert H0. generalize st0. clear st0. induction evs as [|e r IH]; intros st [Hs Hu]; [split; assumption|]. cbn [fold_left]. apply IH.
  destruct e as [|k]; cbn; [|split; assumption]. split; [exact Hs|]. apply Forall_app. split; [exact Hu|]. constructor; [rewrite Hs; reflexivity|constructor].
Qed.
(* the code before the fix: a second read that starts while the first is still suspended uses alt(alt(seed)), and the seed stays changed *)
Lemma sruns_mutating_refuted : let st := sruns true (fun s => s * 3) 1 [SStart; SStart; SEnd 0; SEnd 1] in used st = [3; 9] /\ seed st = 3.
Proof. vm_compute. split; reflexivity. Qed.
