From Coq Require Import List Arith Lia Bool.
From Coba Require Import C04.Model C04.Proofs C04.ModelOps.
Import ListNotations.

Section ProofsOps.
  Context {A : Type}.
  Variable n : nat.
  Hypothesis Hn : 1 <= n.
  Variable source : list A.

  Lemma pull_fail_spec fuel : forall f c r, length r < fuel -> c ++ r = source ->
    let (o, st) := pull_fail n reset_now fuel f c r in Inv source st /\ exists t, c ++ o ++ t = source.
  Proof.
    induction fuel as [|fu IH]; intros f c r Hf Hs; [lia|]. cbn [pull_fail].
    destruct (firstn n r) as [|x sl] eqn:Es.
    - assert (r = []). { destruct r as [|y r]; [reflexivity|]. destruct n; [lia|]. cbn in Es. discriminate. }
      subst r. rewrite app_nil_r in Hs. split; [unfold Inv; cbn; exact Hs|]. exists []. cbn. rewrite app_nil_r. exact Hs.
    - set (slice := x :: sl) in *.
      assert (Hr : r = slice ++ skipn n r) by (rewrite <- Es; symmetry; apply firstn_skipn).
      destruct ((length c <=? f) && (f <? length c + length slice)).
      + split; [unfold Inv, reset_now, init; cbn; exact I|]. exists r. cbn. exact Hs.
      + assert (Hlt : length (skipn n r) < fu).
        { rewrite skipn_length. assert (length slice <= length r) by (rewrite <- Es, firstn_length; lia). assert (1 <= length slice) by (cbn; lia). lia. }
        assert (Hs' : (c ++ slice) ++ skipn n r = source) by (rewrite <- app_assoc, <- Hr; exact Hs).
        specialize (IH f (c ++ slice) (skipn n r) Hlt Hs').
        destruct (pull_fail n reset_now fu f (c ++ slice) (skipn n r)) as [o st]. destruct IH as [Hi [t Ht]].
        split; [exact Hi|]. exists t. rewrite <- Ht, <- !app_assoc. reflexivity.
  Qed.

  (* a read that fails leaves a consistent object behind, and what it had yielded before failing is a prefix of the source *)
  Lemma read_fail_spec f st : Inv source st ->
    let (o, st') := read_fail n reset_now source f st in Inv source st' /\ exists t, o ++ t = source.
  Proof.
    intros Hi. unfold read_fail. unfold Inv in Hi.
    destruct (cache st) as [c|] eqn:Ec, (rest st) as [r|] eqn:Er; try contradiction.
    - try rewrite Ec; try rewrite Er.
      pose proof (pull_fail_spec (S (length r)) f c r (Nat.lt_succ_diag_r _) Hi) as P.
      destruct (pull_fail n reset_now (S (length r)) f c r) as [o st2]. destruct P as [Hi2 [t Ht]].
      split; [exact Hi2|]. exists t. rewrite <- app_assoc. exact Ht.
    - try rewrite Ec; try rewrite Er. subst c. split; [unfold Inv; rewrite Ec, Er; reflexivity|]. exists []. apply app_nil_r.
    - cbn [cache rest].
      pose proof (pull_fail_spec (S (length source)) f [] source (Nat.lt_succ_diag_r _) eq_refl) as P.
      destruct (pull_fail n reset_now (S (length source)) f [] source) as [o st2]. destruct P as [Hi2 [t Ht]].
      split; [exact Hi2|]. exists t. exact Ht.
  Qed.

  Lemma pickled_spec st : Inv source st -> Inv source (pickled false st).
  Proof. intros Hi. unfold pickled. destruct (rest st) eqn:Er; [unfold Inv, init; cbn; exact I | exact Hi]. Qed.

  (* what every event of a history shows to its consumer *)
  Fixpoint good (ops : list cop) (outs : list (list A)) : Prop :=
    match ops, outs with
    | [], [] => True
    | op :: ops', o :: outs' =>
        match op with ORead k => o = take k source | OFail _ => exists t, o ++ t = source | OPickle => o = [] end /\ good ops' outs'
    | _, _ => False
    end.

  Theorem ops_spec ops : forall st, Inv source st -> good ops (run_ops n reset_now false source ops st).
  Proof.
    induction ops as [|op ops IH]; intros st Hi; [exact I|]. cbn [run_ops]. destruct op as [k|f|]; cbn [step].
    - pose proof (read_spec n Hn source k st Hi) as P. destruct (read n source k st) as [o st']. destruct P as [Ho [Hi' _]]. cbn [good]. split; [exact Ho | apply IH; exact Hi'].
    - pose proof (read_fail_spec f st Hi) as P. destruct (read_fail n reset_now source f st) as [o st']. destruct P as [Hi' Ht]. cbn [good]. split; [exact Ht | apply IH; exact Hi'].
    - cbn [good]. split; [reflexivity | apply IH; apply pickled_spec; exact Hi].
  Qed.

  Corollary fresh_cache_ops ops : good ops (run_ops n reset_now false source ops init).
  Proof. apply ops_spec. unfold Inv, init. cbn. exact I. Qed.
End ProofsOps.

(* before 74dad9d: the read after a failed read is silently truncated *)
Lemma failed_read_old_refuted :
  run_ops 2 reset_old false [1;2;3;4;5] [OFail 3; ORead None] init = [[1;2]; [1;2]] /\
  run_ops 2 reset_now false [1;2;3;4;5] [OFail 3; ORead None] init = [[1;2]; [1;2;3;4;5]].
Proof. vm_compute. split; reflexivity. Qed.
(* a __getstate__ that keeps the partial cache: the copy is truncated *)
Lemma pickle_keeping_partial_refuted :
  run_ops 2 reset_now true [1;2;3;4;5] [ORead (Some 1); OPickle; ORead None] init = [[1]; []; [1;2]] /\
  run_ops 2 reset_now false [1;2;3;4;5] [ORead (Some 1); OPickle; ORead None] init = [[1]; []; [1;2;3;4;5]].
Proof. vm_compute. split; reflexivity. Qed.
