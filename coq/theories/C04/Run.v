From Coq Require Import ZArith List Bool.
From Coba Require Import Common.Sx C04.Model C04.ModelOps.
Import ListNotations.
(* request: (n_slice source history) with history = list of () full / (k) partial -> list of the reads' outputs *)
(* with a fourth field: (n_slice source events 1), events = (0) complete read / (0 k) read abandoned after k / (1 f) the source raises at item f / (2) pickled *)
Definition op_of (e : sx) : cop :=
  match as_z (nth_sx 0 e) with
  | 0%Z => ORead (match as_l e with [_; k] => Some (as_nat k) | _ => None end)
  | 1%Z => OFail (as_nat (nth_sx 1 e))
  | _ => OPickle
  end.
Definition run (x : sx) : sx :=
  let n := as_nat (nth_sx 0 x) in
  let src := as_zs (nth_sx 1 x) in
  match as_l x with
  | [_; _; evs; _] => L_ (map of_zs (run_ops n reset_now false src (map op_of (as_l evs)) init))
  | _ => let h := map (as_opt as_nat) (as_l (nth_sx 2 x)) in L_ (map of_zs (reads n src h init))
  end.
