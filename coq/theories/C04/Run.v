From Coq Require Import ZArith List Bool.
From Coba Require Import Common.Sx C04.Model.
Import ListNotations.
(* request: (n_slice source history) with history = list of () full / (k) partial -> list of the reads' outputs *)
Definition run (x : sx) : sx :=
  let n := as_nat (nth_sx 0 x) in
  let src := as_zs (nth_sx 1 x) in
  let h := map (as_opt as_nat) (as_l (nth_sx 2 x)) in
  L_ (map of_zs (reads n src h init)).
