(* pipes.Cache.filter as a generator state machine.  State: the cached prefix and what is left of the
   upstream iterator (None = never started / finished).  A read is given the number of items the consumer
   takes before dropping the iterator (None = reads to the end).  A generator only runs up to the yield of the
   last item taken: the slice that item belongs to has already been pulled and cached, nothing after it. *)
From Coq Require Import List Arith Lia Bool.
Import ListNotations.

Section Cache.
  Context {A : Type}.
  Variable n_slice : nat.

  Record cstate := { cache : option (list A); rest : option (list A) }.
  Definition init : cstate := {| cache := None; rest := None |}.

  Definition take (k : option nat) (l : list A) : list A := match k with None => l | Some m => firstn m l end.
  Definition after (k : option nat) (m : nat) : option nat := option_map (fun x => x - m) k.
  Definition done (k : option nat) : bool := match k with Some 0 => true | _ => false end.

  (* the while loop: pull slices until the consumer has what it wants or the upstream is exhausted *)
  Fixpoint pull (fuel : nat) (need : option nat) (c r : list A) : list A * cstate :=
    match fuel with
    | O => ([], {| cache := Some c; rest := Some r |})
    | S f =>
      if done need then ([], {| cache := Some c; rest := Some r |})
      else match firstn n_slice r with
           | [] => ([], {| cache := Some c; rest := None |})
           | slice => let (o, st) := pull f (after need (length slice)) (c ++ slice) (skipn n_slice r) in
                      (take need slice ++ o, st)
           end
    end.

  Definition read (source : list A) (k : option nat) (st : cstate) : list A * cstate :=
    let st1 := match cache st, rest st with None, None => {| cache := Some []; rest := Some source |} | _, _ => st end in
    match cache st1, rest st1 with
    | Some c, None => (take k c, st1)
    | Some c, Some r => let (o, st2) := pull (S (length r)) (after k (length c)) c r in (take k c ++ o, st2)
    | None, _ => ([], st1)
    end.

  (* a history of reads on one Cache object *)
  Fixpoint reads (source : list A) (h : list (option nat)) (st : cstate) : list (list A) :=
    match h with
    | [] => []
    | k :: h' => let (o, st') := read source k st in o :: reads source h' st'
    end.
End Cache.

(* environments.Shuffle on logged data shuffles with seed * 3.21 (here: the function `alt`).  Reads of one filter object can overlap: a read that
   was abandoned stays suspended until it is collected, and a new read may start in between.  Events: a read starts (it fixes the seed it will
   use) or ends (finishes, or is dropped and finalised).
     mutating = true  : the code before fix 9c73dd3 - start saves self._seed and overwrites it with alt(self._seed); end restores the saved value
     mutating = false : the current code - the altered seed is a local value, the filter object is never written *)
Inductive sev := SStart | SEnd (which : nat).      (* SEnd k ends the k-th read that was started *)
Record sstate := { seed : nat; saved : list nat; used : list nat }.      (* saved: what each started read remembered; used: the seed each read shuffled with *)
Definition sstep (mutating : bool) (alt : nat -> nat) (st : sstate) (e : sev) : sstate :=
  match e with
  | SStart => if mutating then {| seed := alt (seed st); saved := saved st ++ [seed st]; used := used st ++ [alt (seed st)] |}
              else {| seed := seed st; saved := saved st ++ [seed st]; used := used st ++ [alt (seed st)] |}
  | SEnd k => if mutating then {| seed := nth k (saved st) (seed st); saved := saved st; used := used st |} else st
  end.
Definition sruns (mutating : bool) (alt : nat -> nat) (s0 : nat) (evs : list sev) : sstate :=
  fold_left (sstep mutating alt) evs {| seed := s0; saved := []; used := [] |}.
