(* pipes.Cache under every kind of event one Cache object can meet:
     ORead k   a read that is completed (None) or abandoned after k items (Model.read);
     OFail f   a read during which the SOURCE raises when its item number f is pulled (the exception leaves through islice while a slice is
               being collected; since fix 74dad9d the partial cache is dropped, so that the next read starts over);
     OPickle   the object is replaced by an unpickled copy of itself (__getstate__: a read in progress cannot be pickled, the copy starts over;
               a complete cache is kept).
   The refuted variants are the code before 74dad9d (the dead iterator is taken for finished) and a __getstate__ that keeps the partial cache. *)
From Coq Require Import List Arith Lia Bool.
From Coba Require Import C04.Model.
Import ListNotations.

Section Ops.
  Context {A : Type}.
  Variable n_slice : nat.

  Inductive cop := ORead (k : option nat) | OFail (f : nat) | OPickle.

  (* a complete read whose upstream raises inside the slice that holds item f; reset = what the except clause leaves behind *)
  Fixpoint pull_fail (reset : list A -> cstate (A:=A)) (fuel : nat) (f : nat) (c r : list A) : list A * cstate :=
    match fuel with
    | O => ([], reset c)
    | S fu =>
      match firstn n_slice r with
      | [] => ([], {| cache := Some c; rest := None |})
      | slice => if (length c <=? f) && (f <? length c + length slice) then ([], reset c)
                 else let (o, st) := pull_fail reset fu f (c ++ slice) (skipn n_slice r) in (slice ++ o, st)
      end
    end.

  Definition read_fail (reset : list A -> cstate (A:=A)) (source : list A) (f : nat) (st : cstate) : list A * cstate :=
    let st1 := match cache st, rest st with None, None => {| cache := Some []; rest := Some source |} | _, _ => st end in
    match cache st1, rest st1 with
    | Some c, None => (c, st1)
    | Some c, Some r => let (o, st2) := pull_fail reset (S (length r)) f c r in (c ++ o, st2)
    | None, _ => ([], st1)
    end.

  Definition pickled (keep_partial : bool) (st : cstate (A:=A)) : cstate :=
    match rest st with
    | Some _ => if keep_partial then {| cache := cache st; rest := None |} else init
    | None => st
    end.

  (* current code: a failed read and a pickle in mid-read both start over *)
  Definition reset_now (c : list A) : cstate (A:=A) := init.
  (* before 74dad9d: the generator that raised is exhausted, and an exhausted iterator means 'finished' *)
  Definition reset_old (c : list A) : cstate (A:=A) := {| cache := Some c; rest := Some [] |}.

  Definition step (reset : list A -> cstate (A:=A)) (keep_partial : bool) (source : list A) (st : cstate) (op : cop) : list A * cstate :=
    match op with
    | ORead k => read n_slice source k st
    | OFail f => read_fail reset source f st
    | OPickle => ([], pickled keep_partial st)
    end.

  Fixpoint run_ops (reset : list A -> cstate (A:=A)) (keep_partial : bool) (source : list A) (ops : list cop) (st : cstate) : list (list A) :=
    match ops with
    | [] => []
    | op :: ops' => let (o, st') := step reset keep_partial source st op in o :: run_ops reset keep_partial source ops' st'
    end.
End Ops.
