(* C04 — Environments can be read any number of times with identical results (the stateful filters).
   Property theorems only. *)
From Coq Require Import List Arith Bool.
From Coba Require Import C04.Model C04.Proofs.
Import ListNotations.

(* pipes.Cache (cache(), chunk(), materialize()): for EVERY history of complete reads and reads abandoned after k items
   on one Cache object, every read returns exactly the prefix of the source it consumed; a complete read returns the source *)
Theorem cache_history_stable : forall (A : Type) (n : nat), 1 <= n -> forall (source : list A) (h : list (option nat)),
  reads n source h init = map (fun k => take k source) h.
Proof. exact @fresh_cache_history. Qed.
Print Assumptions cache_history_stable.

Theorem cache_read_invariant : forall (A : Type) (n : nat), 1 <= n -> forall (source : list A) k st, Inv source st ->
  let (o, st') := read n source k st in o = take k source /\ Inv source st' /\ (k = None -> cache st' = Some source /\ rest st' = None).
Proof. exact @read_spec. Qed.
Print Assumptions cache_read_invariant.

(* declaring the cache complete when a read is dropped loses the rest of the data (the seeded `finally: self._iter = None`) *)
Theorem premature_completion_loses_data :
  let bad := {| cache := Some [1;2]; rest := None |} in
  fst (read 2 [1;2;3;4;5] None bad) = [1;2] /\ fst (read 2 [1;2;3;4;5] None (snd (read 2 [1;2;3;4;5] (Some 1) init))) = [1;2;3;4;5].
Proof. exact premature_completion_refuted. Qed.

(* logged Shuffle (fix 9c73dd3): for ANY sequence of reads starting, overlapping, finishing or being dropped on one filter object, every read
   shuffles with the same altered seed and the filter's own seed never changes *)
Theorem logged_shuffle_reads_do_not_interfere : forall alt s0 evs,
  seed (sruns false alt s0 evs) = s0 /\ Forall (fun u => u = alt s0) (used (sruns false alt s0 evs)).
Proof. exact sruns_local. Qed.
Print Assumptions logged_shuffle_reads_do_not_interfere.
Theorem logged_shuffle_seed_swapping_refuted : let st := sruns true (fun s => s * 3) 1 [SStart; SStart; SEnd 0; SEnd 1] in used st = [3; 9] /\ seed st = 3.
Proof. exact sruns_mutating_refuted. Qed.

(* pipes.Cache under EVERY history of events one Cache object can meet - complete reads, reads abandoned after k items, reads during which the
   source raises at any item (fix 74dad9d: the partial cache is dropped), and replacement of the object by an unpickled copy of itself, in mid-read
   or not: every read that ends normally returns exactly the prefix of the source it consumed (a complete read: the source), what a failing read
   had yielded before the exception is a prefix of the source, and nothing else is ever served *)
From Coba Require Import C04.ModelOps C04.ProofsOps.
Theorem cache_survives_failures_and_pickling : forall (A : Type) (n : nat), 1 <= n -> forall (source : list A) (ops : list cop),
  good source ops (run_ops n reset_now false source ops init).
Proof. exact @fresh_cache_ops. Qed.
Print Assumptions cache_survives_failures_and_pickling.
(* the two ways this was (or can be) lost: an exhausted iterator taken for 'finished' after the source raised; a __getstate__ that keeps a partial cache *)
Theorem cache_after_failed_read_refuted :
  run_ops 2 reset_old false [1;2;3;4;5] [OFail 3; ORead None] init = [[1;2]; [1;2]] /\
  run_ops 2 reset_now false [1;2;3;4;5] [OFail 3; ORead None] init = [[1;2]; [1;2;3;4;5]].
Proof. exact failed_read_old_refuted. Qed.
Theorem cache_pickle_keeping_partial_refuted :
  run_ops 2 reset_now true [1;2;3;4;5] [ORead (Some 1); OPickle; ORead None] init = [[1]; []; [1;2]] /\
  run_ops 2 reset_now false [1;2;3;4;5] [ORead (Some 1); OPickle; ORead None] init = [[1]; []; [1;2;3;4;5]].
Proof. exact pickle_keeping_partial_refuted. Qed.
