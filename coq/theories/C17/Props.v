(* C17 — Indexed table queries return exactly what a full scan would.  Property theorems only. *)
From Coq Require Import ZArith List Bool Arith Sorting.Sorted.
From Coba Require Import C17.Model C17.Proofs.
Import ListNotations.

(* For EVERY operator, every argument (present or absent values, duplicates, bounds outside the
   data), every column and every sorted segment [lo,hi) of it (the runs a first/second/third
   level index produces), the rows selected through the bisect ranges - in order and with
   multiplicity - are exactly those of the row-by-row scan. *)
Theorem bisect_eq_scan : forall o a vs col lo hi,
  lo <= hi -> hi <= length col -> StronglySorted cleP (slice lo hi col) ->
  (match o with OIn | ONin => True | _ => vs = [] end) ->
  expand (ranges o a vs col lo hi) = scan (sat o a vs) lo (slice lo hi col).
Proof. exact bisect_eq_scan_all. Qed.
Print Assumptions bisect_eq_scan.

(* the scan is the plain evaluation: the positions whose cell satisfies the Python-semantics
   predicate (Missing = largest value, equal only to itself) *)
Theorem scan_is_rowwise : forall p lo seg i,
  In i (scan p lo seg) <-> exists k, i = lo + k /\ k < length seg /\ p (nth k seg None) = true.
Proof. exact scan_spec. Qed.
Print Assumptions scan_is_rowwise.

(* the shortcuts c[l]==a / c[h-1]==a of my_bisect_* are sound on sorted segments, including the
   empty one (the guard l<h added by fix 08719bb) *)
Theorem my_bisect_shortcuts_sound : forall col a lo hi,
  lo <= hi -> hi <= length col -> StronglySorted cleP (slice lo hi col) ->
  my_bisect_left col a lo hi = bisect_left col a lo hi /\ my_bisect_right col a lo hi = bisect_right col a lo hi.
Proof. exact (fun col a lo hi H1 H2 H3 => conj (my_bisect_left_ok col a lo hi H1 H2 H3) (my_bisect_right_ok col a lo hi H1 H2 H3)). Qed.
Print Assumptions my_bisect_shortcuts_sound.

(* sorted(arg) / sorted(set(arg)) as modelled: sorted, same members, duplicates removed *)
Theorem in_values_sorted_distinct : forall vs,
  StronglySorted cltP (cdedup (csort vs)) /\ forall x, In x (cdedup (csort vs)) <-> In x vs.
Proof. exact (fun vs => conj (cdedup_ssorted _ (csort_sorted vs)) (fun x => iff_trans (cdedup_In x _) (csort_In x vs))). Qed.
Print Assumptions in_values_sorted_distinct.

(* non-vacuity: a sorted segment with duplicates and Missing at the end, `in` with a duplicated value *)
Example where_in_example :
  expand (ranges OIn None [Some 2; Some 2; Some 0]%Z [Some 0; Some 2; Some 2; Some 3; None]%Z 0 5) = [0; 1; 2].
Proof. vm_compute. reflexivity. Qed.
