(* C17 — Indexed table queries return exactly what a full scan would.  Property theorems only. *)
From Coq Require Import ZArith List Bool Arith Sorting.Sorted.
From Coba Require Import C17.Model C17.Proofs C17.ProofsIndex C17.ProofsBuild C17.ProofsWhere C17.ProofsLex C17.ProofsViews C17.ProofsGroup.
Import ListNotations.

(* For EVERY operator, every argument (present or absent values, duplicates, bounds outside the
   data), every column and every sorted segment [lo,hi) of it (the runs a first/second/third
   level index produces), the rows selected through the bisect ranges - in order and with
   multiplicity - are exactly those of the row-by-row scan. *)
Theorem bisect_eq_scan : forall o a vs col lo hi,
  lo <= hi -> hi <= length col -> StronglySorted cleP (slice lo hi col) ->
  (match o with OIn | ONin => True | _ => vs = [] end) ->
  expand (ranges o a vs col lo hi) = scan (sat o a vs) lo (slice lo hi col).
Proof. exact bisect_eq_scan_all. Qed.
Print Assumptions bisect_eq_scan.

(* the scan is the plain evaluation: the positions whose cell satisfies the Python-semantics
   predicate (Missing = largest value, equal only to itself) *)
Theorem scan_is_rowwise : forall p lo seg i,
  In i (scan p lo seg) <-> exists k, i = lo + k /\ k < length seg /\ p (nth k seg None) = true.
Proof. exact scan_spec. Qed.
Print Assumptions scan_is_rowwise.

(* the shortcuts c[l]==a / c[h-1]==a of my_bisect_* are sound on sorted segments, including the
   empty one (the guard l<h added by fix 08719bb) *)
Theorem my_bisect_shortcuts_sound : forall col a lo hi,
  lo <= hi -> hi <= length col -> StronglySorted cleP (slice lo hi col) ->
  my_bisect_left col a lo hi = bisect_left col a lo hi /\ my_bisect_right col a lo hi = bisect_right col a lo hi.
Proof. exact (fun col a lo hi H1 H2 H3 => conj (my_bisect_left_ok col a lo hi H1 H2 H3) (my_bisect_right_ok col a lo hi H1 H2 H3)). Qed.
Print Assumptions my_bisect_shortcuts_sound.

(* sorted(arg) / sorted(set(arg)) as modelled: sorted, same members, duplicates removed *)
Theorem in_values_sorted_distinct : forall vs,
  StronglySorted cltP (cdedup (csort vs)) /\ forall x, In x (cdedup (csort vs)) <-> In x vs.
Proof. exact (fun vs => conj (cdedup_ssorted _ (csort_sorted vs)) (fun x => iff_trans (cdedup_In x _) (csort_In x vs))). Qed.
Print Assumptions in_values_sorted_distinct.

(* The whole path.  indexed_ok is the index invariant, level by level: inside every run of equal values of the preceding index columns
   (the runs where/groupby compute with calc_lohis) the level's column is sorted.  It holds trivially for a table without index. *)
Theorem where_on_invariant_eq_scan : forall t kw o a vs, indexed_ok t -> (match o with OIn | ONin => True | _ => vs = [] end) ->
  select1 t (kw, o, a, vs) = scan (sat o a vs) 0 (colv t kw).
Proof. exact select1_eq_scan. Qed.
Print Assumptions where_on_invariant_eq_scan.

(* Table.index (any column list, any number of levels, any data incl. Missing cells and duplicates) establishes the invariant:
   by induction over the index columns - each level sorts the positions inside the current runs (a stable insertion sort), refines the runs
   by equal values, and later levels no longer move the columns of earlier levels. *)
Theorem index_establishes_the_invariant : forall t names, wf_table t -> indexed_ok t -> indexed_ok (index t names).
Proof. exact index_establishes_invariant. Qed.
Print Assumptions index_establishes_the_invariant.

Theorem index_only_permutes_rows : forall t names, wf_table t ->
  exists F, Permutation.Permutation F (seq 0 (nrows t)) /\ cols (index t names) = map (fun c : Z * list cell => (fst c, permute None (snd c) F)) (cols t) \/ index t names = t.
Proof. exact index_permutes_rows. Qed.
Print Assumptions index_only_permutes_rows.

(* hence: index a table on any columns, then ask for any keyword condition - the rows selected through the index, in order and multiplicity,
   are exactly the rows a full scan of the (re-ordered) column selects *)
Theorem indexed_query_eq_full_scan : forall t names kw o a vs, wf_table t -> indexed_ok t -> (match o with OIn | ONin => True | _ => vs = [] end) ->
  select1 (index t names) (kw, o, a, vs) = scan (sat o a vs) 0 (colv (index t names) kw).
Proof. exact indexed_where_eq_scan. Qed.
Print Assumptions indexed_query_eq_full_scan.

(* several keyword conditions: the selection is the union - every row that satisfies at least one condition under the plain row-by-row evaluation,
   once, in table order (sorted(set(...)) of the per-condition selections) *)
Theorem where_with_several_conditions_is_the_union : forall t cs n, indexed_ok t -> cs <> [] ->
  (forall c, In c cs -> cond_ok c /\ length (colv t (cond_col c)) = n) ->
  selection t cs = filter (fun i => existsb (fun c => rowsat t c i) cs) (seq 0 n).
Proof. exact selection_rowwise. Qed.
Print Assumptions where_with_several_conditions_is_the_union.

(* the index invariant is an order on rows: it holds exactly when the rows are sorted lexicographically by their index key *)
Theorem invariant_is_lexicographic_order : forall t, (forall k, In k (idxs t) -> length (colv t k) = nrows t) ->
  (indexed_ok t <-> lexsorted t (idxs t) 0 (nrows t)).
Proof.
  exact (fun t Hlen => conj
    (fun Hok => ix_ok_lex t (idxs t) [(0, nrows t)] (fun x y H => match H with or_introl E => eq_ind (0, nrows t) (fun p => fst p <= snd p /\ snd p <= nrows t) (conj (Nat.le_0_l _) (le_n _)) (x, y) E | or_intror F => match F with end end) Hok 0 (nrows t) (or_introl eq_refl))
    (fun Hlex => lex_ix_ok t (idxs t) [(0, nrows t)] Hlen (fun x y H => match H with or_introl E => eq_ind (0, nrows t) (fun p => fst p <= snd p /\ snd p <= nrows t) (conj (Nat.le_0_l _) (le_n _)) (x, y) E | or_intror F => match F with end end)
       (fun x y H => match H with or_introl E => eq_ind (0, nrows t) (fun p => lexsorted t (idxs t) (fst p) (snd p)) Hlex (x, y) E | or_intror F => match F with end end))).
Qed.
Print Assumptions invariant_is_lexicographic_order.

(* a view: the rows any strictly increasing selection picks from an indexed table satisfy the invariant again, so a where on the result of a where
   is decided by the same theorems *)
Theorem views_keep_the_invariant : forall t sel, cols t <> [] -> (forall k, In k (idxs t) -> has_col t k = true) -> indexed_ok t ->
  StronglySorted lt sel -> (forall i, In i sel -> i < nrows t) -> indexed_ok (take_rows t sel).
Proof. exact (fun t sel H => take_rows_keeps_invariant t H sel). Qed.
Print Assumptions views_keep_the_invariant.

(* where of where: exactly the rows, in table order, that satisfy (some condition of the first call) and (some condition of the second) *)
Theorem where_of_where_is_the_conjunction : forall t cs1 cs2, cols t <> [] -> (forall k, In k (idxs t) -> has_col t k = true) -> indexed_ok t ->
  conds_ok t cs1 -> conds_ok t cs2 ->
  where_ (where_ t cs1) cs2 = take_rows t (filter (fun i => anysat t cs1 i && anysat t cs2 i) (seq 0 (nrows t))).
Proof. exact (fun t cs1 cs2 H => where_of_where t H cs1 cs2). Qed.
Print Assumptions where_of_where_is_the_conjunction.

(* groupby(level): the groups chain-partition the rows, report the key prefix and size of each run, and two rows are in the same group
   exactly when they agree on the first `level` index columns *)
Theorem groupby_partitions_by_index_prefix : forall t level k, indexed_ok t -> NoDup (idxs t) -> nth_error (idxs t) level = Some k ->
  exists runs, lohis_of t k = Some runs /\ chain 0 (nrows t) runs /\
    groupby t level = map (fun r => (key t (firstn level (idxs t)) (fst r), snd r - fst r)) runs /\
    forall i i', i < nrows t -> i' < nrows t -> (same_run runs i i' <-> key t (firstn level (idxs t)) i = key t (firstn level (idxs t)) i').
Proof. exact groupby_partitions. Qed.
Print Assumptions groupby_partitions_by_index_prefix.

Example where_where_example :
  let t := index {| cols := [(1, [Some 3; Some 1; None; Some 1]); (2, [Some 5; Some 9; Some 2; Some 4])]; idxs := [] |}%Z [1; 2]%Z in
  cols (where_ (where_ t [(1%Z, OLe, Some 3%Z, [])]) [(2%Z, OGe, Some 5%Z, []); (2%Z, OEq, Some 4%Z, [])]) = [(1, [Some 1; Some 1; Some 3]); (2, [Some 4; Some 9; Some 5])]%Z /\
  groupby t 1 = [([Some 1%Z], 2); ([Some 3%Z], 1); ([None], 1)].
Proof. vm_compute. split; reflexivity. Qed.

Example index_example :
  let t := {| cols := [(1, [Some 3; Some 1; None; Some 1]); (2, [Some 5; Some 9; Some 2; Some 4])]; idxs := [] |}%Z in
  cols (index t [1; 2]%Z) = [(1, [Some 1; Some 1; Some 3; None]); (2, [Some 4; Some 9; Some 5; Some 2])]%Z /\
  select1 (index t [1; 2]%Z) (2%Z, OGe, Some 5%Z, []) = [1; 2].
Proof. vm_compute. split; reflexivity. Qed.

(* non-vacuity: a sorted segment with duplicates and Missing at the end, `in` with a duplicated value *)
Example where_in_example :
  expand (ranges OIn None [Some 2; Some 2; Some 0]%Z [Some 0; Some 2; Some 2; Some 3; None]%Z 0 5) = [0; 1; 2].
Proof. vm_compute. reflexivity. Qed.
