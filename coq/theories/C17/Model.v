(* Executable model of coba.results.core.Table: insert (rows / ragged dicts), index, where
   (bisect path on index columns, scan path otherwise), groupby.  Views are modelled by the
   table of the selected rows (refinement: a view IS the rows it selects).
   Cells are integers or Missing (None); Missing is the largest value and equals only itself,
   as MissingType defines.  CPython's bisect_left/right are modelled by their specification on
   sorted input (number of elements < a, <= a) - trusted, tied by correspondence. *)
From Coq Require Import ZArith List Bool Arith Lia.
Import ListNotations.

Definition cell := option Z.
Definition clt (a b : cell) : bool :=
  match a, b with Some x, Some y => (x <? y)%Z | Some _, None => true | None, _ => false end.
Definition ceq (a b : cell) : bool :=
  match a, b with Some x, Some y => (x =? y)%Z | None, None => true | _, _ => false end.
Definition cle (a b : cell) : bool := clt a b || ceq a b.

Definition count {A} (p : A -> bool) (l : list A) : nat := length (filter p l).
Definition slice {A} (lo hi : nat) (l : list A) : list A := firstn (hi - lo) (skipn lo l).

(* ---- bisect on col[lo:hi] *)
Definition bisect_left (col : list cell) (a : cell) (lo hi : nat) : nat := lo + count (fun c => clt c a) (slice lo hi col).
Definition bisect_right (col : list cell) (a : cell) (lo hi : nat) : nat := lo + count (fun c => cle c a) (slice lo hi col).
Definition my_bisect_left (col : list cell) (a : cell) (lo hi : nat) : nat :=
  if (lo <? hi) && ceq (nth lo col None) a then lo else bisect_left col a lo hi.
Definition my_bisect_right (col : list cell) (a : cell) (lo hi : nat) : nat :=
  if (lo <? hi) && ceq (nth (hi - 1) col None) a then hi else bisect_right col a lo hi.

(* ---- operators *)
Inductive op := OEq | ONe | OLt | OLe | OGt | OGe | OIn | ONin.
(* argument: one cell for the scalar operators, a list for in / !in *)
Definition sat (o : op) (a : cell) (vs : list cell) (c : cell) : bool :=
  match o with
  | OEq => ceq c a | ONe => negb (ceq c a)
  | OLt => clt c a | OLe => cle c a | OGt => clt a c | OGe => cle a c
  | OIn => existsb (ceq c) vs | ONin => negb (existsb (ceq c) vs)
  end.

(* the row-by-row path: positions lo+i of col[lo:hi] whose cell satisfies the predicate *)
Fixpoint scan (p : cell -> bool) (lo : nat) (seg : list cell) : list nat :=
  match seg with
  | [] => []
  | c :: t => if p c then lo :: scan p (S lo) t else scan p (S lo) t
  end.

(* insertion sort on cells (sorted(arg)) *)
Fixpoint cinsert (x : cell) (l : list cell) : list cell :=
  match l with [] => [x] | h :: t => if clt x h then x :: l else h :: cinsert x t end.
Definition csort (l : list cell) : list cell := fold_right cinsert [] l.
Fixpoint cdedup (l : list cell) : list cell :=      (* adjacent duplicates of a sorted list *)
  match l with
  | a :: ((b :: _) as t) => if ceq a b then cdedup t else a :: cdedup t
  | _ => l
  end.

(* the bisect path: list of (l,h) ranges *)
Definition ranges (o : op) (a : cell) (vs : list cell) (col : list cell) (lo hi : nat) : list (nat * nat) :=
  let bl := fun v => my_bisect_left col v lo hi in
  let br := fun v => my_bisect_right col v lo hi in
  match o with
  | OEq => [(bl a, br a)]
  | ONe => [(lo, bl a); (br a, hi)]
  | OLt => [(lo, bl a)]
  | OLe => [(lo, br a)]
  | OGe => [(bl a, hi)]
  | OGt => [(br a, hi)]
  | OIn => map (fun v => (bl v, br v)) (cdedup (csort vs))
  | ONin => let s := csort vs in
            let starts := lo :: map br s in
            let stops := map bl s ++ [hi] in
            combine starts stops
  end.
Definition expand (rs : list (nat * nat)) : list nat := flat_map (fun r => seq (fst r) (snd r - fst r)) rs.

(* ---- tables: columns in order, each (name, cells); index column names *)
Record table := { cols : list (Z * list cell); idxs : list Z }.
Definition nrows (t : table) : nat := match cols t with [] => 0 | c :: _ => length (snd c) end.
Definition col_of (t : table) (name : Z) : option (list cell) :=
  option_map snd (find (fun c => (fst c =? name)%Z) (cols t)).
Definition has_col (t : table) (name : Z) : bool := existsb (fun c => (fst c =? name)%Z) (cols t).

(* rows aligned with the columns *)
Fixpoint insert_rows_cols (cs : list (Z * list cell)) (k : nat) (rows : list (list cell)) : list (Z * list cell) :=
  match cs with
  | [] => []
  | (n, c) :: cs' => (n, c ++ map (fun r => nth k r None) rows) :: insert_rows_cols cs' (S k) rows
  end.
Definition insert_rows (t : table) (rows : list (list cell)) : table :=
  match rows with [] => t | _ => {| cols := insert_rows_cols (cols t) 0 rows; idxs := idxs t |} end.

(* ragged dicts: new columns padded with Missing for old rows and appended in sorted name order *)
Definition dget (d : list (Z * cell)) (k : Z) : cell :=
  match find (fun p => (fst p =? k)%Z) d with Some p => snd p | None => None end.
Fixpoint zinsert (x : Z) (l : list Z) : list Z :=
  match l with [] => [x] | h :: t => if (x <? h)%Z then x :: l else if (x =? h)%Z then l else h :: zinsert x t end.
Definition insert_dicts (t : table) (ds : list (list (Z * cell))) : table :=
  match ds with
  | [] => t
  | _ =>
    let keys := fold_right zinsert [] (flat_map (map fst) ds) in
    let old_len := nrows t in
    let upd := map (fun c : Z * list cell =>
                      let (n, cs) := c in
                      if existsb (Z.eqb n) keys then (n, cs ++ map (fun d => dget d n) ds)
                      else (n, cs ++ repeat None (length ds))) (cols t) in
    let news := filter (fun k => negb (has_col t k)) keys in
    {| cols := upd ++ map (fun k => (k, repeat None old_len ++ map (fun d => dget d k) ds)) news; idxs := idxs t |}
  end.

(* ---- index *)
(* stable insertion sort of positions by key *)
Fixpoint pinsert (key : nat -> cell) (x : nat) (l : list nat) : list nat :=
  match l with [] => [x] | h :: t => if clt (key h) (key x) then h :: pinsert key x t else x :: l end.
Definition psort (key : nat -> cell) (l : list nat) : list nat := fold_right (pinsert key) [] l.

(* maximal runs of equal cells of col inside [lo,hi), by repeated my_bisect_right *)
Fixpoint sub_lohis (fuel : nat) (col : list cell) (lo hi : nat) : list (nat * nat) :=
  match fuel with
  | O => []
  | S f => if lo =? hi then []
           else let nh := my_bisect_right col (nth lo col None) lo hi in
                (lo, nh) :: (if nh <=? lo then [] else sub_lohis f col nh hi)
  end.

Definition sort_runs (key : nat -> cell) (lohis : list (nat * nat)) (indexes : list nat) : list nat :=
  fold_left (fun ix r => let (lo, hi) := (r : nat * nat) in
                         firstn lo ix ++ psort key (slice lo hi ix) ++ skipn hi ix) lohis indexes.

Definition permute {A} (d : A) (l : list A) (indexes : list nat) : list A := map (fun i => nth i l d) indexes.

(* returns final indexes after refining over the index columns *)
Fixpoint index_loop (t : table) (indx : list Z) (lohis : list (nat * nat)) (indexes : list nat) : list nat :=
  match indx with
  | [] => indexes
  | c :: rest =>
    let colv := match col_of t c with Some v => v | None => [] end in
    let indexes' := sort_runs (fun i => nth i colv None) lohis indexes in
    let newcol := permute None colv indexes' in
    let lohis' := flat_map (fun r => sub_lohis (snd r - fst r) newcol (fst r) (snd r)) lohis in
    index_loop t rest lohis' indexes'
  end.

Fixpoint zlist_eqb (a b : list Z) : bool :=
  match a, b with [], [] => true | x :: a', y :: b' => (x =? y)%Z && zlist_eqb a' b' | _, _ => false end.

Definition index (t : table) (names : list Z) : table :=
  match names, cols t with
  | [], _ => t
  | _, [] => t
  | _, _ =>
    let indx := filter (has_col t) names in
    if zlist_eqb (idxs t) indx then t
    else let n := nrows t in
         let indexes := index_loop t indx [(0, n)] (seq 0 n) in
         {| cols := map (fun c : Z * list cell => (fst c, permute None (snd c) indexes)) (cols t); idxs := indx |}
  end.

(* lohis per index column: runs of equal values of the preceding index columns *)
Fixpoint calc_lohis (t : table) (ix : list Z) (cur : list (nat * nat)) : list (Z * list (nat * nat)) :=
  match ix with
  | [] => []
  | k :: rest =>
    let colv := match col_of t k with Some v => v | None => [] end in
    (k, cur) :: calc_lohis t rest (flat_map (fun r => sub_lohis (snd r - fst r) colv (fst r) (snd r)) cur)
  end.
Definition lohis_of (t : table) (k : Z) : option (list (nat * nat)) :=
  option_map snd (find (fun p => (fst p =? k)%Z) (calc_lohis t (idxs t) [(0, nrows t)])).

(* ---- where: list of (column, op, scalar arg, list arg) *)
Definition cond := (Z * op * cell * list cell)%type.
Definition select1 (t : table) (c : cond) : list nat :=
  let '(kw, o, a, vs) := c in
  let colv := match col_of t kw with Some v => v | None => [] end in
  match lohis_of t kw with
  | Some lohis => flat_map (fun r => expand (ranges o a vs colv (fst r) (snd r))) lohis
  | None => scan (sat o a vs) 0 colv
  end.

Fixpoint ninsert (x : nat) (l : list nat) : list nat :=
  match l with [] => [x] | h :: t => if x <? h then x :: l else if x =? h then l else h :: ninsert x t end.
Definition sorted_set (l : list nat) : list nat := fold_right ninsert [] l.

Definition selection (t : table) (cs : list cond) : list nat :=
  let s := flat_map (select1 t) cs in
  match cs with _ :: _ :: _ => sorted_set s | _ => s end.

Definition take_rows (t : table) (sel : list nat) : table :=
  {| cols := map (fun c : Z * list cell => (fst c, permute None (snd c) sel)) (cols t); idxs := idxs t |}.
Definition where_ (t : table) (cs : list cond) : table :=
  match cs with [] => t | _ => take_rows t (selection t cs) end.

(* ---- groupby level with counts *)
Definition groupby (t : table) (level : nat) : list (list cell * nat) :=
  match nth_error (idxs t) level with
  | None => []
  | Some k =>
    match lohis_of t k with
    | None => []
    | Some lohis =>
      map (fun r => (map (fun n => match col_of t n with Some v => nth (fst r) v None | None => None end) (firstn level (idxs t)),
                     snd r - fst r)) lohis
    end
  end.

Definition rows (t : table) : list (list cell) :=
  map (fun i => map (fun c : Z * list cell => nth i (snd c) None) (cols t)) (seq 0 (nrows t)).
