(* where on the result of a where (a view): the selected rows of an indexed table still satisfy the index invariant, so the second selection is again
   the row-wise one, and the composition selects exactly the rows satisfying both, in table order. *)
From Coq Require Import ZArith List Bool Arith Lia Sorting.Sorted.
From Coba Require Import C17.Model C17.Proofs C17.ProofsIndex C17.ProofsBuild C17.ProofsWhere C17.ProofsLex.
Import ListNotations.

Lemma inc_nth sel : inc sel -> forall i j, i < j -> j < length sel -> nth i sel 0 < nth j sel 0.
Proof.
  induction 1 as [|x s Hs IH Hall]; intros i j Hij Hj; [cbn in Hj; lia|]. destruct j as [|j]; [lia|]. cbn in Hj. destruct i as [|i].
  - cbn [nth]. rewrite Forall_forall in Hall. apply Hall. apply nth_In. lia.
  - cbn [nth]. apply IH; lia.
Qed.

Lemma filter_filter_and {A} (p q : A -> bool) l : filter q (filter p l) = filter (fun x => p x && q x) l.
Proof. induction l as [|x l IH]; [reflexivity|]. cbn. destruct (p x); cbn; [destruct (q x); rewrite IH; reflexivity|exact IH]. Qed.
Lemma filter_map_S (p : nat -> bool) l : filter p (map S l) = map S (filter (fun i => p (S i)) l).
Proof. induction l as [|x l IH]; [reflexivity|]. cbn. destruct (p (S x)); cbn; rewrite IH; reflexivity. Qed.
Lemma map_filter_seq (q : nat -> bool) : forall l, map (fun i => nth i l 0) (filter (fun i => q (nth i l 0)) (seq 0 (length l))) = filter q l.
Proof.
  induction l as [|x l IH]; [reflexivity|]. cbn [length]. rewrite <- cons_seq, <- seq_shift. cbn [filter nth]. rewrite filter_map_S.
  destruct (q x); cbn [map nth]; rewrite map_map; cbn [nth]; rewrite IH; reflexivity.
Qed.
Lemma permute_permute (v : list cell) s1 s2 : (forall i, In i s2 -> i < length s1) -> permute None (permute None v s1) s2 = permute None v (map (fun i => nth i s1 0) s2).
Proof.
  intros Hb. unfold permute. rewrite map_map. apply map_ext_in. intros i Hi.
  transitivity (nth i (map (fun j => nth j v None) s1) ((fun j => nth j v None) 0)); [apply nth_indep; rewrite map_length; exact (Hb i Hi)|].
  apply (map_nth (fun j => nth j v None)).
Qed.

Section Views.
  Variable t : table.
  Notation n := (nrows t).
  Hypothesis nonempty : cols t <> [].

  Lemma colv_take sel k : has_col t k = true -> colv (take_rows t sel) k = permute None (colv t k) sel.
  Proof.
    intros Hh. unfold colv, col_of, take_rows. cbn [cols]. rewrite find_map_cols.
    destruct (option_map snd (find (fun c0 : Z * list cell => (fst c0 =? k)%Z) (cols t))) as [v|] eqn:E; [reflexivity|]. exfalso. exact (has_col_find k (cols t) Hh E).
  Qed.
  Lemma nrows_take sel : nrows (take_rows t sel) = length sel.
  Proof. unfold nrows, take_rows. cbn [cols]. destruct (cols t) as [|[k v] r]; [congruence|]. cbn. unfold permute. apply map_length. Qed.
  Lemma has_col_take sel k : has_col (take_rows t sel) k = has_col t k.
  Proof. unfold has_col, take_rows. cbn [cols]. clear nonempty. induction (cols t) as [|[k' v] r IH]; [reflexivity|]. cbn. rewrite IH. reflexivity. Qed.

  Lemma key_take sel ix i : (forall k, In k ix -> has_col t k = true) -> i < length sel -> key (take_rows t sel) ix i = key t ix (nth i sel 0).
  Proof.
    intros Hc Hi. unfold key. apply map_ext_in. intros k Hk. rewrite (colv_take sel k (Hc k Hk)). unfold permute.
    transitivity (nth i (map (fun j => nth j (colv t k) None) sel) ((fun j => nth j (colv t k) None) 0)); [apply nth_indep; rewrite map_length; exact Hi|].
    apply (map_nth (fun j => nth j (colv t k) None)).
  Qed.

  (* the rows a strictly increasing selection picks from a table that satisfies the index invariant satisfy it again *)
  Theorem take_rows_keeps_invariant sel : (forall k, In k (idxs t) -> has_col t k = true) -> indexed_ok t -> inc sel -> (forall i, In i sel -> i < n) ->
    indexed_ok (take_rows t sel).
  Proof.
    intros Hc Hok Hinc Hb. unfold indexed_ok. rewrite nrows_take. change (idxs (take_rows t sel)) with (idxs t).
    assert (lexsorted t (idxs t) 0 n) as Hlex.
    { apply (ix_ok_lex t (idxs t) [(0, n)]); [|exact Hok|left; reflexivity]. intros x y [E|[]]. injection E as <- <-. lia. }
    assert (forall k, In k (idxs t) -> length (colv t k) = n) as Hlen.
    { clear - Hok. unfold indexed_ok in Hok. revert Hok. generalize [(0, n)]. induction (idxs t) as [|k r IH]; intros cur Hok k' Hk'; [destruct Hk'|].
      cbn [ix_ok] in Hok. destruct Hok as [Hl [_ Hr]]. destruct Hk' as [<-|Hk']; [exact Hl|exact (IH _ Hr k' Hk')]. }
    apply lex_ix_ok.
    - intros k Hk. rewrite nrows_take, (colv_take sel k (Hc k Hk)). unfold permute. apply map_length.
    - intros x y [E|[]]. injection E as <- <-. rewrite nrows_take. lia.
    - intros x y [E|[]]. injection E as <- <-. intros i j Hi Hij Hj. rewrite (key_take sel (idxs t) i Hc ltac:(lia)), (key_take sel (idxs t) j Hc Hj).
      apply Hlex; [lia|apply inc_nth; assumption|apply Hb; apply nth_In; exact Hj].
  Qed.

  Definition anysat (u : table) (cs : list cond) (i : nat) : bool := existsb (fun c => rowsat u c i) cs.
  Definition conds_ok (cs : list cond) : Prop := cs <> [] /\ forall c, In c cs -> cond_ok c /\ has_col t (cond_col c) = true /\ length (colv t (cond_col c)) = n.

  Lemma where_rowwise cs : indexed_ok t -> conds_ok cs -> where_ t cs = take_rows t (filter (anysat t cs) (seq 0 n)).
  Proof.
    intros Hok [Hne Hcs]. unfold where_. destruct cs as [|c r] eqn:E; [congruence|]. rewrite <- E in *. f_equal.
    apply selection_rowwise; [exact Hok|exact Hne|]. intros c0 Hc0. destruct (Hcs c0 Hc0) as [A [_ B]]. split; assumption.
  Qed.

  Lemma rowsat_take sel c i : has_col t (cond_col c) = true -> i < length sel -> rowsat (take_rows t sel) c i = rowsat t c (nth i sel 0).
  Proof.
    destruct c as [[[kw o] a] vs]. cbn [cond_col rowsat]. intros Hh Hi. rewrite (colv_take sel kw Hh). unfold permute. f_equal.
    transitivity (nth i (map (fun j => nth j (colv t kw) None) sel) ((fun j => nth j (colv t kw) None) 0)); [apply nth_indep; rewrite map_length; exact Hi|].
    apply (map_nth (fun j => nth j (colv t kw) None)).
  Qed.

  Theorem where_of_where cs1 cs2 : (forall k, In k (idxs t) -> has_col t k = true) -> indexed_ok t -> conds_ok cs1 -> conds_ok cs2 ->
    where_ (where_ t cs1) cs2 = take_rows t (filter (fun i => anysat t cs1 i && anysat t cs2 i) (seq 0 n)).
  Proof.
    intros Hc Hok H1 H2. rewrite (where_rowwise cs1 Hok H1). set (sel1 := filter (anysat t cs1) (seq 0 n)).
    assert (inc sel1) as Hinc by apply filter_seq_inc.
    assert (forall i, In i sel1 -> i < n) as Hb by (intros i Hi; apply filter_In in Hi; destruct Hi as [Hi _]; apply in_seq in Hi; lia).
    pose proof (take_rows_keeps_invariant sel1 Hc Hok Hinc Hb) as Hok1. destruct H2 as [Hne2 Hcs2].
    unfold where_ at 1. destruct cs2 as [|c r] eqn:E; [congruence|]. rewrite <- E in *.
    rewrite (selection_rowwise (take_rows t sel1) cs2 (length sel1) Hok1 Hne2).
    2:{ intros c0 Hc0. destruct (Hcs2 c0 Hc0) as [A [B _]]. split; [exact A|]. rewrite (colv_take sel1 _ B). unfold permute. apply map_length. }
    set (sel2 := filter _ (seq 0 (length sel1))).
    assert (filter (fun i => anysat t cs1 i && anysat t cs2 i) (seq 0 n) = map (fun i => nth i sel1 0) sel2) as ->.
    { rewrite <- (filter_filter_and (anysat t cs1) (anysat t cs2)). fold sel1. rewrite <- (map_filter_seq (anysat t cs2) sel1). unfold sel2.
      f_equal. apply filter_ext_in. intros i Hi. apply in_seq in Hi. unfold anysat. clear - Hi Hcs2 nonempty. induction cs2 as [|c0 r0 IH]; [reflexivity|]. cbn [existsb].
      rewrite (rowsat_take sel1 c0 i) by (first [apply (Hcs2 c0 (or_introl eq_refl))|lia]). f_equal. apply IH. intros c1 Hc1. apply Hcs2. right. exact Hc1. }
    assert (forall i, In i sel2 -> i < length sel1) as Hb2 by (intros i Hi; apply filter_In in Hi; destruct Hi as [Hi _]; apply in_seq in Hi; lia).
    clearbody sel2. unfold take_rows. cbn [cols idxs]. f_equal. rewrite map_map. apply map_ext. intros [k v]. cbn [fst snd]. f_equal.
    apply permute_permute. exact Hb2.
  Qed.
End Views.
