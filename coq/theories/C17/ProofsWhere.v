(* where with several keyword conditions (the union, as a sorted set of positions) and the row-wise reading of a selection. *)
From Coq Require Import ZArith List Bool Arith Lia Sorting.Sorted.
From Coba Require Import C17.Model C17.Proofs C17.ProofsIndex.
Import ListNotations.

Definition cond_ok (c : cond) : Prop := let '(_, o, _, vs) := c in match o with OIn | ONin => True | _ => vs = [] end.
Definition cond_col (c : cond) : Z := let '(kw, _, _, _) := c in kw.
(* the plain row-by-row evaluation of one condition at row i *)
Definition rowsat (t : table) (c : cond) (i : nat) : bool := let '(kw, o, a, vs) := c in sat o a vs (nth i (colv t kw) None).

Lemma scan_filter p : forall seg lo, scan p lo seg = filter (fun i => p (nth (i - lo) seg None)) (seq lo (length seg)).
Proof.
  induction seg as [|c t IH]; intros lo; [reflexivity|]. cbn [scan length seq filter]. rewrite Nat.sub_diag. cbn [nth]. rewrite IH.
  assert (filter (fun i => p (nth (i - S lo) t None)) (seq (S lo) (length t)) = filter (fun i => p (nth (i - lo) (c :: t) None)) (seq (S lo) (length t))) as E.
  { apply filter_ext_in. intros i Hi. apply in_seq in Hi. replace (i - lo) with (S (i - S lo)) by lia. reflexivity. }
  rewrite E. reflexivity.
Qed.

Notation inc := (StronglySorted lt).
Lemma ninsert_spec x : forall l, inc l -> inc (ninsert x l) /\ forall y, In y (ninsert x l) <-> y = x \/ In y l.
Proof.
  induction l as [|h t IH]; intros Hs; cbn [ninsert].
  - split; [repeat constructor|]. intros y. cbn. intuition.
  - apply StronglySorted_inv in Hs. destruct Hs as [Ht Hh]. destruct (x <? h) eqn:E1.
    + apply Nat.ltb_lt in E1. split; [|intros y; cbn; intuition].
      constructor; [constructor; assumption|]. constructor; [exact E1|]. rewrite Forall_forall in *. intros z Hz. specialize (Hh z Hz). lia.
    + apply Nat.ltb_ge in E1. destruct (x =? h) eqn:E2.
      * apply Nat.eqb_eq in E2. subst x. split; [constructor; assumption|]. intros y. cbn. intuition.
      * apply Nat.eqb_neq in E2. destruct (IH Ht) as [I1 I2]. split.
        -- constructor; [exact I1|]. rewrite Forall_forall in *. intros z Hz. apply I2 in Hz. destruct Hz as [->|Hz]; [lia|exact (Hh z Hz)].
        -- intros y. cbn. rewrite I2. intuition.
Qed.
Lemma sorted_set_spec l : inc (sorted_set l) /\ forall y, In y (sorted_set l) <-> In y l.
Proof.
  induction l as [|x t [I1 I2]]; [split; [constructor|intros; reflexivity]|]. unfold sorted_set in *. cbn [fold_right].
  destruct (ninsert_spec x _ I1) as [J1 J2]. split; [exact J1|]. intros y. rewrite J2, I2. cbn. intuition.
Qed.
Lemma filter_seq_inc p : forall n a, inc (filter p (seq a n)).
Proof.
  induction n as [|n IH]; intros a; [constructor|]. cbn [seq filter]. destruct (p a); [|apply IH].
  constructor; [apply IH|]. rewrite Forall_forall. intros z Hz. apply filter_In in Hz. destruct Hz as [Hz _]. apply in_seq in Hz. lia.
Qed.
Lemma inc_unique : forall l1 l2, inc l1 -> inc l2 -> (forall x, In x l1 <-> In x l2) -> l1 = l2.
Proof.
  induction l1 as [|a t1 IH]; intros l2 H1 H2 Hm.
  - destruct l2 as [|b t2]; [reflexivity|]. exfalso. apply (proj2 (Hm b)). left. reflexivity.
  - destruct l2 as [|b t2]; [exfalso; apply (proj1 (Hm a)); left; reflexivity|].
    apply StronglySorted_inv in H1. destruct H1 as [S1 F1]. apply StronglySorted_inv in H2. destruct H2 as [S2 F2]. rewrite Forall_forall in F1, F2.
    assert (a = b) as ->.
    { destruct (proj1 (Hm a) (or_introl eq_refl)) as [E|Hin]; [congruence|]. destruct (proj2 (Hm b) (or_introl eq_refl)) as [E|Hin']; [congruence|].
      specialize (F1 b Hin'). specialize (F2 a Hin). lia. }
    f_equal. apply IH; [exact S1|exact S2|]. intros x. split; intros Hx.
    + destruct (proj1 (Hm x) (or_intror Hx)) as [E|Hin]; [subst x; specialize (F1 b Hx); lia|exact Hin].
    + destruct (proj2 (Hm x) (or_intror Hx)) as [E|Hin]; [subst x; specialize (F2 b Hx); lia|exact Hin].
Qed.

(* one condition: the selection is the rows, in table order, that satisfy it under the plain evaluation *)
Lemma select1_rowwise t c n : indexed_ok t -> cond_ok c -> length (colv t (cond_col c)) = n ->
  select1 t c = filter (rowsat t c) (seq 0 n).
Proof.
  destruct c as [[[kw o] a] vs]. cbn [cond_ok cond_col rowsat]. intros Hok Hv Hn. rewrite (select1_eq_scan t kw o a vs Hok Hv), scan_filter, Hn.
  apply filter_ext. intros i. rewrite Nat.sub_0_r. reflexivity.
Qed.

(* several conditions: the union - every row satisfying at least one condition, once, in table order *)
Theorem selection_rowwise t cs n : indexed_ok t -> cs <> [] -> (forall c, In c cs -> cond_ok c /\ length (colv t (cond_col c)) = n) ->
  selection t cs = filter (fun i => existsb (fun c => rowsat t c i) cs) (seq 0 n).
Proof.
  intros Hok Hne Hcs. unfold selection. destruct cs as [|c1 [|c2 rest]]; [congruence| |].
  - cbn [flat_map]. rewrite app_nil_r. destruct (Hcs c1 (or_introl eq_refl)) as [H1 H2]. rewrite (select1_rowwise t c1 n Hok H1 H2).
    apply filter_ext. intros i. cbn. rewrite orb_false_r. reflexivity.
  - set (cs := c1 :: c2 :: rest) in *. destruct (sorted_set_spec (flat_map (select1 t) cs)) as [I1 I2].
    apply inc_unique; [exact I1|apply filter_seq_inc|]. intros x. rewrite I2, in_flat_map, filter_In, existsb_exists. split.
    + intros [c [Hc Hx]]. destruct (Hcs c Hc) as [H1 H2]. rewrite (select1_rowwise t c n Hok H1 H2) in Hx. apply filter_In in Hx. split; [exact (proj1 Hx)|]. exists c. split; [exact Hc|exact (proj2 Hx)].
    + intros [Hx [c [Hc Hs]]]. exists c. split; [exact Hc|]. destruct (Hcs c Hc) as [H1 H2]. rewrite (select1_rowwise t c n Hok H1 H2). apply filter_In. split; assumption.
Qed.
