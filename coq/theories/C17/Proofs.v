(* On a sorted segment, the rows selected through bisect ranges equal the row-by-row scan. *)
From Coq Require Import ZArith List Bool Arith Lia Sorting.Sorted.
From Coba Require Import C17.Model.
Import ListNotations.

Definition cleP (a b : cell) : Prop := cle a b = true.
Notation sorted := (StronglySorted cleP).

(* ---- order facts on cells *)
Lemma clt_irrefl a : clt a a = false.
Proof. destruct a; cbn; [apply Z.ltb_irrefl|reflexivity]. Qed.
Lemma ceq_refl a : ceq a a = true.
Proof. destruct a; cbn; [apply Z.eqb_refl|reflexivity]. Qed.
Lemma ceq_eq a b : ceq a b = true <-> a = b.
Proof. destruct a, b; cbn; split; intros H; try congruence; try reflexivity.
  - apply Z.eqb_eq in H. congruence.
  - inversion H. apply Z.eqb_refl. Qed.
Lemma cle_trans a b c : cle a b = true -> cle b c = true -> cle a c = true.
Proof. unfold cle. destruct a, b, c; cbn; try reflexivity; try discriminate; lia. Qed.
Lemma clt_cle_trans a b c : clt a b = true -> cle b c = true -> clt a c = true.
Proof. unfold cle. destruct a, b, c; cbn; try reflexivity; try discriminate; lia. Qed.
Lemma cle_clt_trans a b c : cle a b = true -> clt b c = true -> clt a c = true.
Proof. unfold cle. destruct a, b, c; cbn; try reflexivity; try discriminate; lia. Qed.
Lemma cle_total a b : cle a b = true \/ clt b a = true.
Proof. unfold cle. destruct a, b; cbn; try (left; reflexivity); try (right; reflexivity); lia. Qed.
Lemma clt_not_cle a b : clt a b = negb (cle b a).
Proof. unfold cle. destruct a, b; cbn; try reflexivity; lia. Qed.
Lemma cle_antisym a b : cle a b = true -> cle b a = true -> a = b.
Proof. unfold cle. destruct a, b; cbn; try reflexivity; try discriminate; intros; f_equal; lia. Qed.

(* ---- scan basics *)
Lemma scan_ext p q lo seg : (forall c, In c seg -> p c = q c) -> scan p lo seg = scan q lo seg.
Proof.
  revert lo. induction seg as [|c t IH]; intros lo H; [reflexivity|]. cbn [scan].
  rewrite (H c (or_introl eq_refl)). rewrite IH by (intros; apply H; right; assumption). reflexivity.
Qed.
Lemma scan_none p lo seg : (forall c, In c seg -> p c = false) -> scan p lo seg = [] /\ count p seg = 0.
Proof.
  revert lo. induction seg as [|c t IH]; intros lo H; [split; reflexivity|]. unfold count in *. cbn [scan filter].
  rewrite (H c (or_introl eq_refl)). apply IH. intros; apply H; right; assumption.
Qed.
Lemma count_cons {A} (p : A -> bool) c t : count p (c :: t) = (if p c then 1 else 0) + count p t.
Proof. unfold count. cbn [filter]. destruct (p c); reflexivity. Qed.
Lemma count_le_length {A} (p : A -> bool) l : count p l <= length l.
Proof. unfold count. induction l as [|a l IH]; cbn; [lia|]. destruct (p a); cbn; lia. Qed.

Definition antitone (p : cell -> bool) : Prop := forall x y, cle x y = true -> p y = true -> p x = true.

(* the key lemma: a predicate "p_le and not p_lt" with both parts downward closed selects one range *)
Lemma scan_interval_gen p_le p_lt : antitone p_le -> antitone p_lt ->
  forall seg lo, sorted seg ->
  scan (fun c => p_le c && negb (p_lt c)) lo seg = seq (lo + count p_lt seg) (count p_le seg - count p_lt seg).
Proof.
  intros Ale Alt. induction seg as [|h t IH]; intros lo Hs; [reflexivity|].
  inversion Hs as [|? ? St Hall]; subst. cbn [scan]. rewrite !count_cons.
  assert (NoLe : p_le h = false -> forall c, In c t -> p_le c = false).
  { intros Ele c Hc. destruct (p_le c) eqn:E; [|reflexivity].
    rewrite Forall_forall in Hall. rewrite (Ale h c (Hall c Hc) E) in Ele. discriminate. }
  destruct (p_lt h) eqn:Elt.
  - rewrite andb_false_r. cbn [negb]. destruct (p_le h) eqn:Ele.
    + rewrite IH by exact St.
      replace (lo + (1 + count p_lt t)) with (S lo + count p_lt t) by lia.
      replace (1 + count p_le t - (1 + count p_lt t)) with (count p_le t - count p_lt t) by lia. reflexivity.
    + destruct (scan_none p_le (S lo) t (NoLe eq_refl)) as [_ Z1]. rewrite Z1. cbn [Nat.add Nat.sub seq].
      apply (proj1 (scan_none (fun c => p_le c && negb (p_lt c)) (S lo) t
                 (fun c Hc => eq_trans (f_equal (fun b => b && negb (p_lt c)) (NoLe eq_refl c Hc)) eq_refl))).
  - assert (Z : forall c, In c t -> p_lt c = false).
    { intros c Hc. destruct (p_lt c) eqn:E; [|reflexivity].
      rewrite Forall_forall in Hall. rewrite (Alt h c (Hall c Hc) E) in Elt. discriminate. }
    destruct (scan_none p_lt (S lo) t Z) as [_ Z0]. rewrite Z0.
    destruct (p_le h) eqn:Ele; cbn [andb negb].
    + rewrite IH by exact St. rewrite Z0. cbn [Nat.add]. rewrite !Nat.add_0_r, !Nat.sub_0_r. reflexivity.
    + destruct (scan_none p_le (S lo) t (NoLe eq_refl)) as [_ Z1]. rewrite Z1.
      rewrite (proj1 (scan_none (fun c => p_le c && negb (p_lt c)) (S lo) t
                 (fun c Hc => eq_trans (f_equal (fun b => b && negb (p_lt c)) (NoLe eq_refl c Hc)) eq_refl))).
      reflexivity.
Qed.
Lemma scan_interval p_le p_lt : antitone p_le -> antitone p_lt -> (forall c, p_lt c = true -> p_le c = true) ->
  forall seg lo, sorted seg ->
  scan (fun c => p_le c && negb (p_lt c)) lo seg = seq (lo + count p_lt seg) (count p_le seg - count p_lt seg).
Proof. intros A1 A2 _. apply scan_interval_gen; assumption. Qed.

(* two predicates, the first entirely below the second: the scan of the union is the concatenation *)
Lemma scan_or_split p1 p2 : (forall x y, p1 x = true -> p2 y = true -> clt x y = true) ->
  forall seg lo, sorted seg -> scan (fun c => p1 c || p2 c) lo seg = scan p1 lo seg ++ scan p2 lo seg.
Proof.
  intros Below. induction seg as [|h t IH]; intros lo Hs; [reflexivity|].
  inversion Hs as [|? ? St Hall]; subst. cbn [scan].
  destruct (p1 h) eqn:E1; cbn [orb].
  - destruct (p2 h) eqn:E2.
    + pose proof (Below h h E1 E2) as C. rewrite clt_irrefl in C. discriminate.
    + rewrite IH by exact St. reflexivity.
  - destruct (p2 h) eqn:E2.
    + assert (Z : forall c, In c t -> p1 c = false).
      { intros c Hc. destruct (p1 c) eqn:E; [|reflexivity].
        rewrite Forall_forall in Hall. pose proof (Below c h E E2) as C.
        pose proof (clt_cle_trans _ _ _ C (Hall c Hc)) as C'. rewrite clt_irrefl in C'. discriminate. }
      rewrite IH by exact St. rewrite (proj1 (scan_none p1 (S lo) t Z)). reflexivity.
    + apply IH. exact St.
Qed.

(* ---- slices *)
Lemma slice_length {A} lo hi (l : list A) : lo <= hi -> hi <= length l -> length (slice lo hi l) = hi - lo.
Proof. intros. unfold slice. rewrite firstn_length, skipn_length. lia. Qed.

Lemma slice_head lo hi (col : list cell) : lo < hi -> hi <= length col ->
  exists t, slice lo hi col = nth lo col None :: t.
Proof.
  intros H1 H2. unfold slice.
  assert (G : forall n (l : list cell), n < length l -> skipn n l = nth n l None :: skipn (S n) l).
  { induction n as [|n IH]; intros l Hl; destruct l as [|c l]; cbn in Hl; try lia; [reflexivity|].
    cbn [skipn nth]. apply IH. lia. }
  assert (E : skipn lo col = nth lo col None :: skipn (S lo) col) by (apply G; lia).
  rewrite E. destruct (hi - lo) as [|k] eqn:Ek; [lia|]. cbn [firstn]. eexists; reflexivity.
Qed.

Lemma firstn_S_last {A} (d : A) : forall k (l : list A), k < length l -> firstn (S k) l = firstn k l ++ [nth k l d].
Proof.
  induction k as [|k IH]; intros l Hl; destruct l as [|c l]; cbn in Hl; try lia; [reflexivity|].
  cbn [firstn nth app]. f_equal. apply IH. lia.
Qed.
Lemma nth_skipn' {A} (d : A) : forall n k (l : list A), nth k (skipn n l) d = nth (n + k) l d.
Proof.
  induction n as [|n IH]; intros k l; [reflexivity|]. destruct l as [|c l]; [destruct k; reflexivity|].
  cbn [skipn Nat.add nth]. apply IH.
Qed.
Lemma slice_last lo hi (col : list cell) : lo < hi -> hi <= length col ->
  exists t, slice lo hi col = t ++ [nth (hi - 1) col None].
Proof.
  intros H1 H2. unfold slice. destruct (hi - lo) as [|k] eqn:Ek; [lia|].
  exists (firstn k (skipn lo col)).
  rewrite (firstn_S_last (@None Z)) by (rewrite skipn_length; lia).
  rewrite nth_skipn'. replace (lo + k) with (hi - 1) by lia. reflexivity.
Qed.

(* the shortcuts of my_bisect_* agree with plain bisect on sorted segments *)
Lemma my_bisect_left_ok col a lo hi : lo <= hi -> hi <= length col -> sorted (slice lo hi col) ->
  my_bisect_left col a lo hi = bisect_left col a lo hi.
Proof.
  intros H1 H2 Hs. unfold my_bisect_left. destruct (lo <? hi) eqn:B; cbn [andb]; [|reflexivity].
  apply Nat.ltb_lt in B. destruct (ceq (nth lo col None) a) eqn:E; [|reflexivity].
  apply ceq_eq in E. destruct (slice_head lo hi col B H2) as [t Ht]. unfold bisect_left. rewrite Ht in *.
  inversion Hs as [|? ? St Hall]; subst.
  assert (Z : forall c, In c (nth lo col None :: t) -> clt c (nth lo col None) = false).
  { intros c [Hc|Hc]; [subst; apply clt_irrefl|]. rewrite Forall_forall in Hall.
    rewrite clt_not_cle. rewrite (Hall c Hc). reflexivity. }
  rewrite (proj2 (scan_none _ 0 _ Z)). lia.
Qed.

Lemma count_all {A} (p : A -> bool) l : (forall c, In c l -> p c = true) -> count p l = length l.
Proof.
  unfold count. induction l as [|a l IH]; intros H; [reflexivity|]. cbn [filter].
  rewrite (H a (or_introl eq_refl)). cbn [length]. rewrite IH; [reflexivity|]. intros; apply H; right; assumption.
Qed.

Lemma sorted_app_last t x : sorted (t ++ [x]) -> forall c, In c (t ++ [x]) -> cle c x = true.
Proof.
  induction t as [|h t IH]; intros Hs c Hc.
  - destruct Hc as [Hc|[]]. subst. unfold cle. rewrite ceq_refl. apply orb_true_r.
  - cbn [app] in *. inversion Hs as [|? ? St Hall]; subst. destruct Hc as [Hc|Hc].
    + subst. rewrite Forall_forall in Hall. apply Hall. apply in_or_app. right. left. reflexivity.
    + apply IH; assumption.
Qed.

Lemma my_bisect_right_ok col a lo hi : lo <= hi -> hi <= length col -> sorted (slice lo hi col) ->
  my_bisect_right col a lo hi = bisect_right col a lo hi.
Proof.
  intros H1 H2 Hs. unfold my_bisect_right. destruct (lo <? hi) eqn:B; cbn [andb]; [|reflexivity].
  apply Nat.ltb_lt in B. destruct (ceq (nth (hi - 1) col None) a) eqn:E; [|reflexivity].
  apply ceq_eq in E. destruct (slice_last lo hi col B H2) as [t Ht]. unfold bisect_right.
  pose proof (slice_length lo hi col H1 H2) as L. rewrite Ht in *. subst a.
  rewrite count_all; [lia|]. intros c Hc. apply (sorted_app_last t _ Hs c Hc).
Qed.

(* ---- pointwise facts *)
Lemma ceq_as_interval c a : ceq c a = cle c a && negb (clt c a).
Proof. unfold cle. destruct c, a; cbn; try reflexivity; lia. Qed.
Lemma cgt_as_interval c a : clt a c = true && negb (cle c a).
Proof. unfold cle. destruct c, a; cbn; try reflexivity; lia. Qed.
Lemma cge_as_interval c a : cle a c = true && negb (clt c a).
Proof. unfold cle. destruct c, a; cbn; try reflexivity; lia. Qed.
Lemma cne_as_or c a : negb (ceq c a) = clt c a || clt a c.
Proof. destruct c, a; cbn; try reflexivity; lia. Qed.
Lemma antitone_lt a : antitone (fun c => clt c a).
Proof. intros x y Hxy Hy. eapply cle_clt_trans; eassumption. Qed.
Lemma antitone_le a : antitone (fun c => cle c a).
Proof. intros x y Hxy Hy. eapply cle_trans; eassumption. Qed.
Lemma antitone_const b : antitone (fun _ => b).
Proof. intros x y _ H. exact H. Qed.
Lemma lt_sub_le a c : clt c a = true -> cle c a = true.
Proof. unfold cle. intros ->. reflexivity. Qed.
Lemma count_true {A} (l : list A) : count (fun _ => true) l = length l.
Proof. apply count_all. reflexivity. Qed.
Lemma count_false {A} (l : list A) : count (fun _ => false) l = 0.
Proof. unfold count. induction l; cbn; auto. Qed.
Lemma count_lt_le a seg : count (fun c => clt c a) seg <= count (fun c => cle c a) seg.
Proof.
  induction seg as [|h t IH]; [unfold count; cbn; lia|]. rewrite !count_cons.
  destruct (clt h a) eqn:E; [rewrite (lt_sub_le _ _ E); lia|destruct (cle h a); lia].
Qed.

Section Ranges.
  Variables (col : list cell) (lo hi : nat).
  Hypothesis Hlo : lo <= hi.
  Hypothesis Hhi : hi <= length col.
  Let seg := slice lo hi col.
  Hypothesis Hs : sorted seg.

  Let Lseg : length seg = hi - lo := slice_length lo hi col Hlo Hhi.

  Lemma bl_eq a : my_bisect_left col a lo hi = lo + count (fun c => clt c a) seg.
  Proof. rewrite my_bisect_left_ok by assumption. reflexivity. Qed.
  Lemma br_eq a : my_bisect_right col a lo hi = lo + count (fun c => cle c a) seg.
  Proof. rewrite my_bisect_right_ok by assumption. reflexivity. Qed.

  Lemma range_eq a : expand [(my_bisect_left col a lo hi, my_bisect_right col a lo hi)] = scan (fun c => ceq c a) lo seg.
  Proof.
    rewrite bl_eq, br_eq. unfold expand. cbn [flat_map fst snd]. rewrite app_nil_r.
    rewrite (scan_ext _ (fun c => cle c a && negb (clt c a))) by (intros; apply ceq_as_interval).
    rewrite (scan_interval _ _ (antitone_le a) (antitone_lt a) (lt_sub_le a)) by exact Hs.
    f_equal. lia.
  Qed.

  Lemma range_lt a : expand [(lo, my_bisect_left col a lo hi)] = scan (fun c => clt c a) lo seg.
  Proof.
    rewrite bl_eq. unfold expand. cbn [flat_map fst snd]. rewrite app_nil_r.
    rewrite (scan_ext _ (fun c => clt c a && negb false)) by (intros; rewrite andb_true_r; reflexivity).
    rewrite (scan_interval _ _ (antitone_lt a) (antitone_const false)) by (try exact Hs; discriminate).
    rewrite count_false. f_equal; lia.
  Qed.

  Lemma range_le a : expand [(lo, my_bisect_right col a lo hi)] = scan (fun c => cle c a) lo seg.
  Proof.
    rewrite br_eq. unfold expand. cbn [flat_map fst snd]. rewrite app_nil_r.
    rewrite (scan_ext _ (fun c => cle c a && negb false)) by (intros; rewrite andb_true_r; reflexivity).
    rewrite (scan_interval _ _ (antitone_le a) (antitone_const false)) by (try exact Hs; discriminate).
    rewrite count_false. f_equal; lia.
  Qed.

  Lemma range_gt a : expand [(my_bisect_right col a lo hi, hi)] = scan (fun c => clt a c) lo seg.
  Proof.
    rewrite br_eq. unfold expand. cbn [flat_map fst snd]. rewrite app_nil_r.
    rewrite (scan_ext _ (fun c => true && negb (cle c a))) by (intros; apply cgt_as_interval).
    rewrite (scan_interval _ _ (antitone_const true) (antitone_le a)) by (try exact Hs; reflexivity).
    rewrite count_true, Lseg. f_equal.
    pose proof (count_le_length (fun c => cle c a) seg). lia.
  Qed.

  Lemma range_ge a : expand [(my_bisect_left col a lo hi, hi)] = scan (fun c => cle a c) lo seg.
  Proof.
    rewrite bl_eq. unfold expand. cbn [flat_map fst snd]. rewrite app_nil_r.
    rewrite (scan_ext _ (fun c => true && negb (clt c a))) by (intros; apply cge_as_interval).
    rewrite (scan_interval _ _ (antitone_const true) (antitone_lt a)) by (try exact Hs; reflexivity).
    rewrite count_true, Lseg. f_equal.
    pose proof (count_le_length (fun c => clt c a) seg). lia.
  Qed.

  Lemma expand_app r1 r2 : expand (r1 ++ r2) = expand r1 ++ expand r2.
  Proof. unfold expand. apply flat_map_app. Qed.

  Lemma range_ne a : expand [(lo, my_bisect_left col a lo hi); (my_bisect_right col a lo hi, hi)] = scan (fun c => negb (ceq c a)) lo seg.
  Proof.
    change [(lo, my_bisect_left col a lo hi); (my_bisect_right col a lo hi, hi)]
      with ([(lo, my_bisect_left col a lo hi)] ++ [(my_bisect_right col a lo hi, hi)]).
    rewrite expand_app, range_lt, range_gt.
    rewrite (scan_ext (fun c => negb (ceq c a)) (fun c => clt c a || clt a c)) by (intros; apply cne_as_or).
    symmetry. apply scan_or_split; [|exact Hs].
    intros x y Hx Hy. eapply clt_cle_trans; [exact Hx|]. apply lt_sub_le. exact Hy.
  Qed.

  Theorem scalar_ops_bisect_eq_scan o a : match o with OIn | ONin => False | _ => True end ->
    expand (ranges o a [] col lo hi) = scan (sat o a []) lo seg.
  Proof.
    destruct o; intros H; try contradiction; cbn [ranges sat].
    - apply range_eq. - apply range_ne. - apply range_lt. - apply range_le. - apply range_gt. - apply range_ge.
  Qed.
End Ranges.

(* ---- the `in` operator: one `=` range per distinct listed value, ascending *)
Definition cltP (a b : cell) : Prop := clt a b = true.
Notation ssorted := (StronglySorted cltP).

Lemma existsb_In c l : existsb (ceq c) l = true <-> In c l.
Proof.
  rewrite existsb_exists. split.
  - intros [x [Hx E]]. apply ceq_eq in E. subst. exact Hx.
  - intros H. exists c. split; [exact H|apply ceq_refl].
Qed.
Lemma existsb_same c l1 l2 : (forall x, In x l1 <-> In x l2) -> existsb (ceq c) l1 = existsb (ceq c) l2.
Proof.
  intros H. destruct (existsb (ceq c) l1) eqn:E1, (existsb (ceq c) l2) eqn:E2; try reflexivity.
  - apply existsb_In, H, existsb_In in E1. congruence.
  - apply existsb_In, H, existsb_In in E2. congruence.
Qed.

Lemma cinsert_In x y l : In x (cinsert y l) <-> x = y \/ In x l.
Proof.
  induction l as [|h t IH]; cbn [cinsert]; [cbn; intuition|].
  destruct (clt y h); cbn [In]; [intuition|]. rewrite IH. intuition.
Qed.
Lemma csort_In x l : In x (csort l) <-> In x l.
Proof.
  unfold csort. induction l as [|h t IH]; cbn [fold_right]; [reflexivity|].
  rewrite cinsert_In, IH. cbn. intuition.
Qed.
Lemma cinsert_sorted y l : sorted l -> sorted (cinsert y l).
Proof.
  induction l as [|h t IH]; intros Hs; cbn [cinsert]; [repeat constructor|].
  inversion Hs as [|? ? St Hall]; subst.
  destruct (clt y h) eqn:E.
  - constructor; [exact Hs|]. constructor; [apply lt_sub_le; exact E|].
    rewrite Forall_forall in *. intros c Hc. eapply cle_trans; [apply lt_sub_le; exact E|apply Hall; exact Hc].
  - constructor; [apply IH; exact St|]. rewrite Forall_forall in *. intros c Hc.
    apply cinsert_In in Hc. destruct Hc as [->|Hc]; [|apply Hall; exact Hc].
    destruct (cle_total h y) as [L|L]; [exact L|congruence].
Qed.
Lemma csort_sorted l : sorted (csort l).
Proof. unfold csort. induction l as [|h t IH]; cbn [fold_right]; [constructor|apply cinsert_sorted; exact IH]. Qed.

Lemma cdedup_cons2 a b t : cdedup (a :: b :: t) = if ceq a b then cdedup (b :: t) else a :: cdedup (b :: t).
Proof. reflexivity. Qed.
Lemma cdedup_In x l : In x (cdedup l) <-> In x l.
Proof.
  induction l as [|a l IH]; [reflexivity|]. destruct l as [|b t]; [reflexivity|].
  rewrite cdedup_cons2. destruct (ceq a b) eqn:E.
  - apply ceq_eq in E. subst b. rewrite IH. cbn [In]. intuition.
  - cbn [In] in *. rewrite IH. reflexivity.
Qed.
Lemma cdedup_ssorted l : sorted l -> ssorted (cdedup l).
Proof.
  induction l as [|a l IH]; intros Hs; [constructor|]. destruct l as [|b t]; [repeat constructor|].
  inversion Hs as [|? ? St Hall]; subst. rewrite cdedup_cons2.
  destruct (ceq a b) eqn:E; [apply IH; exact St|].
  constructor; [apply IH; exact St|].
  rewrite Forall_forall in *. intros c Hc. apply (proj1 (cdedup_In _ _)) in Hc.
  (* a <= b <= c and a <> b, hence a < c *)
  assert (Hab : clt a b = true).
  { specialize (Hall b (or_introl eq_refl)). unfold cleP, cle in Hall. rewrite E, orb_false_r in Hall. exact Hall. }
  cbn [In] in Hc. destruct Hc as [<-|Hc]; [exact Hab|].
  inversion St as [|? ? _ Hall']; subst. rewrite Forall_forall in Hall'.
  eapply clt_cle_trans; [exact Hab|apply Hall'; exact Hc].
Qed.

Section RangesIn.
  Variables (col : list cell) (lo hi : nat).
  Hypothesis Hlo : lo <= hi.
  Hypothesis Hhi : hi <= length col.
  Let seg := slice lo hi col.
  Hypothesis Hs : sorted seg.

  Lemma in_ranges_strict S : ssorted S ->
    expand (map (fun v => (my_bisect_left col v lo hi, my_bisect_right col v lo hi)) S)
    = scan (fun c => existsb (ceq c) S) lo seg.
  Proof.
    induction S as [|v S' IH]; intros HS.
    - cbn. symmetry. apply (proj1 (scan_none _ lo seg (fun _ _ => eq_refl))).
    - inversion HS as [|? ? HS' Hall]; subst. cbn [map].
      change ((my_bisect_left col v lo hi, my_bisect_right col v lo hi) :: ?r) with ([(my_bisect_left col v lo hi, my_bisect_right col v lo hi)] ++ r).
      rewrite expand_app, IH by exact HS'. rewrite (range_eq col lo hi Hlo Hhi Hs v).
      cbn [existsb]. symmetry. apply scan_or_split; [|exact Hs].
      intros x y Hx Hy. apply ceq_eq in Hx. subst x. apply existsb_In in Hy.
      rewrite Forall_forall in Hall. apply Hall. exact Hy.
  Qed.

  Theorem in_bisect_eq_scan vs a : expand (ranges OIn a vs col lo hi) = scan (sat OIn a vs) lo seg.
  Proof.
    cbn [ranges sat]. rewrite in_ranges_strict by (apply cdedup_ssorted, csort_sorted).
    apply scan_ext. intros c _. apply existsb_same. intros x. rewrite cdedup_In, csort_In. reflexivity.
  Qed.
End RangesIn.

(* ---- the `!in` operator: the gaps between consecutive sorted values (duplicates give empty gaps) *)
Section RangesNin.
  Variables (col : list cell) (lo hi : nat).
  Hypothesis Hlo : lo <= hi.
  Hypothesis Hhi : hi <= length col.
  Let seg := slice lo hi col.
  Hypothesis Hs : sorted seg.
  Let Lseg : length seg = hi - lo := slice_length lo hi col Hlo Hhi.

  Definition gaps (start : nat) (s : list cell) : list (nat * nat) :=
    combine (start :: map (fun v => my_bisect_right col v lo hi) s) (map (fun v => my_bisect_left col v lo hi) s ++ [hi]).

  Lemma gaps_cons start v s : gaps start (v :: s) = (start, my_bisect_left col v lo hi) :: gaps (my_bisect_right col v lo hi) s.
  Proof. reflexivity. Qed.

  Lemma gaps_spec : forall s (P : cell -> bool), antitone P -> sorted s ->
    (forall v c, In v s -> P c = true -> cle c v = true) ->
    expand (gaps (lo + count P seg) s) = scan (fun c => negb (P c) && negb (existsb (ceq c) s)) lo seg.
  Proof.
    induction s as [|v s IH]; intros P AP Ss HP.
    - unfold gaps. cbn [map app combine]. unfold expand. cbn [flat_map fst snd]. rewrite app_nil_r.
      rewrite (scan_ext _ (fun c => true && negb (P c))) by (intros; cbn [existsb negb]; rewrite andb_true_r; reflexivity).
      rewrite (scan_interval_gen _ _ (antitone_const true) AP) by exact Hs.
      rewrite count_true, Lseg. f_equal. pose proof (count_le_length P seg). lia.
    - inversion Ss as [|? ? Ss' Hall]; subst. rewrite gaps_cons.
      change ((lo + count P seg, my_bisect_left col v lo hi) :: ?r) with ([(lo + count P seg, my_bisect_left col v lo hi)] ++ r).
      rewrite expand_app. rewrite (br_eq col lo hi Hlo Hhi Hs v). change (slice lo hi col) with seg.
      rewrite (IH (fun c => cle c v) (antitone_le v) Ss').
      2:{ intros w c Hw Hc. rewrite Forall_forall in Hall. eapply cle_trans; [exact Hc|apply Hall; exact Hw]. }
      rewrite (bl_eq col lo hi Hlo Hhi Hs v). change (slice lo hi col) with seg. unfold expand at 1. cbn [flat_map fst snd]. rewrite app_nil_r.
      replace (lo + count (fun c => clt c v) seg - (lo + count P seg)) with (count (fun c => clt c v) seg - count P seg) by lia.
      rewrite <- (scan_interval_gen _ _ (antitone_lt v) AP seg lo Hs).
      assert (Below : forall x y, clt x v && negb (P x) = true -> negb (cle y v) && negb (existsb (ceq y) s) = true -> clt x y = true).
      { intros x y Hx Hy. apply andb_true_iff in Hx. apply andb_true_iff in Hy.
        destruct Hx as [Hx _]. destruct Hy as [Hy _]. rewrite <- clt_not_cle in Hy.
        apply (clt_cle_trans x v y Hx). apply lt_sub_le. exact Hy. }
      rewrite <- (scan_or_split _ _ Below seg lo Hs).
      apply scan_ext. intros c _. cbn [existsb].
      destruct (clt c v) eqn:E1.
      + (* c < v: not equal to v, not in s (all >= v) *)
        assert (N1 : ceq c v = false).
        { destruct (ceq c v) eqn:E; [|reflexivity]. apply ceq_eq in E. subst. rewrite clt_irrefl in E1. discriminate. }
        assert (N2 : existsb (ceq c) s = false).
        { destruct (existsb (ceq c) s) eqn:E; [|reflexivity]. apply existsb_In in E.
          rewrite Forall_forall in Hall. pose proof (cle_clt_trans _ _ _ (Hall c E) E1) as C. rewrite clt_irrefl in C. discriminate. }
        rewrite N1, N2. cbn [orb negb andb]. rewrite (lt_sub_le _ _ E1). cbn [negb andb]. rewrite orb_false_r, andb_true_r. reflexivity.
      + cbn [andb orb]. destruct (cle c v) eqn:E2.
        * (* c = v *)
          assert (Ev : ceq c v = true) by (unfold cle in E2; rewrite E1 in E2; exact E2).
          rewrite Ev. cbn [orb negb andb]. rewrite andb_false_r. reflexivity.
        * (* c > v: P c is false *)
          assert (NP : P c = false).
          { destruct (P c) eqn:E; [|reflexivity]. rewrite (HP v c (or_introl eq_refl) E) in E2. discriminate. }
          assert (N1 : ceq c v = false) by (unfold cle in E2; rewrite E1 in E2; exact E2).
          rewrite NP, N1. reflexivity.
  Qed.

  Theorem nin_bisect_eq_scan vs a : expand (ranges ONin a vs col lo hi) = scan (sat ONin a vs) lo seg.
  Proof.
    cbn [ranges sat]. fold (gaps lo (csort vs)).
    replace lo with (lo + count (fun _ => false) seg) at 1 by (rewrite count_false; lia).
    rewrite (gaps_spec (csort vs) (fun _ => false) (antitone_const false) (csort_sorted vs)) by discriminate.
    apply scan_ext. intros c _. cbn [negb andb sat]. f_equal. apply existsb_same. intros x. apply csort_In.
  Qed.
End RangesNin.

(* ---- all operators *)
Theorem bisect_eq_scan_all o a vs col lo hi : lo <= hi -> hi <= length col -> sorted (slice lo hi col) ->
  (match o with OIn | ONin => True | _ => vs = [] end) ->
  expand (ranges o a vs col lo hi) = scan (sat o a vs) lo (slice lo hi col).
Proof.
  intros H1 H2 Hs Hv. destruct o; try (subst vs; apply scalar_ops_bisect_eq_scan; auto; exact I).
  - apply in_bisect_eq_scan; assumption.
  - apply nin_bisect_eq_scan; assumption.
Qed.

(* the scan is the plain row-by-row evaluation: exactly the positions whose cell satisfies the predicate, ascending *)
Lemma scan_spec p lo seg i : In i (scan p lo seg) <-> exists k, i = lo + k /\ k < length seg /\ p (nth k seg None) = true.
Proof.
  revert lo i. induction seg as [|c t IH]; intros lo i; cbn [scan].
  - split; [intros []|intros [k [_ [H _]]]; cbn in H; lia].
  - destruct (p c) eqn:E.
    + cbn [In]. rewrite IH. split.
      * intros [<-|[k [-> [Hk Hp]]]]; [exists 0; cbn; repeat split; [lia|lia|exact E]|exists (S k); cbn; repeat split; [lia|lia|exact Hp]].
      * intros [[|k] [-> [Hk Hp]]]; [left; lia|right; exists k; cbn in *; repeat split; [lia|lia|exact Hp]].
    + rewrite IH. split.
      * intros [k [-> [Hk Hp]]]. exists (S k); cbn; repeat split; [lia|lia|exact Hp].
      * intros [[|k] [-> [Hk Hp]]]; [cbn in Hp; congruence|exists k; cbn in *; repeat split; [lia|lia|exact Hp]].
Qed.
