(* wire codec + register machine for the C17 correspondence check *)
From Coq Require Import ZArith List Bool.
From Coba Require Import Common.Sx C17.Model.
Import ListNotations.

Definition dec_cell (x : sx) : cell := as_opt as_z x.
Definition enc_cell (c : cell) : sx := of_opt Z_ c.
Definition dec_op (z : Z) : op :=
  match z with 0 => OEq | 1 => ONe | 2 => OLt | 3 => OLe | 4 => OGt | 5 => OGe | 6 => OIn | _ => ONin end%Z.
Definition dec_cond (x : sx) : cond :=
  (as_z (nth_sx 0 x), dec_op (as_z (nth_sx 1 x)), dec_cell (nth_sx 2 x), map dec_cell (as_l (nth_sx 3 x))).

Definition dump (t : table) : sx :=
  L_ [of_zs (map fst (cols t)); of_zs (idxs t); L_ (map (fun r => L_ (map enc_cell r)) (rows t))].

Definition step (regs : list table) (o : sx) : list table * sx :=
  let r := as_nat (nth_sx 1 o) in
  let t := nth r regs {| cols := []; idxs := [] |} in
  let set := fun t' => (firstn r regs ++ t' :: skipn (S r) regs, dump t') in
  match as_z (nth_sx 0 o) with
  | 0 => set (insert_rows t (map (fun row => map dec_cell (as_l row)) (as_l (nth_sx 2 o))))
  | 1 => set (insert_dicts t (map (fun d => map (fun kv => (as_z (nth_sx 0 kv), dec_cell (nth_sx 1 kv))) (as_l d)) (as_l (nth_sx 2 o))))
  | 2 => set (index t (as_zs (nth_sx 2 o)))
  | 3 => let t' := where_ t (map dec_cond (as_l (nth_sx 2 o))) in (regs ++ [t'], dump t')
  | 4 => (regs, L_ (map (fun g => L_ [L_ (map enc_cell (fst g)); of_nat (snd g)]) (groupby t (as_nat (nth_sx 2 o)))))
  | _ => (regs ++ [t], dump t)
  end%Z.

Fixpoint steps (regs : list table) (ops : list sx) : list sx :=
  match ops with
  | [] => []
  | o :: ops' => let (regs', out) := step regs o in out :: steps regs' ops'
  end.

Definition run (x : sx) : sx :=
  let t0 := {| cols := map (fun n => (n, [])) (as_zs (nth_sx 0 x)); idxs := [] |} in
  L_ (steps [t0] (as_l (nth_sx 1 x))).
