(* The index invariant read as an order on rows: a table satisfies the level-by-level invariant exactly when its rows are sorted lexicographically by
   their index key; the runs of every level are the maximal groups of rows with equal key prefix. *)
From Coq Require Import ZArith List Bool Arith Lia Sorting.Sorted.
From Coba Require Import C17.Model C17.Proofs C17.ProofsIndex C17.ProofsBuild.
Import ListNotations.

(* ---- positions of a slice *)
Lemma nth_slice {A} (d : A) lo hi (l : list A) k : k < hi - lo -> nth k (slice lo hi l) d = nth (lo + k) l d.
Proof.
  intros Hk. unfold slice. rewrite <- nth_skipn'. revert k Hk. generalize (hi - lo) as m. generalize (skipn lo l) as s.
  induction s as [|x s IH]; intros m k Hk; [rewrite firstn_nil; reflexivity|]. destruct m as [|m]; [lia|]. destruct k as [|k]; [reflexivity|]. cbn. apply IH. lia.
Qed.
Lemma sorted_nth seg : sorted seg -> forall i j, i < j -> j < length seg -> cle (nth i seg None) (nth j seg None) = true.
Proof.
  induction 1 as [|x t St IH Hall]; intros i j Hij Hj; [cbn in Hj; lia|]. destruct j as [|j]; [lia|]. cbn in Hj. destruct i as [|i].
  - cbn [nth]. rewrite Forall_forall in Hall. apply Hall. apply nth_In. lia.
  - cbn [nth]. apply IH; lia.
Qed.
Lemma sorted_of_nth seg : (forall i j, i < j -> j < length seg -> cle (nth i seg None) (nth j seg None) = true) -> sorted seg.
Proof.
  induction seg as [|x t IH]; intros H; [constructor|]. constructor.
  - apply IH. intros i j Hij Hj. apply (H (S i) (S j)); cbn; lia.
  - rewrite Forall_forall. intros c Hc. destruct (In_nth t c None Hc) as [k [Hk <-]]. apply (H 0 (S k)); cbn; lia.
Qed.

Lemma In_firstn_nth {A} (d : A) : forall k (l : list A) m, m < k -> k <= length l -> In (nth m l d) (firstn k l).
Proof.
  induction k as [|k IH]; intros l m Hm Hk; [lia|]. destruct l as [|x l]; [cbn in Hk; lia|]. cbn in Hk. destruct m as [|m]; [left; reflexivity|]. right. cbn [nth]. apply IH; lia.
Qed.

(* beyond the first count(<= v) elements of a sorted tail everything is strictly greater than the head *)
Lemma sorted_suffix_greater v t : sorted (v :: t) -> forall m, count (fun c => cle c v) t <= m -> m < length t -> clt v (nth m t None) = true.
Proof.
  intros Hs. inversion Hs as [|? ? St Hall]; subst. clear Hs. revert Hall. induction St as [|h t' St' IH Hall']; intros Hall m Hm Hl; [cbn in Hl; lia|].
  rewrite count_cons in Hm. inversion Hall as [|? ? Hvh Hvt]; subst. destruct (cle h v) eqn:E.
  - destruct m as [|m]; [lia|]. cbn [nth]. apply IH; [exact Hvt|lia|cbn in Hl; lia].
  - assert (clt v h = true) as Hlt by (rewrite clt_not_cle, E; reflexivity). destruct m as [|m]; [exact Hlt|]. cbn [nth]. cbn in Hl.
    rewrite Forall_forall in Hall'. apply (clt_cle_trans v h); [exact Hlt|]. apply Hall'. apply nth_In. lia.
Qed.

(* the runs sub_lohis produces: inside [lo,hi), non-empty, constant, and strictly below everything after them *)
Lemma sub_lohis_runs col : forall fuel lo hi, lo <= hi -> hi <= length col -> sorted (slice lo hi col) -> hi - lo <= fuel ->
  forall u w, In (u, w) (sub_lohis fuel col lo hi) ->
  lo <= u /\ u < w /\ w <= hi /\ (forall i, u <= i -> i < w -> nth i col None = nth u col None) /\ (forall j, w <= j -> j < hi -> clt (nth u col None) (nth j col None) = true).
Proof.
  induction fuel as [|f IH]; intros lo hi H1 H2 Hs Hf u w Hin; [destruct Hin|].
  cbn [sub_lohis] in Hin. destruct (lo =? hi) eqn:E; [destruct Hin|]. apply Nat.eqb_neq in E.
  set (v := nth lo col None) in *. rewrite (my_bisect_right_ok col v lo hi H1 H2 Hs) in Hin.
  destruct (slice_head lo hi col ltac:(lia) H2) as [t Et]. fold v in Et.
  unfold bisect_right in Hin. rewrite Et, count_cons in Hin.
  assert (cle v v = true) as Hvv by (unfold cle; rewrite ceq_refl; apply orb_true_r). rewrite Hvv in Hin.
  pose proof (count_le_length (fun c => cle c v) t) as Hc.
  assert (length t = hi - lo - 1) as Hlt. { pose proof (slice_length lo hi col H1 H2) as L. rewrite Et in L. cbn in L. lia. }
  set (k := count (fun c : cell => cle c v) t) in *.
  assert (forall i, lo < i -> i < hi -> nth i col None = nth (i - lo - 1) t None) as Hnth.
  { intros i Hi1 Hi2. pose proof (@nth_slice cell None lo hi col (i - lo) ltac:(lia)) as Q. replace (lo + (i - lo)) with i in Q by lia.
    etransitivity; [symmetry; exact Q|]. rewrite Et. destruct (i - lo) as [|q] eqn:Eq; [lia|]. cbn [nth]. replace (S q - 1) with q by lia. reflexivity. }
  destruct Hin as [Ehd|Hin].
  - assert (u = lo /\ w = lo + (1 + k)) as [-> ->] by (injection Ehd; intros; split; congruence). fold v. rewrite Et in Hs. repeat split; try lia.
    + intros i Hi1 Hi2. destruct (Nat.eq_dec i lo) as [->|Hne]; [reflexivity|]. rewrite Hnth by lia.
      apply (sorted_prefix_equal v t Hs). apply In_firstn_nth; lia.
    + intros j Hj1 Hj2. rewrite Hnth by lia. apply (sorted_suffix_greater v t Hs); lia.
  - destruct (lo + (1 + k) <=? lo) eqn:En; [destruct Hin|].
    assert (sorted (slice (lo + (1 + k)) hi col)) as Hs' by (apply (sorted_slice_suffix col lo (lo + (1 + k)) hi); [lia|lia|exact H2|exact Hs]).
    destruct (IH (lo + (1 + k)) hi ltac:(lia) H2 Hs' ltac:(lia) u w Hin) as [B1 [B2 [B3 [B4 B5]]]]. repeat split; try lia; assumption.
Qed.

(* ---- the index key of a row and the lexicographic order *)
Definition key (t : table) (ix : list Z) (i : nat) : list cell := map (fun k => nth i (colv t k) None) ix.
Fixpoint lexle (a b : list cell) : bool :=
  match a, b with x :: a', y :: b' => clt x y || (ceq x y && lexle a' b') | _, _ => true end.
Definition lexsorted (t : table) (ix : list Z) (lo hi : nat) : Prop := forall i j, lo <= i -> i < j -> j < hi -> lexle (key t ix i) (key t ix j) = true.

Lemma key_cons t k rest i : key t (k :: rest) i = nth i (colv t k) None :: key t rest i.
Proof. reflexivity. Qed.

Lemma chain_cover a b runs i : chain a b runs -> a <= i -> i < b -> exists u w, In (u, w) runs /\ u <= i /\ i < w.
Proof.
  induction 1 as [a|a m b r Ham Hc IH]; intros H1 H2; [lia|]. destruct (Nat.lt_ge_cases i m) as [Hlt|Hge].
  - exists a, m. split; [left; reflexivity|lia].
  - destruct (IH Hge H2) as [u [w [Hin Hb]]]. exists u, w. split; [right; exact Hin|exact Hb].
Qed.

Section Lex.
  Variable t : table.
  Notation n := (nrows t).
  Notation sub k := (fun r : nat * nat => sub_lohis (snd r - fst r) (colv t k) (fst r) (snd r)).

  Lemma sub_bounds k cur : length (colv t k) = n -> (forall x y, In (x, y) cur -> x <= y /\ y <= n) -> Forall (fun r => sorted (slice (fst r) (snd r) (colv t k))) cur ->
    forall u w, In (u, w) (flat_map (sub k) cur) -> exists x y, In (x, y) cur /\ x <= u /\ u < w /\ w <= y /\
      (forall i, u <= i -> i < w -> nth i (colv t k) None = nth u (colv t k) None) /\ (forall j, w <= j -> j < y -> clt (nth u (colv t k) None) (nth j (colv t k) None) = true).
  Proof.
    intros Hlen Hb Hs u w Hin. apply in_flat_map in Hin. destruct Hin as [[x y] [Hxy Hin]]. cbn [fst snd] in Hin. destruct (Hb x y Hxy) as [Bx By].
    rewrite Forall_forall in Hs. specialize (Hs (x, y) Hxy). cbn [fst snd] in Hs. rewrite <- Hlen in By.
    destruct (sub_lohis_runs (colv t k) (y - x) x y Bx By Hs (le_n _) u w Hin) as [B1 [B2 [B3 [B4 B5]]]]. exists x, y. repeat split; assumption.
  Qed.

  (* invariant => lexicographic order inside every current run *)
  Lemma ix_ok_lex : forall ix cur, (forall x y, In (x, y) cur -> x <= y /\ y <= n) -> ix_ok t ix cur -> forall x y, In (x, y) cur -> lexsorted t ix x y.
  Proof.
    induction ix as [|k rest IH]; intros cur Hb Hok x y Hxy i j Hi Hij Hj; [reflexivity|].
    cbn [ix_ok] in Hok. destruct Hok as [Hlen [Hsorted Hrest]]. pose proof (sub_bounds k cur Hlen Hb Hsorted) as SB.
    assert (forall u w, In (u, w) (flat_map (sub k) cur) -> u <= w /\ w <= n) as Hb'.
    { intros u w Hin. destruct (SB u w Hin) as [x' [y' [Hin' [B1 [B2 [B3 _]]]]]]. destruct (Hb x' y' Hin'). lia. }
    specialize (IH _ Hb' Hrest). destruct (Hb x y Hxy) as [Bx By].
    assert (sorted (slice x y (colv t k))) as Hs by (rewrite Forall_forall in Hsorted; exact (Hsorted (x, y) Hxy)).
    assert (chain x y (sub k (x, y))) as Hc by (cbn [fst snd]; apply sub_lohis_chain; [lia|rewrite Hlen; lia|exact Hs|lia]).
    destruct (chain_cover x y _ i Hc Hi ltac:(lia)) as [u [w [Hin [Hu Hw]]]].
    assert (In (u, w) (flat_map (sub k) cur)) as Hin' by (apply in_flat_map; exists (x, y); split; assumption).
    cbn [fst snd] in Hin. rewrite <- Hlen in By.
    destruct (sub_lohis_runs (colv t k) (y - x) x y Bx By Hs (le_n _) u w Hin) as [B1 [B2 [B3 [B4 B5]]]].
    rewrite !key_cons. cbn [lexle]. destruct (Nat.lt_ge_cases j w) as [Hjw|Hjw].
    - rewrite (B4 i Hu Hw), (B4 j ltac:(lia) Hjw), ceq_refl. cbn [andb]. rewrite (IH u w Hin' i j Hu Hij Hjw). apply orb_true_r.
    - rewrite (B4 i Hu Hw), (B5 j Hjw Hj). reflexivity.
  Qed.

  (* lexicographic order inside every current run => invariant *)
  Lemma lex_ix_ok : forall ix cur, (forall k, In k ix -> length (colv t k) = n) -> (forall x y, In (x, y) cur -> x <= y /\ y <= n) ->
    (forall x y, In (x, y) cur -> lexsorted t ix x y) -> ix_ok t ix cur.
  Proof.
    induction ix as [|k rest IH]; intros cur Hlen Hb Hlex; [exact I|]. cbn [ix_ok]. pose proof (Hlen k (or_introl eq_refl)) as Hl.
    assert (Forall (fun r => sorted (slice (fst r) (snd r) (colv t k))) cur) as Hsorted.
    { rewrite Forall_forall. intros [x y] Hxy. cbn [fst snd]. destruct (Hb x y Hxy) as [Bx By]. apply sorted_of_nth. intros i j Hij Hj.
      assert (y <= length (colv t k)) as By' by (rewrite Hl; exact By). rewrite slice_length in Hj by (first [exact Bx|exact By']). rewrite !(@nth_slice cell) by lia.
      specialize (Hlex x y Hxy (x + i) (x + j) ltac:(lia) ltac:(lia) ltac:(lia)). rewrite !key_cons in Hlex. cbn [lexle] in Hlex. unfold cle.
      destruct (clt (nth (x + i) (colv t k) None) (nth (x + j) (colv t k) None)); [reflexivity|]. cbn [orb] in *. apply andb_true_iff in Hlex. exact (proj1 Hlex). }
    split; [exact Hl|]. split; [exact Hsorted|]. pose proof (sub_bounds k cur Hl Hb Hsorted) as SB. apply IH.
    - intros k' Hk'. apply Hlen. right. exact Hk'.
    - intros u w Hin. destruct (SB u w Hin) as [x' [y' [Hin' [B1 [B2 [B3 _]]]]]]. destruct (Hb x' y' Hin'). lia.
    - intros u w Hin i j Hi Hij Hj. destruct (SB u w Hin) as [x' [y' [Hin' [B1 [B2 [B3 [B4 _]]]]]]].
      specialize (Hlex x' y' Hin' i j ltac:(lia) Hij ltac:(lia)). rewrite !key_cons in Hlex. cbn [lexle] in Hlex.
      rewrite (B4 i Hi ltac:(lia)), (B4 j ltac:(lia) Hj), clt_irrefl, ceq_refl in Hlex. exact Hlex.
  Qed.
End Lex.
