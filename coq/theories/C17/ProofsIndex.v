(* where on an indexed table: the runs of every index level chain-partition [0,n); if every run of level j is sorted in the level's column
   (the index invariant) then selecting through the runs with bisect equals the row-by-row scan of the whole column. *)
From Coq Require Import ZArith List Bool Arith Lia Sorting.Sorted.
From Coba Require Import C17.Model C17.Proofs.
Import ListNotations.

Inductive chain : nat -> nat -> list (nat * nat) -> Prop :=
| chain_nil a : chain a a []
| chain_cons a m b r : a <= m -> chain m b r -> chain a b ((a, m) :: r).

Lemma chain_le a b r : chain a b r -> a <= b.
Proof. induction 1; lia. Qed.
Lemma chain_app a m b r1 r2 : chain a m r1 -> chain m b r2 -> chain a b (r1 ++ r2).
Proof. induction 1; intros H2; cbn; [exact H2|]. constructor; [assumption|]. apply IHchain. exact H2. Qed.
Lemma chain_in a b r x y : chain a b r -> In (x, y) r -> a <= x /\ x <= y /\ y <= b.
Proof.
  induction 1 as [a|a m b r Ham Hc IH]; intros Hin; [destruct Hin|]. pose proof (chain_le _ _ _ Hc). destruct Hin as [E|Hin].
  - injection E as <- <-. lia.
  - specialize (IH Hin). lia.
Qed.
Lemma chain_flat_map a b runs (f : nat * nat -> list (nat * nat)) :
  chain a b runs -> (forall x y, In (x, y) runs -> chain x y (f (x, y))) -> chain a b (flat_map f runs).
Proof.
  induction 1 as [a|a m b r Ham Hc IH]; intros Hf; cbn; [constructor|].
  apply chain_app with m; [apply Hf; left; reflexivity|apply IH; intros x y Hin; apply Hf; right; exact Hin].
Qed.

(* ---- slices and scans over consecutive segments *)
Lemma skipn_skipn_own {A} : forall n m (l : list A), skipn n (skipn m l) = skipn (m + n) l.
Proof. induction m as [|m IH]; intros l; [reflexivity|]. destruct l as [|x t]; [cbn; destruct n; reflexivity|]. cbn [skipn Nat.add]. apply IH. Qed.
Lemma slice_split {A} a m b (l : list A) : a <= m -> m <= b -> b <= length l -> slice a b l = slice a m l ++ slice m b l.
Proof.
  intros H1 H2 H3. unfold slice. replace (b - a) with ((m - a) + (b - m)) by lia.
  rewrite <- (firstn_skipn (m - a) (skipn a l)) at 1. rewrite firstn_app, firstn_firstn.
  replace (Nat.min (m - a + (b - m)) (m - a)) with (m - a) by lia. f_equal.
  rewrite firstn_length, skipn_length. replace (m - a + (b - m) - Nat.min (m - a) (length l - a)) with (b - m) by lia.
  rewrite skipn_skipn_own. replace (a + (m - a)) with m by lia. reflexivity.
Qed.

Lemma scan_app p : forall s1 lo s2, scan p lo (s1 ++ s2) = scan p lo s1 ++ scan p (lo + length s1) s2.
Proof.
  induction s1 as [|c t IH]; intros lo s2; cbn [app scan length]; [rewrite Nat.add_0_r; reflexivity|].
  rewrite IH. replace (S lo + length t) with (lo + S (length t)) by lia. destruct (p c); reflexivity.
Qed.

Lemma scan_chain p col a b runs : chain a b runs -> b <= length col ->
  flat_map (fun r => scan p (fst r) (slice (fst r) (snd r) col)) runs = scan p a (slice a b col).
Proof.
  induction 1 as [a|a m b r Ham Hc IH]; intros Hb.
  - cbn. unfold slice. rewrite Nat.sub_diag. reflexivity.
  - pose proof (chain_le _ _ _ Hc). cbn [flat_map fst snd]. rewrite IH by exact Hb.
    rewrite (slice_split a m b col) by lia. rewrite scan_app, slice_length by lia. replace (a + (m - a)) with m by lia. reflexivity.
Qed.

Lemma sorted_app_r (l1 l2 : list cell) : sorted (l1 ++ l2) -> sorted l2.
Proof. induction l1 as [|x t IH]; intros H; [exact H|]. inversion H; subst. apply IH. assumption. Qed.
Lemma sorted_slice_suffix col lo m hi : lo <= m -> m <= hi -> hi <= length col -> sorted (slice lo hi col) -> sorted (slice m hi col).
Proof. intros H1 H2 H3 Hs. rewrite (slice_split lo m hi col) in Hs by lia. exact (sorted_app_r _ _ Hs). Qed.

(* ---- the runs of equal values of a sorted segment chain from lo to hi *)
Lemma sub_lohis_chain col : forall fuel lo hi, lo <= hi -> hi <= length col -> sorted (slice lo hi col) -> hi - lo <= fuel ->
  chain lo hi (sub_lohis fuel col lo hi).
Proof.
  induction fuel as [|f IH]; intros lo hi H1 H2 Hs Hf.
  - assert (lo = hi) by lia. subst. constructor.
  - cbn [sub_lohis]. destruct (lo =? hi) eqn:E; [apply Nat.eqb_eq in E; subst; constructor|]. apply Nat.eqb_neq in E.
    set (v := nth lo col None). rewrite (my_bisect_right_ok col v lo hi H1 H2 Hs).
    destruct (slice_head lo hi col ltac:(lia) H2) as [t Et]. fold v in Et.
    unfold bisect_right. rewrite Et, count_cons.
    assert (cle v v = true) as Hvv by (unfold cle; rewrite ceq_refl; apply orb_true_r). rewrite Hvv.
    pose proof (count_le_length (fun c => cle c v) t) as Hc.
    assert (length t = hi - lo - 1) as Hlt. { pose proof (slice_length lo hi col H1 H2) as L. rewrite Et in L. cbn in L. lia. }
    set (nh := lo + (1 + count (fun c : cell => cle c v) t)) in *.
    assert (lo < nh /\ nh <= hi) as [Hn1 Hn2] by (unfold nh; lia).
    destruct (nh <=? lo) eqn:En; [apply Nat.leb_le in En; lia|].
    constructor; [lia|]. apply IH; [lia|exact H2| |lia].
    apply (sorted_slice_suffix col lo nh hi); [lia|lia|exact H2|exact Hs].
Qed.

(* ---- the index invariant, level by level (mirrors calc_lohis) *)
Definition colv (t : table) (k : Z) : list cell := match col_of t k with Some v => v | None => [] end.
Fixpoint ix_ok (t : table) (ix : list Z) (cur : list (nat * nat)) : Prop :=
  match ix with
  | [] => True
  | k :: rest => length (colv t k) = nrows t /\ Forall (fun r => sorted (slice (fst r) (snd r) (colv t k))) cur /\
                 ix_ok t rest (flat_map (fun r => sub_lohis (snd r - fst r) (colv t k) (fst r) (snd r)) cur)
  end.
Definition indexed_ok (t : table) : Prop := ix_ok t (idxs t) [(0, nrows t)].

Lemma calc_lohis_spec t : forall ix cur, chain 0 (nrows t) cur -> ix_ok t ix cur ->
  forall k runs, In (k, runs) (calc_lohis t ix cur) ->
  chain 0 (nrows t) runs /\ length (colv t k) = nrows t /\ Forall (fun r => sorted (slice (fst r) (snd r) (colv t k))) runs.
Proof.
  induction ix as [|k0 rest IH]; intros cur Hc Hok k runs Hin; [destruct Hin|].
  cbn [calc_lohis] in Hin. cbn [ix_ok] in Hok. destruct Hok as [Hlen [Hsorted Hrest]]. fold (colv t k0) in Hin. destruct Hin as [E|Hin].
  - injection E as <- <-. repeat split; assumption.
  - assert (chain 0 (nrows t) (flat_map (fun r => sub_lohis (snd r - fst r) (colv t k0) (fst r) (snd r)) cur)) as Hc'.
    { apply chain_flat_map; [exact Hc|]. intros x y Hxy. pose proof (chain_in _ _ _ x y Hc Hxy) as [B1 [B2 B3]]. cbn [fst snd].
      apply sub_lohis_chain; [lia|lia| |lia]. rewrite Forall_forall in Hsorted. exact (Hsorted (x, y) Hxy). }
    exact (IH _ Hc' Hrest k runs Hin).
Qed.

Lemma flat_map_ext_in' {A B} (f g : A -> list B) l : (forall x, In x l -> f x = g x) -> flat_map f l = flat_map g l.
Proof. induction l as [|h t IH]; intros H; [reflexivity|]. cbn. rewrite (H h (or_introl eq_refl)), IH; [reflexivity|]. intros x Hx. apply H. right. exact Hx. Qed.

Lemma slice_all {A} (l : list A) n : length l = n -> slice 0 n l = l.
Proof. intros <-. unfold slice. cbn. rewrite Nat.sub_0_r. apply firstn_all. Qed.

(* ---- the theorem: on a table that satisfies the index invariant, one keyword condition selects exactly the rows a scan selects, in table order *)
Theorem select1_eq_scan t kw o a vs : indexed_ok t -> (match o with OIn | ONin => True | _ => vs = [] end) ->
  select1 t (kw, o, a, vs) = scan (sat o a vs) 0 (colv t kw).
Proof.
  intros Hok Hv. unfold select1. fold (colv t kw). destruct (lohis_of t kw) as [lohis|] eqn:El; [|reflexivity].
  unfold lohis_of in El. destruct (find (fun p => (fst p =? kw)%Z) (calc_lohis t (idxs t) [(0, nrows t)])) as [[k runs]|] eqn:Ef; [|discriminate].
  cbn in El. injection El as <-. apply find_some in Ef. destruct Ef as [Hin Hk]. cbn in Hk. apply Z.eqb_eq in Hk. subst k.
  assert (chain 0 (nrows t) [(0, nrows t)]) as Hc0 by (constructor; [lia|constructor]).
  destruct (calc_lohis_spec t (idxs t) _ Hc0 Hok kw runs Hin) as [Hc [Hlen Hs]].
  transitivity (scan (sat o a vs) 0 (slice 0 (nrows t) (colv t kw))); [|rewrite (slice_all (colv t kw) (nrows t) Hlen); reflexivity].
  rewrite <- (scan_chain (sat o a vs) (colv t kw) 0 (nrows t) runs Hc ltac:(lia)).
  apply flat_map_ext_in'. intros [x y] Hxy. cbn [fst snd]. pose proof (chain_in _ _ _ x y Hc Hxy) as [B1 [B2 B3]].
  rewrite Forall_forall in Hs. apply bisect_eq_scan_all; [lia|lia|exact (Hs (x, y) Hxy)|exact Hv].
Qed.
