(* groupby: the runs of an index level are exactly the groups of rows with equal index-key prefix. *)
From Coq Require Import ZArith List Bool Arith Lia Sorting.Sorted.
From Coba Require Import C17.Model C17.Proofs C17.ProofsIndex C17.ProofsBuild C17.ProofsLex.
Import ListNotations.

Definition same_run (runs : list (nat * nat)) (i i' : nat) : Prop := exists u w, In (u, w) runs /\ u <= i /\ i < w /\ u <= i' /\ i' < w.

Lemma key_app t a b i : key t (a ++ b) i = key t a i ++ key t b i.
Proof. unfold key. apply map_app. Qed.

Section Group.
  Variable t : table.
  Notation n := (nrows t).
  Notation sub k := (fun r : nat * nat => sub_lohis (snd r - fst r) (colv t k) (fst r) (snd r)).

  Lemma refine_groups k pre cur : length (colv t k) = n -> (forall x y, In (x, y) cur -> x <= y /\ y <= n) -> Forall (fun r => sorted (slice (fst r) (snd r) (colv t k))) cur ->
    (forall i i', i < n -> i' < n -> (same_run cur i i' <-> key t pre i = key t pre i')) ->
    forall i i', i < n -> i' < n -> (same_run (flat_map (sub k) cur) i i' <-> key t (pre ++ [k]) i = key t (pre ++ [k]) i').
  Proof.
    intros Hlen Hb Hs Hpre i i' Hi Hi'. pose proof (sub_bounds t k cur Hlen Hb Hs) as SB. rewrite !key_app. cbn [key map]. split.
    - intros [u [w [Hin [A1 [A2 [A3 A4]]]]]]. destruct (SB u w Hin) as [x [y [Hxy [B1 [B2 [B3 [B4 B5]]]]]]]. f_equal.
      + apply Hpre; [exact Hi|exact Hi'|]. exists x, y. split; [exact Hxy|lia].
      + rewrite (B4 i A1 A2), (B4 i' A3 A4). reflexivity.
    - intros E. apply app_inj_tail in E. destruct E as [E1 E2]. apply (Hpre i i' Hi Hi') in E1. destruct E1 as [x [y [Hxy [A1 [A2 [A3 A4]]]]]].
      destruct (Hb x y Hxy) as [Bx By]. rewrite Forall_forall in Hs. pose proof (Hs (x, y) Hxy) as Hsxy. cbn [fst snd] in Hsxy.
      assert (chain x y (sub k (x, y))) as Hc by (cbn [fst snd]; apply sub_lohis_chain; [lia|rewrite Hlen; lia|exact Hsxy|lia]).
      assert (forall u w, In (u, w) (sub k (x, y)) -> In (u, w) (flat_map (sub k) cur)) as Hup by (intros u w Hin; apply in_flat_map; exists (x, y); split; assumption).
      assert (forall u w, In (u, w) (sub k (x, y)) -> x <= u /\ u < w /\ w <= y /\ (forall j, u <= j -> j < w -> nth j (colv t k) None = nth u (colv t k) None) /\
                (forall j, w <= j -> j < y -> clt (nth u (colv t k) None) (nth j (colv t k) None) = true)) as Hfacts.
      { intros u w Hin. cbn [fst snd] in Hin. rewrite <- Hlen in By. exact (sub_lohis_runs (colv t k) (y - x) x y Bx By Hsxy (le_n _) u w Hin). }
      destruct (chain_cover x y _ i Hc A1 A2) as [u [w [Hin [C1 C2]]]]. destruct (Hfacts u w Hin) as [F1 [F2 [F3 [F4 F5]]]].
      destruct (Nat.lt_ge_cases i' w) as [Hlt|Hge].
      + destruct (Nat.lt_ge_cases i' u) as [Hlt'|Hge'].
        * destruct (chain_cover x y _ i' Hc A3 A4) as [u' [w' [Hin' [D1 D2]]]]. destruct (Hfacts u' w' Hin') as [G1 [G2 [G3 [G4 G5]]]].
          destruct (Nat.lt_ge_cases i w') as [Hiw|Hiw]; [exists u', w'; split; [exact (Hup _ _ Hin')|lia]|].
          exfalso. pose proof (G5 i Hiw A2) as C. rewrite <- (G4 i' D1 D2) in C. rewrite E2, clt_irrefl in C. discriminate.
        * exists u, w. split; [exact (Hup _ _ Hin)|lia].
      + exfalso. pose proof (F5 i' Hge A4) as C. rewrite <- (F4 i C1 C2) in C. rewrite E2, clt_irrefl in C. discriminate.
  Qed.

  Lemma calc_lohis_groups : forall ix pre cur, (forall x y, In (x, y) cur -> x <= y /\ y <= n) -> chain 0 n cur -> ix_ok t ix cur ->
    (forall i i', i < n -> i' < n -> (same_run cur i i' <-> key t pre i = key t pre i')) ->
    forall j k runs, nth_error (calc_lohis t ix cur) j = Some (k, runs) ->
    nth_error ix j = Some k /\ chain 0 n runs /\ forall i i', i < n -> i' < n -> (same_run runs i i' <-> key t (pre ++ firstn j ix) i = key t (pre ++ firstn j ix) i').
  Proof.
    induction ix as [|k0 rest IH]; intros pre cur Hb Hc Hok Hpre j k runs Hj; [destruct j; discriminate|].
    cbn [calc_lohis] in Hj. cbn [ix_ok] in Hok. destruct Hok as [Hlen [Hsorted Hrest]]. fold (colv t k0) in Hj. destruct j as [|j].
    - cbn in Hj. injection Hj as <- <-. cbn [firstn nth_error]. rewrite app_nil_r. repeat split; try assumption; apply Hpre; assumption.
    - cbn [nth_error] in Hj. pose proof (sub_bounds t k0 cur Hlen Hb Hsorted) as SB.
      assert (forall u w, In (u, w) (flat_map (sub k0) cur) -> u <= w /\ w <= n) as Hb'.
      { intros u w Hin. destruct (SB u w Hin) as [x' [y' [Hin' [B1 [B2 [B3 _]]]]]]. destruct (Hb x' y' Hin'). lia. }
      assert (chain 0 n (flat_map (sub k0) cur)) as Hc'.
      { apply chain_flat_map; [exact Hc|]. intros x y Hxy. destruct (Hb x y Hxy) as [B1 B2]. cbn [fst snd].
        apply sub_lohis_chain; [lia|rewrite Hlen; lia| |lia]. rewrite Forall_forall in Hsorted. exact (Hsorted (x, y) Hxy). }
      destruct (IH (pre ++ [k0]) _ Hb' Hc' Hrest (refine_groups k0 pre cur Hlen Hb Hsorted Hpre) j k runs Hj) as [R1 [R2 R3]].
      cbn [nth_error firstn]. split; [exact R1|]. split; [exact R2|]. intros i i' Hi Hi'. rewrite (R3 i i' Hi Hi'). rewrite <- !app_assoc. reflexivity.
  Qed.
End Group.

Lemma calc_lohis_fst t : forall ix cur, map fst (calc_lohis t ix cur) = ix.
Proof. induction ix as [|k r IH]; intros cur; [reflexivity|]. cbn. f_equal. apply IH. Qed.
Lemma nth_error_map_fst {B} : forall (l : list (Z * B)) j k, nth_error (map fst l) j = Some k -> exists r, nth_error l j = Some (k, r).
Proof. induction l as [|[k' r'] l IH]; intros j k H; destruct j; try discriminate; cbn in *; [injection H as <-; exists r'; reflexivity|apply IH; exact H]. Qed.
Lemma find_nth_nodup {B} : forall (l : list (Z * B)) j k r, NoDup (map fst l) -> nth_error l j = Some (k, r) -> find (fun p => (fst p =? k)%Z) l = Some (k, r).
Proof.
  induction l as [|[k' r'] l IH]; intros j k r Hn Hj; [destruct j; discriminate|]. cbn [map fst] in Hn. inversion Hn as [|? ? Hnin Hn']; subst. destruct j as [|j].
  - cbn in Hj. injection Hj as -> ->. cbn. rewrite Z.eqb_refl. reflexivity.
  - cbn [nth_error] in Hj. cbn [find fst]. destruct (k' =? k)%Z eqn:E; [|exact (IH j k r Hn' Hj)]. apply Z.eqb_eq in E. subst k'. exfalso. apply Hnin.
    apply nth_error_In in Hj. apply in_map_iff. exists (k, r). split; [reflexivity|exact Hj].
Qed.

Theorem groupby_partitions t level k : indexed_ok t -> NoDup (idxs t) -> nth_error (idxs t) level = Some k ->
  exists runs, lohis_of t k = Some runs /\ chain 0 (nrows t) runs /\
    groupby t level = map (fun r => (key t (firstn level (idxs t)) (fst r), snd r - fst r)) runs /\
    forall i i', i < nrows t -> i' < nrows t -> (same_run runs i i' <-> key t (firstn level (idxs t)) i = key t (firstn level (idxs t)) i').
Proof.
  intros Hok Hnd Hk. set (n := nrows t). set (L := calc_lohis t (idxs t) [(0, n)]).
  assert (nth_error (map fst L) level = Some k) as HL by (unfold L; rewrite calc_lohis_fst; exact Hk).
  destruct (nth_error_map_fst L level k HL) as [runs Hruns]. exists runs.
  assert (lohis_of t k = Some runs) as Hlo.
  { unfold lohis_of. fold n. fold L. rewrite (find_nth_nodup L level k runs); [reflexivity| |exact Hruns]. unfold L. rewrite calc_lohis_fst. exact Hnd. }
  assert (forall x y, In (x, y) [(0, n)] -> x <= y /\ y <= n) as Hb by (intros x y [E|[]]; injection E as <- <-; lia).
  assert (chain 0 n [(0, n)]) as Hc by (constructor; [lia|constructor]).
  assert (forall i i', i < n -> i' < n -> (same_run [(0, n)] i i' <-> key t [] i = key t [] i')) as Hpre.
  { intros i i' Hi Hi'. split; [reflexivity|]. intros _. exists 0, n. split; [left; reflexivity|lia]. }
  destruct (calc_lohis_groups t (idxs t) [] [(0, n)] Hb Hc Hok Hpre level k runs Hruns) as [_ [R2 R3]]. cbn [app] in R3.
  split; [exact Hlo|]. split; [exact R2|]. split; [|exact R3].
  unfold groupby. rewrite Hk, Hlo. apply map_ext. intros [x y]. cbn [fst snd]. f_equal. unfold key. apply map_ext. intros c. unfold colv. destruct (col_of t c); [reflexivity|destruct x; reflexivity].
Qed.
