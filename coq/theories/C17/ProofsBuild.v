(* Table.index establishes the index invariant (indexed_ok) and only permutes the rows. *)
From Coq Require Import ZArith List Bool Arith Lia Sorting.Sorted Permutation.
From Coba Require Import C17.Model C17.Proofs C17.ProofsIndex.
Import ListNotations.

(* ---------------------------------------------------------------- the stable insertion sort of positions *)
Section Psort.
  Variable key : nat -> cell.
  Definition kle (i j : nat) : Prop := cle (key i) (key j) = true.

  Lemma pinsert_perm x l : Permutation (pinsert key x l) (x :: l).
  Proof.
    induction l as [|h t IH]; cbn; [reflexivity|]. destruct (clt (key h) (key x)); [|reflexivity].
    rewrite IH. apply perm_swap.
  Qed.
  Lemma psort_perm l : Permutation (psort key l) l.
  Proof. induction l as [|h t IH]; cbn; [reflexivity|]. rewrite pinsert_perm. constructor. exact IH. Qed.
  Lemma psort_length l : length (psort key l) = length l.
  Proof. apply Permutation_length, psort_perm. Qed.

  Lemma pinsert_sorted x l : StronglySorted kle l -> StronglySorted kle (pinsert key x l).
  Proof.
    induction l as [|h t IH]; intros Hs; cbn; [repeat constructor|]. inversion Hs as [|? ? St Hall]; subst.
    destruct (clt (key h) (key x)) eqn:E.
    - constructor; [apply IH; exact St|]. apply (Permutation_Forall (Permutation_sym (pinsert_perm x t))). constructor; [|exact Hall].
      unfold kle. apply lt_sub_le. exact E.
    - assert (kle x h) as Hxh. { unfold kle. rewrite clt_not_cle in E. apply negb_false_iff in E. exact E. }
      constructor; [exact Hs|]. constructor; [exact Hxh|]. eapply Forall_impl; [|exact Hall]. intros y Hy. unfold kle in *. eapply cle_trans; eassumption.
  Qed.
  Lemma psort_sorted l : StronglySorted kle (psort key l).
  Proof. induction l as [|h t IH]; cbn; [constructor|]. apply pinsert_sorted. exact IH. Qed.

  Lemma map_key_sorted l : StronglySorted kle l -> sorted (map key l).
  Proof.
    induction 1 as [|h t St IH Hall]; cbn; [constructor|]. constructor; [exact IH|]. rewrite Forall_map. exact Hall.
  Qed.
End Psort.

(* ---------------------------------------------------------------- list surgery *)
Lemma firstn_app_exact {A} (l1 l2 : list A) n : length l1 = n -> firstn n (l1 ++ l2) = l1.
Proof. intros <-. rewrite firstn_app, Nat.sub_diag, firstn_all. cbn. apply app_nil_r. Qed.
Lemma skipn_app_exact {A} (l1 l2 : list A) n : length l1 = n -> skipn n (l1 ++ l2) = l2.
Proof. intros <-. rewrite skipn_app, Nat.sub_diag, skipn_all. reflexivity. Qed.
Lemma slice_decomp {A} a b (l : list A) : a <= b -> b <= length l -> l = firstn a l ++ slice a b l ++ skipn b l.
Proof.
  intros H1 H2. rewrite <- (firstn_skipn a l) at 1. f_equal. unfold slice. rewrite <- (firstn_skipn (b - a) (skipn a l)) at 1. f_equal.
  rewrite skipn_skipn_own. f_equal. lia.
Qed.
Lemma slice_of_replaced {A} a m (l mid : list A) x y : a <= m -> m <= x -> x <= y -> y <= length l -> length mid = m - a ->
  slice x y (firstn a l ++ mid ++ skipn m l) = slice x y l.
Proof.
  intros H1 H2 H3 H4 Hm. unfold slice. f_equal.
  assert (length (firstn a l ++ mid) = m) as Hlen by (rewrite app_length, firstn_length; lia).
  rewrite app_assoc. replace x with (m + (x - m)) by lia. rewrite <- !skipn_skipn_own. rewrite (skipn_app_exact _ _ m Hlen). reflexivity.
Qed.
Lemma skipn_of_replaced {A} a m b (l mid : list A) : a <= m -> m <= b -> b <= length l -> length mid = m - a ->
  skipn b (firstn a l ++ mid ++ skipn m l) = skipn b l.
Proof.
  intros H1 H2 H3 Hm. assert (length (firstn a l ++ mid) = m) as Hlen by (rewrite app_length, firstn_length; lia).
  rewrite app_assoc. replace b with (m + (b - m)) by lia. rewrite <- !skipn_skipn_own. rewrite (skipn_app_exact _ _ m Hlen). reflexivity.
Qed.

(* ---------------------------------------------------------------- sorting every run of a chain *)
Lemma sort_runs_chain key runs a b : chain a b runs -> forall ix, b <= length ix ->
  sort_runs key runs ix = firstn a ix ++ flat_map (fun r => psort key (slice (fst r) (snd r) ix)) runs ++ skipn b ix.
Proof.
  unfold sort_runs. induction 1 as [a|a y b r Hay Hc' IH]; intros ix Hb.
  - cbn. symmetry. apply firstn_skipn.
  - pose proof (chain_le _ _ _ Hc').
    cbn [fold_left flat_map fst snd].
    set (ix1 := firstn a ix ++ psort key (slice a y ix) ++ skipn y ix).
    assert (length (psort key (slice a y ix)) = y - a) as Hm by (rewrite psort_length, slice_length; lia).
    assert (length ix1 = length ix) as Hl1.
    { unfold ix1. rewrite !app_length, Hm, firstn_length, skipn_length. lia. }
    rewrite (IH ix1) by lia.
    assert (firstn y ix1 = firstn a ix ++ psort key (slice a y ix)) as E1.
    { unfold ix1. rewrite app_assoc. apply firstn_app_exact. rewrite app_length, firstn_length, Hm. lia. }
    rewrite E1, <- !app_assoc. f_equal. f_equal. f_equal.
    + apply flat_map_ext_in'. intros [u v] Huv. cbn [fst snd]. pose proof (chain_in _ _ _ u v Hc' Huv) as [B1 [B2 B3]].
      unfold ix1. rewrite (slice_of_replaced a y ix _ u v) by lia. reflexivity.
    + unfold ix1. apply skipn_of_replaced; lia.
Qed.

Lemma flat_map_slices_chain {A} (l : list A) runs a b : chain a b runs -> b <= length l ->
  flat_map (fun r => slice (fst r) (snd r) l) runs = slice a b l.
Proof.
  induction 1 as [a|a m b r Ham Hc IH]; intros Hb; cbn.
  - unfold slice. rewrite Nat.sub_diag. reflexivity.
  - pose proof (chain_le _ _ _ Hc). rewrite IH by exact Hb. symmetry. apply slice_split; lia.
Qed.

Lemma sort_runs_perm key runs a b ix : chain a b runs -> b <= length ix -> Permutation (sort_runs key runs ix) ix.
Proof.
  intros Hc Hb. rewrite (sort_runs_chain key runs a b Hc ix Hb). pose proof (chain_le _ _ _ Hc).
  transitivity (firstn a ix ++ slice a b ix ++ skipn b ix); [|rewrite <- (slice_decomp a b ix) by lia; reflexivity].
  apply Permutation_app_head. apply Permutation_app_tail.
  rewrite <- (flat_map_slices_chain ix runs a b Hc Hb). clear. induction runs as [|r t IH]; cbn; [reflexivity|].
  apply Permutation_app; [apply psort_perm|exact IH].
Qed.

(* ---------------------------------------------------------------- more slices *)
Lemma slice_map {A B} (f : A -> B) lo hi l : slice lo hi (map f l) = map f (slice lo hi l).
Proof. unfold slice. rewrite skipn_map, firstn_map. reflexivity. Qed.

Lemma In_slice_sub {A} (l : list A) x u v y e : x <= u -> u <= v -> v <= y -> y <= length l -> In e (slice u v l) -> In e (slice x y l).
Proof.
  intros H1 H2 H3 H4 Hin. rewrite (slice_split x u y l) by lia. rewrite (slice_split u v y l) by lia.
  apply in_or_app. right. apply in_or_app. left. exact Hin.
Qed.

(* the piece of a run inside a list assembled run by run *)
Lemma slice_pieces {A} (g : nat * nat -> list A) runs a b : chain a b runs -> (forall r, In r runs -> length (g r) = snd r - fst r) ->
  forall pre post, length pre = a -> forall x y, In (x, y) runs -> slice x y (pre ++ flat_map g runs ++ post) = g (x, y).
Proof.
  induction 1 as [a|a m b r Ham Hc IH]; intros Hg pre post Hpre x y Hin; [destruct Hin|].
  pose proof (chain_le _ _ _ Hc). cbn [flat_map]. destruct Hin as [E|Hin].
  - injection E as <- <-. pose proof (Hg (a, m) (or_introl eq_refl)) as Hl. cbn in Hl.
    unfold slice. rewrite (skipn_app_exact pre _ a Hpre). rewrite <- app_assoc. apply firstn_app_exact. exact Hl.
  - pose proof (Hg (a, m) (or_introl eq_refl)) as Hl. cbn in Hl.
    rewrite <- app_assoc. rewrite app_assoc. apply IH; [intros r0 Hr0; apply Hg; right; exact Hr0|rewrite app_length; lia|exact Hin].
Qed.

Lemma slice_sort_runs key runs ix n : chain 0 n runs -> length ix = n -> forall x y, In (x, y) runs ->
  slice x y (sort_runs key runs ix) = psort key (slice x y ix).
Proof.
  intros Hc Hl x y Hin. rewrite (sort_runs_chain key runs 0 n Hc ix ltac:(lia)). cbn [firstn].
  apply (slice_pieces (fun r => psort key (slice (fst r) (snd r) ix)) runs 0 n Hc); [|reflexivity|exact Hin].
  intros [u v] Huv. cbn [fst snd]. pose proof (chain_in _ _ _ u v Hc Huv). rewrite psort_length, slice_length; lia.
Qed.

Lemma sort_runs_length key runs ix n : chain 0 n runs -> length ix = n -> length (sort_runs key runs ix) = n.
Proof. intros Hc Hl. rewrite (Permutation_length (sort_runs_perm key runs 0 n ix Hc ltac:(lia))). exact Hl. Qed.

(* ---------------------------------------------------------------- runs of equal values *)
(* in a sorted list whose head is v, the first count(<= v) elements are all equal to v *)
Lemma sorted_prefix_equal v t : sorted (v :: t) -> forall c, In c (firstn (count (fun c => cle c v) t) t) -> c = v.
Proof.
  intros Hs. inversion Hs as [|? ? St Hall]; subst. clear Hs. revert Hall. induction St as [|h t' St' IH Hall']; intros Hall c Hin; [destruct (count _ []); destruct Hin|].
  rewrite count_cons in Hin. inversion Hall as [|? ? Hvh Hvt]; subst. destruct (cle h v) eqn:E.
  - cbn [Nat.add firstn] in Hin. destruct Hin as [<-|Hin]; [apply cle_antisym; assumption|]. apply IH; assumption.
  - (* h > v: nothing later is <= v either *)
    assert (forall c0, In c0 t' -> cle c0 v = false) as Hnone.
    { intros c0 Hc0. destruct (cle c0 v) eqn:E0; [|reflexivity]. rewrite Forall_forall in Hall'.
      pose proof (cle_trans _ _ _ (Hall' c0 Hc0) E0) as C. congruence. }
    destruct (scan_none (fun c0 => cle c0 v) 0 t' Hnone) as [_ Z]. rewrite Z in Hin. cbn in Hin. destruct Hin.
Qed.

Lemma sub_lohis_const col : forall fuel lo hi, lo <= hi -> hi <= length col -> sorted (slice lo hi col) -> hi - lo <= fuel ->
  forall u w, In (u, w) (sub_lohis fuel col lo hi) -> forall c1 c2, In c1 (slice u w col) -> In c2 (slice u w col) -> c1 = c2.
Proof.
  induction fuel as [|f IH]; intros lo hi H1 H2 Hs Hf u w Hin; [destruct Hin|].
  cbn [sub_lohis] in Hin. destruct (lo =? hi) eqn:E; [destruct Hin|]. apply Nat.eqb_neq in E.
  set (v := nth lo col None) in *. rewrite (my_bisect_right_ok col v lo hi H1 H2 Hs) in Hin.
  destruct (slice_head lo hi col ltac:(lia) H2) as [t Et]. fold v in Et.
  unfold bisect_right in Hin. rewrite Et, count_cons in Hin.
  assert (cle v v = true) as Hvv by (unfold cle; rewrite ceq_refl; apply orb_true_r). rewrite Hvv in Hin.
  pose proof (count_le_length (fun c => cle c v) t) as Hc.
  assert (length t = hi - lo - 1) as Hlt. { pose proof (slice_length lo hi col H1 H2) as L. rewrite Et in L. cbn in L. lia. }
  set (k := count (fun c : cell => cle c v) t) in *.
  destruct Hin as [Ehd|Hin].
  - assert (u = lo /\ w = lo + (1 + k)) as [-> ->] by (injection Ehd; intros; split; congruence). intros c1 c2 Hc1 Hc2.
    assert (slice lo (lo + (1 + k)) col = v :: firstn k t) as Esl.
    { unfold slice in *. replace (lo + (1 + k) - lo) with (S k) by lia.
      assert (firstn (S k) (firstn (hi - lo) (skipn lo col)) = firstn (S k) (skipn lo col)) as F by (rewrite firstn_firstn; f_equal; lia).
      rewrite <- F, Et. reflexivity. }
    rewrite Esl in Hc1, Hc2. rewrite Et in Hs.
    assert (forall c, In c (v :: firstn k t) -> c = v) as All by (intros c [<-|Hc']; [reflexivity|exact (sorted_prefix_equal v t Hs c Hc')]).
    rewrite (All c1 Hc1), (All c2 Hc2). reflexivity.
  - destruct (lo + (1 + k) <=? lo) eqn:En; [destruct Hin|]. apply (IH (lo + (1 + k)) hi); try lia; [|exact Hin].
    apply (sorted_slice_suffix col lo (lo + (1 + k)) hi); [lia|lia|exact H2|exact Hs].
Qed.

(* ---------------------------------------------------------------- the loop of Table.index *)
Definition view (colv : list cell) (ix : list nat) : list cell := permute None colv ix.
Definition constk (key : nat -> cell) (runs : list (nat * nat)) (ix : list nat) : Prop :=
  forall x y, In (x, y) runs -> forall i j, In i (slice x y ix) -> In j (slice x y ix) -> key i = key j.

Lemma map_const_perm {A} (key : A -> cell) l1 l2 : Permutation l1 l2 -> (forall i j, In i l1 -> In j l1 -> key i = key j) -> map key l2 = map key l1.
Proof.
  intros HP Hc. destruct l1 as [|a t].
  - apply Permutation_nil in HP. subst. reflexivity.
  - assert (forall l, (forall i, In i l -> key i = key a) -> map key l = repeat (key a) (length l)) as R.
    { induction l as [|h r IH]; intros H; cbn; [reflexivity|]. rewrite (H h (or_introl eq_refl)), IH; [reflexivity|]. intros i Hi. apply H. right. exact Hi. }
    rewrite (R (a :: t)) by (intros i Hi; apply Hc; [exact Hi|left; reflexivity]).
    rewrite (R l2) by (intros i Hi; apply Hc; [eapply Permutation_in; [symmetry; exact HP|exact Hi]|left; reflexivity]).
    rewrite (Permutation_length HP). reflexivity.
Qed.

(* lists that agree on every run of a covering chain are equal *)
Lemma eq_by_runs {A} (l1 l2 : list A) runs n : chain 0 n runs -> length l1 = n -> length l2 = n ->
  (forall x y, In (x, y) runs -> slice x y l1 = slice x y l2) -> l1 = l2.
Proof.
  intros Hc H1 H2 H. rewrite <- (slice_all l1 n H1), <- (slice_all l2 n H2).
  rewrite <- (flat_map_slices_chain l1 runs 0 n Hc ltac:(lia)), <- (flat_map_slices_chain l2 runs 0 n Hc ltac:(lia)).
  apply flat_map_ext_in'. intros [x y] Hxy. exact (H x y Hxy).
Qed.

(* sorting inside the runs does not change a column that is constant on the runs *)
Lemma sort_runs_keeps_const key key2 runs ix n : chain 0 n runs -> length ix = n -> constk key runs ix ->
  map key (sort_runs key2 runs ix) = map key ix /\ constk key runs (sort_runs key2 runs ix).
Proof.
  intros Hc Hl Hk. pose proof (sort_runs_length key2 runs ix n Hc Hl) as Hl'. split.
  - apply (eq_by_runs _ _ runs n Hc); [rewrite map_length; exact Hl'|rewrite map_length; exact Hl|].
    intros x y Hxy. rewrite !slice_map, (slice_sort_runs key2 runs ix n Hc Hl x y Hxy).
    apply map_const_perm; [apply Permutation_sym, psort_perm|exact (Hk x y Hxy)].
  - intros x y Hxy i j Hi Hj. rewrite (slice_sort_runs key2 runs ix n Hc Hl x y Hxy) in Hi, Hj.
    apply (Hk x y Hxy); [exact (Permutation_in _ (psort_perm key2 _) Hi)|exact (Permutation_in _ (psort_perm key2 _) Hj)].
Qed.

Lemma constk_refine key runs ix n (f : nat * nat -> list (nat * nat)) : chain 0 n runs -> length ix = n -> constk key runs ix ->
  (forall x y, In (x, y) runs -> chain x y (f (x, y))) -> constk key (flat_map f runs) ix.
Proof.
  intros Hc Hl Hk Hf u w Hin i j Hi Hj. apply in_flat_map in Hin. destruct Hin as [[x y] [Hxy Huw]].
  pose proof (chain_in _ _ _ x y Hc Hxy) as [B1 [B2 B3]]. pose proof (chain_in _ _ _ u w (Hf x y Hxy) Huw) as [C1 [C2 C3]].
  apply (Hk x y Hxy); apply (In_slice_sub ix x u w y); try lia; assumption.
Qed.

Lemma find_map_cols (F : list nat) c (cs : list (Z * list cell)) :
  option_map snd (find (fun c0 : Z * list cell => (fst c0 =? c)%Z) (map (fun c : Z * list cell => (fst c, permute None (snd c) F)) cs)) =
  option_map (fun v => permute None v F) (option_map snd (find (fun c0 : Z * list cell => (fst c0 =? c)%Z) cs)).
Proof. induction cs as [|[k v] r IH]; [reflexivity|]. cbn. destruct (k =? c)%Z; [reflexivity|exact IH]. Qed.
Lemma has_col_find c (cs : list (Z * list cell)) : existsb (fun c0 : Z * list cell => (fst c0 =? c)%Z) cs = true ->
  option_map snd (find (fun c0 : Z * list cell => (fst c0 =? c)%Z) cs) <> None.
Proof. induction cs as [|[k v] r IH]; [discriminate|]. cbn. destruct (k =? c)%Z; [discriminate|exact IH]. Qed.

Section Loop.
  Variable t : table.
  Notation n := (nrows t).
  Hypothesis wf : forall k v, col_of t k = Some v -> length v = n.
  Hypothesis nonempty : cols t <> [].

  Definition keyc (c : Z) : nat -> cell := fun i => nth i (colv t c) None.
  Definition step_ix (c : Z) lohis ix := sort_runs (keyc c) lohis ix.
  Definition step_lohis (c : Z) (lohis : list (nat * nat)) ix :=
    flat_map (fun r => sub_lohis (snd r - fst r) (view (colv t c) (step_ix c lohis ix)) (fst r) (snd r)) lohis.

  Lemma index_loop_cons c rest lohis ix : index_loop t (c :: rest) lohis ix = index_loop t rest (step_lohis c lohis ix) (step_ix c lohis ix).
  Proof. reflexivity. Qed.

  Lemma view_map c ix : view (colv t c) ix = map (keyc c) ix.
  Proof. reflexivity. Qed.

  Lemma step_facts c lohis ix : chain 0 n lohis -> length ix = n ->
    let ix' := step_ix c lohis ix in let newcol := view (colv t c) ix' in let lohis' := step_lohis c lohis ix in
    length ix' = n /\ Permutation ix' ix /\ (forall x y, In (x, y) lohis -> sorted (slice x y newcol)) /\
    (forall x y, In (x, y) lohis -> chain x y (sub_lohis (y - x) newcol x y)) /\ chain 0 n lohis' /\ constk (keyc c) lohis' ix'.
  Proof.
    intros Hc Hl ix' newcol lohis'.
    assert (length ix' = n) as Hl' by (apply sort_runs_length; assumption).
    assert (length newcol = n) as Hln by (unfold newcol; rewrite view_map, map_length; exact Hl').
    assert (forall x y, In (x, y) lohis -> sorted (slice x y newcol)) as Hsorted.
    { intros x y Hxy. unfold newcol. rewrite view_map, slice_map. unfold ix', step_ix. rewrite (slice_sort_runs (keyc c) lohis ix n Hc Hl x y Hxy).
      apply map_key_sorted, psort_sorted. }
    assert (forall x y, In (x, y) lohis -> chain x y (sub_lohis (y - x) newcol x y)) as Hsub.
    { intros x y Hxy. pose proof (chain_in _ _ _ x y Hc Hxy) as [B1 [B2 B3]]. apply sub_lohis_chain; [lia|lia|exact (Hsorted x y Hxy)|lia]. }
    split; [exact Hl'|]. split; [apply (sort_runs_perm (keyc c) lohis 0 n ix Hc); lia|]. split; [exact Hsorted|]. split; [exact Hsub|]. split.
    - unfold lohis', step_lohis. fold ix'. fold newcol. apply chain_flat_map; [exact Hc|]. intros x y Hxy. cbn [fst snd]. exact (Hsub x y Hxy).
    - intros u w Huw i j Hi Hj. unfold lohis', step_lohis in Huw. fold ix' in Huw. fold newcol in Huw. apply in_flat_map in Huw. destruct Huw as [[x y] [Hxy Huw]]. cbn [fst snd] in Huw.
      pose proof (chain_in _ _ _ x y Hc Hxy) as [B1 [B2 B3]].
      apply (sub_lohis_const newcol (y - x) x y ltac:(lia) ltac:(lia) (Hsorted x y Hxy) ltac:(lia) u w Huw);
        unfold newcol; rewrite view_map, slice_map; apply in_map; assumption.
  Qed.

  (* later levels only permute inside runs on which an earlier column is constant: that column does not move any more *)
  Lemma loop_stable key : forall rest lohis ix, chain 0 n lohis -> length ix = n -> constk key lohis ix ->
    map key (index_loop t rest lohis ix) = map key ix /\ length (index_loop t rest lohis ix) = n /\ Permutation (index_loop t rest lohis ix) ix.
  Proof.
    induction rest as [|c rest IH]; intros lohis ix Hc Hl Hk; [cbn; repeat split; auto|].
    rewrite index_loop_cons. destruct (step_facts c lohis ix Hc Hl) as [Hl' [HP [_ [Hsub [Hc' _]]]]].
    destruct (sort_runs_keeps_const key (keyc c) lohis ix n Hc Hl Hk) as [Hmap Hk'].
    assert (constk key (step_lohis c lohis ix) (step_ix c lohis ix)) as Hk''.
    { unfold step_lohis. apply (constk_refine key lohis (step_ix c lohis ix) n); [exact Hc|exact Hl'|exact Hk'|]. intros x y Hxy. cbn [fst snd]. exact (Hsub x y Hxy). }
    destruct (IH _ _ Hc' Hl' Hk'') as [E1 [E2 E3]]. split; [rewrite E1; exact Hmap|]. split; [exact E2|]. rewrite E3. exact HP.
  Qed.

  Definition tperm (F : list nat) (ix : list Z) : table := {| cols := map (fun c : Z * list cell => (fst c, permute None (snd c) F)) (cols t); idxs := ix |}.

  Lemma col_of_tperm F ix c : col_of (tperm F ix) c = option_map (fun v => permute None v F) (col_of t c).
  Proof. unfold col_of, tperm. cbn [cols]. apply find_map_cols. Qed.
  Lemma colv_tperm F ix c : has_col t c = true -> colv (tperm F ix) c = view (colv t c) F.
  Proof.
    intros Hh. unfold colv. rewrite col_of_tperm. destruct (col_of t c) as [v|] eqn:E; [reflexivity|]. exfalso.
    exact (has_col_find c (cols t) Hh E).
  Qed.
  Lemma nrows_tperm F ix : length F = n -> nrows (tperm F ix) = n.
  Proof. intros HF. unfold nrows at 1, tperm. cbn [cols]. destruct (cols t) as [|[k v] r]; [congruence|]. cbn. unfold permute. rewrite map_length. exact HF. Qed.

  Lemma loop_ok ixn : forall indx lohis ix, (forall c, In c indx -> has_col t c = true) -> chain 0 n lohis -> length ix = n ->
    ix_ok (tperm (index_loop t indx lohis ix) ixn) indx lohis.
  Proof.
    induction indx as [|c rest IH]; intros lohis ix Hcols Hc Hl; [exact I|].
    rewrite index_loop_cons. destruct (step_facts c lohis ix Hc Hl) as [Hl' [HP [Hsorted [Hsub [Hc' Hk]]]]].
    set (ix' := step_ix c lohis ix) in *. set (lohis' := step_lohis c lohis ix) in *. set (F := index_loop t rest lohis' ix').
    destruct (loop_stable (keyc c) rest lohis' ix' Hc' Hl' Hk) as [Hmap [HlF _]]. fold F in Hmap, HlF.
    assert (colv (tperm F ixn) c = view (colv t c) ix') as Ecol.
    { rewrite colv_tperm by (apply Hcols; left; reflexivity). rewrite !view_map. exact Hmap. }
    cbn [ix_ok]. rewrite Ecol, (nrows_tperm F ixn HlF). split; [rewrite view_map, map_length; exact Hl'|]. split.
    - apply Forall_forall. intros [x y] Hxy. cbn [fst snd]. exact (Hsorted x y Hxy).
    - apply (IH lohis' ix'); [intros c0 Hc0; apply Hcols; right; exact Hc0|exact Hc'|exact Hl'].
  Qed.
End Loop.

Definition wf_table (t : table) : Prop := cols t <> [].

Lemma index_shape t names : wf_table t ->
  index t names = t \/
  exists F, Permutation F (seq 0 (nrows t)) /\ index t names = tperm t F (filter (has_col t) names) /\
            ix_ok (tperm t F (filter (has_col t) names)) (filter (has_col t) names) [(0, nrows t)] /\ nrows (tperm t F (filter (has_col t) names)) = nrows t.
Proof.
  intros Hne. unfold index. destruct names as [|nm names']; [left; reflexivity|]. destruct (cols t) as [|c0 cs] eqn:Ec; [left; reflexivity|].
  set (indx := filter (has_col t) (nm :: names')). destruct (zlist_eqb (idxs t) indx); [left; reflexivity|]. right.
  set (n := nrows t). set (F := index_loop t indx [(0, n)] (seq 0 n)).
  assert (chain 0 n [(0, n)]) as Hc0 by (constructor; [lia|constructor]).
  assert (constk (fun _ : nat => @None Z) [(0, n)] (seq 0 n)) as Hk by (intros x y _ i j _ _; reflexivity).
  destruct (loop_stable t (fun _ => None) indx [(0, n)] (seq 0 n) Hc0 (seq_length n 0) Hk) as [_ [HlF HPF]]. fold F in HlF, HPF.
  exists F. split; [exact HPF|]. split; [unfold tperm; rewrite Ec; reflexivity|]. split.
  - apply (loop_ok t Hne indx indx [(0, n)] (seq 0 n)); [|exact Hc0|apply seq_length].
    intros c Hc. unfold indx in Hc. apply filter_In in Hc. exact (proj2 Hc).
  - apply nrows_tperm; [exact Hne|exact HlF].
Qed.

Theorem index_establishes_invariant t names : wf_table t -> indexed_ok t -> indexed_ok (index t names).
Proof.
  intros Hw Hok. destruct (index_shape t names Hw) as [E|[F [_ [E [Hix Hn]]]]]; [rewrite E; exact Hok|].
  rewrite E. unfold indexed_ok. rewrite Hn. cbn [idxs tperm]. exact Hix.
Qed.

(* Table.index only re-orders the rows *)
Theorem index_permutes_rows t names : wf_table t ->
  exists F, Permutation F (seq 0 (nrows t)) /\ cols (index t names) = map (fun c : Z * list cell => (fst c, permute None (snd c) F)) (cols t) \/ index t names = t.
Proof.
  intros Hw. destruct (index_shape t names Hw) as [E|[F [HP [E _]]]]; [exists []; right; exact E|].
  exists F. left. split; [exact HP|]. rewrite E. reflexivity.
Qed.

(* the property: index, then a keyword condition = a scan of the re-ordered column, rows in table order *)
Theorem indexed_where_eq_scan t names kw o a vs : wf_table t -> indexed_ok t -> (match o with OIn | ONin => True | _ => vs = [] end) ->
  select1 (index t names) (kw, o, a, vs) = scan (sat o a vs) 0 (colv (index t names) kw).
Proof. intros Hw Hok Hv. apply select1_eq_scan; [apply index_establishes_invariant; assumption|exact Hv]. Qed.
