(* Exp — the evaluation core of Experiment.run shared by C01 (configuration independence) and C03 (isolation).
   Objects (environments, learners, evaluators) are identified with natural numbers; ids by order of first appearance are a renaming of them.
   evalf e s v = (rows or an error, learner state afterwards) stands for SafeEvaluator(v).evaluate(e, learner in state s) materialised with list():
   a deterministic function of its three arguments (what C04/C05/C06/C15 establish for the built-in components).
     make_tasks    - MakeTasks.read for the evaluation tasks: copy := the learner object occurs in more than one triple
     do_task       - one iteration of ProcessTasks.filter: deep copy when copy is set, per-task try/except, rows only when the evaluation completed
     run_group     - the tasks one process evaluates one after the other on the same Python objects (all chunks in-process; one pickled chunk in a worker)
     run_groups    - any number of such groups, each starting from the pristine (freshly unpickled) objects *)
From Coq Require Import List Arith Bool.
Import ListNotations.

Section Exp.
  Variables (rows lstate : Type).
  Variable evalf : nat -> lstate -> nat -> option rows * lstate.
  Variable pristine : nat -> lstate.

  Definition triple := (nat * nat * nat)%type.           (* environment, learner, evaluator *)
  Record task := { tt : triple; tcopy : bool }.
  Definition tl (t : task) : nat := snd (fst (tt t)).

  Definition lcount (l : nat) (ts : list triple) : nat := length (filter (fun t => snd (fst t) =? l) ts).
  Definition make_tasks (triples : list triple) : list task :=
    map (fun t => {| tt := t; tcopy := 1 <? lcount (snd (fst t)) triples |}) triples.

  Definition store := nat -> lstate.
  Definition upd (st : store) (l : nat) (s : lstate) : store := fun j => if j =? l then s else st j.

  Definition do_task (st : store) (t : task) : list (triple * rows) * store :=
    let '(e, l, v) := tt t in
    let (r, s') := evalf e (st l) v in
    (match r with Some x => [(tt t, x)] | None => [] end, if tcopy t then st else upd st l s').

  Fixpoint run_group (st : store) (ts : list task) : list (triple * rows) :=
    match ts with
    | [] => []
    | t :: r => let (o, st') := do_task st t in o ++ run_group st' r
    end.
  Definition run_groups (groups : list (list task)) : list (triple * rows) := flat_map (run_group pristine) groups.

  (* the rows of a triple evaluated alone on pristine objects *)
  Definition alone (t : triple) : option rows := let '(e, l, v) := t in fst (evalf e (pristine l) v).
End Exp.
