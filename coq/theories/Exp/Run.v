From Coq Require Import ZArith List Bool Arith.
From Coba Require Import Common.Sx Exp.Model.
Import ListNotations.
Open Scope Z_scope.
(* a concrete family of evaluations for the correspondence runs (the harness's stub learner/evaluator compute the same arithmetic):
   learner state s : Z; the evaluation of learner-in-state s on environment e by evaluator v moves the state to s' and yields the rows [s; s'];
   it raises (after having moved the state) when F > 0 and (13 e + 5 v + s) mod F = 0 *)
Definition step_state (e : nat) (s : Z) (v : nat) : Z := (s * 31 + Z.of_nat e * 7 + Z.of_nat v + 1) mod 1000003.
Definition evalf (F : Z) (e : nat) (s : Z) (v : nat) : option (list Z) * Z :=
  let s' := step_state e s v in
  (if (0 <? F) && ((13 * Z.of_nat e + 5 * Z.of_nat v + s) mod F =? 0) then None else Some [s; s'], s').
Definition pristine (l : nat) : Z := Z.of_nat l * 1000 + 17.
(* request: (F triples groups)  triples = ((e l v) ...) the experiment; groups = (((e l v) ...) ...) the tasks each process evaluated, in order
   reply: (((e l v) rows) ...) *)
Definition dec_triple (x : sx) : triple := (as_nat (nth_sx 0 x), as_nat (nth_sx 1 x), as_nat (nth_sx 2 x)).
Definition run (x : sx) : sx :=
  let F := as_z (nth_sx 0 x) in
  let triples := map dec_triple (as_l (nth_sx 1 x)) in
  let mk := fun t => {| tt := t; tcopy := (1 <? lcount (snd (fst t)) triples)%nat |} in
  let groups := map (fun g => map (fun t => mk (dec_triple t)) (as_l g)) (as_l (nth_sx 2 x)) in
  L_ (map (fun kr : triple * list Z => let '((e, l, v), r) := kr in L_ [L_ [of_nat e; of_nat l; of_nat v]; of_zs r])
          (run_groups (list Z) Z (evalf F) pristine groups)).
