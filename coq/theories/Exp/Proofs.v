From Coq Require Import List Arith Bool Lia Permutation.
From Coba Require Import Exp.Model.
Import ListNotations.

Section P.
  Variables (rows lstate : Type).
  Variable evalf : nat -> lstate -> nat -> option rows * lstate.
  Variable pristine : nat -> lstate.
  Notation task := (task).
  Notation run_group := (run_group rows lstate evalf).
  Notation do_task := (do_task rows lstate evalf).
  Notation alone := (alone rows lstate evalf pristine).

  Definition uses (l : nat) (ts : list task) : nat := length (filter (fun t => tl t =? l) ts).
  (* a task list is coherent when a task that is not copied is the only one of the list that uses its learner *)
  Definition coherent (ts : list task) : Prop := forall t, In t ts -> tcopy t = false -> uses (tl t) ts = 1.

  Lemma uses_cons l t ts : uses l (t :: ts) = (if tl t =? l then 1 else 0) + uses l ts.
  Proof. unfold uses. cbn. destruct (tl t =? l); reflexivity. Qed.
  Lemma uses_zero l ts : uses l ts = 0 -> forall t, In t ts -> tl t <> l.
  Proof.
    induction ts as [|h r IH]; intros H t Hin; [destruct Hin|]. rewrite uses_cons in H. destruct Hin as [E|Hin].
    - subst h. destruct (tl t =? l) eqn:Et; [lia|]. apply Nat.eqb_neq. exact Et.
    - apply IH; [lia|exact Hin].
  Qed.

  (* the objects every remaining task will touch are still pristine *)
  Definition fresh_for (st : nat -> lstate) (ts : list task) : Prop := forall t, In t ts -> st (tl t) = pristine (tl t).

  Lemma run_group_spec ts : forall st done, coherent (done ++ ts) -> fresh_for st ts ->
    forall k r, In (k, r) (run_group st ts) <-> (exists t, In t ts /\ tt t = k) /\ alone k = Some r.
  Proof.
    induction ts as [|t rest IH]; intros st done Hc Hf k r.
    - cbn. split; [intros []|intros [[t [[] _]] _]].
    - cbn [Model.run_group]. destruct (do_task st t) as [o st'] eqn:Ed. rewrite in_app_iff.
      unfold Model.do_task in Ed. destruct (tt t) as [[e l] v] eqn:Et.
      assert (tl t = l) as Hl by (unfold tl; rewrite Et; reflexivity).
      assert (st l = pristine l) as Hp by (rewrite <- Hl; apply Hf; left; reflexivity).
      rewrite Hp in Ed. destruct (evalf e (pristine l) v) as [res s'] eqn:Ee. injection Ed as Eo Es.
      assert (fresh_for st' rest) as Hf'.
      { intros t' Hin. subst st'. destruct (tcopy t) eqn:Ec; [apply Hf; right; exact Hin|].
        unfold Model.upd. destruct (tl t' =? l) eqn:E; [|apply Hf; right; exact Hin]. exfalso.
        assert (uses l (done ++ t :: rest) = 1) as H1. { rewrite <- Hl. apply Hc; [apply in_or_app; right; left; reflexivity|exact Ec]. }
        unfold uses in H1. rewrite filter_app, app_length in H1. fold (uses l done) in H1. fold (uses l (t :: rest)) in H1.
        rewrite uses_cons, Hl, Nat.eqb_refl in H1. assert (uses l rest = 0) as H0 by lia.
        apply Nat.eqb_eq in E. exact (uses_zero l rest H0 t' Hin E). }
      assert (coherent ((done ++ [t]) ++ rest)) as Hc' by (rewrite <- app_assoc; exact Hc).
      specialize (IH st' (done ++ [t]) Hc' Hf' k r).
      assert (alone (e, l, v) = res) as Ha by (unfold Model.alone; rewrite Ee; reflexivity).
      split.
      + intros [Hin|Hin].
        * subst o. destruct res as [x|]; [|destruct Hin]. destruct Hin as [E|[]]. injection E as Ek Er. subst k r.
          split; [exists t; split; [left; reflexivity|exact Et]|exact Ha].
        * apply IH in Hin. destruct Hin as [[t' [Hin Ht']] Hr]. split; [exists t'; split; [right; exact Hin|exact Ht']|exact Hr].
      + intros [[t' [[E|Hin] Ht']] Hr].
        * subst t'. left. rewrite Et in Ht'. subst k. rewrite Ha in Hr. subst o. rewrite Hr. left. reflexivity.
        * right. apply IH. split; [exists t'; split; assumption|exact Hr].
  Qed.

  (* ---- coherence of what MakeTasks produces, and of every part of it *)
  Lemma uses_map l (c : triple -> bool) ts : uses l (map (fun t => {| tt := t; tcopy := c t |}) ts) = lcount l ts.
  Proof.
    unfold uses, lcount. induction ts as [|t r IH]; [reflexivity|]. cbn. unfold tl at 1. cbn. destruct (snd (fst t) =? l); cbn; rewrite IH; reflexivity.
  Qed.
  Lemma uses_make l triples : uses l (make_tasks triples) = lcount l triples.
  Proof. unfold make_tasks. apply uses_map. Qed.

  Lemma uses_perm l a b : Permutation a b -> uses l a = uses l b.
  Proof. intros H. unfold uses. induction H; cbn; try lia. - destruct (tl x =? l); cbn; lia. - destruct (tl x =? l), (tl y =? l); cbn; lia. Qed.

  Lemma make_tasks_copy triples t : In t (make_tasks triples) -> tcopy t = false -> uses (tl t) (make_tasks triples) = 1.
  Proof.
    intros Hin Hc. rewrite uses_make. unfold make_tasks in Hin. apply in_map_iff in Hin. destruct Hin as [tr [E Hin]]. subst t. cbn [tcopy tt] in *.
    unfold tl. cbn [tt]. apply Nat.ltb_ge in Hc. assert (1 <= lcount (snd (fst tr)) triples); [|lia].
    unfold lcount. clear Hc. induction triples as [|h r IH]; [destruct Hin|]. cbn. destruct Hin as [E|Hin].
    - subst h. rewrite Nat.eqb_refl. cbn. lia.
    - specialize (IH Hin). destruct (snd (fst h) =? snd (fst tr)); cbn; lia.
  Qed.

  (* a group that holds only part of the tasks: uses within the group <= uses overall, so the not-copied task is still alone *)
  Lemma uses_sub l part all' rest : Permutation (part ++ rest) all' -> uses l part <= uses l all'.
  Proof. intros H. rewrite <- (uses_perm l _ _ H). unfold uses. rewrite filter_app, app_length. lia. Qed.

  Lemma uses_member t ts : In t ts -> 1 <= uses (tl t) ts.
  Proof. induction ts as [|h r IH]; intros Hin; [destruct Hin|]. destruct Hin as [E|H]. - subst h. rewrite uses_cons, Nat.eqb_refl. lia. - rewrite uses_cons. specialize (IH H). lia. Qed.

  Lemma coherent_part triples part rest : Permutation (part ++ rest) (make_tasks triples) -> coherent part.
  Proof.
    intros HP t Hin Hc. assert (In t (make_tasks triples)) as Hin' by (eapply Permutation_in; [exact HP|apply in_or_app; left; exact Hin]).
    pose proof (make_tasks_copy triples t Hin' Hc). pose proof (uses_sub (tl t) part _ rest HP). pose proof (uses_member t part Hin). lia.
  Qed.

  Lemma fresh_pristine ts : fresh_for pristine ts. Proof. intros t _. reflexivity. Qed.

  (* ---- the theorem: any grouping of any permutation of the tasks records, for every triple, exactly the rows of the triple evaluated alone *)
  Theorem groups_spec triples groups : Permutation (concat groups) (make_tasks triples) ->
    forall k r, In (k, r) (run_groups rows lstate evalf pristine groups) <-> In k triples /\ alone k = Some r.
  Proof.
    intros HP k r. unfold run_groups. rewrite in_flat_map. split.
    - intros [g [Hg Hin]].
      destruct (in_split g groups Hg) as [g1 [g2 Eg]].
      assert (Permutation (g ++ concat (g1 ++ g2)) (make_tasks triples)) as HPg.
      { rewrite <- HP, Eg. rewrite !concat_app. cbn [concat]. apply Permutation_app_swap_app. }
      pose proof (coherent_part triples g _ HPg) as Hc.
      apply (run_group_spec g pristine [] Hc (fresh_pristine g)) in Hin. destruct Hin as [[t [Ht Ek]] Hr]. split; [|exact Hr].
      assert (In t (make_tasks triples)) as Hin' by (eapply Permutation_in; [exact HPg|apply in_or_app; left; exact Ht]).
      unfold make_tasks in Hin'. apply in_map_iff in Hin'. destruct Hin' as [tr [E Hin']]. subst t. cbn in Ek. subst k. exact Hin'.
    - intros [Hk Hr].
      assert (In {| tt := k; tcopy := 1 <? lcount (snd (fst k)) triples |} (concat groups)) as Hin.
      { eapply Permutation_in; [symmetry; exact HP|]. unfold make_tasks. apply in_map_iff. exists k. split; [reflexivity|exact Hk]. }
      apply in_concat in Hin. destruct Hin as [g [Hg Ht]]. exists g. split; [exact Hg|].
      destruct (in_split g groups Hg) as [g1 [g2 Eg]].
      assert (Permutation (g ++ concat (g1 ++ g2)) (make_tasks triples)) as HPg.
      { rewrite <- HP, Eg. rewrite !concat_app. cbn [concat]. apply Permutation_app_swap_app. }
      pose proof (coherent_part triples g _ HPg) as Hc.
      apply (run_group_spec g pristine [] Hc (fresh_pristine g)). split; [|exact Hr]. eexists. split; [exact Ht|reflexivity].
  Qed.
End P.

(* ids by order of first appearance (MakeTasks): a renaming of the objects that appear *)
Fixpoint id_of (x : nat) (seen : list nat) : nat := match seen with [] => 0 | y :: r => if y =? x then 0 else S (id_of x r) end.
Lemma id_of_inj seen : forall x y, In x seen -> In y seen -> id_of x seen = id_of y seen -> x = y.
Proof.
  induction seen as [|h r IH]; intros x y Hx Hy E; [destruct Hx|]. cbn in E.
  destruct (h =? x) eqn:Ex, (h =? y) eqn:Ey; try discriminate.
  - apply Nat.eqb_eq in Ex, Ey. congruence.
  - injection E as E. apply Nat.eqb_neq in Ex, Ey. destruct Hx as [Hx|Hx]; [congruence|]. destruct Hy as [Hy|Hy]; [congruence|]. exact (IH x y Hx Hy E).
Qed.
