(* Frame property of independent instances: a system made of several objects, each with its own
   state and no shared state, run under any interleaving of calls, gives every object exactly the
   outputs it would give when its calls are run alone. *)
From Coq Require Import List Arith Lia Bool.
Import ListNotations.

Section Frame.
  Context {St Op Out : Type}.
  Variable step : St -> Op -> Out * St.

  Fixpoint upd_nth (k : nat) (x : St) (l : list St) : list St :=
    match l, k with
    | [], _ => []
    | _ :: t, O => x :: t
    | h :: t, S k' => h :: upd_nth k' x t
    end.

  Fixpoint run_many (d : St) (sts : list St) (ops : list (nat * Op)) : list (nat * Out) :=
    match ops with
    | [] => []
    | (i, o) :: ops' =>
      let (out, st') := step (nth i sts d) o in
      (i, out) :: run_many d (upd_nth i st' sts) ops'
    end.

  Fixpoint run_one (st : St) (ops : list Op) : list Out :=
    match ops with
    | [] => []
    | o :: ops' => let (out, st') := step st o in out :: run_one st' ops'
    end.

  Definition only {A} (i : nat) (l : list (nat * A)) : list A :=
    map snd (filter (fun p => Nat.eqb (fst p) i) l).

  Lemma upd_nth_length k x l : length (upd_nth k x l) = length l.
  Proof. revert k; induction l as [|h t IH]; intros [|k]; cbn; auto. Qed.

  Lemma nth_upd_nth_same k x l d : k < length l -> nth k (upd_nth k x l) d = x.
  Proof. revert k; induction l as [|h t IH]; intros [|k] H; cbn in *; try lia; auto. apply IH; lia. Qed.

  Lemma nth_upd_nth_other k j x l d : k <> j -> nth j (upd_nth k x l) d = nth j l d.
  Proof.
    revert k j; induction l as [|h t IH]; intros [|k] [|j] H; cbn; auto; try lia.
  Qed.

  Theorem frame d : forall ops sts i,
    i < length sts -> Forall (fun p => fst p < length sts) ops ->
    only i (run_many d sts ops) = run_one (nth i sts d) (only i ops).
  Proof.
    induction ops as [|[j o] ops IH]; intros sts i Hi Hall; [reflexivity|].
    inversion Hall as [|? ? Hj Hall']; subst. cbn [fst] in Hj.
    cbn [run_many]. destruct (step (nth j sts d) o) as [out st'] eqn:E.
    unfold only in *. cbn [filter fst].
    destruct (Nat.eqb j i) eqn:Eji.
    - apply Nat.eqb_eq in Eji; subst j. cbn [map snd run_one]. rewrite E. f_equal.
      rewrite IH; [|rewrite upd_nth_length; exact Hi|].
      + rewrite nth_upd_nth_same by exact Hi. reflexivity.
      + rewrite upd_nth_length. exact Hall'.
    - apply Nat.eqb_neq in Eji.
      rewrite IH; [|rewrite upd_nth_length; exact Hi|].
      + rewrite nth_upd_nth_other by exact Eji. reflexivity.
      + rewrite upd_nth_length. exact Hall'.
  Qed.
End Frame.
