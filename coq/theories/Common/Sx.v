(* Universal wire format between the harness and the executable models:
   S-expressions over integers.  Every model entry point is  sx -> sx ;
   the Python harness has the mirror codec (harness/common.py).
   Nothing is proved about this type: it is glue, part of the trusted
   correspondence harness. *)
From Coq Require Import ZArith List Bool QArith.
Import ListNotations.
Open Scope Z_scope.

Inductive sx : Type :=
| Z_ : Z -> sx
| L_ : list sx -> sx.

Definition as_z (x : sx) : Z := match x with Z_ z => z | L_ _ => 0 end.
Definition as_l (x : sx) : list sx := match x with L_ l => l | Z_ _ => [] end.
Definition as_nat (x : sx) : nat := Z.to_nat (as_z x).
Definition as_bool (x : sx) : bool := negb (as_z x =? 0).
Definition as_zs (x : sx) : list Z := map as_z (as_l x).
Definition as_nats (x : sx) : list nat := map as_nat (as_l x).
Definition nth_sx (n : nat) (x : sx) : sx := nth n (as_l x) (L_ []).

Definition of_bool (b : bool) : sx := Z_ (if b then 1 else 0).
Definition of_nat (n : nat) : sx := Z_ (Z.of_nat n).
Definition of_zs (l : list Z) : sx := L_ (map Z_ l).
Definition of_nats (l : list nat) : sx := L_ (map of_nat l).

(* option: () = None, (x) = Some x *)
Definition of_opt {A} (f : A -> sx) (o : option A) : sx :=
  match o with None => L_ [] | Some a => L_ [f a] end.
Definition as_opt {A} (f : sx -> A) (x : sx) : option A :=
  match x with L_ (a :: _) => Some (f a) | _ => None end.

(* rationals: (num den) with den > 0 *)
Definition as_q (x : sx) : Q :=
  match x with
  | L_ [Z_ n; Z_ d] => Qmake n (Z.to_pos d)
  | Z_ n => Qmake n 1
  | _ => 0%Q
  end.
Definition of_q (q : Q) : sx :=
  let r := Qred q in L_ [Z_ (Qnum r); Z_ (Zpos (Qden r))].

(* errors are (-1 code) so that they can never be confused with a payload
   list whose head is a non-negative tag *)
Definition err (code : Z) : sx := L_ [Z_ (-1); Z_ code].

Fixpoint sx_eqb (fuel : nat) (a b : sx) : bool :=
  match fuel with
  | O => false
  | S f =>
    match a, b with
    | Z_ x, Z_ y => x =? y
    | L_ xs, L_ ys =>
      (fix go (xs ys : list sx) : bool :=
         match xs, ys with
         | [], [] => true
         | x :: xs', y :: ys' => sx_eqb f x y && go xs' ys'
         | _, _ => false
         end) xs ys
    | _, _ => false
    end
  end.
