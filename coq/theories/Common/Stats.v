(* Exact-rational statistics as coba computes them (statistics.median, coba.statistics.iqr /
   percentile, statistics.mode = first most common). *)
From Coq Require Import ZArith List Bool QArith Lia.
Import ListNotations.
Open Scope Q_scope.

Definition Qltb (a b : Q) : bool := negb (Qle_bool b a).
Fixpoint qinsert (x : Q) (l : list Q) : list Q :=
  match l with [] => [x] | h :: t => if Qltb h x then h :: qinsert x t else x :: l end.
Definition qsort (l : list Q) : list Q := fold_right qinsert [] l.

Definition qsum (l : list Q) : Q := fold_right Qplus 0 l.
Definition qlen (l : list Q) : Q := inject_Z (Z.of_nat (length l)).
Definition qmean (l : list Q) : Q := qsum l / qlen l.
Definition qmin (l : list Q) : Q := match l with [] => 0 | h :: t => fold_left (fun m x => if Qltb x m then x else m) t h end.
Definition qmax (l : list Q) : Q := match l with [] => 0 | h :: t => fold_left (fun m x => if Qltb m x then x else m) t h end.
Definition qabs (x : Q) : Q := if Qltb x 0 then - x else x.

Definition qmedian (l : list Q) : Q :=
  let s := qsort l in let n := length s in
  if Nat.even n then (nth (n / 2 - 1) s 0 + nth (n / 2) s 0) / 2 else nth (n / 2) s 0.

(* coba.statistics.percentile on sorted values (no weights) *)
Definition qfloor (x : Q) : Z := (Qnum x / Zpos (Qden x))%Z.
Definition qpercentile (sorted : list Q) (p : Q) : Q :=
  match sorted with
  | [v] => v
  | _ =>
    if Qeq_bool p 0 then nth 0 sorted 0
    else if Qeq_bool p 1 then last sorted 0
    else let i := p * (qlen sorted - 1) in
         let I := qfloor i in
         if Qeq_bool i (inject_Z I) then nth (Z.to_nat I) sorted 0
         else let w := i - inject_Z I in (1 - w) * nth (Z.to_nat I) sorted 0 + w * nth (S (Z.to_nat I)) sorted 0
  end.
Definition qiqr (l : list Q) : Q :=
  if Nat.leb (length l) 1 then 0 else let s := qsort l in qpercentile s (3 # 4) - qpercentile s (1 # 4).
