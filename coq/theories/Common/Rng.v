(* Executable model of coba/random.py (class CobaRandom), exact layer.
   The constants, the LCG step, the randint expression, the comparison used by the weighted
   choice and the gauss re-draw flag come from Generated/C05_gen.v, which the translator
   re-creates from the source on every run.

   A uniform is represented by its numerator: the generator state s in [0,m) stands for the
   float s/m (exactly representable: m = 2^30).  floor(k*u) for an integer k is (k*s)/m, which
   is what binary64 computes as long as |k|*m < 2^53 (stated where it matters). *)
From Coq Require Import ZArith List Bool QArith Lia.
From Coba Require Import Generated.C05_gen.
Import ListNotations.
Open Scope Z_scope.

Definition next (s : Z) : Z := lcg_step lcg_a s lcg_c lcg_m (lcg_m_1 lcg_m).

(* floor (k * (s/m)) *)
Definition fmul (k s : Z) : Z := (k * s) / lcg_m.

(* u as a rational *)
Definition uq (s : Z) : Q := Qmake s (Z.to_pos lcg_m).

(* ---- random(min,max) : exact value min + (max-min)*u *)
Definition random_q (mn mx : Q) (s : Z) : Q * Z :=
  let s' := next s in (mn + (mx - mn) * uq s', s')%Q.

Fixpoint randoms_q (n : nat) (mn mx : Q) (s : Z) : list Q * Z :=
  match n with
  | O => ([], s)
  | S n' => let (x, s') := random_q mn mx s in
            let (r, s'') := randoms_q n' mn mx s' in (x :: r, s'')
  end.

(* ---- randint / randints *)
Definition randint (a b s : Z) : Z * Z :=
  let s' := next s in (randint_off a b + fmul (randint_scale a b) s', s').

Fixpoint randints (n : nat) (a b s : Z) : list Z * Z :=
  match n with
  | O => ([], s)
  | S n' => let s' := next s in
            let x := if a =? 0 then fmul (b + 1) s' else fmul (b + 1 - a) s' + a in
            let (r, s'') := randints n' a b s' in (x :: r, s'')
  end.

(* ---- shuffle : Durstenfeld, position i swapped with i + floor((n-i)*u) *)
Fixpoint upd {A} (k : nat) (x : A) (l : list A) : list A :=
  match l, k with
  | [], _ => []
  | _ :: t, O => x :: t
  | h :: t, S k' => h :: upd k' x t
  end.

(* swap positions 0 and j of x::rest *)
Definition swap0 {A} (j : nat) (x : A) (rest : list A) : A * list A :=
  match j with
  | O => (x, rest)
  | S k => (nth k rest x, upd k x rest)
  end.

Fixpoint shuf {A} (n : nat) (l : list A) (s : Z) : list A * Z :=
  match n with
  | O => (l, s)
  | S n' =>
    match l with
    | [] => ([], s)
    | [x] => ([x], s)
    | x :: rest =>
      let s' := next s in
      let j := Z.to_nat (fmul (Z.of_nat (length l)) s') in
      let (y, rest') := swap0 j x rest in
      let (r, s'') := shuf n' rest' s' in (y :: r, s'')
    end
  end.
Definition shuffle {A} (l : list A) (s : Z) : list A * Z := shuf (length l) l s.

(* ---- choice *)
Inductive res (A : Type) := Ok (a : A) | Err (code : Z).
Arguments Ok {A}. Arguments Err {A}.
(* error codes *)
Definition E_Value := 1. Definition E_Index := 2. Definition E_StopIteration := 3. Definition E_ZeroDiv := 4.

(* unweighted: index int(len*u); one draw; len = 0 raises IndexError after the draw *)
Definition choice_idx (len : Z) (s : Z) : res Z * Z :=
  let s' := next s in
  if len =? 0 then (Err E_Index, s') else (Ok (fmul len s'), s').

Definition Qlt_bool (a b : Q) : bool := negb (Qle_bool b a).

Fixpoint pick (strict : bool) (t acc : Q) (ws : list Q) (i : nat) : option nat :=
  match ws with
  | [] => None
  | w :: ws' =>
    let acc' := (acc + w)%Q in
    if (if strict then Qlt_bool t acc' else Qle_bool t acc') then Some i else pick strict t acc' ws' (S i)
  end.

Definition qsum (ws : list Q) : Q := fold_right Qplus 0%Q ws.

(* weighted: weights given (possibly empty). len = len(seq). *)
Definition choice_w_gen (strict : bool) (len : Z) (ws : list Q) (s : Z) : res Z * Z :=
  if negb (Z.of_nat (length ws) =? 0) && negb (Z.of_nat (length ws) =? len) then (Err E_Value, s)
  else
    let tot := qsum ws in
    if Qeq_bool tot 0 then (Err E_Value, s)
    else let s' := next s in
         match pick strict (uq s' * tot)%Q 0%Q (firstn (Z.to_nat len) ws) 0 with
         | Some i => (Ok (Z.of_nat i), s')
         | None => (Err E_StopIteration, s')
         end.
Definition choice_w := choice_w_gen choice_strict.

(* ---- gauss: only the stream bookkeeping and definedness are modelled (libm is not).
   pend = the generator holds the unconsumed sin-half of a Box-Muller pair.
   A pair needs log(u1): u1 = 0 raises unless the generator re-draws zero uniforms. *)
Record rng := { st : Z; pend : bool; dead : bool }.

Definition draw_nonzero (redraw : bool) (s : Z) : option Z :=
  let s1 := next s in
  if negb (s1 =? 0) then Some s1
  else if redraw then
         let s2 := next s1 in if negb (s2 =? 0) then Some s2 else None
       else None.

(* number of gaussians n; returns (ok?, new state). ok = false models the ValueError;
   afterwards the Python generator object is finished (dead). *)
Fixpoint gausses_gen (redraw : bool) (n : nat) (r : rng) : bool * rng :=
  match n with
  | O => (true, r)
  | S n' =>
    if dead r then (false, r)
    else if pend r then gausses_gen redraw n' {| st := st r; pend := false; dead := false |}
    else match draw_nonzero redraw (st r) with
         | None => (false, {| st := next (st r); pend := false; dead := true |})
         | Some s1 => gausses_gen redraw n' {| st := next s1; pend := true; dead := false |}
         end
  end.
Definition gausses := gausses_gen gauss_redraw_zero.

(* ---- seeding: ints of any size are used as they are; the first state is next seed *)
Definition seed_int (z : Z) : rng := {| st := z; pend := false; dead := false |}.
(* other seeds: big-endian integer of the UTF-8 bytes of str(seed), modulo str_seed_mod *)
Definition bytes_be (bs : list Z) : Z := fold_left (fun acc b => acc * 256 + b) bs 0.
Definition seed_bytes (bs : list Z) : rng := seed_int (bytes_be bs mod str_seed_mod).
