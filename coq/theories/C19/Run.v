(* wire codec and macro steps for the C19 correspondence check: a scheduler grant lets one caller run from the lock request
   (or getter pause) it is blocked at up to its next lock request / getter pause / spin / end. *)
From Coq Require Import ZArith List Bool.
From Coba Require Import Common.Sx C19.Model.
Import ListNotations.
Open Scope Z_scope.

Definition blocks (ch : nat -> entry) (c : caller) : bool :=
  match cpc c with
  | Idle | R0 _ => false
  | G0 _ | G2 _ | R1 _ | G4 _ | G5 _ | G6 _ | GBody _ | R2 _ => true
  | G1 k => match ch k with Present => false | _ => true end
  | G3 k => match ch k with Present => true | _ => false end
  end.

Definition cur (s : state) (t : nat) : caller := nth t (callers s) {| cpc := Idle; todo := [] |}.

Fixpoint free_run (fuel : nat) (t : nat) (s : state) : state :=
  match fuel with
  | O => s
  | S f => let c := cur s t in
           if finished c || blocks (cache s) c then s else free_run f t (step (t, true) s)
  end.
Definition macro (tb : nat * bool) (s : state) : state :=
  let t := fst tb in
  let s1 := if blocks (cache s) (cur s t) then step tb s else s in
  free_run 8 t s1.

Definition dec_op (x : sx) : op := match as_z (nth_sx 0 x) with 0 => OGet (as_nat (nth_sx 1 x)) | _ => ORmv (as_nat (nth_sx 1 x)) end.
Definition pc_code (p : pc) : Z :=
  match p with Idle => 0 | G0 _ => 1 | G1 _ => 2 | G2 _ => 3 | G3 _ => 4 | G4 _ => 5 | G5 _ => 6 | GBody _ => 7 | R0 _ => 8 | R1 _ => 9 | R2 _ => 10 | G6 _ => 11 end.
Definition ent_code (e : entry) : Z := match e with Absent => 0 | Writing => 1 | Present => 2 end.
Definition snapshot (nkeys : nat) (s : state) : sx :=
  L_ [Z_ (arr s); of_zs (map (fun k => ent_code (cache s k)) (seq 0 nkeys)); of_zs (map (fun c => pc_code (cpc c)) (callers s));
      of_zs (map (fun c => Z.of_nat (length (todo c))) (callers s))].

Fixpoint macros (nkeys : nat) (sched : list (nat * bool)) (s : state) : list sx :=
  match sched with [] => [] | tb :: r => let s' := macro tb s in snapshot nkeys s' :: macros nkeys r s' end.

(* request: (nkeys programs schedule) *)
Definition run (x : sx) : sx :=
  let nkeys := as_nat (nth_sx 0 x) in
  let progs := map (fun p => map dec_op (as_l p)) (as_l (nth_sx 1 x)) in
  let sched := map (fun e => (as_nat (nth_sx 0 e), as_bool (nth_sx 1 e))) (as_l (nth_sx 2 x)) in
  L_ (macros nkeys sched (init progs)).
