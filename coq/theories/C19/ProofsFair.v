(* No caller waits for ever: every non-spinning step lowers a potential, and every round in which each caller is scheduled at least once contains a
   non-spinning step while somebody is unfinished; so after at most mu(s) such rounds everybody has finished. *)
From Coq Require Import ZArith List Bool Lia Arith.
From Coba Require Import C19.Model C19.Proofs.
Import ListNotations.
Close Scope Z_scope.
Open Scope nat_scope.

Definition rank (p : pc) : nat :=
  match p with Idle => 0 | G0 _ => 7 | G1 _ => 6 | G2 _ => 5 | G3 _ => 4 | G4 _ => 3 | G5 _ => 2 | G6 _ => 1 | GBody _ => 1 | R0 _ => 3 | R1 _ => 2 | R2 _ => 1 end%nat.
Definition mu_c (c : caller) : nat := rank (cpc c) + 8 * length (todo c).
Definition mu_l (cs : list caller) : nat := fold_right (fun c acc => mu_c c + acc) 0 cs.
Definition mu (s : state) : nat := mu_l (callers s).

Lemma step_caller_spin_or_dec b a ch c :
  let '(c', a', ch') := step_caller b a ch c in (c' = c /\ a' = a /\ ch' = ch) \/ mu_c c' < mu_c c.
Proof.
  unfold step_caller. destruct c as [p td]. cbn [cpc todo]. destruct p; cbn [at_ cpc todo];
  repeat match goal with
         | |- context [match ?x with _ => _ end] => is_var x; destruct x
         | |- context [match ch ?k with _ => _ end] => destruct (ch k)
         | |- context [if ?x then _ else _] => destruct x
         end; cbn;
  first [left; repeat split; reflexivity | right; unfold mu_c; cbn; lia].
Qed.

Lemma mu_l_upd : forall cs t c c', nth_error cs t = Some c -> mu_l (upd t c' cs) + mu_c c = mu_l cs + mu_c c'.
Proof.
  induction cs as [|h r IH]; intros t c c' H; [destruct t; discriminate|]. destruct t as [|t].
  - cbn in H. injection H as ->. cbn. lia.
  - cbn in H. cbn [upd mu_l fold_right]. fold (mu_l (upd t c' r)). fold (mu_l r). specialize (IH t c c' H). lia.
Qed.

Lemma step_spin_or_dec tb s : step tb s = s \/ mu (step tb s) < mu s.
Proof.
  unfold step. destruct (nth_error (callers s) (fst tb)) as [c|] eqn:E; [|left; reflexivity].
  pose proof (step_caller_spin_or_dec (snd tb) (arr s) (cache s) c) as H. destruct (step_caller (snd tb) (arr s) (cache s) c) as [[c' a'] ch'].
  destruct H as [[-> [-> ->]]|H].
  - left. rewrite (upd_same _ _ _ E). destruct s; reflexivity.
  - right. unfold mu. cbn [callers]. pose proof (mu_l_upd _ _ _ c' E). lia.
Qed.
Lemma run_mu_le : forall sched s, mu (run sched s) <= mu s.
Proof.
  induction sched as [|tb r IH]; intros s; [apply le_n|]. cbn [run fold_left]. fold (run r (step tb s)).
  destruct (step_spin_or_dec tb s) as [E|H]; [rewrite E; apply IH|]. specialize (IH (step tb s)). lia.
Qed.

Lemma moves_any_b s t b b' : moves s t b -> moves s t b'.
Proof.
  intros [c [Hc Hm]]. exists c. split; [exact Hc|]. revert Hm. unfold step_caller. destruct c as [p td]. cbn [cpc todo]. destruct p; try exact (fun H => H).
  destruct b, b'; cbn [fst at_ cpc]; intros _ E; inversion E.
Qed.
Lemma moves_dec s t b : moves s t b -> mu (step (t, b) s) < mu s.
Proof.
  intros [c [Hc Hm]]. unfold step. cbn [fst snd]. rewrite Hc.
  pose proof (step_caller_spin_or_dec b (arr s) (cache s) c) as H. destruct (step_caller b (arr s) (cache s) c) as [[c' a'] ch']. cbn [fst] in Hm.
  destruct H as [[E _]|H]; [congruence|]. unfold mu. cbn [callers]. pose proof (mu_l_upd _ _ _ c' Hc). lia.
Qed.

Lemma progress_within : forall sched s t b, moves s t b -> (exists b', In (t, b') sched) -> mu (run sched s) < mu s.
Proof.
  induction sched as [|[t' b'] r IH]; intros s t b Hm [b0 Hin]; [destruct Hin|]. cbn [run fold_left]. fold (run r (step (t', b') s)).
  destruct (step_spin_or_dec (t', b') s) as [E|H].
  - rewrite E. destruct Hin as [Eq|Hin].
    + injection Eq as -> ->. pose proof (moves_dec s t b0 (moves_any_b s t b b0 Hm)) as D. rewrite E in D. lia.
    + apply (IH s t b Hm). exists b0. exact Hin.
  - pose proof (run_mu_le r (step (t', b') s)). lia.
Qed.

Definition covers (n : nat) (sched : list (nat * bool)) : Prop := forall t, t < n -> exists b, In (t, b) sched.

Theorem fair_round_progress s sched : Inv s -> forallb finished (callers s) = false -> covers (length (callers s)) sched -> mu (run sched s) < mu s.
Proof.
  intros HI Hf Hc. destruct (no_deadlock s HI Hf) as [t [b Hm]]. apply (progress_within sched s t b Hm). apply Hc.
  destruct Hm as [c [Hn _]]. apply nth_error_Some. congruence.
Qed.

Lemma length_upd {A} : forall (l : list A) t x, length (upd t x l) = length l.
Proof. induction l as [|h r IH]; intros t x; [destruct t; reflexivity|]. destruct t; cbn; [reflexivity|]. rewrite IH. reflexivity. Qed.
Lemma step_length tb s : length (callers (step tb s)) = length (callers s).
Proof. unfold step. destruct (nth_error (callers s) (fst tb)); [|reflexivity]. destruct (step_caller _ _ _ _) as [[c' a'] ch']. cbn. apply length_upd. Qed.
Lemma run_length : forall sched s, length (callers (run sched s)) = length (callers s).
Proof. induction sched as [|tb r IH]; intros s; [reflexivity|]. cbn [run fold_left]. fold (run r (step tb s)). rewrite IH. apply step_length. Qed.

Lemma mu_zero_finished cs : mu_l cs = 0 -> forallb finished cs = true.
Proof.
  induction cs as [|c r IH]; intros H; [reflexivity|]. cbn in H. fold (mu_l r) in H. cbn [forallb]. rewrite IH by lia. rewrite andb_true_r.
  unfold mu_c in H. destruct c as [p td]. cbn in *. destruct p; cbn in H; try lia. destruct td; [reflexivity|cbn in H; lia].
Qed.
Lemma finished_step tb s : forallb finished (callers s) = true -> step tb s = s.
Proof.
  intros Hf. unfold step. destruct (nth_error (callers s) (fst tb)) as [c|] eqn:E; [|reflexivity].
  assert (finished c = true) as Fc by (rewrite forallb_forall in Hf; apply Hf; eapply nth_error_In; exact E).
  destruct c as [p td]. unfold finished in Fc. cbn in Fc. destruct p; try discriminate. destruct td; [|discriminate]. cbn. rewrite (upd_same _ _ _ E). destruct s; reflexivity.
Qed.
Lemma finished_run : forall sched s, forallb finished (callers s) = true -> run sched s = s.
Proof. induction sched as [|tb r IH]; intros s Hf; [reflexivity|]. cbn [run fold_left]. fold (run r (step tb s)). rewrite (finished_step tb s Hf). apply IH. exact Hf. Qed.

Theorem fair_rounds_terminate : forall rounds s, Inv s -> Forall (covers (length (callers s))) rounds -> mu s <= length rounds ->
  forallb finished (callers (run (concat rounds) s)) = true.
Proof.
  induction rounds as [|r rs IH]; intros s HI Hc Hm.
  - cbn. apply mu_zero_finished. cbn in Hm. unfold mu in Hm. lia.
  - cbn [concat]. unfold run. rewrite fold_left_app. fold (run r s). fold (run (concat rs) (run r s)).
    inversion Hc as [|? ? Hr Hrs]; subst. destruct (forallb finished (callers s)) eqn:Hf.
    + rewrite (finished_run r s Hf). rewrite (finished_run (concat rs) s Hf). exact Hf.
    + pose proof (fair_round_progress s r HI Hf Hr) as D. apply IH.
      * apply run_inv. exact HI.
      * rewrite run_length. exact Hrs.
      * cbn [length] in Hm. lia.
Qed.
