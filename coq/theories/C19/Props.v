(* C19 — Shared caches never expose partial entries and always release their locks.  Property theorems only.
   For ANY number of callers, ANY operation lists and ANY schedule (every interleaving at the granularity of the atomic lock
   blocks, getter steps and inner-cache operations; getters may fail at their step). *)
From Coq Require Import ZArith List Bool.
From Coba Require Import C19.Model C19.Proofs C19.ProofsFair.
Import ListNotations.
Open Scope Z_scope.

(* the counter protocol: arr = -1 iff exactly one caller holds the write lock and nobody reads; arr = r >= 0 iff r read locks are held
   and nobody writes; an entry is Writing iff exactly one caller is running its getter / inner write *)
Theorem counter_invariant : forall progs sched, Inv (run sched (init progs)).
Proof. exact reachable_inv. Qed.
Print Assumptions counter_invariant.

Theorem invariant_is_inductive : forall tb s, Inv s -> Inv (step tb s).
Proof. exact step_inv. Qed.
Print Assumptions invariant_is_inductive.

Theorem no_partial_read : forall progs sched t c, let s := run sched (init progs) in
  nth_error (callers s) t = Some c -> holdsR (cpc c) = 1 -> forall j, cache s j <> Writing.
Proof. exact (fun progs sched t c => Proofs.no_partial_read _ t c (reachable_inv progs sched)). Qed.
Print Assumptions no_partial_read.

Theorem writers_exclusive : forall progs sched, let s := run sched (init progs) in
  total holdsW (callers s) <= 1 /\ forall j k, cache s j = Writing -> cache s k = Writing -> j = k.
Proof. exact (fun progs sched => Proofs.writers_exclusive _ (reachable_inv progs sched)). Qed.
Print Assumptions writers_exclusive.

Theorem all_released : forall progs sched, let s := run sched (init progs) in
  forallb finished (callers s) = true -> arr s = 0 /\ forall j, cache s j <> Writing.
Proof. exact (fun progs sched => Proofs.all_released _ (reachable_inv progs sched)). Qed.
Print Assumptions all_released.

Theorem no_deadlock : forall progs sched, let s := run sched (init progs) in
  forallb finished (callers s) = false -> exists t b, moves s t b.
Proof. exact (fun progs sched => Proofs.no_deadlock _ (reachable_inv progs sched)). Qed.
Print Assumptions no_deadlock.


(* no caller waits for ever.  mu is a potential (the number of protocol steps the callers still have before them); a step either leaves the state unchanged
   (a spin on the counter) or lowers mu; in every round that schedules each caller at least once, while somebody is unfinished, some non-spinning step
   happens (no_deadlock keeps a move enabled until a move is made); hence after at most mu rounds - 8 per pending operation - everybody has finished,
   under ANY scheduler that keeps scheduling every caller, for any getter outcomes *)
Theorem every_step_spins_or_lowers_the_potential : forall tb s, step tb s = s \/ (mu (step tb s) < mu s)%nat.
Proof. exact step_spin_or_dec. Qed.
Print Assumptions every_step_spins_or_lowers_the_potential.

Theorem every_fair_round_makes_progress : forall s sched, Inv s -> forallb finished (callers s) = false -> covers (length (callers s)) sched -> (mu (run sched s) < mu s)%nat.
Proof. exact fair_round_progress. Qed.
Print Assumptions every_fair_round_makes_progress.

Theorem no_caller_waits_for_ever : forall progs rounds, Forall (covers (length progs)) rounds -> (mu (init progs) <= length rounds)%nat ->
  forallb finished (callers (run (concat rounds) (init progs))) = true.
Proof.
  exact (fun progs rounds Hc Hm => fair_rounds_terminate rounds (init progs) (init_inv progs)
           (eq_ind_r (fun n => Forall (covers n) rounds) Hc (map_length _ progs)) Hm).
Qed.
Print Assumptions no_caller_waits_for_ever.

(* the getter runs only when the entry is not cached; a getter or inner write that fails leaves the entry absent and the lock free *)
Theorem single_flight_step : forall b a ch k td, ch k = Present -> cpc (fst (fst (step_caller b a ch {| cpc := G3 k; todo := td |}))) = GBody k.
Proof. exact getter_only_when_absent. Qed.
Theorem getter_fault_leaves_no_entry : forall a ch k td,
  let '(c', a', ch') := step_caller false a ch {| cpc := G4 k; todo := td |} in
  cpc c' = G6 k /\ ch' k = Absent /\ (let '(c'', a'', ch'') := step_caller true a' ch' c' in cpc c'' = Idle /\ a'' = 0 /\ ch'' k = Absent).
Proof. exact getter_fault_clean. Qed.

(* non-vacuity: two callers on colliding keys, a failing getter, a removal *)
Example reachable_example :
  let s := run [(0%nat,true);(0%nat,true);(1%nat,true);(0%nat,true);(0%nat,true);(0%nat,true);(0%nat,false);(1%nat,true);(1%nat,true)] (init [[OGet 0]; [OGet 1; ORmv 1]]) in
  arr s = -1 /\ cache s 0%nat = Absent /\ map cpc (callers s) = [G6 0%nat; G0 1%nat].
Proof. vm_compute. repeat split; reflexivity. Qed.
