(* ConcurrentCacher (coba/context/cachers.py) as an interleaving state machine.
   One slot of the lock table is modelled (every key hashes to it: equal keys and colliding keys are the hard case; keys
   in different slots do not interact).  arr is the slot's counter: -1 = write lock, r >= 0 = r read locks.
   Each `with self._lock:` block is one atomic step; a failed test is a spin (stutter).  Callers run arbitrary lists of
   get_set / rmv operations (no nesting).  The inner cache entry of a key is Absent | Writing | Present. *)
From Coq Require Import ZArith List Bool Lia.
Import ListNotations.
Open Scope Z_scope.

Inductive entry := Absent | Writing | Present.
Inductive op := OGet (k : nat) | ORmv (k : nat).
Inductive pc :=
| Idle
| G0 (k : nat)      (* get_set: waiting for the read lock *)
| G1 (k : nat)      (* holds a read lock, about to test `key in cache` *)
| G2 (k : nat)      (* released it, waiting for the write lock *)
| G3 (k : nat)      (* holds the write lock, about to re-test *)
| G4 (k : nat)      (* getter / inner write in progress (entry is Writing) *)
| G5 (k : nat)      (* entry complete, about to switch write -> read *)
| G6 (k : nat)      (* getter / inner write failed (entry removed again), about to release the write lock *)
| GBody (k : nat)   (* inside the with-block, holds a read lock *)
| R0 (k : nat)      (* rmv: about to test `key in self` (no lock) *)
| R1 (k : nat)      (* waiting for the write lock *)
| R2 (k : nat).     (* holds the write lock, entry removed, about to release *)

Record caller := { cpc : pc; todo : list op }.
Record state := { arr : Z; cache : nat -> entry; callers : list caller }.

Definition set (ch : nat -> entry) (k : nat) (e : entry) : nat -> entry := fun j => if Nat.eqb j k then e else ch j.
Definition at_ (p : pc) (c : caller) : caller := {| cpc := p; todo := todo c |}.

(* one step of one caller; b resolves the only non-determinism: does the getter / inner write succeed *)
Definition step_caller (b : bool) (a : Z) (ch : nat -> entry) (c : caller) : caller * Z * (nat -> entry) :=
  match cpc c with
  | Idle => match todo c with
            | [] => (c, a, ch)
            | OGet k :: t => ({| cpc := G0 k; todo := t |}, a, ch)
            | ORmv k :: t => ({| cpc := R0 k; todo := t |}, a, ch)
            end
  | G0 k => if 0 <=? a then (at_ (G1 k) c, a + 1, ch) else (c, a, ch)
  | G1 k => match ch k with Present => (at_ (GBody k) c, a, ch) | _ => (at_ (G2 k) c, a - 1, ch) end
  | G2 k => if a =? 0 then (at_ (G3 k) c, -1, ch) else (c, a, ch)
  | G3 k => match ch k with Present => (at_ (GBody k) c, 1, ch) | _ => (at_ (G4 k) c, a, set ch k Writing) end
  | G4 k => if b then (at_ (G5 k) c, a, set ch k Present) else (at_ (G6 k) c, a, set ch k Absent)
  | G6 k => (at_ Idle c, 0, ch)
  | G5 k => (at_ (GBody k) c, 1, ch)
  | GBody k => (at_ Idle c, a - 1, ch)
  | R0 k => match ch k with Present => (at_ (R1 k) c, a, ch) | _ => (at_ Idle c, a, ch) end   (* MemoryCacher: an entry being written is not yet contained *)
  | R1 k => if a =? 0 then (at_ (R2 k) c, -1, set ch k Absent) else (c, a, ch)
  | R2 k => (at_ Idle c, 0, ch)
  end.

Fixpoint upd {A} (t : nat) (x : A) (l : list A) : list A :=
  match l, t with [], _ => [] | _ :: r, O => x :: r | h :: r, S t' => h :: upd t' x r end.

Definition step (tb : nat * bool) (s : state) : state :=
  match nth_error (callers s) (fst tb) with
  | None => s
  | Some c => let '(c', a', ch') := step_caller (snd tb) (arr s) (cache s) c in
              {| arr := a'; cache := ch'; callers := upd (fst tb) c' (callers s) |}
  end.

Definition run (sched : list (nat * bool)) (s : state) : state := fold_left (fun s tb => step tb s) sched s.
Definition init (progs : list (list op)) : state :=
  {| arr := 0; cache := fun _ => Absent; callers := map (fun p => {| cpc := Idle; todo := p |}) progs |}.

(* who holds what *)
Definition holdsW (p : pc) : Z := match p with G3 _ | G4 _ | G5 _ | G6 _ | R2 _ => 1 | _ => 0 end.
Definition holdsR (p : pc) : Z := match p with G1 _ | GBody _ => 1 | _ => 0 end.
Definition writes (k : nat) (p : pc) : Z := match p with G4 j => if Nat.eqb j k then 1 else 0 | _ => 0 end.
Definition total (f : pc -> Z) (cs : list caller) : Z := fold_right (fun c acc => f (cpc c) + acc) 0 cs.
Definition finished (c : caller) : bool := match cpc c, todo c with Idle, [] => true | _, _ => false end.
