From Coq Require Import ZArith List Bool Lia.
From Coba Require Import C19.Model.
Import ListNotations.
Open Scope Z_scope.

(* ---------- counting *)
Lemma total_upd f : forall cs t c c', nth_error cs t = Some c -> total f (upd t c' cs) = total f cs - f (cpc c) + f (cpc c').
Proof.
  induction cs as [|h r IH]; intros t c c' H; [destruct t; discriminate|].
  destruct t as [|t]; cbn in H.
  - inversion H; subst. cbn. lia.
  - cbn [upd total fold_right]. fold (total f r). fold (total f (upd t c' r)). rewrite (IH t c c' H). lia.
Qed.
Lemma upd_same {A} : forall (l : list A) t x, nth_error l t = Some x -> upd t x l = l.
Proof. induction l as [|h r IH]; intros [|t] x H; cbn in *; try discriminate; [inversion H; reflexivity|f_equal; apply IH; exact H]. Qed.
Lemma nth_error_upd {A} : forall (l : list A) t x, (t < length l)%nat -> nth_error (upd t x l) t = Some x.
Proof. induction l as [|h r IH]; intros [|t] x H; cbn in *; try lia; [reflexivity|apply IH; lia]. Qed.
Lemma nth_error_upd_other {A} : forall (l : list A) t j x, t <> j -> nth_error (upd t x l) j = nth_error l j.
Proof. induction l as [|h r IH]; intros [|t] [|j] x H; cbn; try reflexivity; try lia. apply IH. lia. Qed.
Lemma total_nonneg f cs : (forall p, 0 <= f p) -> 0 <= total f cs.
Proof. intros H. induction cs as [|c r IH]; cbn; [lia|]. specialize (H (cpc c)). fold (total f r). lia. Qed.
Lemma total_le f g cs : (forall p, f p <= g p) -> total f cs <= total g cs.
Proof. intros H. induction cs as [|c r IH]; cbn; [lia|]. specialize (H (cpc c)). fold (total f r). fold (total g r). lia. Qed.
Lemma writes_le_holdsW k p : writes k p <= holdsW p.
Proof. destruct p; cbn; try lia. destruct (Nat.eqb k0 k); lia. Qed.
Lemma writes_nonneg k p : 0 <= writes k p.
Proof. destruct p; cbn; try lia. destruct (Nat.eqb k0 k); lia. Qed.
Lemma holdsW_nonneg p : 0 <= holdsW p. Proof. destruct p; cbn; lia. Qed.
Lemma holdsR_nonneg p : 0 <= holdsR p. Proof. destruct p; cbn; lia. Qed.

(* the others' writes are bounded by the others' write locks *)
Lemma others_writes cs t c k : nth_error cs t = Some c ->
  total (writes k) cs - writes k (cpc c) <= total holdsW cs - holdsW (cpc c).
Proof.
  intros H. pose proof (total_upd (writes k) cs t c {| cpc := Idle; todo := [] |} H) as E1.
  pose proof (total_upd holdsW cs t c {| cpc := Idle; todo := [] |} H) as E2. cbn in E1, E2.
  pose proof (total_le (writes k) holdsW (upd t {| cpc := Idle; todo := [] |} cs) (writes_le_holdsW k)). lia.
Qed.

(* ---------- the invariant *)
Definition LockInv (s : state) : Prop :=
  (arr s = -1 /\ total holdsW (callers s) = 1 /\ total holdsR (callers s) = 0) \/
  (0 <= arr s /\ total holdsW (callers s) = 0 /\ total holdsR (callers s) = arr s).
Definition WriteInv (s : state) : Prop :=
  forall k, (cache s k = Writing -> total (writes k) (callers s) = 1) /\ (cache s k <> Writing -> total (writes k) (callers s) = 0).
Definition Inv (s : state) : Prop := LockInv s /\ WriteInv s.

Lemma set_same ch k e : set ch k e k = e. Proof. unfold set. rewrite Nat.eqb_refl. reflexivity. Qed.
Lemma set_other ch k e j : j <> k -> set ch k e j = ch j.
Proof. intros H. unfold set. destruct (Nat.eqb j k) eqn:E; [apply Nat.eqb_eq in E; contradiction|reflexivity]. Qed.
Lemma writes_other k j : j <> k -> writes j (G4 k) = 0.
Proof. intros H. cbn. destruct (Nat.eqb k j) eqn:E; [apply Nat.eqb_eq in E; congruence|reflexivity]. Qed.
Lemma writes_self k : writes k (G4 k) = 1. Proof. cbn. rewrite Nat.eqb_refl. reflexivity. Qed.

Ltac tot0 H := repeat rewrite (total_upd _ _ _ _ _ H); cbn [cpc at_ holdsW holdsR].
Ltac tot H := tot0 H; cbn [writes].

Lemma init_inv progs : Inv (init progs).
Proof.
  unfold Inv, LockInv, WriteInv, init. cbn [arr cache callers].
  assert (Z : forall f, f Idle = 0 -> total f (map (fun p => {| cpc := Idle; todo := p |}) progs) = 0).
  { intros f Hf. induction progs as [|p r IH]; cbn; [reflexivity|]. fold (total f (map (fun p0 => {| cpc := Idle; todo := p0 |}) r)). rewrite IH, Hf. reflexivity. }
  split; [right; rewrite !Z by reflexivity; lia|]. intros k. split; [discriminate|]. intros _. apply Z. reflexivity.
Qed.

Theorem step_inv tb s : Inv s -> Inv (step tb s).
Proof.
  intros [HL HW]. unfold step. destruct (nth_error (callers s) (fst tb)) as [c|] eqn:Hc; [|split; assumption].
  set (t := fst tb) in *. set (b := snd tb).
  pose proof (total_nonneg holdsW (callers s) holdsW_nonneg) as NW. pose proof (total_nonneg holdsR (callers s) holdsR_nonneg) as NR.
  assert (OW : forall k, total (writes k) (callers s) - writes k (cpc c) <= total holdsW (callers s) - holdsW (cpc c)) by (intros; eapply others_writes; exact Hc).
  assert (Hw0 : forall k, 0 <= total (writes k) (callers s)) by (intros; apply total_nonneg; apply writes_nonneg).
  unfold step_caller. destruct c as [p td]. cbn [cpc todo] in *. unfold Inv, LockInv, WriteInv in *.
  destruct p as [|k|k|k|k|k|k|k|k|k|k|k].
  - (* Idle *) destruct td as [|[k|k] td']; cbn [arr cache callers].
    + rewrite (upd_same _ _ _ Hc). split; assumption.
    + split; [tot Hc; destruct HL as [HL|HL]; [left|right]; lia|]. intros j. tot Hc. specialize (HW j). replace (total (writes j) (callers s) - 0 + 0) with (total (writes j) (callers s)) by lia. exact HW.
    + split; [tot Hc; destruct HL as [HL|HL]; [left|right]; lia|]. intros j. tot Hc. specialize (HW j). replace (total (writes j) (callers s) - 0 + 0) with (total (writes j) (callers s)) by lia. exact HW.
  - (* G0 *) destruct (0 <=? arr s) eqn:E; cbn [arr cache callers].
    + apply Z.leb_le in E. split; [tot Hc; destruct HL as [HL|HL]; [lia|right; lia]|]. intros j. tot Hc. specialize (HW j). replace (total (writes j) (callers s) - 0 + 0) with (total (writes j) (callers s)) by lia. exact HW.
    + rewrite (upd_same _ _ _ Hc). split; assumption.
  - (* G1 *) assert (R1 : 1 <= total holdsR (callers s)).
    { pose proof (total_upd holdsR _ _ _ {| cpc := Idle; todo := [] |} Hc) as E. cbn in E. pose proof (total_nonneg holdsR (upd t {| cpc := Idle; todo := [] |} (callers s)) holdsR_nonneg). lia. }
    destruct (cache s k); cbn [arr cache callers]; (split; [tot Hc; destruct HL as [HL|HL]; [lia|right; lia]|]); intros j; tot Hc; specialize (HW j); replace (total (writes j) (callers s) - 0 + 0) with (total (writes j) (callers s)) by lia; exact HW.
  - (* G2 *) destruct (arr s =? 0) eqn:E; cbn [arr cache callers].
    + apply Z.eqb_eq in E. split; [tot Hc; destruct HL as [HL|HL]; [lia|left; lia]|]. intros j. tot Hc. specialize (HW j). replace (total (writes j) (callers s) - 0 + 0) with (total (writes j) (callers s)) by lia. exact HW.
    + rewrite (upd_same _ _ _ Hc). split; assumption.
  - (* G3: holds the write lock *)
    assert (W1 : 1 <= total holdsW (callers s)).
    { pose proof (total_upd holdsW _ _ _ {| cpc := Idle; todo := [] |} Hc) as E. cbn in E. pose proof (total_nonneg holdsW (upd t {| cpc := Idle; todo := [] |} (callers s)) holdsW_nonneg). lia. }
    destruct HL as [HL|HL]; [|lia].
    assert (NoW : forall j, total (writes j) (callers s) = 0). { intros j. specialize (OW j). specialize (Hw0 j). cbn in OW. lia. }
    destruct (cache s k) eqn:Ek; cbn [arr cache callers].
    + split; [tot Hc; left; lia|]. intros j. tot0 Hc. change (writes j (G3 k)) with 0. destruct (Nat.eq_dec j k) as [->|Hj].
      * rewrite set_same, writes_self, NoW. split; [lia|congruence].
      * rewrite (set_other _ _ _ _ Hj), (writes_other _ _ Hj). specialize (HW j). rewrite NoW in *. split; [intros Wj; apply HW in Wj; lia|lia].
    + exfalso. destruct (HW k) as [H1 _]. specialize (H1 Ek). rewrite NoW in H1. lia.
    + split; [tot Hc; right; lia|]. intros j. tot Hc. specialize (HW j). replace (total (writes j) (callers s) - 0 + 0) with (total (writes j) (callers s)) by lia. exact HW.
  - (* G4: the getter / inner write finishes or fails *)
    assert (W1 : 1 <= total holdsW (callers s)).
    { pose proof (total_upd holdsW _ _ _ {| cpc := Idle; todo := [] |} Hc) as E. cbn in E. pose proof (total_nonneg holdsW (upd t {| cpc := Idle; todo := [] |} (callers s)) holdsW_nonneg). lia. }
    destruct HL as [HL|HL]; [|lia].
    assert (Others : forall j, total (writes j) (callers s) - writes j (G4 k) = 0). { intros j. specialize (OW j). pose proof (total_upd (writes j) _ _ _ {| cpc := Idle; todo := [] |} Hc) as E. cbn [cpc] in E. pose proof (total_nonneg (writes j) (upd t {| cpc := Idle; todo := [] |} (callers s)) (writes_nonneg j)). cbn [cpc holdsW] in OW. change (writes j Idle) with 0 in E. lia. }
    destruct b; cbn [arr cache callers].
    + split; [tot Hc; left; lia|]. intros j. tot0 Hc. change (writes j (G5 k)) with 0. destruct (Nat.eq_dec j k) as [->|Hj].
      * rewrite set_same. specialize (Others k). rewrite writes_self in *. split; [discriminate|intros _; lia].
      * rewrite (set_other _ _ _ _ Hj). specialize (Others j). rewrite (writes_other _ _ Hj) in *. specialize (HW j). replace (total (writes j) (callers s) - 0 + 0) with (total (writes j) (callers s)) by lia. exact HW.
    + split; [tot Hc; left; lia|]. intros j. tot0 Hc. change (writes j (G6 k)) with 0. destruct (Nat.eq_dec j k) as [->|Hj].
      * rewrite set_same. specialize (Others k). rewrite writes_self in *. split; [discriminate|intros _; lia].
      * rewrite (set_other _ _ _ _ Hj). specialize (Others j). rewrite (writes_other _ _ Hj) in *. specialize (HW j). replace (total (writes j) (callers s) - 0 + 0) with (total (writes j) (callers s)) by lia. exact HW.
  - (* G5 *)
    assert (W1 : 1 <= total holdsW (callers s)).
    { pose proof (total_upd holdsW _ _ _ {| cpc := Idle; todo := [] |} Hc) as E. cbn in E. pose proof (total_nonneg holdsW (upd t {| cpc := Idle; todo := [] |} (callers s)) holdsW_nonneg). lia. }
    destruct HL as [HL|HL]; [|lia]. cbn [arr cache callers].
    split; [tot Hc; right; lia|]. intros j. tot Hc. specialize (HW j). replace (total (writes j) (callers s) - 0 + 0) with (total (writes j) (callers s)) by lia. exact HW.
  - (* G6: releases the write lock after a failed getter *)
    assert (W1 : 1 <= total holdsW (callers s)).
    { pose proof (total_upd holdsW _ _ _ {| cpc := Idle; todo := [] |} Hc) as E. cbn in E. pose proof (total_nonneg holdsW (upd t {| cpc := Idle; todo := [] |} (callers s)) holdsW_nonneg). lia. }
    destruct HL as [HL|HL]; [|lia]. cbn [arr cache callers].
    split; [tot Hc; right; lia|]. intros j. tot Hc. specialize (HW j). replace (total (writes j) (callers s) - 0 + 0) with (total (writes j) (callers s)) by lia. exact HW.
  - (* GBody *)
    assert (R1 : 1 <= total holdsR (callers s)).
    { pose proof (total_upd holdsR _ _ _ {| cpc := Idle; todo := [] |} Hc) as E. cbn in E. pose proof (total_nonneg holdsR (upd t {| cpc := Idle; todo := [] |} (callers s)) holdsR_nonneg). lia. }
    cbn [arr cache callers]. split; [tot Hc; destruct HL as [HL|HL]; [lia|right; lia]|]. intros j. tot Hc. specialize (HW j). replace (total (writes j) (callers s) - 0 + 0) with (total (writes j) (callers s)) by lia. exact HW.
  - (* R0 *) destruct (cache s k); cbn [arr cache callers]; (split; [tot Hc; destruct HL as [HL|HL]; [left|right]; lia|]); intros j; tot Hc; specialize (HW j); replace (total (writes j) (callers s) - 0 + 0) with (total (writes j) (callers s)) by lia; exact HW.
  - (* R1: acquires the write lock and removes the entry *)
    destruct (arr s =? 0) eqn:E; cbn [arr cache callers].
    + apply Z.eqb_eq in E. destruct HL as [HL|HL]; [lia|].
      assert (NoW : forall j, total (writes j) (callers s) = 0). { intros j. pose proof (total_le (writes j) holdsW (callers s) (writes_le_holdsW j)). specialize (Hw0 j). lia. }
      split; [tot Hc; left; lia|]. intros j. tot Hc. rewrite NoW. destruct (Nat.eq_dec j k) as [->|Hj].
      * rewrite set_same. split; [discriminate|intros _; lia].
      * rewrite (set_other _ _ _ _ Hj). specialize (HW j). rewrite NoW in HW. split; [intros Wj; apply HW in Wj; lia|lia].
    + rewrite (upd_same _ _ _ Hc). split; assumption.
  - (* R2: releases the write lock *)
    assert (W1 : 1 <= total holdsW (callers s)).
    { pose proof (total_upd holdsW _ _ _ {| cpc := Idle; todo := [] |} Hc) as E. cbn in E. pose proof (total_nonneg holdsW (upd t {| cpc := Idle; todo := [] |} (callers s)) holdsW_nonneg). lia. }
    destruct HL as [HL|HL]; [|lia]. cbn [arr cache callers].
    split; [tot Hc; right; lia|]. intros j. tot Hc. specialize (HW j). replace (total (writes j) (callers s) - 0 + 0) with (total (writes j) (callers s)) by lia. exact HW.
Qed.

(* ---------- every reachable state *)
Theorem run_inv sched : forall s, Inv s -> Inv (run sched s).
Proof. induction sched as [|tb sched IH]; intros s H; [exact H|]. cbn. apply IH. apply step_inv. exact H. Qed.
Corollary reachable_inv progs sched : Inv (run sched (init progs)).
Proof. apply run_inv, init_inv. Qed.

Lemma total_member f cs t c : (forall p, 0 <= f p) -> nth_error cs t = Some c -> f (cpc c) <= total f cs.
Proof.
  intros Hf. revert t. induction cs as [|h r IH]; intros t H; [destruct t; discriminate|].
  cbn. fold (total f r). destruct t as [|t]; cbn in H.
  - inversion H; subst. pose proof (total_nonneg f r Hf). lia.
  - specialize (IH t H). specialize (Hf (cpc h)). lia.
Qed.

(* an entry is never read while it is being written: whoever holds a read lock sees no Writing entry at all *)
Theorem no_partial_read s t c : Inv s -> nth_error (callers s) t = Some c -> holdsR (cpc c) = 1 -> forall j, cache s j <> Writing.
Proof.
  intros [HL HW] Hc Hr j Hj. pose proof (total_member holdsR _ _ _ holdsR_nonneg Hc) as R.
  destruct HL as [HL|HL]; [lia|]. destruct (HW j) as [H1 _]. specialize (H1 Hj).
  pose proof (total_le (writes j) holdsW (callers s) (writes_le_holdsW j)). lia.
Qed.

(* two writers never populate (or remove) at the same time; at most one entry is being written *)
Theorem writers_exclusive s : Inv s -> total holdsW (callers s) <= 1 /\ forall j k, cache s j = Writing -> cache s k = Writing -> j = k.
Proof.
  intros [HL HW]. split; [destruct HL as [HL|HL]; lia|].
  intros j k Hj Hk. destruct (Nat.eq_dec j k) as [E|E]; [exact E|exfalso].
  destruct (HW j) as [Wj _], (HW k) as [Wk _]. specialize (Wj Hj). specialize (Wk Hk).
  assert (S : total (fun p => writes j p + writes k p) (callers s) <= total holdsW (callers s)).
  { apply total_le. intros p. destruct p; cbn; try lia. destruct (Nat.eqb k0 j) eqn:E1, (Nat.eqb k0 k) eqn:E2; try lia.
    apply Nat.eqb_eq in E1. apply Nat.eqb_eq in E2. congruence. }
  assert (A : total (fun p => writes j p + writes k p) (callers s) = total (writes j) (callers s) + total (writes k) (callers s)).
  { clear. induction (callers s) as [|c r IH]; cbn; [reflexivity|]. fold (total (fun p => writes j p + writes k p) r). fold (total (writes j) r). fold (total (writes k) r). lia. }
  destruct HL as [HL|HL]; lia.
Qed.

(* when every caller has left its with-blocks and finished its operations no lock remains held *)
Lemma total_finished f cs : f Idle = 0 -> forallb finished cs = true -> total f cs = 0.
Proof.
  intros Hf. induction cs as [|c r IH]; intros H; [reflexivity|]. cbn in H. apply andb_true_iff in H. destruct H as [Hc Hr].
  cbn. fold (total f r). rewrite (IH Hr). unfold finished in Hc. destruct (cpc c); try discriminate. lia.
Qed.
Theorem all_released s : Inv s -> forallb finished (callers s) = true -> arr s = 0 /\ forall j, cache s j <> Writing.
Proof.
  intros [HL HW] Hf. unfold LockInv in HL. rewrite (total_finished holdsW _ eq_refl Hf), (total_finished holdsR _ eq_refl Hf) in HL.
  split; [destruct HL as [HL|HL]; lia|]. intros j Hj. destruct (HW j) as [H1 _]. specialize (H1 Hj).
  rewrite (total_finished (writes j) _ eq_refl Hf) in H1. lia.
Qed.

(* no caller waits forever: in every reachable state with an unfinished caller some caller can make a real (non-spinning) step *)
Definition moves (s : state) (t : nat) (b : bool) : Prop :=
  exists c, nth_error (callers s) t = Some c /\ fst (fst (step_caller b (arr s) (cache s) c)) <> c.

Lemma total_pos_exists f cs : (forall p, 0 <= f p) -> 1 <= total f cs -> exists t c, nth_error cs t = Some c /\ 1 <= f (cpc c).
Proof.
  intros Hf. induction cs as [|c r IH]; intros H; [cbn in H; lia|]. cbn in H. fold (total f r) in H.
  destruct (Z_le_gt_dec 1 (f (cpc c))) as [L|G].
  - exists 0%nat, c. split; [reflexivity|exact L].
  - specialize (Hf (cpc c)). destruct IH as [t [c' [H1 H2]]]; [lia|]. exists (S t), c'. split; [exact H1|exact H2].
Qed.

Lemma holder_moves s t c b : nth_error (callers s) t = Some c -> 1 <= holdsW (cpc c) + holdsR (cpc c) -> moves s t b.
Proof.
  intros Hc Hh. exists c. split; [exact Hc|]. unfold step_caller. destruct c as [p td]. cbn [cpc todo] in *.
  destruct p; cbn in Hh; try lia; cbn [fst];
  try (destruct (cache s k)); try (destruct b); cbn [fst at_ cpc]; intros E; inversion E.
Qed.

Theorem no_deadlock s : Inv s -> forallb finished (callers s) = false -> exists t b, moves s t b.
Proof.
  intros [HL HW] Hf.
  assert (Hex : exists t c, nth_error (callers s) t = Some c /\ finished c = false).
  { clear -Hf. induction (callers s) as [|c r IH]; [discriminate|]. cbn in Hf. destruct (finished c) eqn:E.
    - destruct IH as [t [c' [H1 H2]]]; [exact Hf|]. exists (S t), c'. split; assumption.
    - exists 0%nat, c. split; [reflexivity|exact E]. }
  destruct Hex as [t [c [Hc Hfin]]].
  (* either this caller moves, or it spins on a non-zero counter and then a lock holder moves *)
  destruct (Z.eq_dec (arr s) 0) as [A0|A0].
  - exists t, true. exists c. split; [exact Hc|]. unfold step_caller. destruct c as [p td]. cbn [cpc todo] in *. unfold finished in Hfin. cbn in Hfin.
    destruct p; try (destruct td as [|[k|k] td']; try discriminate); try (destruct (cache s k)); rewrite ?A0; cbn [fst at_ cpc Z.leb Z.eqb]; intros E; inversion E.
  - assert (Hold : 1 <= total holdsW (callers s) + total holdsR (callers s)) by (destruct HL as [HL|HL]; lia).
    pose proof (total_nonneg holdsW (callers s) holdsW_nonneg). pose proof (total_nonneg holdsR (callers s) holdsR_nonneg).
    destruct (Z_le_gt_dec 1 (total holdsW (callers s))) as [L|G].
    + destruct (total_pos_exists holdsW _ holdsW_nonneg L) as [t' [c' [H1 H2]]]. exists t', true. apply (holder_moves s t' c' true H1). pose proof (holdsR_nonneg (cpc c')). lia.
    + assert (LR : 1 <= total holdsR (callers s)) by lia.
      destruct (total_pos_exists holdsR _ holdsR_nonneg LR) as [t' [c' [H1 H2]]]. exists t', true. apply (holder_moves s t' c' true H1). pose proof (holdsW_nonneg (cpc c')). lia.
Qed.

(* the getter runs only when the entry is not cached; a getter / inner write that fails leaves the entry absent and the lock free *)
Lemma getter_only_when_absent b a ch k td : ch k = Present -> cpc (fst (fst (step_caller b a ch {| cpc := G3 k; todo := td |}))) = GBody k.
Proof. intros H. unfold step_caller. cbn [cpc]. rewrite H. reflexivity. Qed.
Lemma getter_fault_clean a ch k td :
  let '(c', a', ch') := step_caller false a ch {| cpc := G4 k; todo := td |} in
  cpc c' = G6 k /\ ch' k = Absent /\ (let '(c'', a'', ch'') := step_caller true a' ch' c' in cpc c'' = Idle /\ a'' = 0 /\ ch'' k = Absent).
Proof. cbn. repeat split; apply set_same. Qed.
