(* C13 — Lazy row views are indistinguishable from the eager table they describe (dense rows).
   Property theorems only. *)
From Coq Require Import ZArith List Bool Arith Lia.
From Coba Require Import C13.Model C13.Proofs.
From Coba Require C13.ModelSparse C13.ProofsSparse.
Import ListNotations.

(* For EVERY pipeline of HeadRows / EncodeRows / DropRows (by position and by name) / LabelRows.feats
   stages that is well formed for the row (header names distinct and as many as the row has cells,
   one encoder per cell, label position inside the row) and every row: iterating the lazy view gives
   the eager list, its length is the eager length, every position in range and every header name of
   the eager table returns the eager value, and .headers is the eager header table. *)
Theorem lazy_eq_eager : forall p l, wf p (l, None) ->
  let v := lazy p l in let e := eager p l in
  viter v = fst e /\ vlen v = length (fst e) /\
  (forall i, i < length (fst e) -> vget v i = nth_error (fst e) i) /\
  match snd e with
  | None => vhdr v = None
  | Some names => vhdr v = Some (mk_hdrs names) /\ NoDup names /\ length names = length (fst e) /\
                  (forall i n, nth_error names i = Some n -> vname v n = nth_error (fst e) i)
  end.
Proof. exact lazy_eq_eager_rep. Qed.
Print Assumptions lazy_eq_eager.

(* label / feats split: the label is the cell at the label position and feats is the row without it *)
Theorem feats_label_split : forall p l ind, wf p (l, None) -> ind < length (fst (eager p l)) ->
  label ind (lazy p l) = nth_error (fst (eager p l)) ind /\
  viter (feats ind (lazy p l)) = remove_at ind (fst (eager p l)).
Proof.
  exact (fun p l ind H Hi =>
    conj (proj1 (proj2 (proj2 (lazy_eq_eager_rep p l H))) ind Hi)
         (proj1 (rep_feats ind (lazy p l) (fst (eager p l)) (snd (eager p l))
                   (eq_rect _ (Rep (lazy p l)) (lazy_eq_eager_rep p l H) _ (surjective_pairing _)) Hi))).
Qed.
Print Assumptions feats_label_split.

(* a load-once row (LazyDense/LazySparse): any sequence of accesses returns what single accesses return *)
Theorem access_order_irrelevant : forall (loader : unit -> list Z) ks c, CellOK loader c ->
  accesses loader c ks = map (nth_error (loader tt)) ks.
Proof. exact Proofs.access_order_irrelevant. Qed.
Print Assumptions access_order_irrelevant.

(* non-vacuity: headers, encoders, a drop by name and by position, then the label split *)
Example pipeline_example :
  let p := [SHead [10;11;12;13]%Z; SEncode [EId; EAdd 1; EMul 2; EId]; SDrop [3] [10%Z]; SFeats 0] in
  wf p ([5;6;7;8]%Z, None) /\ viter (lazy p [5;6;7;8]%Z) = [14]%Z /\ vname (lazy p [5;6;7;8]%Z) 12%Z = Some 14%Z.
Proof.
  split; [|split; vm_compute; reflexivity].
  cbn. repeat split; try lia.
  repeat constructor; cbn; intuition discriminate.
Qed.

Module Sparse.
Import ModelSparse ProofsSparse.
Local Open Scope Z_scope.

(* Sparse rows.  Every stack of EncodeSparse / DropSparse / HeadSparse / LabelSparse wrappers over a plain dict with distinct keys reads like ONE dictionary:
   keys() has no repeats, __getitem__ succeeds exactly on keys(), items() is exactly the graph of __getitem__ with each key once, len() counts keys(). *)
Theorem sparse_views_are_dictionaries : forall stages d, Forall wf_sstage stages -> NoDup (map fst d) -> dictlike (spipeline stages d).
Proof. exact (fun stages d Hs Hd => ProofsSparse.sparse_views_are_dictionaries stages Hs (sbase d) (base_ok d Hd)). Qed.
Print Assumptions sparse_views_are_dictionaries.

(* the not-sparse set EncodeRows computes from distinct encoder keys is a well-formed stage *)
Theorem encode_rows_stage_wf : forall encs, NoDup (map fst encs) -> wf_sstage (SEncode encs (nsp_of encs)).
Proof. exact nsp_of_NoDup. Qed.
Print Assumptions encode_rows_stage_wf.

(* stage by stage the dictionary a view reads as is the eager dict operation applied to the dictionary of the wrapped view *)
Theorem sparse_stage_semantics : forall r, dictlike r ->
  (forall enc nsp k, sget (sencode enc nsp r) k = match sget r k with Some v => Some (app_enc (enc k) v) | None => if zmem k nsp then Some (app_enc (enc k) 0) else None end) /\
  (forall ds k, sget (sdrop ds r) k = if zmem k ds then None else sget r k) /\
  (forall sh k, sget (shead sh r) (k + sh) = sget r k) /\
  (forall lab, dictlike (sfeats lab r) /\ ~ In lab (skeys (sfeats lab r)) /\ (forall k, k <> lab -> sget (sfeats lab r) k = sget r k) /\
               slabel lab r = Some (match sget r lab with Some x => x | None => 0 end)).
Proof.
  exact (fun r Hr => conj (fun _ _ _ => eq_refl) (conj (fun _ _ => eq_refl) (conj (fun sh k => f_equal (sget r) (Z.add_simpl_r k sh)) (fun lab => feats_label lab r Hr)))).
Qed.
Print Assumptions sparse_stage_semantics.

Example sparse_example :
  let st := [SEncode [(1, EAdd 2); (3, EConst 7)] (nsp_of [(1, EAdd 2); (3, EConst 7)]); SDrop [0]; SHead 10]%Z in
  Forall wf_sstage st /\ sitems (spipeline st [(0, 5); (1, 6)]%Z) = [(11, 8); (13, 7)]%Z /\ slen (spipeline st [(0, 5); (1, 6)]%Z) = 2%nat.
Proof. split; [|split; vm_compute; reflexivity]. repeat constructor; cbn; intuition discriminate. Qed.
End Sparse.

(* EncodeCatRows('onehot') over a dense row (the flat one-hot form Finalize gives the evaluators): the row is edited in place - for each categorical, from the last to the
   first, pop / extend / two slice assignments - and the result is, for EVERY row (any number of categoricals, adjacent, first or last, with any numbers of levels), the
   row with every categorical replaced where it stood by the entries of its one-hot code; nothing else moves *)
From Coba Require C13.ModelEncodeCat C13.ProofsEncodeCat.
Theorem flat_onehot_encoding_is_the_in_place_replacement : forall o, ModelEncodeCat.encode_flat o = ModelEncodeCat.eager_flat o.
Proof. exact ProofsEncodeCat.encode_flat_eq_eager. Qed.
Print Assumptions flat_onehot_encoding_is_the_in_place_replacement.
(* one edit: the pop / extend / double slice assignment puts the code where the categorical was *)
Theorem flat_onehot_one_edit : forall k o, (k < length o)%nat ->
  ModelEncodeCat.splice1 k o = firstn k o ++ ModelEncodeCat.as_onehot (nth k o (ModelEncodeCat.Num 0)) ++ skipn (S k) o.
Proof. exact ProofsEncodeCat.splice1_spec. Qed.
Print Assumptions flat_onehot_one_edit.
Example flat_onehot_example :
  ModelEncodeCat.encode_flat [ModelEncodeCat.Num 3; ModelEncodeCat.Cat 2 3; ModelEncodeCat.Num 5; ModelEncodeCat.Cat 0 2; ModelEncodeCat.Cat 1 3]
  = [ModelEncodeCat.Num 3; ModelEncodeCat.Num 0; ModelEncodeCat.Num 0; ModelEncodeCat.Num 1; ModelEncodeCat.Num 5; ModelEncodeCat.Num 1; ModelEncodeCat.Num 0;
     ModelEncodeCat.Num 0; ModelEncodeCat.Num 1; ModelEncodeCat.Num 0].
Proof. vm_compute. reflexivity. Qed.

(* ... and with collections nested to any depth (fix ffa0447: for every collection first the collections below it, then its own categoricals from the last place to the first) *)
From Coba Require C13.ModelEncodeNested C13.ProofsEncodeNested.
Theorem nested_onehot_encoding_is_the_in_place_replacement : forall v, ModelEncodeNested.encode v = ModelEncodeNested.eager v.
Proof. exact ProofsEncodeNested.encode_eq_eager. Qed.
Print Assumptions nested_onehot_encoding_is_the_in_place_replacement.
Example nested_onehot_example :
  ModelEncodeNested.encode (ModelEncodeNested.VList [ModelEncodeNested.VNum 3; ModelEncodeNested.VCat 2 3;
                             ModelEncodeNested.VList [ModelEncodeNested.VNum 5; ModelEncodeNested.VList [ModelEncodeNested.VCat 0 2]]; ModelEncodeNested.VCat 1 2])
  = ModelEncodeNested.VList [ModelEncodeNested.VNum 3; ModelEncodeNested.VNum 0; ModelEncodeNested.VNum 0; ModelEncodeNested.VNum 1;
                             ModelEncodeNested.VList [ModelEncodeNested.VNum 5; ModelEncodeNested.VList [ModelEncodeNested.VNum 1; ModelEncodeNested.VNum 0]];
                             ModelEncodeNested.VNum 0; ModelEncodeNested.VNum 1].
Proof. vm_compute. reflexivity. Qed.

(* ... and over a sparse row (fix 1738a9b): the entry of the categorical goes, the entry name_level -> 1 comes, nothing else changes - for every row, every number of levels
   and every named level; the loop before the fix (index and value of the code swapped) is refuted by a computed row with three levels *)
From Coba Require C13.ModelEncodeSparse C13.ProofsEncodeSparse.
Theorem sparse_flat_onehot_is_one_entry : forall name o i n,
  ModelEncodeSparse.dget (name, None) o = Some (ModelEncodeSparse.SCat i n) -> (i < n)%nat ->
  (forall kv j, In kv o -> ModelEncodeSparse.skey_eqb (fst kv) (name, Some j) = false) ->
  ModelEncodeSparse.flat1 name o = ModelEncodeSparse.dpop (name, None) o ++ [((name, Some i), ModelEncodeSparse.SNum 1)].
Proof. exact ProofsEncodeSparse.flat1_spec. Qed.
Print Assumptions sparse_flat_onehot_is_one_entry.
Theorem sparse_flat_onehot_before_the_fix_refuted :
  ModelEncodeSparse.flat1_old 7%Z [((7%Z, None), ModelEncodeSparse.SCat 2 3); ((8%Z, None), ModelEncodeSparse.SNum 5)]
    = [((8%Z, None), ModelEncodeSparse.SNum 5); ((7%Z, Some 0%nat), ModelEncodeSparse.SNum 1); ((7%Z, Some 1%nat), ModelEncodeSparse.SNum 2)] /\
  ModelEncodeSparse.flat1 7%Z [((7%Z, None), ModelEncodeSparse.SCat 2 3); ((8%Z, None), ModelEncodeSparse.SNum 5)]
    = [((8%Z, None), ModelEncodeSparse.SNum 5); ((7%Z, Some 2%nat), ModelEncodeSparse.SNum 1)].
Proof. exact ProofsEncodeSparse.flat1_old_refuted. Qed.

(* ... and the forms that put ONE value where the categorical stood ('string': its level name, 'onehot_tuple': its one-hot tuple), over dense rows nested to any depth:
   the in-place assignments o[k] = f(o[k]) over the places of the categoricals, collections below first, are the eager replacement *)
From Coba Require C13.ModelEncodeInPlace C13.ProofsEncodeInPlace.
Theorem string_and_tuple_encodings_are_the_in_place_replacement : forall f v, ModelEncodeInPlace.iencode f v = ModelEncodeInPlace.ieager f v.
Proof. exact ProofsEncodeInPlace.iencode_eq_eager. Qed.
Print Assumptions string_and_tuple_encodings_are_the_in_place_replacement.
