(* C13 — Lazy row views are indistinguishable from the eager table they describe (dense rows).
   Property theorems only. *)
From Coq Require Import ZArith List Bool Arith Lia.
From Coba Require Import C13.Model C13.Proofs.
Import ListNotations.

(* For EVERY pipeline of HeadRows / EncodeRows / DropRows (by position and by name) / LabelRows.feats
   stages that is well formed for the row (header names distinct and as many as the row has cells,
   one encoder per cell, label position inside the row) and every row: iterating the lazy view gives
   the eager list, its length is the eager length, every position in range and every header name of
   the eager table returns the eager value, and .headers is the eager header table. *)
Theorem lazy_eq_eager : forall p l, wf p (l, None) ->
  let v := lazy p l in let e := eager p l in
  viter v = fst e /\ vlen v = length (fst e) /\
  (forall i, i < length (fst e) -> vget v i = nth_error (fst e) i) /\
  match snd e with
  | None => vhdr v = None
  | Some names => vhdr v = Some (mk_hdrs names) /\ NoDup names /\ length names = length (fst e) /\
                  (forall i n, nth_error names i = Some n -> vname v n = nth_error (fst e) i)
  end.
Proof. exact lazy_eq_eager_rep. Qed.
Print Assumptions lazy_eq_eager.

(* label / feats split: the label is the cell at the label position and feats is the row without it *)
Theorem feats_label_split : forall p l ind, wf p (l, None) -> ind < length (fst (eager p l)) ->
  label ind (lazy p l) = nth_error (fst (eager p l)) ind /\
  viter (feats ind (lazy p l)) = remove_at ind (fst (eager p l)).
Proof.
  exact (fun p l ind H Hi =>
    conj (proj1 (proj2 (proj2 (lazy_eq_eager_rep p l H))) ind Hi)
         (proj1 (rep_feats ind (lazy p l) (fst (eager p l)) (snd (eager p l))
                   (eq_rect _ (Rep (lazy p l)) (lazy_eq_eager_rep p l H) _ (surjective_pairing _)) Hi))).
Qed.
Print Assumptions feats_label_split.

(* a load-once row (LazyDense/LazySparse): any sequence of accesses returns what single accesses return *)
Theorem access_order_irrelevant : forall (loader : unit -> list Z) ks c, CellOK loader c ->
  accesses loader c ks = map (nth_error (loader tt)) ks.
Proof. exact Proofs.access_order_irrelevant. Qed.
Print Assumptions access_order_irrelevant.

(* non-vacuity: headers, encoders, a drop by name and by position, then the label split *)
Example pipeline_example :
  let p := [SHead [10;11;12;13]%Z; SEncode [EId; EAdd 1; EMul 2; EId]; SDrop [3] [10%Z]; SFeats 0] in
  wf p ([5;6;7;8]%Z, None) /\ viter (lazy p [5;6;7;8]%Z) = [14]%Z /\ vname (lazy p [5;6;7;8]%Z) 12%Z = Some 14%Z.
Proof.
  split; [|split; vm_compute; reflexivity].
  cbn. repeat split; try lia.
  repeat constructor; cbn; intuition discriminate.
Qed.
