From Coq Require Import ZArith List Bool Arith Lia.
From Coba Require Import C13.Model.
Import ListNotations.

(* ---------- generic list facts *)
Lemma combine_app {A B} (a1 a2 : list A) (b1 b2 : list B) : length a1 = length b1 ->
  combine (a1 ++ a2) (b1 ++ b2) = combine a1 b1 ++ combine a2 b2.
Proof. revert b1; induction a1 as [|x a1 IH]; intros [|y b1] H; cbn in *; try lia; [reflexivity|]. f_equal. apply IH. lia. Qed.

Lemma compress_length_seq {A} (l : list A) sel off : length sel = length l ->
  length (compress l sel) = length (compress (seq off (length l)) sel).
Proof.
  revert sel off; induction l as [|x l IH]; intros [|b s] off H; cbn in *; try lia; try reflexivity.
  destruct b; cbn; rewrite (IH s (S off)) by lia; reflexivity.
Qed.

Lemma nth_error_compress {A} (l : list A) : forall sel off k i, length sel = length l ->
  nth_error (compress (seq off (length l)) sel) k = Some i -> nth_error (compress l sel) k = nth_error l (i - off) /\ off <= i < off + length l.
Proof.
  induction l as [|x l IH]; intros [|b s] off k i H Hk; cbn in *; try lia; try (destruct k; discriminate).
  destruct b.
  - destruct k as [|k]; cbn in *.
    + inversion Hk; subst. rewrite Nat.sub_diag. cbn. split; [reflexivity|lia].
    + destruct (IH s (S off) k i ltac:(lia) Hk) as [E R]. rewrite E. split; [|lia].
      replace (i - off) with (S (i - S off)) by lia. reflexivity.
  - destruct (IH s (S off) k i ltac:(lia) Hk) as [E R]. rewrite E. split; [|lia].
    replace (i - off) with (S (i - S off)) by lia. reflexivity.
Qed.

Lemma nth_error_compress_none {A} (l : list A) : forall sel off k, length sel = length l ->
  nth_error (compress (seq off (length l)) sel) k = None -> nth_error (compress l sel) k = None.
Proof.
  intros sel off k H Hk. apply nth_error_None in Hk. apply nth_error_None.
  rewrite (compress_length_seq l sel off H). exact Hk.
Qed.

(* ---------- header tables *)
Lemma hfind_combine names : forall off n i, NoDup names ->
  nth_error names i = Some n -> hfind (combine names (seq off (length names))) n = Some (off + i).
Proof.
  induction names as [|m names IH]; intros off n i Hnd H; [destruct i; discriminate|].
  inversion Hnd as [|? ? Hm Hnd']; subst. cbn [length seq combine hfind].
  destruct i as [|i]; cbn in H.
  - inversion H; subst. rewrite Z.eqb_refl. f_equal. lia.
  - destruct (m =? n)%Z eqn:E.
    + apply Z.eqb_eq in E. subst. exfalso. apply Hm. eapply nth_error_In. exact H.
    + rewrite (IH (S off) n i Hnd' H). f_equal. lia.
Qed.

Lemma hfind_combine_none names : forall off n, ~ In n names -> hfind (combine names (seq off (length names))) n = None.
Proof.
  induction names as [|m names IH]; intros off n H; [reflexivity|]. cbn [length seq combine hfind].
  destruct (m =? n)%Z eqn:E; [apply Z.eqb_eq in E; subst; exfalso; apply H; left; reflexivity|].
  apply IH. intros Hin. apply H. right. exact Hin.
Qed.

Lemma name_at_combine names : forall off i, i < length names ->
  option_map fst (find (fun p : Z * nat => Nat.eqb (snd p) (off + i)) (combine names (seq off (length names)))) = nth_error names i.
Proof.
  induction names as [|m names IH]; intros off i H; [cbn in H; lia|]. cbn [length seq combine find snd].
  destruct i as [|i].
  - rewrite Nat.add_0_r, Nat.eqb_refl. reflexivity.
  - destruct (Nat.eqb off (off + S i)) eqn:E; [apply Nat.eqb_eq in E; lia|].
    replace (off + S i) with (S off + i) by lia. cbn [nth_error]. apply IH. cbn in H. lia.
Qed.

(* ---------- the representation invariant *)
Definition Rep (v : view) (r : erow) : Prop :=
  viter v = fst r /\ vlen v = length (fst r) /\
  (forall i, i < length (fst r) -> vget v i = nth_error (fst r) i) /\
  match snd r with
  | None => vhdr v = None
  | Some names => vhdr v = Some (mk_hdrs names) /\ NoDup names /\ length names = length (fst r) /\
                  (forall i n, nth_error names i = Some n -> vname v n = nth_error (fst r) i)
  end.

Lemma rep_base l : Rep (base l) (l, None).
Proof. unfold Rep, base; cbn. repeat split; auto. Qed.

Lemma rep_head names v l h : Rep v (l, h) -> NoDup names -> length names = length l -> Rep (head names v) (l, Some names).
Proof.
  intros [H1 [H2 [H3 _]]] Hnd Hlen. unfold Rep, head; cbn [viter vlen vget vhdr vname fst snd] in *.
  repeat split; auto.
  intros i n Hn. unfold mk_hdrs. rewrite (hfind_combine names 0 n i Hnd Hn). cbn [Nat.add].
  apply H3. rewrite <- Hlen. apply nth_error_Some. congruence.
Qed.

Lemma zip_enc_length es : forall l, length es = length l -> length (zip_enc es l) = length l.
Proof. induction es as [|e es IH]; intros [|v l] H; cbn in *; try lia. rewrite IH; lia. Qed.
Lemma zip_enc_nth es : forall l i, length es = length l -> i < length l ->
  nth_error (zip_enc es l) i = match nth_error es i, nth_error l i with Some e, Some v => Some (app_enc e v) | _, _ => None end.
Proof.
  induction es as [|e es IH]; intros [|v l] i H Hi; cbn in *; try lia.
  destruct i as [|i]; [reflexivity|]. cbn. apply IH; lia.
Qed.

Lemma rep_encode es v l h : Rep v (l, h) -> length es = length l -> Rep (encode es v) (zip_enc es l, h).
Proof.
  intros [H1 [H2 [H3 H4]]] Hlen. unfold Rep, encode; cbn [viter vlen vget vhdr vname fst snd] in *.
  assert (G : forall i, i < length (zip_enc es l) ->
     match nth_error es i, vget v i with Some e, Some x => Some (app_enc e x) | _, _ => None end = nth_error (zip_enc es l) i).
  { intros i Hi. rewrite zip_enc_length in Hi by exact Hlen. rewrite zip_enc_nth by assumption. rewrite H3 by exact Hi. reflexivity. }
  repeat split.
  - rewrite H1. reflexivity.
  - rewrite zip_enc_length by exact Hlen. exact Hlen.
  - exact G.
  - destruct h as [names|]; [|exact H4]. destruct H4 as [E [Hnd [Hl Hn]]].
    repeat split; [exact E|exact Hnd|rewrite zip_enc_length by exact Hlen; exact Hl|].
    intros i n Hi. rewrite E. unfold mk_hdrs. rewrite (hfind_combine names 0 n i Hnd Hi). cbn [Nat.add].
    apply G. rewrite zip_enc_length by exact Hlen. rewrite <- Hl. apply nth_error_Some. congruence.
Qed.

(* ---------- feats: removing one position *)
Definition remove_at {A} (ind : nat) (l : list A) : list A := firstn ind l ++ skipn (S ind) l.

Lemma nth_error_remove {A} (l : list A) : forall ind k,
  nth_error (remove_at ind l) k = nth_error l (if ind <=? k then S k else k).
Proof.
  unfold remove_at. induction l as [|x l IH]; intros ind k.
  - rewrite firstn_nil, skipn_nil. cbn. destruct k, (ind <=? _); reflexivity.
  - destruct ind as [|ind]; [reflexivity|]. destruct k as [|k]; [reflexivity|].
    cbn [firstn skipn app nth_error]. rewrite IH. cbn [Nat.leb]. destruct (ind <=? k); reflexivity.
Qed.
Lemma remove_at_length {A} (l : list A) ind : ind < length l -> length (remove_at ind l) = length l - 1.
Proof. intros H. unfold remove_at. rewrite app_length, firstn_length, skipn_length. lia. Qed.
Lemma remove_at_NoDup {A} (l : list A) ind : NoDup l -> NoDup (remove_at ind l).
Proof.
  unfold remove_at. revert ind. induction l as [|x l IH]; intros ind H; [rewrite firstn_nil, skipn_nil; constructor|].
  inversion H as [|? ? Hx Hl]; subst. destruct ind as [|ind]; [exact Hl|].
  cbn [firstn skipn app]. constructor; [|apply IH; exact Hl].
  intros Hin. apply Hx. apply in_app_or in Hin. destruct Hin as [Hin|Hin].
  - eapply (In_nth_error) in Hin. destruct Hin as [n Hn]. eapply nth_error_In.
    rewrite <- (firstn_skipn ind l). rewrite nth_error_app1; [exact Hn|]. apply nth_error_Some. congruence.
  - rewrite <- (firstn_skipn (S ind) l). apply in_or_app. right. exact Hin.
Qed.

Lemma skipn_S_tl {A} (l : list A) : forall n, skipn (S n) l = tl (skipn n l).
Proof.
  induction l as [|x l IH]; intros n.
  - rewrite !skipn_nil. reflexivity.
  - destruct n as [|n]; [reflexivity|]. cbn [skipn]. apply IH.
Qed.

Definition G_feats (ind : nat) (p : Z * nat) : list (Z * nat) :=
  if Nat.eqb (snd p) ind then [] else [(fst p, if snd p <? ind then snd p else snd p - 1)].

Lemma feats_hdr_lt names : forall off ind, off + length names <= ind ->
  flat_map (G_feats ind) (combine names (seq off (length names))) = combine names (seq off (length names)).
Proof.
  induction names as [|n names IH]; intros off ind H; [reflexivity|]. cbn [length seq combine flat_map].
  unfold G_feats at 1. cbn [fst snd]. cbn [length] in H.
  destruct (Nat.eqb off ind) eqn:E; [apply Nat.eqb_eq in E; lia|].
  destruct (off <? ind) eqn:E2; [|apply Nat.ltb_ge in E2; lia]. cbn [app]. f_equal. apply IH. lia.
Qed.
Lemma feats_hdr_gt names : forall off ind, ind < off ->
  flat_map (G_feats ind) (combine names (seq off (length names))) = combine names (seq (off - 1) (length names)).
Proof.
  induction names as [|n names IH]; intros off ind H; [reflexivity|]. cbn [length seq combine flat_map].
  unfold G_feats at 1. cbn [fst snd].
  destruct (Nat.eqb off ind) eqn:E; [apply Nat.eqb_eq in E; lia|].
  destruct (off <? ind) eqn:E2; [apply Nat.ltb_lt in E2; lia|]. cbn [app]. f_equal.
  rewrite IH by lia. replace (S off - 1) with (S (off - 1)) by lia. reflexivity.
Qed.
Lemma feats_hdr names ind : ind < length names ->
  flat_map (G_feats ind) (mk_hdrs names) = mk_hdrs (remove_at ind names).
Proof.
  intros H. unfold mk_hdrs, remove_at.
  rewrite <- (firstn_skipn ind names) at 1 2.
  assert (L1 : length (firstn ind names) = ind) by (rewrite firstn_length; lia).
  rewrite app_length, seq_app, L1. rewrite combine_app by (rewrite seq_length; exact L1).
  rewrite flat_map_app.
  destruct (skipn ind names) as [|x rest] eqn:Es.
  { exfalso. assert (L : length (skipn ind names) = 0) by (rewrite Es; reflexivity). rewrite skipn_length in L. lia. }
  assert (Er : rest = skipn (S ind) names).
  { rewrite skipn_S_tl, Es. reflexivity. }
  cbn [length seq combine flat_map]. unfold G_feats at 2. cbn [fst snd Nat.add]. rewrite Nat.eqb_refl. cbn [app].
  replace (seq 0 ind) with (seq 0 (length (firstn ind names))) by (rewrite L1; reflexivity).
  rewrite feats_hdr_lt by (rewrite L1; lia).
  rewrite feats_hdr_gt by lia. replace (S ind - 1) with ind by lia.
  rewrite <- Er. rewrite app_length, seq_app. rewrite combine_app by (rewrite seq_length; reflexivity).
  rewrite L1. reflexivity.
Qed.

Lemma rep_feats ind v l h : Rep v (l, h) -> ind < length l ->
  Rep (feats ind v) (remove_at ind l, option_map (remove_at ind) h).
Proof.
  intros [H1 [H2 [H3 H4]]] Hi. unfold Rep, feats; cbn [viter vlen vget vhdr vname fst snd] in *.
  assert (G : forall k, k < length (remove_at ind l) -> vget v (if ind <=? k then S k else k) = nth_error (remove_at ind l) k).
  { intros k Hk. rewrite remove_at_length in Hk by exact Hi. rewrite nth_error_remove. apply H3. destruct (ind <=? k); lia. }
  repeat split.
  - rewrite H1. reflexivity.
  - rewrite remove_at_length by exact Hi. lia.
  - exact G.
  - destruct h as [names|]; cbn [option_map]; [|rewrite H4; reflexivity]. destruct H4 as [E [Hnd [Hl Hn]]].
    rewrite E. repeat split.
    + f_equal. apply (feats_hdr names ind). lia.
    + apply remove_at_NoDup. exact Hnd.
    + rewrite !remove_at_length by lia. lia.
    + intros i n Hin. rewrite nth_error_remove in Hin.
      set (j := if ind <=? i then S i else i) in *.
      unfold mk_hdrs. rewrite (hfind_combine names 0 n j Hnd Hin). cbn [Nat.add].
      assert (Hj : j <> ind) by (unfold j; destruct (ind <=? i) eqn:B; [apply Nat.leb_le in B|apply Nat.leb_gt in B]; lia).
      destruct (Nat.eqb j ind) eqn:B; [apply Nat.eqb_eq in B; contradiction|].
      rewrite nth_error_remove. fold j. apply H3. rewrite <- Hl. apply nth_error_Some. congruence.
Qed.

(* ---------- drop: keeping a subset of positions *)
Definition F_drop (T : list (nat * nat)) (p : Z * nat) : list (Z * nat) :=
  match find (fun q => Nat.eqb (fst q) (snd p)) T with Some q => [(fst p, snd q)] | None => [] end.

Lemma find_combine_skip pos : forall (P X : list nat) s, (forall x, In x P -> x <> pos) ->
  find (fun q : nat * nat => Nat.eqb (fst q) pos) (combine (P ++ X) (seq s (length P + length X)))
  = find (fun q : nat * nat => Nat.eqb (fst q) pos) (combine X (seq (s + length P) (length X))).
Proof.
  induction P as [|a P IH]; intros X s H; [cbn; rewrite Nat.add_0_r; reflexivity|].
  cbn [app length Nat.add seq combine find fst].
  destruct (Nat.eqb a pos) eqn:E; [apply Nat.eqb_eq in E; exfalso; apply (H a); [left; reflexivity|exact E]|].
  rewrite IH by (intros x Hx; apply H; right; exact Hx). replace (S s + length P) with (s + S (length P)) by lia. reflexivity.
Qed.
Lemma find_combine_none pos : forall (X : list nat) s, (forall x, In x X -> x <> pos) ->
  find (fun q : nat * nat => Nat.eqb (fst q) pos) (combine X (seq s (length X))) = None.
Proof.
  induction X as [|a X IH]; intros s H; [reflexivity|]. cbn [length seq combine find fst].
  destruct (Nat.eqb a pos) eqn:E; [apply Nat.eqb_eq in E; exfalso; apply (H a); [left; reflexivity|exact E]|].
  apply IH. intros x Hx. apply H. right. exact Hx.
Qed.
Lemma compress_seq_ge : forall n sel off x, In x (compress (seq off n) sel) -> off <= x.
Proof.
  induction n as [|n IH]; intros [|b s] off x H; cbn in H; try contradiction.
  destruct b; [destruct H as [<-|H]; [lia|]|]; apply IH in H; lia.
Qed.

Lemma drop_hdr T : forall names m off P,
  length m = length names -> (forall x, In x P -> x < off) ->
  T = combine (P ++ compress (seq off (length names)) m) (seq 0 (length P + length (compress (seq off (length names)) m))) ->
  flat_map (F_drop T) (combine names (seq off (length names))) = combine (compress names m) (seq (length P) (length (compress names m))).
Proof.
  induction names as [|n names IH]; intros m off P Hm HP HT; [destruct m; reflexivity|].
  destruct m as [|b m]; [cbn in Hm; lia|]. cbn [length seq combine flat_map compress] in *.
  unfold F_drop at 1. cbn [fst snd].
  destruct b.
  - (* kept: position off has rank |P| *)
    assert (Efind : find (fun q : nat * nat => Nat.eqb (fst q) off) T = Some (off, length P)).
    { rewrite HT. cbn [length]. rewrite find_combine_skip by (intros x Hx; specialize (HP x Hx); lia).
      cbn [length seq combine find fst]. rewrite Nat.eqb_refl. reflexivity. }
    rewrite Efind. cbn [snd app compress length seq combine]. f_equal.
    rewrite (IH m (S off) (P ++ [off])).
    + rewrite app_length. cbn [length]. replace (length P + 1) with (S (length P)) by lia. reflexivity.
    + cbn in Hm. lia.
    + intros x Hx. apply in_app_or in Hx. destruct Hx as [Hx|[<-|[]]]; [specialize (HP x Hx); lia|lia].
    + rewrite HT. rewrite <- app_assoc. cbn [app]. f_equal. rewrite app_length. cbn [length]. f_equal. lia.
  - (* dropped: position off does not occur in the table *)
    assert (Efind : find (fun q : nat * nat => Nat.eqb (fst q) off) T = None).
    { rewrite HT. rewrite <- app_length. apply find_combine_none. intros x Hx. apply in_app_or in Hx. destruct Hx as [Hx|Hx].
      - specialize (HP x Hx). lia.
      - apply compress_seq_ge in Hx. lia. }
    rewrite Efind. cbn [app]. apply (IH m (S off) P).
    + cbn in Hm. lia.
    + intros x Hx. specialize (HP x Hx). lia.
    + exact HT.
Qed.

Lemma compress_In {A} (l : list A) : forall m x, In x (compress l m) -> In x l.
Proof.
  induction l as [|a l IH]; intros [|b m] x H; cbn in H; try contradiction.
  destruct b; [destruct H as [<-|H]; [left; reflexivity|right; eapply IH; exact H]|right; eapply IH; exact H].
Qed.
Lemma compress_NoDup {A} (l : list A) : forall m, NoDup l -> NoDup (compress l m).
Proof.
  induction l as [|a l IH]; intros [|b m] H; cbn; try constructor.
  inversion H as [|? ? Ha Hl]; subst. destruct b; [|apply IH; exact Hl].
  constructor; [|apply IH; exact Hl]. intros Hin. apply Ha. eapply compress_In. exact Hin.
Qed.

Lemma rep_drop pcols ncols v l h : Rep v (l, h) ->
  let m := keep_mask pcols ncols (l, h) in
  Rep (drop pcols ncols v) (compress l m, option_map (fun ns => compress ns m) h).
Proof.
  intros [H1 [H2 [H3 H4]]] m. cbn [fst snd] in *.
  assert (Esel : map (fun i => negb (dropped pcols ncols (vhdr v) i)) (seq 0 (vlen v)) = m).
  { unfold m, keep_mask. cbn [fst snd]. rewrite H2. apply map_ext_in. intros i Hi. apply in_seq in Hi. unfold dropped. f_equal. f_equal.
    destruct h as [names|].
    - destruct H4 as [E [Hnd [Hl Hn]]]. rewrite E.
      assert (NA : name_at (Some (mk_hdrs names)) i = nth_error names i) by (exact (name_at_combine names 0 i ltac:(lia))).
      rewrite NA. reflexivity.
    - rewrite H4. reflexivity. }
  assert (Lm : length m = length l) by (unfold m, keep_mask; rewrite map_length, seq_length; reflexivity).
  unfold Rep, drop. cbn [viter vlen vget vhdr vname fst snd]. rewrite Esel, H2.
  assert (G : forall k, k < length (compress l m) ->
     match nth_error (compress (seq 0 (length l)) m) k with Some i => vget v i | None => None end = nth_error (compress l m) k).
  { intros k Hk. destruct (nth_error (compress (seq 0 (length l)) m) k) as [i|] eqn:E.
    - destruct (nth_error_compress l m 0 k i Lm E) as [E1 R]. rewrite E1, Nat.sub_0_r. apply H3. lia.
    - apply nth_error_None in E. rewrite <- (compress_length_seq l m 0 Lm) in E. lia. }
  repeat split.
  - rewrite H1. reflexivity.
  - symmetry. apply compress_length_seq. exact Lm.
  - exact G.
  - destruct h as [names|]; cbn [option_map]; [|rewrite H4; reflexivity]. destruct H4 as [E [Hnd [Hl Hn]]].
    rewrite E.
    assert (Lm' : length m = length names) by lia.
    repeat split.
    + f_equal. unfold mk_hdrs.
      pose proof (drop_hdr (combine (compress (seq 0 (length l)) m) (seq 0 (length (compress (seq 0 (length l)) m)))) names m 0 [] Lm' ltac:(intros x []) ) as D.
      cbn [app length Nat.add] in D. rewrite Hl in D. specialize (D eq_refl).
      unfold F_drop in D. rewrite <- Hl in D at 1. exact D.
    + apply compress_NoDup. exact Hnd.
    + rewrite (compress_length_seq names m 0 Lm'), (compress_length_seq l m 0 Lm), Hl. reflexivity.
    + intros k n Hk.
      destruct (nth_error (compress (seq 0 (length names)) m) k) as [i|] eqn:Ei.
      * destruct (nth_error_compress names m 0 k i Lm' Ei) as [E1 R]. rewrite Nat.sub_0_r in E1. rewrite E1 in Hk.
        unfold mk_hdrs. rewrite (hfind_combine names 0 n i Hnd Hk). cbn [Nat.add].
        rewrite Hl in Ei. destruct (nth_error_compress l m 0 k i Lm Ei) as [E2 _]. rewrite E2, Nat.sub_0_r. apply H3. lia.
      * apply (nth_error_compress_none names m 0 k Lm') in Ei. congruence.
Qed.

(* ---------- pipelines *)
Definition wf_stage (s : stage) (r : erow) : Prop :=
  match s with
  | SHead names => NoDup names /\ length names = length (fst r)
  | SEncode es => length es = length (fst r)
  | SDrop _ _ => True
  | SFeats i => i < length (fst r)
  end.
Fixpoint wf (p : list stage) (r : erow) : Prop :=
  match p with [] => True | s :: p' => wf_stage s r /\ wf p' (eager1 s r) end.

Lemma rep_step s v r : Rep v r -> wf_stage s r -> Rep (lazy1 s v) (eager1 s r).
Proof.
  destruct r as [l h]. intros HR Hwf. destruct s as [names|es|pc nc|i]; cbn [lazy1 eager1 wf_stage fst snd] in *.
  - destruct Hwf as [Hnd Hlen]. eapply rep_head; eassumption.
  - apply rep_encode; assumption.
  - apply rep_drop. exact HR.
  - apply rep_feats; assumption.
Qed.

Lemma rep_pipeline p : forall v r, Rep v r -> wf p r ->
  Rep (fold_left (fun r s => lazy1 s r) p v) (fold_left (fun r s => eager1 s r) p r).
Proof.
  induction p as [|s p IH]; intros v r HR Hwf; [exact HR|]. cbn [fold_left]. destruct Hwf as [H1 H2].
  apply IH; [apply rep_step; assumption|exact H2].
Qed.

Theorem lazy_eq_eager_rep p l : wf p (l, None) -> Rep (lazy p l) (eager p l).
Proof. intros H. apply rep_pipeline; [apply rep_base|exact H]. Qed.

(* reading a view never changes it (views are values): any sequence of accesses returns what single accesses return.
   Stated for the load-once cell of LazyDense: a loader that is a pure function of nothing, memoised. *)
Section LoadOnce.
  Variable loader : unit -> list Z.
  Inductive cellst := Unloaded | Loaded (l : list Z).
  Definition load (c : cellst) : list Z * cellst :=
    match c with Unloaded => let l := loader tt in (l, Loaded l) | Loaded l => (l, Loaded l) end.
  Definition CellOK (c : cellst) : Prop := match c with Unloaded => True | Loaded l => l = loader tt end.
  Lemma load_transparent c : CellOK c -> fst (load c) = loader tt /\ CellOK (snd (load c)).
  Proof. destruct c as [|l]; cbn; intros H; [split; reflexivity|split; [exact H|exact H]]. Qed.
  Fixpoint accesses (c : cellst) (ks : list nat) : list (option Z) :=
    match ks with [] => [] | k :: ks' => let (l, c') := load c in nth_error l k :: accesses c' ks' end.
  Lemma access_order_irrelevant ks : forall c, CellOK c -> accesses c ks = map (nth_error (loader tt)) ks.
  Proof.
    induction ks as [|k ks IH]; intros c Hc; [reflexivity|]. cbn [accesses map].
    destruct (load_transparent c Hc) as [E1 E2]. destruct (load c) as [l c']. cbn [fst snd] in *.
    rewrite E1, IH by exact E2. reflexivity.
  Qed.
End LoadOnce.
