(* Lazy sparse row views (coba/pipes/rows.py: HeadSparse, EncodeSparse, DropSparse, LabelSparse) as records of the four ways a sparse row is read -
   keys(), __getitem__, items(), __len__ - each built from the wrapped row's own four exactly as the classes build them. *)
From Coq Require Import ZArith List Bool Arith.
From Coba Require Import C13.Model.
Import ListNotations.
Local Open Scope Z_scope.

Record sview := {
  skeys  : list Z;               (* keys() *)
  sget   : Z -> option Z;        (* __getitem__ ; None = KeyError *)
  sitems : list (Z * Z);         (* items() *)
  slen   : nat                   (* __len__ *)
}.
Definition zmem (k : Z) (l : list Z) : bool := existsb (Z.eqb k) l.
Fixpoint lookup (d : list (Z * Z)) (k : Z) : option Z := match d with [] => None | (a, v) :: t => if a =? k then Some v else lookup t k end.

(* a plain dict *)
Definition sbase (d : list (Z * Z)) : sview := {| skeys := map fst d; sget := lookup d; sitems := d; slen := length d |}.

(* EncodeSparse(row, encoders, not_sparse) *)
Definition sencode (enc : Z -> enc) (nsp : list Z) (r : sview) : sview :=
  let extra := filter (fun k => negb (zmem k (skeys r))) nsp in
  {| skeys := skeys r ++ extra;                                                     (* row.keys() | nsp *)
     sget := fun k => match sget r k with
                      | Some v => Some (app_enc (enc k) v)
                      | None => if zmem k nsp then Some (app_enc (enc k) 0) else None   (* except KeyError: if key in nsp *)
                      end;
     sitems := map (fun kv => (fst kv, app_enc (enc (fst kv)) (snd kv))) (sitems r) ++ map (fun k => (k, app_enc (enc k) 0)) extra;   (* t1 + t2 *)
     slen := length (skeys r ++ extra) |}.

(* DropSparse(row, drop_set) *)
Definition sdrop (ds : list Z) (r : sview) : sview :=
  {| skeys := filter (fun k => negb (zmem k ds)) (skeys r);
     sget := fun k => if zmem k ds then None else sget r k;
     sitems := filter (fun kv => negb (zmem (fst kv) ds)) (sitems r);
     slen := length (filter (fun k => negb (zmem k ds)) (skeys r)) |}.

(* HeadSparse(row, fwd, inv) for the renaming k -> k + shift *)
Definition shead (shift : Z) (r : sview) : sview :=
  {| skeys := map (fun k => k + shift) (skeys r);
     sget := fun k => sget r (k - shift);
     sitems := map (fun kv => (fst kv + shift, snd kv)) (sitems r);
     slen := slen r |}.

(* LabelSparse(row, key): the row itself, its feats and its label *)
Definition slabel_row (lab : Z) (r : sview) : sview :=
  {| skeys := if zmem lab (skeys r) then skeys r else skeys r ++ [lab];
     sget := fun k => match sget r k with Some v => Some v | None => if k =? lab then Some 0 else None end;
     sitems := if zmem lab (skeys r) then sitems r else sitems r ++ [(lab, 0)];
     slen := length (if zmem lab (skeys r) then skeys r else skeys r ++ [lab]) |}.
Definition sfeats (lab : Z) (r : sview) : sview := sdrop [lab] r.
Definition slabel (lab : Z) (r : sview) : option Z := sget (slabel_row lab r) lab.

Inductive sstage := SEncode (encs : list (Z * enc)) (nsp : list Z) | SDrop (ds : list Z) | SHead (shift : Z) | SLabelRow (lab : Z).
Definition enc_of (encs : list (Z * enc)) (k : Z) : enc :=
  match find (fun p => fst p =? k) encs with Some p => snd p | None => EId end.
Definition sapply (s : sstage) (r : sview) : sview :=
  match s with SEncode encs nsp => sencode (enc_of encs) nsp r | SDrop ds => sdrop ds r | SHead sh => shead sh r | SLabelRow lab => slabel_row lab r end.
Definition spipeline (stages : list sstage) (d : list (Z * Z)) : sview := fold_left (fun r s => sapply s r) stages (sbase d).

(* EncodeRows.filter on sparse rows: the not-sparse keys are those whose encoder sends "0" to something other than 0 *)
Definition nsp_of (encs : list (Z * enc)) : list Z := map fst (filter (fun p => negb (app_enc (snd p) 0 =? 0)) encs).
