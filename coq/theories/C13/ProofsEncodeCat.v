From Coq Require Import ZArith List Arith Lia Bool.
From Coba Require Import C13.ModelEncodeCat.
Import ListNotations.

(* the pop / extend / double slice assignment puts the one-hot code where the categorical was *)
Lemma splice1_spec k o : k < length o ->
  splice1 k o = firstn k o ++ as_onehot (nth k o (Num 0)) ++ skipn (S k) o.
Proof.
  intros Hk. unfold splice1. set (h := as_onehot (nth k o (Num 0))). set (P := firstn k o). set (T := skipn (S k) o).
  assert (HP : length P = k) by (unfold P; rewrite firstn_length; lia).
  assert (HT : length T = length o - S k) by (unfold T; apply skipn_length).
  unfold pop. fold P. fold T.
  assert (Hn : length (P ++ T) = k + length T) by (rewrite app_length; lia).
  rewrite Hn.
  destruct (k =? k + length T) eqn:E.
  - apply Nat.eqb_eq in E. assert (length T = 0) by lia. destruct T; [|simpl in *; lia]. rewrite !app_nil_r. reflexivity.
  - apply Nat.eqb_neq in E.
    replace (k + length T - k) with (length T) by lia.
    (* o2 = P ++ T ++ h *)
    assert (A_eq : skipn (k + length T) ((P ++ T) ++ h) = h).
    { rewrite <- Hn. rewrite skipn_app, skipn_all, Nat.sub_diag. reflexivity. }
    assert (B_eq : firstn (length T) (skipn k ((P ++ T) ++ h)) = T).
    { rewrite <- app_assoc. rewrite <- HP at 1. rewrite skipn_app, skipn_all, Nat.sub_diag. simpl. rewrite firstn_app, firstn_all, Nat.sub_diag. simpl. apply app_nil_r. }
    rewrite A_eq, B_eq. unfold assign_slice, assign_tail.
    assert (F1 : firstn k ((P ++ T) ++ h) = P).
    { rewrite <- app_assoc. rewrite <- HP at 1. rewrite firstn_app, firstn_all, Nat.sub_diag. simpl. apply app_nil_r. }
    rewrite F1.
    set (R := skipn (k + length h) ((P ++ T) ++ h)).
    assert (HR : length R = length T). { unfold R. rewrite skipn_length, !app_length. lia. }
    rewrite !app_length, HR.
    replace (length P + (length h + length T) - length T) with (length (P ++ h)) by (rewrite app_length; lia).
    rewrite app_assoc. rewrite firstn_app, firstn_all, Nat.sub_diag. simpl. rewrite app_nil_r, <- app_assoc. reflexivity.
Qed.

Definition enc1 (c : cell) : list cell := if is_cat c then as_onehot c else [c].

Lemma splice1_cat k o : k < length o -> is_cat (nth k o (Num 0)) = true ->
  splice1 k o = firstn k o ++ enc1 (nth k o (Num 0)) ++ skipn (S k) o.
Proof. intros Hk Hc. rewrite splice1_spec by exact Hk. unfold enc1. rewrite Hc. reflexivity. Qed.

(* editing a place of the front part does not see what follows *)
Lemma splice1_app k o t : k < length o -> splice1 k (o ++ t) = splice1 k o ++ t.
Proof.
  intros Hk. rewrite !splice1_spec by (rewrite ?app_length; lia).
  rewrite firstn_app, app_nth1, skipn_app by lia. replace (k - length o) with 0 by lia. replace (S k - length o) with 0 by lia.
  rewrite firstn_O, skipn_O, app_nil_r, <- !app_assoc. reflexivity.
Qed.

Lemma splice1_length_ge k o : k < length o -> k <= length (splice1 k o).
Proof. intros Hk. rewrite splice1_spec by exact Hk. rewrite !app_length, firstn_length. lia. Qed.

Lemma cat_positions_app k o1 o2 : cat_positions k (o1 ++ o2) = cat_positions k o1 ++ cat_positions (k + length o1) o2.
Proof.
  revert k. induction o1 as [|c o1 IH]; intros k; simpl; [rewrite Nat.add_0_r; reflexivity|].
  rewrite IH, <- app_assoc. replace (S k + length o1) with (k + S (length o1)) by lia. reflexivity.
Qed.

(* the places are visited from the last to the first, each one in front of the one before *)
Fixpoint desc_below (b : nat) (keys : list nat) : Prop := match keys with [] => True | k :: ks => k < b /\ desc_below k ks end.
Lemma desc_below_mono b b' keys : b <= b' -> desc_below b keys -> desc_below b' keys.
Proof. destruct keys as [|k ks]; simpl; [tauto|]. intros Hb [H1 H2]. split; [lia | exact H2]. Qed.

Lemma catkeys_desc o : desc_below (length o) (catkeys o).
Proof.
  unfold catkeys. induction o as [|c o IH] using rev_ind; [exact I|].
  rewrite cat_positions_app, rev_app_distr, app_length. simpl. rewrite ?Nat.add_0_r, ?app_nil_r.
  destruct (is_cat c); simpl.
  - split; [lia | exact IH].
  - apply (desc_below_mono (length o)); [lia | exact IH].
Qed.

(* edits in the front part of a row do not see what follows it *)
Lemma fold_front keys : forall r t, desc_below (length r) keys ->
  fold_left (fun acc k => splice1 k acc) keys (r ++ t) = fold_left (fun acc k => splice1 k acc) keys r ++ t.
Proof.
  induction keys as [|k ks IH]; intros r t Hd; [reflexivity|]. simpl in *. destruct Hd as [Hk Hd].
  rewrite splice1_app by exact Hk. apply IH. apply (desc_below_mono k); [apply splice1_length_ge; exact Hk | exact Hd].
Qed.

(* EncodeCatRows('onehot') over a dense row = every categorical replaced, in place, by the entries of its one-hot code - for every row, any number of
   categoricals (adjacent, first, last), any numbers of levels *)
Theorem encode_flat_eq_eager o : encode_flat o = eager_flat o.
Proof.
  unfold encode_flat, eager_flat. induction o as [|c o IH] using rev_ind; [reflexivity|].
  pose proof (catkeys_desc o) as Hd. unfold catkeys in *.
  rewrite cat_positions_app, rev_app_distr, flat_map_app, fold_left_app.
  change (0 + length o) with (length o). cbn [cat_positions flat_map]. rewrite !app_nil_r.
  destruct (is_cat c) eqn:Ec.
  - assert (Hs : splice1 (length o) (o ++ [c]) = o ++ as_onehot c).
    { rewrite splice1_cat; [ | rewrite app_length; cbn [length]; lia | rewrite app_nth2, Nat.sub_diag by lia; exact Ec].
      rewrite firstn_app, firstn_all, Nat.sub_diag, firstn_O, app_nil_r. rewrite app_nth2, Nat.sub_diag by lia. cbn [nth].
      rewrite skipn_all2 by (rewrite app_length; cbn [length]; lia). rewrite app_nil_r. unfold enc1. rewrite Ec. reflexivity. }
    cbn [rev app fold_left]. rewrite Hs. rewrite fold_front by exact Hd. rewrite IH. reflexivity.
  - cbn [rev app fold_left]. rewrite fold_front by exact Hd. rewrite IH. reflexivity.
Qed.
