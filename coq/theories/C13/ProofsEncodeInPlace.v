From Coq Require Import ZArith List Arith Lia Bool.
From Coba Require Import C13.ModelEncodeInPlace.
Import ListNotations.

Lemma set_nth_length {A} k (x : A) o : length (set_nth k x o) = length o.
Proof. revert k. induction o as [|y o IH]; intros [|k]; simpl; auto. Qed.
Lemma set_nth_app1 {A} k (x : A) o t : k < length o -> set_nth k x (o ++ t) = set_nth k x o ++ t.
Proof. revert k. induction o as [|y o IH]; intros [|k] H; simpl in *; try lia; [reflexivity|]. rewrite IH by lia. reflexivity. Qed.
Lemma set_nth_last {A} (x y : A) o : set_nth (length o) x (o ++ [y]) = o ++ [x].
Proof. induction o as [|z o IH]; simpl; [reflexivity | rewrite IH; reflexivity]. Qed.

Lemma ipositions_app k o1 o2 : ipositions k (o1 ++ o2) = ipositions k o1 ++ ipositions (k + length o1) o2.
Proof.
  revert k. induction o1 as [|c o1 IH]; intros k; simpl; [rewrite Nat.add_0_r; reflexivity|].
  rewrite IH, <- app_assoc. replace (S k + length o1) with (k + S (length o1)) by lia. reflexivity.
Qed.
Lemma ipositions_bound k o x : In x (ipositions k o) -> k <= x < k + length o.
Proof.
  revert k. induction o as [|c o IH]; intros k; simpl; [tauto|]. intros H. apply in_app_or in H. destruct H as [H|H].
  - destruct (i_is_cat c); simpl in H; [destruct H as [<-|[]]; lia | tauto].
  - apply IH in H. lia.
Qed.

(* edits at places of the front part do not see what follows, and keep its length *)
Lemma fold_set_front f keys : forall r t, (forall k, In k keys -> k < length r) ->
  fold_left (fun acc k => set_nth k (repl f (nth k acc (INum 0))) acc) keys (r ++ t) =
  fold_left (fun acc k => set_nth k (repl f (nth k acc (INum 0))) acc) keys r ++ t.
Proof.
  induction keys as [|k ks IH]; intros r t Hk; [reflexivity|]. cbn [fold_left].
  assert (Hlt : k < length r) by (apply Hk; left; reflexivity).
  rewrite app_nth1 by exact Hlt. rewrite set_nth_app1 by exact Hlt. apply IH.
  intros k' Hin. rewrite set_nth_length. apply Hk. right. exact Hin.
Qed.

Theorem set_all_eq_map f o : set_all f o = map (fun c => if i_is_cat c then repl f c else c) o.
Proof.
  unfold set_all, ikeys. induction o as [|c o IH] using rev_ind; [reflexivity|].
  rewrite ipositions_app, rev_app_distr, map_app, fold_left_app. change (0 + length o) with (length o). cbn [ipositions map].
  assert (Hk : forall k, In k (rev (ipositions 0 o)) -> k < length o).
  { intros k Hin. apply in_rev in Hin. apply ipositions_bound in Hin. lia. }
  destruct (i_is_cat c) eqn:Ec.
  - cbn [app rev fold_left]. rewrite app_nth2, Nat.sub_diag by lia. cbn [nth]. rewrite set_nth_last.
    rewrite fold_set_front by exact Hk. rewrite IH. reflexivity.
  - cbn [app rev fold_left]. rewrite fold_set_front by exact Hk. rewrite IH. reflexivity.
Qed.

Fixpoint ival_ind' (P : ival -> Prop) (HN : forall z, P (INum z)) (HC : forall i n, P (ICat i n)) (HL : forall l, Forall P l -> P (IList l))
  (HS : forall i, P (IStr i)) (HT : forall h, P (ITup h)) (v : ival) : P v :=
  match v with
  | INum z => HN z | ICat i n => HC i n | IStr i => HS i | ITup h => HT h
  | IList l => HL l ((fix go (l : list ival) : Forall P l := match l with [] => Forall_nil P | x :: t => Forall_cons x (ival_ind' P HN HC HL HS HT x) (go t) end) l)
  end.

Lemma iencode_keeps_kind f x : i_is_cat (iencode f x) = i_is_cat x.
Proof. destruct x; reflexivity. Qed.
Lemma iencode_cat f x : i_is_cat x = true -> iencode f x = x.
Proof. destruct x; simpl; intros H; try discriminate; reflexivity. Qed.

(* EncodeCatRows('string' / 'onehot_tuple') over a dense row nested to any depth = every categorical replaced where it stands by its level name / its one-hot tuple *)
Theorem iencode_eq_eager f v : iencode f v = ieager f v.
Proof.
  induction v as [z|i n|l IH|i|h] using ival_ind'; try reflexivity.
  cbn [iencode ieager]. f_equal. rewrite set_all_eq_map, map_map.
  induction IH as [|x l Hx Hl IHl]; [reflexivity|]. cbn [map]. rewrite IHl. f_equal.
  rewrite iencode_keeps_kind. destruct (i_is_cat x) eqn:E; [rewrite (iencode_cat f x E); reflexivity | exact Hx].
Qed.
