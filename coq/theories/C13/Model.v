(* Lazy dense row views (coba/pipes/rows.py: HeadDense, EncodeDense, KeepDense, LabelDense/DropOne)
   as records of access functions built from the wrapped row's access functions exactly as the
   classes do, and the eager semantics of the same pipeline on plain lists. *)
From Coq Require Import ZArith List Bool Arith Lia.
Import ListNotations.

Inductive enc := EId | EAdd (z : Z) | EMul (z : Z) | EConst (z : Z).
Definition app_enc (e : enc) (v : Z) : Z :=
  match e with EId => v | EAdd z => (v + z)%Z | EMul z => (v * z)%Z | EConst z => z end.

(* a header table: name -> position *)
Definition hdrs := list (Z * nat).
Fixpoint hfind (h : hdrs) (n : Z) : option nat :=
  match h with [] => None | (m, i) :: t => if (m =? n)%Z then Some i else hfind t n end.

Record view := {
  vlen  : nat;
  vget  : nat -> option Z;      (* positional access; None = IndexError *)
  vname : Z -> option Z;        (* access by header name; None = KeyError/TypeError/AttributeError *)
  viter : list Z;               (* iteration *)
  vhdr  : option hdrs           (* the .headers attribute *)
}.

Definition base (l : list Z) : view :=
  {| vlen := length l; vget := nth_error l; vname := fun _ => None; viter := l; vhdr := None |}.

(* HeadRows(names): HeadDense(row, {name: position}) *)
Definition mk_hdrs (names : list Z) : hdrs := combine names (seq 0 (length names)).
Definition head (names : list Z) (r : view) : view :=
  let h := mk_hdrs names in
  {| vlen := vlen r; vget := vget r;
     vname := fun n => match hfind h n with Some i => vget r i | None => None end;
     viter := viter r; vhdr := Some h |}.

(* EncodeRows(list of encoders): EncodeDense *)
Fixpoint zip_enc (es : list enc) (l : list Z) : list Z :=
  match es, l with e :: es', v :: l' => app_enc e v :: zip_enc es' l' | _, _ => [] end.
Definition encode (es : list enc) (r : view) : view :=
  let get := fun k => match nth_error es k, vget r k with Some e, Some v => Some (app_enc e v) | _, _ => None end in
  {| vlen := length es; vget := get;
     vname := fun n => match vhdr r with
                       | Some h => match hfind h n with Some k => get k | None => None end
                       | None => None end;
     viter := zip_enc es (viter r); vhdr := vhdr r |}.

(* DropRows(cols): KeepDense(row, mapping, selects, length, headers); cols may hold positions and names *)
Definition name_at (h : option hdrs) (i : nat) : option Z :=
  match h with Some h => option_map fst (find (fun p => Nat.eqb (snd p) i) h) | None => None end.
Definition dropped (pos_cols : list nat) (name_cols : list Z) (h : option hdrs) (i : nat) : bool :=
  existsb (Nat.eqb i) pos_cols || match name_at h i with Some n => existsb (Z.eqb n) name_cols | None => false end.
Fixpoint compress {A} (l : list A) (sel : list bool) : list A :=
  match l, sel with x :: l', b :: s' => if b then x :: compress l' s' else compress l' s' | _, _ => [] end.
Definition drop (pos_cols : list nat) (name_cols : list Z) (r : view) : view :=
  let n := vlen r in
  let selects := map (fun i => negb (dropped pos_cols name_cols (vhdr r) i)) (seq 0 n) in
  let indexes := compress (seq 0 n) selects in
  let ext := match vhdr r with
             | Some h => Some (flat_map (fun p => match find (fun q => Nat.eqb (fst q) (snd p)) (combine indexes (seq 0 (length indexes))) with
                                                 | Some q => [(fst p, snd q)] | None => [] end) h)
             | None => None end in
  {| vlen := length indexes;
     vget := fun k => match nth_error indexes k with Some i => vget r i | None => None end;
     vname := fun nm => match vhdr r with
                        | Some h => match hfind h nm with Some i => vget r i | None => None end
                        | None => None end;
     viter := compress (viter r) selects; vhdr := ext |}.

(* LabelRows(ind): row.feats = DropOne(row, ind), row.label = row[ind] *)
Definition feats (ind : nat) (r : view) : view :=
  {| vlen := vlen r - 1;
     vget := fun k => vget r (if ind <=? k then S k else k);
     vname := fun nm => match vhdr r with
                        | Some h => match hfind h nm with Some i => if Nat.eqb i ind then None else vget r i | None => None end
                        | None => None end;
     viter := firstn ind (viter r) ++ skipn (S ind) (viter r);
     vhdr := match vhdr r with
             | Some h => Some (flat_map (fun p => if Nat.eqb (snd p) ind then [] else [(fst p, if snd p <? ind then snd p else snd p - 1)]) h)
             | None => None end |}.
Definition label (ind : nat) (r : view) : option Z := vget r ind.

Inductive stage := SHead (names : list Z) | SEncode (es : list enc) | SDrop (pos : list nat) (names : list Z) | SFeats (ind : nat).
Definition lazy1 (s : stage) (r : view) : view :=
  match s with SHead n => head n r | SEncode es => encode es r | SDrop p n => drop p n r | SFeats i => feats i r end.
Definition lazy (p : list stage) (l : list Z) : view := fold_left (fun r s => lazy1 s r) p (base l).

(* ---- eager semantics on plain lists: (values, optional names by position) *)
Definition erow := (list Z * option (list Z))%type.
Definition keep_mask (pos_cols : list nat) (name_cols : list Z) (r : erow) : list bool :=
  map (fun i => negb (existsb (Nat.eqb i) pos_cols ||
                      match snd r with Some ns => match nth_error ns i with Some n => existsb (Z.eqb n) name_cols | None => false end | None => false end))
      (seq 0 (length (fst r))).
Definition eager1 (s : stage) (r : erow) : erow :=
  match s with
  | SHead names => (fst r, Some names)
  | SEncode es => (zip_enc es (fst r), snd r)
  | SDrop p n => let m := keep_mask p n r in (compress (fst r) m, option_map (fun ns => compress ns m) (snd r))
  | SFeats i => (firstn i (fst r) ++ skipn (S i) (fst r), option_map (fun ns => firstn i ns ++ skipn (S i) ns) (snd r))
  end.
Definition eager (p : list stage) (l : list Z) : erow := fold_left (fun r s => eager1 s r) p (l, None).
