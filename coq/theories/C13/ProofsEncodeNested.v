From Coq Require Import ZArith List Arith Lia Bool.
From Coba Require Import C13.ModelEncodeNested.
Import ListNotations.

Section FlatProofs.
  Context {A : Type}.
  Variable d : A.
  Variable is_cat : A -> bool.
  Variable code : A -> list A.
  Notation gsplice1 := (gsplice1 d code).
  Notation gcat_positions := (gcat_positions is_cat).
  Notation gcatkeys := (gcatkeys is_cat).
  Notation gencode_flat := (gencode_flat d is_cat code).
  Notation geager_flat := (geager_flat is_cat code).

(* the pop / extend / double slice assignment puts the one-hot code where the categorical was *)
Lemma gsplice1_spec k o : k < length o ->
  gsplice1 k o = firstn k o ++ code (nth k o d) ++ skipn (S k) o.
Proof.
  intros Hk. unfold gsplice1. set (h := code (nth k o d)). set (P := firstn k o). set (T := skipn (S k) o).
  assert (HP : length P = k) by (unfold P; rewrite firstn_length; lia).
  assert (HT : length T = length o - S k) by (unfold T; apply skipn_length).
  unfold gpop. fold P. fold T.
  assert (Hn : length (P ++ T) = k + length T) by (rewrite app_length; lia).
  rewrite Hn.
  destruct (k =? k + length T) eqn:E.
  - apply Nat.eqb_eq in E. assert (length T = 0) by lia. destruct T; [|simpl in *; lia]. rewrite !app_nil_r. reflexivity.
  - apply Nat.eqb_neq in E.
    replace (k + length T - k) with (length T) by lia.
    (* o2 = P ++ T ++ h *)
    assert (A_eq : skipn (k + length T) ((P ++ T) ++ h) = h).
    { rewrite <- Hn. rewrite skipn_app, skipn_all, Nat.sub_diag. reflexivity. }
    assert (B_eq : firstn (length T) (skipn k ((P ++ T) ++ h)) = T).
    { rewrite <- app_assoc. rewrite <- HP at 1. rewrite skipn_app, skipn_all, Nat.sub_diag. simpl. rewrite firstn_app, firstn_all, Nat.sub_diag. simpl. apply app_nil_r. }
    rewrite A_eq, B_eq. unfold gassign_slice, gassign_tail.
    assert (F1 : firstn k ((P ++ T) ++ h) = P).
    { rewrite <- app_assoc. rewrite <- HP at 1. rewrite firstn_app, firstn_all, Nat.sub_diag. simpl. apply app_nil_r. }
    rewrite F1.
    set (R := skipn (k + length h) ((P ++ T) ++ h)).
    assert (HR : length R = length T). { unfold R. rewrite skipn_length, !app_length. lia. }
    rewrite !app_length, HR.
    replace (length P + (length h + length T) - length T) with (length (P ++ h)) by (rewrite app_length; lia).
    rewrite app_assoc. rewrite firstn_app, firstn_all, Nat.sub_diag. simpl. rewrite app_nil_r, <- app_assoc. reflexivity.
Qed.

Definition enc1 (c : A) : list A := if is_cat c then code c else [c].

Lemma gsplice1_cat k o : k < length o -> is_cat (nth k o d) = true ->
  gsplice1 k o = firstn k o ++ enc1 (nth k o d) ++ skipn (S k) o.
Proof. intros Hk Hc. rewrite gsplice1_spec by exact Hk. unfold enc1. rewrite Hc. reflexivity. Qed.

(* editing a place of the front part does not see what follows *)
Lemma gsplice1_app k o t : k < length o -> gsplice1 k (o ++ t) = gsplice1 k o ++ t.
Proof.
  intros Hk. rewrite !gsplice1_spec by (rewrite ?app_length; lia).
  rewrite firstn_app, app_nth1, skipn_app by lia. replace (k - length o) with 0 by lia. replace (S k - length o) with 0 by lia.
  rewrite firstn_O, skipn_O, app_nil_r, <- !app_assoc. reflexivity.
Qed.

Lemma gsplice1_length_ge k o : k < length o -> k <= length (gsplice1 k o).
Proof. intros Hk. rewrite gsplice1_spec by exact Hk. rewrite !app_length, firstn_length. lia. Qed.

Lemma gcat_positions_app k o1 o2 : gcat_positions k (o1 ++ o2) = gcat_positions k o1 ++ gcat_positions (k + length o1) o2.
Proof.
  revert k. induction o1 as [|c o1 IH]; intros k; simpl; [rewrite Nat.add_0_r; reflexivity|].
  rewrite IH, <- app_assoc. replace (S k + length o1) with (k + S (length o1)) by lia. reflexivity.
Qed.

(* the places are visited from the last to the first, each one in front of the one before *)
Fixpoint gdesc_below (b : nat) (keys : list nat) : Prop := match keys with [] => True | k :: ks => k < b /\ gdesc_below k ks end.
Lemma gdesc_below_mono b b' keys : b <= b' -> gdesc_below b keys -> gdesc_below b' keys.
Proof. destruct keys as [|k ks]; simpl; [tauto|]. intros Hb [H1 H2]. split; [lia | exact H2]. Qed.

Lemma gcatkeys_desc o : gdesc_below (length o) (gcatkeys o).
Proof.
  unfold gcatkeys. induction o as [|c o IH] using rev_ind; [exact I|].
  rewrite gcat_positions_app, rev_app_distr, app_length. simpl. rewrite ?Nat.add_0_r, ?app_nil_r.
  destruct (is_cat c); simpl.
  - split; [lia | exact IH].
  - apply (gdesc_below_mono (length o)); [lia | exact IH].
Qed.

(* edits in the front part of a row do not see what follows it *)
Lemma gfold_front keys : forall r t, gdesc_below (length r) keys ->
  fold_left (fun acc k => gsplice1 k acc) keys (r ++ t) = fold_left (fun acc k => gsplice1 k acc) keys r ++ t.
Proof.
  induction keys as [|k ks IH]; intros r t Hd; [reflexivity|]. simpl in *. destruct Hd as [Hk Hd].
  rewrite gsplice1_app by exact Hk. apply IH. apply (gdesc_below_mono k); [apply gsplice1_length_ge; exact Hk | exact Hd].
Qed.

(* EncodeCatRows('onehot') over a dense row = every categorical replaced, in place, by the entries of its one-hot code - for every row, any number of
   categoricals (adjacent, first, last), any numbers of levels *)
Theorem gencode_flat_eq_eager o : gencode_flat o = geager_flat o.
Proof.
  unfold gencode_flat, geager_flat. induction o as [|c o IH] using rev_ind; [reflexivity|].
  pose proof (gcatkeys_desc o) as Hd. unfold gcatkeys in *.
  rewrite gcat_positions_app, rev_app_distr, flat_map_app, fold_left_app.
  change (0 + length o) with (length o). cbn [gcat_positions flat_map]. rewrite !app_nil_r.
  destruct (is_cat c) eqn:Ec.
  - assert (Hs : gsplice1 (length o) (o ++ [c]) = o ++ code c).
    { rewrite gsplice1_cat; [ | rewrite app_length; cbn [length]; lia | rewrite app_nth2, Nat.sub_diag by lia; exact Ec].
      rewrite firstn_app, firstn_all, Nat.sub_diag, firstn_O, app_nil_r. rewrite app_nth2, Nat.sub_diag by lia. cbn [nth].
      rewrite skipn_all2 by (rewrite app_length; cbn [length]; lia). rewrite app_nil_r. unfold enc1. rewrite Ec. reflexivity. }
    cbn [rev app fold_left]. rewrite Hs. rewrite gfold_front by exact Hd. rewrite IH. reflexivity.
  - cbn [rev app fold_left]. rewrite gfold_front by exact Hd. rewrite IH. reflexivity.
Qed.

End FlatProofs.

(* ---------- nested rows *)
Fixpoint val_ind' (P : val -> Prop) (HN : forall z, P (VNum z)) (HC : forall i n, P (VCat i n)) (HL : forall l, Forall P l -> P (VList l)) (v : val) : P v :=
  match v with
  | VNum z => HN z
  | VCat i n => HC i n
  | VList l => HL l ((fix go (l : list val) : Forall P l := match l with [] => Forall_nil P | x :: t => Forall_cons x (val_ind' P HN HC HL x) (go t) end) l)
  end.

Lemma encode_keeps_kind x : v_is_cat (encode x) = v_is_cat x.
Proof. destruct x; reflexivity. Qed.
Lemma encode_cat x : v_is_cat x = true -> encode x = x.
Proof. destruct x; simpl; intros H; try discriminate; reflexivity. Qed.

(* EncodeCatRows('onehot') over a dense row with collections nested to ANY depth = every categorical, wherever it stands, replaced in place by its one-hot entries *)
Theorem encode_eq_eager v : encode v = eager v.
Proof.
  induction v as [z|i n|l IH] using val_ind'; [reflexivity | reflexivity |].
  cbn [encode eager]. f_equal. rewrite (gencode_flat_eq_eager (VNum 0) v_is_cat v_code). unfold geager_flat.
  induction IH as [|x l Hx Hl IHl]; [reflexivity|]. cbn [map flat_map]. rewrite IHl. f_equal.
  rewrite encode_keeps_kind. destruct (v_is_cat x) eqn:E; [rewrite (encode_cat x E); reflexivity | rewrite Hx; reflexivity].
Qed.
