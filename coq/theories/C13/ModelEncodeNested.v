(* EncodeCatRows('onehot') over dense rows with nested collections (a categorical inside a list inside the row, to any depth): since fix ffa0447 catset edits,
   for every collection, first the collections below it that hold categoricals (each is copied, edited and put back at its place) and then the categoricals of the
   collection itself, from the last place to the first, by the pop / extend / slice-assignment step of ModelEncodeCat.  The flat editing loop is stated once more
   over an arbitrary entry type (the proofs of ProofsEncodeCat carry over word for word) and instantiated with nested values. *)
From Coq Require Import ZArith List Arith Lia Bool.
Import ListNotations.

Section Flat.
  Context {A : Type}.
  Variable d : A.                       (* default entry for nth *)
  Variable is_cat : A -> bool.
  Variable code : A -> list A.          (* as_onehot of a categorical entry *)

  Definition gpop (k : nat) (o : list A) : list A := firstn k o ++ skipn (S k) o.
  Definition gassign_slice (a b : nat) (xs : list A) (o : list A) : list A := firstn a o ++ xs ++ skipn b o.
  Definition gassign_tail (back : nat) (xs : list A) (o : list A) : list A := firstn (length o - back) o ++ xs.

  Definition gsplice1 (k : nat) (o : list A) : list A :=
    let h := code (nth k o d) in
    let o1 := gpop k o in
    let n := length o1 in let j := length h in
    let o2 := o1 ++ h in
    if k =? n then o2
    else let X := skipn n o2 in let Y := firstn (n - k) (skipn k o2) in
         gassign_tail (n - k) Y (gassign_slice k (k + j) X o2).

  Fixpoint gcat_positions (k : nat) (o : list A) : list nat :=
    match o with [] => [] | c :: t => (if is_cat c then [k] else []) ++ gcat_positions (S k) t end.
  Definition gcatkeys (o : list A) : list nat := rev (gcat_positions 0 o).
  Definition gencode_flat (o : list A) : list A := fold_left (fun acc k => gsplice1 k acc) (gcatkeys o) o.
  Definition geager_flat (o : list A) : list A := flat_map (fun c => if is_cat c then code c else [c]) o.
End Flat.

Inductive val := VNum (z : Z) | VCat (i n : nat) | VList (l : list val).
Definition v_is_cat (v : val) : bool := match v with VCat _ _ => true | _ => false end.
Definition v_code (v : val) : list val := match v with VCat i n => map (fun p => VNum (if p =? i then 1%Z else 0%Z)) (seq 0 n) | _ => [v] end.

(* the code: collections below first (copied, edited, put back where they were), then the categoricals of this collection *)
Fixpoint encode (v : val) : val :=
  match v with
  | VList l => VList (gencode_flat (VNum 0) v_is_cat v_code (map encode l))
  | _ => v
  end.

(* what it is meant to be: every categorical, at any depth, replaced where it stands by the entries of its one-hot code *)
Fixpoint eager (v : val) : val :=
  match v with
  | VList l => VList (flat_map (fun x => if v_is_cat x then v_code x else [eager x]) l)
  | _ => v
  end.
