(* EncodeCatRows._encode_collection, flat one-hot ('onehot') over a dense row (coba/pipes/rows.py): the places of the categoricals are read off the row
   from the last position to the first (catkey), and for each place, in that order, the row is edited in place by
       h = o.pop(k).as_onehot; n = len(o); j = len(h); z = k-n; o.extend(h)
       if z != 0: o[k:k+j], o[z:] = o[n:], o[k:n]
   i.e. the one-hot code is appended and then rotated into place by two slice assignments whose right-hand sides are taken before either assignment.
   Python's list operations are modelled on Coq lists: pop, extend, o[a:b] = xs, o[z:] = xs with negative z. *)
From Coq Require Import ZArith List Arith Lia Bool.
Import ListNotations.

Inductive cell := Num (z : Z) | Cat (i n : nat).      (* Cat i n: level number i of n declared levels *)
Definition is_cat (c : cell) : bool := match c with Cat _ _ => true | _ => false end.
Definition onehot_z (i n : nat) : list Z := map (fun p => if p =? i then 1%Z else 0%Z) (seq 0 n).
Definition as_onehot (c : cell) : list cell := match c with Cat i n => map Num (onehot_z i n) | Num z => [Num z] end.

(* ---- Python list operations *)
Definition pop {A} (k : nat) (o : list A) : list A := firstn k o ++ skipn (S k) o.
Definition assign_slice {A} (a b : nat) (xs : list A) (o : list A) : list A := firstn a o ++ xs ++ skipn b o.      (* o[a:b] = xs, a <= b <= len o *)
Definition assign_tail {A} (back : nat) (xs : list A) (o : list A) : list A := firstn (length o - back) o ++ xs.    (* o[-back:] = xs, 0 < back <= len o *)

Definition splice1 (k : nat) (o : list cell) : list cell :=
  let h := as_onehot (nth k o (Num 0)) in
  let o1 := pop k o in
  let n := length o1 in let j := length h in
  let o2 := o1 ++ h in                                   (* o.extend(h) *)
  if k =? n then o2                                      (* z == 0: the categorical was the last entry *)
  else let A := skipn n o2 in let B := firstn (n - k) (skipn k o2) in      (* o[n:], o[k:n] *)
       assign_tail (n - k) B (assign_slice k (k + j) A o2).

(* catkey over a dense row: the positions of the categoricals, from the last to the first *)
Fixpoint cat_positions (k : nat) (o : list cell) : list nat :=
  match o with [] => [] | c :: t => (if is_cat c then [k] else []) ++ cat_positions (S k) t end.
Definition catkeys (o : list cell) : list nat := rev (cat_positions 0 o).

Definition encode_flat (o : list cell) : list cell := fold_left (fun acc k => splice1 k acc) (catkeys o) o.

(* what it is meant to be: every categorical replaced, in place, by the entries of its one-hot code *)
Definition eager_flat (o : list cell) : list cell := flat_map (fun c => if is_cat c then as_onehot c else [c]) o.
