(* EncodeCatRows('string') and ('onehot_tuple') over dense rows with collections nested to any depth: a categorical is replaced where it stands by ONE value
   (its level name / its one-hot tuple): for each collection first the collections below it, then  for _k in k: o[_k] = f(o[_k])  over the places of its own
   categoricals, from the last to the first. *)
From Coq Require Import ZArith List Arith Lia Bool.
Import ListNotations.

Inductive ival := INum (z : Z) | ICat (i n : nat) | IList (l : list ival) | IStr (i : nat) | ITup (h : list Z).
Definition i_is_cat (v : ival) : bool := match v with ICat _ _ => true | _ => false end.
Inductive form := FString | FTuple.
Definition repl (f : form) (v : ival) : ival :=
  match v, f with
  | ICat i n, FString => IStr i
  | ICat i n, FTuple => ITup (map (fun p => if p =? i then 1%Z else 0%Z) (seq 0 n))
  | _, _ => v
  end.

Fixpoint set_nth {A} (k : nat) (x : A) (o : list A) : list A :=
  match o, k with [], _ => [] | _ :: t, O => x :: t | y :: t, S k' => y :: set_nth k' x t end.
Fixpoint ipositions (k : nat) (o : list ival) : list nat :=
  match o with [] => [] | c :: t => (if i_is_cat c then [k] else []) ++ ipositions (S k) t end.
Definition ikeys (o : list ival) : list nat := rev (ipositions 0 o).
Definition set_all (f : form) (o : list ival) : list ival := fold_left (fun acc k => set_nth k (repl f (nth k acc (INum 0))) acc) (ikeys o) o.

Fixpoint iencode (f : form) (v : ival) : ival :=
  match v with IList l => IList (set_all f (map (iencode f) l)) | _ => v end.
Fixpoint ieager (f : form) (v : ival) : ival :=
  match v with IList l => IList (map (fun x => if i_is_cat x then repl f x else ieager f x) l) | _ => v end.
