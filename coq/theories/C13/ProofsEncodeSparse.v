From Coq Require Import ZArith List Arith Lia Bool.
From Coba Require Import C13.ModelEncodeSparse.
Import ListNotations.

Lemma onehot_length i n : length (onehot i n) = n.
Proof. unfold onehot. rewrite map_length, seq_length. reflexivity. Qed.

Lemma combine_seq_onehot i n : combine (seq 0 n) (onehot i n) = map (fun p => (p, if p =? i then 1%Z else 0%Z)) (seq 0 n).
Proof. unfold onehot. generalize (seq 0 n) as l. induction l as [|p l IH]; simpl; [reflexivity | rewrite IH; reflexivity]. Qed.

(* only the entry of the named level is written *)
Lemma loop_single (g : nat -> Z -> srow -> srow) i : forall l acc, NoDup l ->
  fold_left (fun acc (iv : nat * Z) => if (snd iv =? 0)%Z then acc else g (fst iv) (snd iv) acc) (map (fun p => (p, if p =? i then 1%Z else 0%Z)) l) acc
  = if existsb (Nat.eqb i) l then g i 1%Z acc else acc.
Proof.
  induction l as [|p l IH]; intros acc Hn; [reflexivity|]. inversion Hn as [|? ? Hnot Hn']; subst. cbn [map fold_left existsb fst snd].
  destruct (Nat.eqb_spec p i) as [->|Hne].
  - rewrite Nat.eqb_refl. cbn [orb]. change ((1 =? 0)%Z) with false. cbv iota. rewrite (IH _ Hn').
    replace (existsb (Nat.eqb i) l) with false; [reflexivity|]. symmetry. apply not_true_is_false. intros H. apply existsb_exists in H. destruct H as (x & Hx & E). apply Nat.eqb_eq in E. subst. contradiction.
  - change ((0 =? 0)%Z) with true. cbv iota. rewrite (IH _ Hn'). replace (i =? p) with false by (symmetry; apply Nat.eqb_neq; congruence). reflexivity.
Qed.

Lemma dset_absent k v o : (forall kv, In kv o -> skey_eqb (fst kv) k = false) -> dset k v o = o ++ [(k, v)].
Proof.
  induction o as [|[k' v'] o IH]; simpl; intros H; [reflexivity|]. pose proof (H (k', v') (or_introl eq_refl)) as E. simpl in E. rewrite E. rewrite IH; [reflexivity|].
  intros kv Hin. apply H. right. exact Hin.
Qed.

(* the flat form of a categorical in a sparse row: its entry goes, the entry name_level -> 1 comes (at the end), nothing else changes *)
Theorem flat1_spec name o i n : dget (name, None) o = Some (SCat i n) -> i < n ->
  (forall kv j, In kv o -> skey_eqb (fst kv) (name, Some j) = false) ->
  flat1 name o = dpop (name, None) o ++ [((name, Some i), SNum 1)].
Proof.
  intros Hg Hi Hfree. unfold flat1. rewrite Hg, onehot_length, combine_seq_onehot.
  rewrite (loop_single (fun p v acc => dset (name, Some p) (SNum v) acc) i) by apply seq_NoDup.
  replace (existsb (Nat.eqb i) (seq 0 n)) with true.
  - apply dset_absent. intros kv Hin. apply filter_In in Hin. apply (Hfree kv i). tauto.
  - symmetry. apply existsb_exists. exists i. split; [apply in_seq; lia | apply Nat.eqb_refl].
Qed.

(* the loop before fix 1738a9b: the third of three levels is written as name_0 -> 1, name_1 -> 2 *)
Lemma flat1_old_refuted :
  flat1_old 7%Z [((7%Z, None), SCat 2 3); ((8%Z, None), SNum 5)] = [((8%Z, None), SNum 5); ((7%Z, Some 0), SNum 1); ((7%Z, Some 1), SNum 2)] /\
  flat1 7%Z [((7%Z, None), SCat 2 3); ((8%Z, None), SNum 5)] = [((8%Z, None), SNum 5); ((7%Z, Some 2), SNum 1)].
Proof. vm_compute. split; reflexivity. Qed.
