(* EncodeCatRows('onehot') over a sparse row (coba/pipes/rows.py, the dict branch of catset):
       h = o.pop(k).as_onehot
       for i,v in enumerate(h):
           if v != 0: o[f'{k}_{i}'] = v            (fix 1738a9b; before: if i != 0: o[f'{k}_{v}'] = i)
   A sparse row is an association list in insertion order; a key is a feature name, optionally with a level number appended. *)
From Coq Require Import ZArith List Arith Lia Bool.
Import ListNotations.

Definition skey := (Z * option nat)%type.
Definition skey_eqb (a b : skey) : bool :=
  (fst a =? fst b)%Z && match snd a, snd b with None, None => true | Some x, Some y => x =? y | _, _ => false end.
Inductive sval := SNum (z : Z) | SCat (i n : nat).
Definition srow := list (skey * sval).

Definition onehot (i n : nat) : list Z := map (fun p => if p =? i then 1%Z else 0%Z) (seq 0 n).
Definition dpop (k : skey) (o : srow) : srow := filter (fun kv => negb (skey_eqb (fst kv) k)) o.
Fixpoint dset (k : skey) (v : sval) (o : srow) : srow :=      (* o[k] = v: in place if the key is there, at the end otherwise *)
  match o with [] => [(k, v)] | (k', v') :: t => if skey_eqb k' k then (k', v) :: t else (k', v') :: dset k v t end.
Definition dget (k : skey) (o : srow) : option sval := option_map snd (find (fun kv => skey_eqb (fst kv) k) o).

Definition flat1 (name : Z) (o : srow) : srow :=
  match dget (name, None) o with
  | Some (SCat i n) =>
      fold_left (fun acc iv => if (snd iv =? 0)%Z then acc else dset (name, Some (fst iv)) (SNum (snd iv)) acc)
                (combine (seq 0 (length (onehot i n))) (onehot i n)) (dpop (name, None) o)
  | _ => o
  end.
(* the loop before the fix: index and value of the code swapped *)
Definition flat1_old (name : Z) (o : srow) : srow :=
  match dget (name, None) o with
  | Some (SCat i n) =>
      fold_left (fun acc iv => if fst iv =? 0 then acc else dset (name, Some (Z.to_nat (snd iv))) (SNum (Z.of_nat (fst iv))) acc)
                (combine (seq 0 (length (onehot i n))) (onehot i n)) (dpop (name, None) o)
  | _ => o
  end.
