From Coq Require Import ZArith List Bool.
From Coba Require Import Common.Sx C13.Model.
Import ListNotations.
Open Scope Z_scope.

Definition dec_enc (x : sx) : enc :=
  match as_z (nth_sx 0 x) with 0 => EId | 1 => EAdd (as_z (nth_sx 1 x)) | 2 => EMul (as_z (nth_sx 1 x)) | _ => EConst (as_z (nth_sx 1 x)) end.
Definition dec_stage (x : sx) : stage :=
  match as_z (nth_sx 0 x) with
  | 0 => SHead (as_zs (nth_sx 1 x))
  | 1 => SEncode (map dec_enc (as_l (nth_sx 1 x)))
  | 2 => SDrop (as_nats (nth_sx 1 x)) (as_zs (nth_sx 2 x))
  | _ => SFeats (as_nat (nth_sx 1 x))
  end.
Definition enc_oz (o : option Z) : sx := of_opt Z_ o.

(* request: (row stages positions names) -> (len iter (get p ...) (name n ...) headers) for the lazy view *)
Definition run (x : sx) : sx :=
  let l := as_zs (nth_sx 0 x) in
  let p := map dec_stage (as_l (nth_sx 1 x)) in
  let v := lazy p l in
  L_ [ of_nat (vlen v); of_zs (viter v);
       L_ (map (fun k => enc_oz (vget v k)) (as_nats (nth_sx 2 x)));
       L_ (map (fun n => enc_oz (vname v n)) (as_zs (nth_sx 3 x)));
       of_opt (fun h => L_ (map (fun q : Z * nat => L_ [Z_ (fst q); of_nat (snd q)]) h)) (vhdr v) ].
