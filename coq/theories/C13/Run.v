From Coq Require Import ZArith List Bool.
From Coba Require Import Common.Sx C13.Model.
Import ListNotations.
Open Scope Z_scope.

Definition dec_enc (x : sx) : enc :=
  match as_z (nth_sx 0 x) with 0 => EId | 1 => EAdd (as_z (nth_sx 1 x)) | 2 => EMul (as_z (nth_sx 1 x)) | _ => EConst (as_z (nth_sx 1 x)) end.
Definition dec_stage (x : sx) : stage :=
  match as_z (nth_sx 0 x) with
  | 0 => SHead (as_zs (nth_sx 1 x))
  | 1 => SEncode (map dec_enc (as_l (nth_sx 1 x)))
  | 2 => SDrop (as_nats (nth_sx 1 x)) (as_zs (nth_sx 2 x))
  | _ => SFeats (as_nat (nth_sx 1 x))
  end.
Definition enc_oz (o : option Z) : sx := of_opt Z_ o.

(* request: (row stages positions names) -> (len iter (get p ...) (name n ...) headers) for the lazy view *)
Definition run (x : sx) : sx :=
  let l := as_zs (nth_sx 0 x) in
  let p := map dec_stage (as_l (nth_sx 1 x)) in
  let v := lazy p l in
  L_ [ of_nat (vlen v); of_zs (viter v);
       L_ (map (fun k => enc_oz (vget v k)) (as_nats (nth_sx 2 x)));
       L_ (map (fun n => enc_oz (vname v n)) (as_zs (nth_sx 3 x)));
       of_opt (fun h => L_ (map (fun q : Z * nat => L_ [Z_ (fst q); of_nat (snd q)]) h)) (vhdr v) ].

(* sparse rows.  request: (items stages label query-keys) with stages (0 ((k kind z) ...)) | (1 (k ...)) | (2 shift); label = () or (k)
   answer: (len keys items (get k ...)) of the row, then for a labelled row its label and (len keys items) of its feats *)
From Coba Require Import C13.ModelSparse.
Definition dec_pairs (x : sx) : list (Z * Z) := map (fun p => (as_z (nth_sx 0 p), as_z (nth_sx 1 p))) (as_l x).
Definition dec_sstage (x : sx) : sstage :=
  match as_z (nth_sx 0 x) with
  | 0 => let encs := map (fun p => (as_z (nth_sx 0 p), dec_enc (L_ [nth_sx 1 p; nth_sx 2 p]))) (as_l (nth_sx 1 x)) in ModelSparse.SEncode encs (nsp_of encs)
  | 1 => ModelSparse.SDrop (as_zs (nth_sx 1 x))
  | _ => ModelSparse.SHead (as_z (nth_sx 1 x))
  end.
Definition enc_items (l : list (Z * Z)) : sx := L_ (map (fun kv => L_ [Z_ (fst kv); Z_ (snd kv)]) l).
Definition run_sparse (x : sx) : sx :=
  let v := spipeline (map dec_sstage (as_l (nth_sx 1 x))) (dec_pairs (nth_sx 0 x)) in
  let qs := as_zs (nth_sx 3 x) in
  let show r := [of_nat (slen r); of_zs (skeys r); enc_items (sitems r)] in
  match as_zs (nth_sx 2 x) with
  | [] => L_ (show v ++ [L_ (map (fun k => enc_oz (sget v k)) qs)])
  | lab :: _ => let r := slabel_row lab v in
                L_ (show r ++ [L_ (map (fun k => enc_oz (sget r k)) qs); enc_oz (slabel lab v); L_ (show (sfeats lab v))])
  end.

(* EncodeCatRows('onehot') over a dense row.  request: ((0 z) | (1 i n) ...) -> the numbers of the encoded row *)
From Coba Require C13.ModelEncodeCat.
Definition run_encode_cat (x : sx) : sx :=
  let cell_of := fun c => match as_z (nth_sx 0 c) with 0 => ModelEncodeCat.Num (as_z (nth_sx 1 c)) | _ => ModelEncodeCat.Cat (as_nat (nth_sx 1 c)) (as_nat (nth_sx 2 c)) end in
  L_ (map (fun c => match c with ModelEncodeCat.Num z => Z_ z | ModelEncodeCat.Cat i n => L_ [of_nat i; of_nat n] end) (ModelEncodeCat.encode_flat (map cell_of (as_l x)))).

(* nested rows.  request: a value (0 z) | (1 i n) | (2 (values...)) -> the encoded value, numbers as z and collections as lists *)
From Coba Require C13.ModelEncodeNested.
Fixpoint val_of (fuel : nat) (x : sx) : ModelEncodeNested.val :=
  match fuel with
  | O => ModelEncodeNested.VNum 0
  | S f => match as_z (nth_sx 0 x) with
           | 0 => ModelEncodeNested.VNum (as_z (nth_sx 1 x))
           | 1 => ModelEncodeNested.VCat (as_nat (nth_sx 1 x)) (as_nat (nth_sx 2 x))
           | _ => ModelEncodeNested.VList (map (val_of f) (as_l (nth_sx 1 x)))
           end
  end.
Fixpoint sx_of_val (v : ModelEncodeNested.val) : sx :=
  match v with
  | ModelEncodeNested.VNum z => Z_ z
  | ModelEncodeNested.VCat i n => L_ [Z_ (-1); of_nat i; of_nat n]
  | ModelEncodeNested.VList l => L_ (map sx_of_val l)
  end.
Definition run_encode_nested (x : sx) : sx := sx_of_val (ModelEncodeNested.encode (val_of 12 x)).

(* sparse rows.  request: (name ((key () | (j)) (0 z) | (1 i n)) ...)) -> ((key suffix-or--1 z) ...) of the row after the flat one-hot step for `name` *)
From Coba Require C13.ModelEncodeSparse.
Definition run_encode_sparse (x : sx) : sx :=
  let item := fun e => ((as_z (nth_sx 0 e), as_opt as_nat (nth_sx 1 e)),
                        match as_z (nth_sx 0 (nth_sx 2 e)) with 0 => ModelEncodeSparse.SNum (as_z (nth_sx 1 (nth_sx 2 e)))
                        | _ => ModelEncodeSparse.SCat (as_nat (nth_sx 1 (nth_sx 2 e))) (as_nat (nth_sx 2 (nth_sx 2 e))) end) in
  let out := ModelEncodeSparse.flat1 (as_z (nth_sx 0 x)) (map item (as_l (nth_sx 1 x))) in
  L_ (map (fun kv => L_ [Z_ (fst (fst kv)); match snd (fst kv) with Some j => of_nat j | None => Z_ (-1) end;
                         match snd kv with ModelEncodeSparse.SNum z => Z_ z | ModelEncodeSparse.SCat _ _ => Z_ (-99) end]) out).

(* 'string' / 'onehot_tuple' over nested dense rows.  request: (form value) with form 0 = string, 1 = tuple and values (0 z) | (1 i n) | (2 (values...));
   answer: tagged values (0 z) | (2 (values...)) | (3 i) | (4 (z...)) *)
From Coba Require C13.ModelEncodeInPlace.
Fixpoint ival_of (fuel : nat) (x : sx) : ModelEncodeInPlace.ival :=
  match fuel with
  | O => ModelEncodeInPlace.INum 0
  | S f => match as_z (nth_sx 0 x) with
           | 0 => ModelEncodeInPlace.INum (as_z (nth_sx 1 x))
           | 1 => ModelEncodeInPlace.ICat (as_nat (nth_sx 1 x)) (as_nat (nth_sx 2 x))
           | _ => ModelEncodeInPlace.IList (map (ival_of f) (as_l (nth_sx 1 x)))
           end
  end.
Fixpoint sx_of_ival (v : ModelEncodeInPlace.ival) : sx :=
  match v with
  | ModelEncodeInPlace.INum z => L_ [Z_ 0; Z_ z]
  | ModelEncodeInPlace.ICat i n => L_ [Z_ 1; of_nat i; of_nat n]
  | ModelEncodeInPlace.IList l => L_ [Z_ 2; L_ (map sx_of_ival l)]
  | ModelEncodeInPlace.IStr i => L_ [Z_ 3; of_nat i]
  | ModelEncodeInPlace.ITup h => L_ [Z_ 4; of_zs h]
  end.
Definition run_encode_inplace (x : sx) : sx :=
  let f := match as_z (nth_sx 0 x) with 0 => ModelEncodeInPlace.FString | _ => ModelEncodeInPlace.FTuple end in
  sx_of_ival (ModelEncodeInPlace.iencode f (ival_of 12 (nth_sx 1 x))).
