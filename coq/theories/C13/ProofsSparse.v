From Coq Require Import ZArith List Bool Arith Lia FinFun.
From Coba Require Import C13.Model C13.ModelSparse.
Import ListNotations.
Local Open Scope Z_scope.

(* a view behaves like one dictionary: keys are distinct, __getitem__ is defined exactly on the keys, items() is exactly the graph of __getitem__
   (each key once), len() is the number of keys *)
Definition dictlike (v : sview) : Prop :=
  NoDup (skeys v) /\ (forall k, In k (skeys v) <-> sget v k <> None) /\ (forall k x, In (k, x) (sitems v) <-> sget v k = Some x) /\
  NoDup (map fst (sitems v)) /\ slen v = length (skeys v).

Lemma zmem_In k l : zmem k l = true <-> In k l.
Proof. unfold zmem. rewrite existsb_exists. split; [intros [x [Hx E]]; apply Z.eqb_eq in E; subst; exact Hx|intros H; exists k; split; [exact H|apply Z.eqb_refl]]. Qed.
Lemma zmem_false k l : zmem k l = false <-> ~ In k l.
Proof. rewrite <- zmem_In. destruct (zmem k l); split; intros H; [discriminate|exfalso; apply H; reflexivity|discriminate|reflexivity]. Qed.

Lemma items_keys v : dictlike v -> forall k, In k (map fst (sitems v)) <-> In k (skeys v).
Proof.
  intros [_ [Hk [Hi _]]] k. rewrite in_map_iff. split.
  - intros [[a x] [E Hin]]. cbn in E. subst a. apply Hk. rewrite (proj1 (Hi k x) Hin). discriminate.
  - intros Hin. apply Hk in Hin. destruct (sget v k) as [x|] eqn:E; [|congruence]. exists (k, x). split; [reflexivity|apply Hi; exact E].
Qed.

Lemma lookup_In d : NoDup (map fst d) -> forall k x, In (k, x) d <-> lookup d k = Some x.
Proof.
  induction d as [|[a v] t IH]; intros Hn k x; cbn; [split; [intros []|discriminate]|]. inversion Hn as [|? ? Hnin Ht]; subst.
  destruct (a =? k) eqn:E.
  - apply Z.eqb_eq in E. subst a. split.
    + intros [H|H]; [injection H as <-; reflexivity|]. exfalso. apply Hnin. apply in_map_iff. exists (k, x). split; [reflexivity|exact H].
    + intros H. injection H as <-. left. reflexivity.
  - apply Z.eqb_neq in E. rewrite <- (IH Ht). split; [intros [H|H]; [injection H as H1 _; congruence|exact H]|intros H; right; exact H].
Qed.
Lemma lookup_keys d k : In k (map fst d) <-> lookup d k <> None.
Proof.
  induction d as [|[a v] t IH]; cbn; [split; [intros []|congruence]|]. destruct (a =? k) eqn:E.
  - apply Z.eqb_eq in E. split; [discriminate|left; exact E].
  - apply Z.eqb_neq in E. rewrite <- IH. split; [intros [H|H]; [congruence|exact H]|intros H; right; exact H].
Qed.

Lemma base_ok d : NoDup (map fst d) -> dictlike (sbase d).
Proof.
  intros Hn. unfold dictlike, sbase; cbn. split; [exact Hn|]. split; [apply lookup_keys|]. split; [apply lookup_In; exact Hn|]. split; [exact Hn|apply eq_sym, map_length].
Qed.

Lemma NoDup_app_disjoint {A} (a b : list A) : NoDup a -> NoDup b -> (forall x, In x a -> ~ In x b) -> NoDup (a ++ b).
Proof.
  induction a as [|h t IH]; intros Ha Hb Hd; [exact Hb|]. cbn. inversion Ha as [|? ? Hnin Ht]; subst. constructor.
  - intros Hin. apply in_app_or in Hin. destruct Hin as [Hin|Hin]; [exact (Hnin Hin)|exact (Hd h (or_introl eq_refl) Hin)].
  - apply IH; [exact Ht|exact Hb|intros x Hx; apply Hd; right; exact Hx].
Qed.

Lemma encode_ok enc nsp v : NoDup nsp -> dictlike v -> dictlike (sencode enc nsp v).
Proof.
  intros Hnsp Hv. pose proof (items_keys v Hv) as IK. destruct Hv as [Hn [Hk [Hi [Hni Hl]]]].
  set (extra := filter (fun k => negb (zmem k (skeys v))) nsp).
  assert (forall k, In k extra <-> In k nsp /\ ~ In k (skeys v)) as Hex.
  { intros k. unfold extra. rewrite filter_In, negb_true_iff, zmem_false. reflexivity. }
  unfold dictlike, sencode; cbn. fold extra. split; [|split; [|split; [|split]]].
  - apply NoDup_app_disjoint; [exact Hn|apply NoDup_filter; exact Hnsp|]. intros x Hx Hxe. apply Hex in Hxe. exact (proj2 Hxe Hx).
  - intros k. rewrite in_app_iff, Hex. destruct (sget v k) as [x|] eqn:E.
    + split; [discriminate|]. intros _. left. apply Hk. congruence.
    + destruct (zmem k nsp) eqn:Em.
      * split; [discriminate|]. intros _. right. split; [apply zmem_In; exact Em|]. intros Hin. apply Hk in Hin. congruence.
      * split; [|congruence]. intros [Hin|[Hin _]]; [apply Hk in Hin; congruence|apply zmem_In in Hin; congruence].
  - intros k x. rewrite in_app_iff, !in_map_iff. split.
    + intros [[[a y] [E Hin]]|[a [E Hin]]].
      * cbn in E. injection E as -> <-. apply Hi in Hin. rewrite Hin. reflexivity.
      * injection E as -> <-. apply Hex in Hin. destruct Hin as [Hin Hnk].
        destruct (sget v k) eqn:Eg; [exfalso; apply Hnk, Hk; congruence|]. apply zmem_In in Hin. rewrite Hin. reflexivity.
    + destruct (sget v k) as [y|] eqn:Eg.
      * intros E. injection E as <-. left. exists (k, y). split; [reflexivity|apply Hi; exact Eg].
      * destruct (zmem k nsp) eqn:Em; [|discriminate]. intros E. injection E as <-. right. exists k. split; [reflexivity|].
        apply Hex. split; [apply zmem_In; exact Em|]. intros Hin. apply Hk in Hin. congruence.
  - rewrite map_app, !map_map. cbn [fst]. rewrite map_id. apply NoDup_app_disjoint; [exact Hni|apply NoDup_filter; exact Hnsp|].
    intros x Hx Hxe. apply IK in Hx. apply Hex in Hxe. exact (proj2 Hxe Hx).
  - reflexivity.
Qed.

Lemma drop_ok ds v : dictlike v -> dictlike (sdrop ds v).
Proof.
  intros [Hn [Hk [Hi [Hni Hl]]]]. unfold dictlike, sdrop; cbn. split; [|split; [|split; [|split]]].
  - apply NoDup_filter. exact Hn.
  - intros k. rewrite filter_In, negb_true_iff. destruct (zmem k ds); [split; [intros [_ H]; discriminate|congruence]|]. rewrite Hk. tauto.
  - intros k x. rewrite filter_In. cbn [fst]. rewrite negb_true_iff. destruct (zmem k ds); [split; [intros [_ H]; discriminate|discriminate]|]. rewrite Hi. tauto.
  - clear - Hni. induction (sitems v) as [|[a x] t IH]; cbn; [constructor|]. cbn in Hni. inversion Hni as [|? ? Hnin Ht]; subst.
    destruct (negb (zmem a ds)); [|apply IH; exact Ht]. cbn. constructor; [|apply IH; exact Ht]. intros Hin. apply Hnin.
    apply in_map_iff in Hin. destruct Hin as [[b y] [E Hin]]. apply filter_In in Hin. apply in_map_iff. exists (b, y). split; [exact E|exact (proj1 Hin)].
  - reflexivity.
Qed.

Lemma head_ok sh v : dictlike v -> dictlike (shead sh v).
Proof.
  intros [Hn [Hk [Hi [Hni Hl]]]]. unfold dictlike, shead; cbn. split; [|split; [|split; [|split]]].
  - apply (FinFun.Injective_map_NoDup (f := fun k => k + sh)); [intros a b E; lia|exact Hn].
  - intros k. rewrite in_map_iff. rewrite <- Hk. split; [intros [a [E Hin]]; replace (k - sh) with a by lia; exact Hin|intros Hin; exists (k - sh); split; [lia|exact Hin]].
  - intros k x. rewrite in_map_iff. rewrite <- Hi. split.
    + intros [[a y] [E Hin]]. cbn in E. injection E as E1 E2. subst y. replace (k - sh) with a by lia. exact Hin.
    + intros Hin. exists (k - sh, x). split; [cbn; f_equal; lia|exact Hin].
  - rewrite map_map. cbn [fst]. rewrite <- (map_map fst (fun k => k + sh)). apply (FinFun.Injective_map_NoDup (f := fun k => k + sh)); [intros a b E; lia|exact Hni].
  - rewrite map_length. exact Hl.
Qed.

Lemma label_row_ok lab v : dictlike v -> dictlike (slabel_row lab v).
Proof.
  intros Hv. pose proof (items_keys v Hv) as IK. destruct Hv as [Hn [Hk [Hi [Hni Hl]]]]. unfold dictlike, slabel_row; cbn.
  destruct (zmem lab (skeys v)) eqn:Em.
  - apply zmem_In in Em. split; [exact Hn|]. split; [|split; [|split; [exact Hni|reflexivity]]].
    + intros k. rewrite Hk. destruct (sget v k) eqn:E; [tauto|]. destruct (k =? lab) eqn:El; [|tauto]. apply Z.eqb_eq in El. subst k. apply Hk in Em. congruence.
    + intros k x. rewrite Hi. destruct (sget v k) eqn:E; [tauto|]. destruct (k =? lab) eqn:El; [|tauto]. apply Z.eqb_eq in El. subst k. apply Hk in Em. congruence.
  - apply zmem_false in Em. assert (sget v lab = None) as Eg by (destruct (sget v lab) eqn:E; [exfalso; apply Em, Hk; congruence|reflexivity]).
    split; [apply NoDup_app_disjoint; [exact Hn|repeat constructor; intros []|intros x Hx [<-|[]]; exact (Em Hx)]|]. split; [|split; [|split; [|reflexivity]]].
    + intros k. rewrite in_app_iff, Hk. cbn. destruct (sget v k) eqn:E; [split; [discriminate|intros _; left; discriminate]|].
      destruct (k =? lab) eqn:El; [apply Z.eqb_eq in El; split; [discriminate|intros _; right; left; congruence]|].
      apply Z.eqb_neq in El. split; [intros [H|[H|[]]]; congruence|congruence].
    + intros k x. rewrite in_app_iff, Hi. cbn. destruct (sget v k) eqn:E.
      * split; [intros [H|[H|[]]]; [exact H|injection H as <- _; congruence]|intros H; left; exact H].
      * destruct (k =? lab) eqn:El; [apply Z.eqb_eq in El; subst k|apply Z.eqb_neq in El].
        -- split; [intros [H|[H|[]]]; [discriminate|injection H as <-; reflexivity]|intros H; injection H as <-; right; left; reflexivity].
        -- split; [intros [H|[H|[]]]; [discriminate|injection H as H1 _; congruence]|discriminate].
    + rewrite map_app. cbn. apply NoDup_app_disjoint; [exact Hni|repeat constructor; intros []|intros x Hx [<-|[]]; apply IK in Hx; exact (Em Hx)].
Qed.

Definition wf_sstage (s : sstage) : Prop := match s with SEncode _ nsp => NoDup nsp | _ => True end.

Theorem sparse_views_are_dictionaries stages : Forall wf_sstage stages -> forall v, dictlike v -> dictlike (fold_left (fun r s => sapply s r) stages v).
Proof.
  induction 1 as [|s r Hs Hr IH]; intros v Hv; [exact Hv|]. cbn [fold_left]. apply IH.
  destruct s as [encs nsp|ds|sh|lab]; cbn [sapply]; [apply encode_ok; [exact Hs|exact Hv]|apply drop_ok; exact Hv|apply head_ok; exact Hv|apply label_row_ok; exact Hv].
Qed.

(* feats and label of a labelled sparse row: the features never hold the label key, the label is the row's value there (0 when absent) *)
Lemma feats_label lab v : dictlike v -> dictlike (sfeats lab v) /\ ~ In lab (skeys (sfeats lab v)) /\
  (forall k, k <> lab -> sget (sfeats lab v) k = sget v k) /\ slabel lab v = Some (match sget v lab with Some x => x | None => 0 end).
Proof.
  intros Hv. split; [apply drop_ok; exact Hv|]. split; [|split].
  - unfold sfeats, sdrop; cbn. rewrite filter_In. intros [_ H]. unfold zmem in H. cbn in H. rewrite Z.eqb_refl in H. discriminate.
  - intros k Hk. unfold sfeats, sdrop, zmem; cbn. destruct (k =? lab) eqn:E; [apply Z.eqb_eq in E; congruence|reflexivity].
  - unfold slabel, slabel_row; cbn. destruct (sget v lab); [reflexivity|rewrite Z.eqb_refl; reflexivity].
Qed.

Lemma nsp_of_NoDup encs : NoDup (map fst encs) -> NoDup (nsp_of encs).
Proof.
  unfold nsp_of. induction encs as [|[k e] t IH]; cbn; intros Hn; [constructor|]. inversion Hn as [|? ? Hnin Ht]; subst.
  destruct (negb (app_enc e 0 =? 0)); [|apply IH; exact Ht]. cbn. constructor; [|apply IH; exact Ht].
  intros Hin. apply Hnin. apply in_map_iff in Hin. destruct Hin as [p [E Hp]]. apply filter_In in Hp. apply in_map_iff. exists p. split; [exact E|exact (proj1 Hp)].
Qed.
