#!/bin/bash
# usage: goals.sh <file.v> <line-number> [maxlines] [closing]  -- truncates the file after the given line, prints the open goals there
f=$1; n=$2; d=$(dirname $f); b=$(basename $f .v)
head -n $n $f > $d/${b}Dbg.v
echo '    all: match goal with |- ?g => idtac "GOAL:" g end. Abort.' >> $d/${b}Dbg.v
echo "${4:-End Inv.}" >> $d/${b}Dbg.v
(cd /verif/coq && coqc -Q theories Coba $d/${b}Dbg.v 2>&1 | head -${3:-80}); rm -f $d/${b}Dbg.* $d/.${b}Dbg.*
