#!/bin/bash
# usage: tools_round5.sh <pid> : confirm the fifth-round changes m9/m10 of a property and run the property's check against them
pid=$1
for m in m9 m10; do
  ./tools_confirm_mutant.sh $pid $m 5
  if [ -f seeded/$pid-$m/.confirmed ]; then
    for f in /tmp/wt/$pid-scratch5/*.py; do b=$(basename $f); case $b in demo_m9.py|demo_m10.py) ;; *) cp -n $f seeded/$pid-$m/ ;; esac; done
    ./tools_mutant.sh $pid /verif/seeded/$pid-$m/patch.diff | tail -2 | tr '\n' ' '; echo; fi
done
