#!/bin/bash
# clean-tree passes used before committing evidence: tools_quick_all.sh <seed>... runs every quick check; tools_sweep.sh <seed>... the cheap ones only; tools_thorough_all.sh <seed> every thorough check
cd /verif
for s in "$@"; do
for p in C01 C02 C03 C04 C05 C06 C07 C08 C09 C10 C11 C12 C13 C14 C15 C16 C17 C18 C19 C20; do
  t0=$(date +%s); out=$(VERIF_SEED=$s ./check $p --tier quick 2>&1); rc=$?; t1=$(date +%s)
  echo "seed=$s $p rc=$rc $((t1-t0))s $(echo "$out" | grep -c KNOWN-FINDING) known $(echo "$out" | grep VIOLATION | head -1)"
done; done
