#!/bin/bash
# usage: tools_round4.sh <pid> : confirm the fourth-round changes m7/m8 of a property and run the property's check against them
pid=$1
for m in m7 m8; do
  ./tools_confirm_mutant.sh $pid $m 4
  if [ -f seeded/$pid-$m/.confirmed ]; then
    for f in /tmp/wt/$pid-scratch4/*.py; do b=$(basename $f); case $b in demo_m7.py|demo_m8.py) ;; *) cp -n $f seeded/$pid-$m/ ;; esac; done
    ./tools_mutant.sh $pid /verif/seeded/$pid-$m/patch.diff | tail -2 | tr '\n' ' '; echo; fi
done
