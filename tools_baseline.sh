#!/bin/bash
# Runs the pinned baseline suite (hook guard off) and compares with /root/.vp/BASELINE.json's stable_pass list.
unset COBA_VERIF
OUT=$(mktemp /var/tmp/junit.XXXXXX.xml)
cd /repo && /venv/bin/python -m pytest -q -p no:cacheprovider --timeout=900 --continue-on-collection-errors --junitxml=$OUT > /dev/null 2>&1
/venv/bin/python - "$OUT" <<'P'
import sys, json, xml.etree.ElementTree as ET
want = set(json.load(open('/root/.vp/BASELINE.json'))['stable_pass'])
got = set()
for tc in ET.parse(sys.argv[1]).getroot().iter('testcase'):
    if not any(c.tag in ('failure','error','skipped') for c in tc):
        got.add(tc.get('classname') + '::' + tc.get('name'))
missing = sorted(want - got)
print("stable_pass: %d expected, %d of them passed, %d missing" % (len(want), len(want & got), len(missing)))
for m in missing[:20]: print("  MISSING", m)
sys.exit(1 if missing else 0)
P
rc=$?; rm -f $OUT; exit $rc
