#!/bin/bash
# Runs the pinned baseline suite (hook guard off) and compares with /root/.vp/BASELINE.json's stable_pass list.
# Two timing tests (test_context_loggers ..test_time_*) are load-sensitive: tests missing after the first run are re-run once on their own.
unset COBA_VERIF
run() { OUT=$(mktemp /var/tmp/junit.XXXXXX.xml)
cd /repo && /venv/bin/python -m pytest -q -p no:cacheprovider --timeout=900 --continue-on-collection-errors --junitxml=$OUT "$@" > /dev/null 2>&1
/venv/bin/python - "$OUT" "$MISSING_FILE" "$FIRST" <<'P'
import sys, json, xml.etree.ElementTree as ET
want = set(json.load(open('/root/.vp/BASELINE.json'))['stable_pass'])
if sys.argv[3] == "0": want = set(open(sys.argv[2]).read().split("\n")) - {""}
got = set()
for tc in ET.parse(sys.argv[1]).getroot().iter('testcase'):
    if not any(c.tag in ('failure','error','skipped') for c in tc):
        got.add(tc.get('classname') + '::' + tc.get('name'))
missing = sorted(want - got)
print("stable_pass: %d expected, %d of them passed, %d missing%s" % (len(want), len(want & got), len(missing), "" if sys.argv[3] == "1" else " (re-run of the tests missing in the first run)"))
for m in missing[:20]: print("  MISSING", m)
open(sys.argv[2], "w").write("\n".join(missing))
sys.exit(1 if missing else 0)
P
rc=$?; rm -f $OUT; return $rc; }
MISSING_FILE=$(mktemp /var/tmp/missing.XXXXXX); FIRST=1
run; rc=$?
if [ $rc -ne 0 ] && [ $(wc -l < $MISSING_FILE) -lt 5 ]; then
  FIRST=0
  files=$(sed 's/::.*//; s/\.[A-Za-z0-9_]*$//; s/\./\//g; s/$/.py/' $MISSING_FILE | sort -u | tr '\n' ' ')
  run $files; rc=$?
fi
rm -f $MISSING_FILE; exit $rc
