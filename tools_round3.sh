#!/bin/bash
# usage: tools_round3.sh <pid> : confirm the third-round changes m5/m6 of a property and run the property's check against them
pid=$1
for m in m5 m6; do
  ./tools_confirm_mutant.sh $pid $m 3
  if [ -f seeded/$pid-$m/.confirmed ]; then ./tools_mutant.sh $pid /verif/seeded/$pid-$m/patch.diff | tail -2 | tr '\n' ' '; echo; fi
done
