#!/bin/bash
cd /verif
for s in "$@"; do
for p in C02 C04 C05 C06 C07 C09 C10 C11 C12 C13 C14 C15 C16 C17 C18 C19 C20; do
  out=$(VERIF_SEED=$s ./check $p --tier quick 2>&1); rc=$?
  [ $rc -ne 0 ] && echo "seed=$s $p rc=$rc $(echo "$out" | grep VIOLATION | head -1)"
done; echo "seed $s done"; done
