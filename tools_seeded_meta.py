#!/venv/bin/python
"""(Re)writes seeded/<id>/meta.json from the sub-agents' notes (scratch dirs, while they exist) and the results of tools_seeded_matrix.sh."""
import glob, json, os, re, shutil, sys
V = "/verif"; WT = "/tmp/wt"
PORTED = {"C13-m9": "(ported in place)", "C04-m1": "(ported in place)", "C09-m1": "(ported in place)", "C10-m4": "(ported in place)", "C06-m2": "m2b.diff", "C10-m2": "m2b.diff", "C15-m1": "m1b.diff", "C08-m1": "m1b.diff", "C19-m1": "(ported in place)", "C06-m5": "(ported in place)"}
OBSOLETE = {"C04-m2": "made harmless by fix 7c22f65 (reward functions became picklable by value): with the change applied the agent's own demonstration passes on the current tree"}
STRENGTH = {
 "C05": "cross-process layer: streams are recomputed in child interpreters with other hash seeds", "C20": "shared-encoder histories (one encoder object, many calls) and zero-valued scalars added to the generator",
 "C17": "big sparse tables (hundreds of rows, many Missing cells) added", "C09": "Cache partial-read histories (abandoned iterations) added", "C18": "'reindex' column and one-evaluator-per-learner experiments added",
 "C14": "pre-labelled sources added", "C15": "int0x / intx1 action sets, PMF-of-ints format and the SequentialCB seed test added", "C07": "runs cut short by an interrupt or an un-encodable row added (completed evaluations must be in all three Results)",
 "C19": "memory inner-cache law added (a stream failing part-way leaves no entry, alone and under ConcurrentCacher)", "C01": "the corpus experiment (RejectionCB + learning_info learner + chunk prefix) is run under all seven configurations",
 "C12": "regression corpus of exact ARFF lines (mixed quote styles after a plain row) added", "C08": "error kinds incl. ValueError/AssertionError/EOFError; whole fair round without progress = hang", "C02": "first run with failing evaluations, learner-major tuple lists, real SIGKILL layer",
 "C03": "batched + unbatched environments with non-batch-aware user learners; every triple also run alone in a fresh worker", "C06": "recording learner over every learn x eval x record subset", }
STRENGTH_ID = {
 "C04-m3": "pipelines whose logged(...) learner is held by the caller and cannot be pickled; the learner must stay untrained", "C04-m4": "sibling oracle: every environment of one Environments chain read alone vs after its siblings, and pickled",
 "C05-m3": "choicew without weights added to the operation set (the independence oracle then finds the input)", "C05-m4": "caught as built", "C06-m3": "PMF learners over action lists with duplicate arms", "C06-m4": "extra outputs returned as a read-only Mapping",
 "C07-m3": "caught as built (restored .gz runs)", "C07-m4": "caught as built (dict cells named like registered reward tags)", "C09-m3": "caught as built", "C09-m4": "caught as built (repeated reads / sibling reads of one Reservoir)",
 "C10-m3": "caught as built", "C10-m4": "categoricals inside nested lists/dicts of an action, reward functions keyed by equal-but-distinct action objects", "C11-m3": "caught as built", "C11-m4": "caught as built",
 "C12-m3": "caught as built (embedded line breaks)", "C12-m4": "caught as built (1-byte chunks, CRLF then blank LF line)", "C13-m3": "caught as built", "C13-m4": "lazy sparse ARFF rows with missing cells read by name / as label",
 "C14-m3": "contexts with headers are also read by name", "C14-m4": "multi-label rewards probed with list, tuple, set and frozenset actions", "C15-m3": "caught as built", "C15-m4": "row-major batches with two-key kwargs",
 "C16-m3": "caught as built (changing action sets)", "C16-m4": "caught as built (finite T)", "C17-m3": "caught as built", "C17-m4": "tables created without declared columns", "C18-m3": "caught as built", "C18-m4": "caught as built",
 "C01-m3": "caught as built (experiment seed in workers)", "C01-m4": "environments that are slow to pickle under maxchunksperchild=1 (the loader lags behind the workers); also caught by C08's scheduled co-simulation",
 "C02-m3": "caught as built (cut 1 byte into a gzip member)", "C02-m4": "caught as built (cut between a record and its newline)", "C03-m3": "failing learners publish learning_info before they raise; corpus experiments with the failing triple ahead of healthy ones",
 "C03-m4": "caught as built", "C08-m3": "real-process layer: a filter that kills its worker (os._exit) must not hang the call", "C08-m4": "caught as built", "C19-m3": "caught as built", "C19-m4": "re-entrant reads of one key by one caller (nesting depth 1-4, body failing or not)",
 "C04-m5": "params after any history are compared with those of an identical environment that was simply read (found the open finding C04-saved-before-read-n-actions on the way)", "C04-m6": "grounded(...) added to the filter set; a long materialized / cached grounded environment is read twice",
 "C05-m5": "caught as built (critical seeds by LCG inversion)", "C05-m6": "caught as built", "C06-m5": "action sets drawn from a small pool so that a set recurs after a different one, with and without the arms 0/1", "C06-m6": "logged data with a missing propensity (None) on some interactions",
 "C10-m5": "heterogeneous action sets (an empty sparse mapping next to dense vectors / scalars); found and fixed af1271b on the way", "C10-m6": "later interactions list the same categorical levels in another order; found and fixed 3fe04a8 on the way",
 "C13-m5": "row predicates on DropRows (by position, by name, over the whole row) in the dense and sparse generators", "C13-m6": "caught as built (label of a sparse row that does not store it)",
 "C14-m5": "dict-row sources whose zero label is not stored", "C14-m6": "environments built through Environments.from_supervised with keyword arguments (the property's observation point)",
 "C15-m5": "an empty kwargs mapping on un-batched calls", "C15-m6": "caught as built", "C17-m5": "caught as built", "C17-m6": "caught as built",
 "C19-m5": "getters that fail with KeyboardInterrupt / SystemExit at every point of their stream, for DiskCacher and under ConcurrentCacher; found and fixed 9f814b6 on the way", "C19-m6": "slot law: child interpreters with other string-hash seeds must map every key to the same lock-table slot",
 "C08-m5": "payload law: None and falsy items (first or later) through Multiprocessor and CobaMultiprocessor", "C08-m6": "a lazy item stream that re-fills one buffer object in place (scheduled co-simulation)",
 "C01-m5": "caught as built", "C01-m6": "two learners of ONE class of which only one offers score, under evaluators that ask (SequentialCB eval='ips' without action/probability records, RejectionCB)",
 "C03-m5": "an environment object that can be iterated like a pipeline and whose iteration fails", "C03-m6": "first reported through the broken translator template only; a learner with a finish() hook that changes its behaviour now gives the concrete input",
 "C12-m5": "caught as built (empty write calls)", "C12-m6": "caught as built (nominal levels with a blank before an inner comma)", "C09-m5": "first reported without a concrete input; seeds that put the largest generator state on one of the first draws were added for Shuffle and Reservoir", "C09-m6": "caught as built",
 "C20-m5": "dense namespaces of 999-4097 values next to a string / sparse namespace", "C20-m6": "caught as built", "C11-m5": "caught as built", "C11-m6": "caught as built", "C07-m5": "caught as built", "C07-m6": "caught as built",
 "C16-m5": "actions that are coba's own row types (HeadDense, LazyDense, LazySparse)", "C16-m6": "first reported without a concrete input; histories that open with one single action offered repeatedly were added",
 "C18-m5": "caught as built", "C18-m6": "Results with 12-13 environments (ids of one and two digits); C17's generator got single-keyword 'in' conditions over values 0..11 as well", "C02-m5": "caught as built", "C02-m6": "a log of more than a thousand records (36 x 30 triples) is resumed at three cut points",
 "C05-m7": "users law: a seeded Reservoir / Shuffle object read twice, a fresh one and a pickled copy must agree", "C05-m8": "shuffle is handed lists, tuples and one-shot iterables (iterator, generator, map)",
 "C13-m7": "view-vs-view equality over the same materialised row objects (differently parameterised drops, encoders, label splits)", "C13-m8": "lazy dense ARFF rows with mixed quote styles first touched in a random order",
 "C11-m7": "caught as built", "C11-m8": "time-stamp like features (1.7e9 + small) added before the run; the comparison tolerance for such cases is 1e-6 (binary64 carries 2e-7 through x+shift)",
 "C09-m7": "several environments through Environments.cache()/chunk()/batch().unbatch(), read in any order (added before the run)", "C09-m8": "caught as built",
 "C14-m7": "header names that look like numbers (added before the run)", "C14-m8": "Categorical labels whose level lists differ in order; rewards are asked with the very action objects the environment offers",
 "C17-m7": "caught as built", "C17-m8": "caught as built", "C20-m7": "caught as built", "C20-m8": "caught as built", "C12-m7": "caught as built", "C12-m8": "the level '0' added to the token alphabet (added before the run)",
 "C07-m7": "a result file holding only a torn first record (1-12 bytes, plain and gz) or a line break before the run", "C07-m8": "restored runs whose earlier run left some evaluations without rows",
 "C18-m7": "caught as built", "C18-m8": "caught as built", "C16-m7": "one action list edited in place between rounds (added before the run; found and fixed 660d6ec on the way)", "C16-m8": "sparse actions whose keys have different types (added before the run)",
 "C02-m7": "caught as built (escalated every-byte cuts)", "C02-m8": "caught as built",
 "C01-m7": "an evaluator whose params are slow to compute, so that its record arrives after those of evaluators with higher ids", "C01-m8": "caught as built (the translator's template of ChunkTasks no longer matches and chunks of odd length lose tasks)",
 "C03-m7": "one RejectionCB object (seeds whose first draw falls between the thresholds) for logged environments with different logging propensities and a learner whose scores are far from the logging policy", "C03-m8": "a stateful learner listed for two environments of one chunk, run on worker processes",
 "C04-m7": "a save file holding 11 environments continued by a save of 13", "C04-m8": "environments derived from a materialized one are read, then the materialized one again",
 "C06-m7": "categorical actions (finalised to one-hot codes) under the ips modes", "C06-m8": "a learner that states probability 0 now and then",
 "C08-m7": "real processes: the item stream ends exactly while a replacement worker is being started (a filter that is slow to pickle stretches the window)", "C08-m8": "real processes: one Multiprocessor object used again after a failed call",
 "C10-m7": "dense actions with missing / empty features next to zeros", "C10-m8": "hash collisions are excused only when crc32(key) mod n_feats predicts them; actions that differ in the name of their one feature",
 "C15-m7": "learners whose predict understands batches while learn takes one interaction (and the other way round)", "C15-m8": "kwargs given as MappingProxyType, UserDict, OrderedDict or a Mapping class",
 "C19-m7": "two real worker processes started by CobaMultiprocessor ask the shared cacher for one key at the same moment", "C19-m8": "caught by the scheduled co-simulation once its patched sleep counts polls that never visit the shared lock (before that the run did not come back in time)",
 "C11-m9": "caught as built", "C11-m10": "caught as built", "C20-m10": "caught as built", "C02-m10": "caught as built", "C19-m9": "caught as built (reported through the broken correspondence of the scheduled co-simulation, without a concrete input)",
 "C12-m9": "caught as built", "C12-m10": "caught as built", "C04-m10": "caught as built (pickle in mid-read); the event model C04.ModelOps now covers it with a theorem", "C18-m9": "caught as built (model disagreement on where_fin with a duplicated level and a short surplus evaluation)",
 "C07-m9": "caught as built", "C07-m10": "caught as built", "C03-m9": "caught as built", "C03-m10": "caught as built",
 "C05-m9": "samplers law: PMFPredictor / PMFInfoPredictor / SafeLearner draws must be the choicew stream of a fresh CobaRandom(seed), also over action lists with equal members carrying different weights", "C05-m10": "samplers law with a SafeLearner wrapped around a SafeLearner and another sampler of the same seed used in between",
 "C10-m9": "Batch oracle over interactions that list their keys in different orders", "C10-m10": "Environments shortcuts (dense/sparse/flatten/repr/batch) over several environments read one after the other, with a lookup table just big enough for each environment's own names",
 "C20-m9": "integer features whose products are far beyond 2**53 (the expansion is exact)", "C15-m9": "bare PMFs computed in single precision or rounded to four decimals", "C15-m10": "stated probabilities (incl. exactly 0 and 0.0) followed through SequentialCB into the rows and into learn",
 "C02-m9": "evaluator columns named like the key columns (learner_id, environment_id, evaluator_id)", "C19-m10": "OS-level write faults (RLIMIT_FSIZE) at many byte limits, for entries smaller and larger than the buffers",
 "C14-m9": "regression labels a double cannot hold (big integers) and exact rationals, probed next to the label", "C14-m10": "dense ARFF sources with a nominal FEATURE and missing cells, read by name as well",
 "C09-m9": "Cache pickled while a read is in progress (the copy must yield the whole sequence)", "C09-m10": "shortcuts law: Environments.take/reservoir/slice/riffle/where keep the filters' promises (strict reservoir on a short environment)",
 "C04-m9": "held-params law: a source whose params dict the caller keeps, read through several SupervisedSimulations", "C13-m9": "EncodeCatRows oracle (eager replacement, source rows untouched incl. shared nested lists, second pass equal); found and fixed two defects of EncodeCatRows on the way",
 "C13-m10": "sparse ARFF lines with quoted values and several blanks / tabs between index and value", "C18-m10": "Results whose three parameter tables share a column name ('seed', as real environments, learners and evaluators report): as l/p/x it means the environments' column",
 "C01-m9": "environments whose params are complete only after a read (supervised data) behind chunk(), under configurations that chunk the tasks differently", "C01-m10": "one RejectionCB object for logged environments with different propensities, in-process versus worker processes (evaluator seeds whose first draw separates the thresholds)",
 "C16-m9": "NOT claimed: it needs rewards of magnitude 1e154 fed to BanditUCBLearner; the property quantifies over rewards in [0,1] where the algorithm requires it (UCB1-tuned does)", "C16-m10": "Corral with horizons T=2,3,4,7 driven for 1000 rounds (3000 in the thorough tier): learning must not raise, weights and learning rates stay positive",
 "C17-m9": "failed-index law: index() on a read-only view or on a column that cannot be ordered raises, the caller goes on, every later where equals a scan", "C17-m10": "caught as built", "C08-m9": "caught as built (abandoned consumers in the scheduled co-simulation)",
 "C08-m10": "real-process cases whose completion callbacks are descheduled right after each queue write (a QueueSink that is slow to return): the error of the worker that retires last must still be raised", "C06-m10": "caught as built",
 "C06-m9": "reuse law: one SequentialCB object evaluates several pairs (the same fields, learners with and without score) and must treat each like a fresh evaluator does",
 "C20-m3": "caught as built (interleaved terms such as 'xax')", "C20-m4": "caught as built (number-first mixed sequences)",
}
def heading(pid, m):
    sub = "-scratch5" if m in ("m9", "m10") else "-scratch4" if m in ("m7", "m8") else "-scratch3" if m in ("m5", "m6") else "-scratch2" if m in ("m3", "m4") else "-scratch"
    p = os.path.join(WT, pid + sub, "notes.md")
    if not os.path.exists(p): return None
    txt = open(p).read()
    mm = re.search(r"^##\s*%s\b[^\n]*\n(.*?)(?=^##\s|\Z)" % m, txt, re.M | re.S)
    if not mm: return None
    head = re.search(r"^##\s*%s\b\s*[-–—:(]*\s*(.*)$" % m, txt, re.M).group(1).strip(" )(")
    body = " ".join(l.strip("-* ").strip() for l in mm.group(1).strip().splitlines()[:3])
    return (head + ". " + body)[:420]
res = {}
if os.path.exists(os.path.join(V, "seeded", "RESULTS.json")): res = json.load(open(os.path.join(V, "seeded", "RESULTS.json")))
for d in sorted(glob.glob(os.path.join(V, "seeded", "C*-m*"))):
    sid = os.path.basename(d); pid, m = sid.split("-")
    mp = os.path.join(d, "meta.json")
    meta = json.load(open(mp)) if os.path.exists(mp) else {}
    if sid in PORTED:
        src = os.path.join(WT, pid + "-scratch", PORTED[sid])
        if os.path.exists(src) and not os.path.exists(os.path.join(d, "original.diff")):
            shutil.copy(os.path.join(d, "patch.diff"), os.path.join(d, "original.diff")); shutil.copy(src, os.path.join(d, "patch.diff"))
    files = sorted(set(re.findall(r"^\+\+\+ b/(\S+)", open(os.path.join(d, "patch.diff")).read(), re.M)))
    meta.update(id=sid, property=pid, origin="fresh sub-agent given only the property text and a scratch worktree", files=files,
                confirmed="patch applied, demonstration passed without and failed with the change, all 1840 stable tests passed with it (tools_confirm_mutant.sh)",
                apply="git -C /repo apply /verif/seeded/%s/patch.diff ; ./check %s ; git -C /repo checkout -- ." % (sid, pid))
    h = heading(pid, m)
    if h: meta["summary"] = h
    meta.setdefault("summary", "")
    if sid in PORTED: meta["ported"] = "a later fix: commit touched the same lines; patch.diff is the hand-ported change, original.diff the agent's"
    if sid in OBSOLETE: meta["obsolete"] = OBSOLETE[sid]
    meta["strengthened"] = STRENGTH_ID.get(sid, STRENGTH.get(pid, "") if m in ("m1", "m2") else "")
    if sid in res: meta["caught"] = res[sid]
    if sid in OBSOLETE: meta["caught"] = "obsolete (harmless on the current tree)"
    json.dump(meta, open(mp, "w"), indent=1, ensure_ascii=False)
print("meta.json written for", len(glob.glob(os.path.join(V, "seeded", "C*-m*"))), "seeded changes")
