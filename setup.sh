#!/bin/bash
# Build the framework from files on disk only (offline): translate, full .vo build, extraction, driver.
set -e
cd "$(dirname "$0")"
export PYTHONPATH=/verif PYTHONHASHSEED=0 PYTHONWARNINGS=ignore
/venv/bin/python -m harness.gen_all            # Generated/*.v from /repo's current tree
( cd coq
  { echo "-Q theories Coba"; find theories -name '*.v' | LC_ALL=C sort; } > _CoqProject
  coq_makefile -f _CoqProject -o Makefile > /dev/null
  if ! timeout 3000 make -j16 > make.log 2>&1; then grep -B2 -A14 'Error' make.log | head -80; echo "setup FAILED (coq build)"; exit 1; fi
  test -f theories/Extract.vo
  if [ -f model.ml ]; then mv -f model.ml model.mli ../ocaml/; fi
  if [ ! -f ../ocaml/model.ml ]; then rm -f theories/Extract.vo; make theories/Extract.vo >/dev/null; mv -f model.ml model.mli ../ocaml/; fi )
( cd ocaml
  ocamlfind ocamlopt -w -a -O2 model.mli model.ml driver.ml -o driver 2>/dev/null || ocamlfind ocamlopt -w -a model.mli model.ml driver.ml -o driver )
echo "setup ok"
