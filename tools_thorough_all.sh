#!/bin/bash
cd /verif
for p in C01 C02 C03 C04 C05 C06 C07 C08 C09 C10 C11 C12 C13 C14 C15 C16 C17 C18 C19 C20; do
  t0=$(date +%s); out=$(VERIF_SEED=${1:-21} ./check $p --tier thorough 2>&1); rc=$?; t1=$(date +%s)
  echo "$p rc=$rc $((t1-t0))s $(echo "$out" | grep -c KNOWN-FINDING) known $(echo "$out" | grep VIOLATION | head -1)"
  if [ $rc -ne 0 ]; then cp replays/$p-thorough-seed${1:-21}.json /tmp/thorough_fail_$p.json 2>/dev/null; fi
done
