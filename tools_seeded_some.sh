#!/bin/bash
# usage: tools_seeded_some.sh <id> [<id> ...] : as tools_seeded_matrix.sh for the named seeded changes only; merges the outcome into seeded/RESULTS.json
cd /verif || exit 2
for id in "$@"; do
  d=seeded/$id; pid=${id%%-*}
  if [ -n "$(git -C /repo status --porcelain)" ]; then echo "/repo is not clean"; exit 3; fi
  ok=0
  if git -C /repo apply --check /verif/$d/patch.diff 2>/dev/null; then git -C /repo apply /verif/$d/patch.diff; ok=1
  elif git -C /repo apply --3way --check /verif/$d/patch.diff 2>/dev/null; then
    git -C /repo apply --3way /verif/$d/patch.diff >/dev/null 2>&1; git -C /repo reset -q
    if grep -rlq '^<<<<<<< ' --include=*.py /repo/coba; then git -C /repo checkout -- .; else ok=1; fi
  fi
  if [ $ok -eq 1 ]; then
    line=$(timeout 1500 ./check $pid --tier quick 2>/dev/null | grep -v KNOWN-FINDING | head -1)
    git -C /repo checkout -- .
    if echo "$line" | grep -q "^VIOLATION"; then
      sig=$(/venv/bin/python -c "import json,sys; r=json.load(open('/verif/replays/$pid-quick-seed0.json')); print((' '.join(map(str,r.get('signature',[]))) if 'signature' in r else 'no-failing-input-found: '+'; '.join(r.get('broken',[])))[:90])" 2>/dev/null)
      res="caught: VIOLATION [$sig]"
    else res="MISSED"; fi
  else res="does not apply to the current tree"; fi
  echo "$id: $res"
  /venv/bin/python - "$id" "$res" <<'P'
import json, sys
p = '/verif/seeded/RESULTS.json'
r = json.load(open(p)); r[sys.argv[1]] = sys.argv[2]
json.dump(dict(sorted(r.items())), open(p, 'w'), indent=0)
P
done
