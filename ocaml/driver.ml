(* Line-oriented runner for the extracted models.
   stdin :  <op> <sexp>      e.g.   5 ((0 42) ((0 (1 0 9))))
   stdout:  <sexp>
   Integers of any size are converted to the extracted inductive Z digit by digit. *)
open Model

let rec pos_of_int (n : int) : positive =
  if n = 1 then XH else if n land 1 = 0 then XO (pos_of_int (n lsr 1)) else XI (pos_of_int (n lsr 1))
let z_of_int (n : int) : z = if n = 0 then Z0 else if n > 0 then Zpos (pos_of_int n) else Zneg (pos_of_int (-n))

let z_of_string (s : string) : z =
  let neg = String.length s > 0 && s.[0] = '-' in
  let start = if neg then 1 else 0 in
  let n = String.length s - start in
  if n <= 17 then z_of_int (int_of_string s)
  else begin
    let acc = ref Z0 in
    let chunk = z_of_int 1000000000 in
    let i = ref start in
    let first = n mod 9 in
    if first > 0 then (acc := z_of_int (int_of_string (String.sub s !i first)); i := !i + first);
    while !i < String.length s do
      acc := Z.add (Z.mul !acc chunk) (z_of_int (int_of_string (String.sub s !i 9)));
      i := !i + 9
    done;
    if neg then Z.opp !acc else !acc
  end

let rec int_of_pos (p : positive) : int = match p with XH -> 1 | XO q -> 2 * int_of_pos q | XI q -> 2 * int_of_pos q + 1
let rec pos_bits (p : positive) : int = match p with XH -> 1 | XO q | XI q -> 1 + pos_bits q

let rec string_of_nonneg (x : z) : string =
  match x with
  | Z0 -> "0"
  | Zneg _ -> assert false
  | Zpos p ->
    if pos_bits p <= 60 then string_of_int (int_of_pos p)
    else begin
      let (q, r) = Z.div_eucl x (z_of_int 1000000000) in
      let rs = (match r with Z0 -> 0 | Zpos rp -> int_of_pos rp | Zneg _ -> assert false) in
      string_of_nonneg q ^ Printf.sprintf "%09d" rs
    end
let string_of_z (x : z) : string =
  match x with Zneg p -> "-" ^ string_of_nonneg (Zpos p) | _ -> string_of_nonneg x

(* ---- sexp *)
let parse (s : string) (pos : int ref) : sx =
  let n = String.length s in
  let rec skip () = while !pos < n && (s.[!pos] = ' ' || s.[!pos] = '\t') do incr pos done
  and value () : sx =
    skip ();
    if s.[!pos] = '(' then begin
      incr pos;
      let items = ref [] in
      skip ();
      while s.[!pos] <> ')' do items := value () :: !items; skip () done;
      incr pos;
      L_ (List.rev !items)
    end else begin
      let st = !pos in
      while !pos < n && s.[!pos] <> ' ' && s.[!pos] <> ')' && s.[!pos] <> '(' do incr pos done;
      Z_ (z_of_string (String.sub s st (!pos - st)))
    end
  in value ()

let rec print (b : Buffer.t) (v : sx) : unit =
  match v with
  | Z_ z -> Buffer.add_string b (string_of_z z)
  | L_ l -> Buffer.add_char b '(';
            List.iteri (fun i x -> if i > 0 then Buffer.add_char b ' '; print b x) l;
            Buffer.add_char b ')'

let () =
  try
    while true do
      let line = input_line stdin in
      let pos = ref 0 in
      let op = parse line pos in
      let arg = parse line pos in
      let opz = (match op with Z_ z -> z | _ -> Z0) in
      let out = dispatch opz arg in
      let b = Buffer.create 256 in
      print b out; Buffer.add_char b '\n';
      print_string (Buffer.contents b)
    done
  with End_of_file -> ()
