#!/bin/bash
# usage: tools_mutant.sh <pid> <patch.diff> [tier]  -- applies the patch to /repo, runs the check, reverts (3-way apply tolerated)
pid=$1; patch=$2; tier=${3:-quick}
cd /repo || exit 2
if ! git apply --check "$patch" 2>/dev/null; then
  if ! git apply --3way --check "$patch" 2>/dev/null; then echo "PATCH DOES NOT APPLY: $patch"; exit 3; fi
  git apply --3way "$patch" >/dev/null 2>&1; git reset -q
  if grep -rlq '^<<<<<<< ' --include=*.py coba; then echo "PATCH CONFLICTS WITH CURRENT TREE: $patch"; git checkout -- .; exit 3; fi
else git apply "$patch"; fi
cd /verif && ./check $pid --tier $tier | grep -v KNOWN-FINDING | cut -c1-200; rc=${PIPESTATUS[0]}
git -C /repo checkout -- . ; git -C /repo status --short | head -3
echo "exit=$rc"
