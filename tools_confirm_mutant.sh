#!/bin/bash
# usage: tools_confirm_mutant.sh <pid> <mN>   (uses the scratch worktree /tmp/wt/<pid> and /tmp/wt/<pid>-scratch/{mN.diff,demo_mN.py})
# confirms: patch applies, pinned stable tests still pass with it, demo fails with it and passes without; then stores it under /verif/seeded/
pid=$1; m=$2; wt=/tmp/wt/$pid; sc=/tmp/wt/$pid-scratch${3:-}
cd $wt || exit 2; export PYTHONPATH=$wt
git checkout -q -- . ; 
if ! git apply --check $sc/$m.diff 2>/dev/null; then echo "$pid $m: PATCH DOES NOT APPLY"; exit 3; fi
PYTHONHASHSEED=0 /venv/bin/python -W ignore $sc/demo_$m.py > $sc/$m.clean.out 2>&1; clean=$?
git apply $sc/$m.diff
PYTHONHASHSEED=0 /venv/bin/python -W ignore $sc/demo_$m.py > $sc/$m.mut.out 2>&1; mut=$?
OUT=$(mktemp /var/tmp/junit.XXXXXX.xml)
/venv/bin/python -m pytest -q -p no:cacheprovider --timeout=900 --continue-on-collection-errors --junitxml=$OUT > /dev/null 2>&1
/venv/bin/python - "$OUT" > $sc/$m.tests.out <<'P'
import sys, json, xml.etree.ElementTree as ET
want = set(json.load(open('/root/.vp/BASELINE.json'))['stable_pass'])
got = set()
for tc in ET.parse(sys.argv[1]).getroot().iter('testcase'):
    if not any(c.tag in ('failure','error','skipped') for c in tc): got.add(tc.get('classname') + '::' + tc.get('name'))
missing = sorted(want - got)
print("stable_pass: %d expected, %d passed, missing: %s" % (len(want), len(want & got), missing[:5]))
sys.exit(1 if missing else 0)
P
tests=$?; rm -f $OUT
git checkout -q -- .
echo "$pid $m: demo clean exit=$clean, demo mutated exit=$mut, tests ok=$((1-tests)) :: $(cat $sc/$m.tests.out)"
if [ $clean -eq 0 ] && [ $mut -ne 0 ] && [ $tests -eq 0 ]; then
  d=/verif/seeded/$pid-$m; mkdir -p $d; cp $sc/$m.diff $d/patch.diff; cp $sc/demo_$m.py $d/demo.py
  echo CONFIRMED > $d/.confirmed
fi
