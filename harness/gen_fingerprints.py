"""(Re)record harness/fingerprints.json from /repo's current tree. Run by hand when a model is (re)validated against the source;
the checks only read the file (source drift => thorough budget for that property)."""
import sys, os, glob, json, importlib
from harness import common
out = {}
common.import_impl()
for f in sorted(glob.glob(os.path.join(common.VERIF, "harness", "c[0-9][0-9].py"))):
    pid = os.path.basename(f)[:-3].upper()
    fps = {}
    try:
        t = importlib.import_module("harness.translate." + pid.lower())
        fps.update(t.translate(common.REPO)[1])
    except ModuleNotFoundError:
        pass
    m = importlib.import_module("harness." + pid.lower())
    if hasattr(m, "fingerprints"): fps.update(m.fingerprints())
    out[pid] = fps
json.dump(out, open(os.path.join(common.VERIF, "harness", "fingerprints.json"), "w"), indent=1, sort_keys=True)
print({k: len(v) for k, v in out.items()})
