"""C06 — SequentialCB: recording learner x generated environments x every mode/record subset; oracle from the environment data;
the generated _required/should_pred definitions are compared with the implementation."""
import itertools, copy
from .common import *

LEVEL_TEXT = ("Coq theorems (C06/Props.v): required_sound - for every mode (finite domain, vm_compute lifted by forallb_forall) each field the evaluation loop dereferences is demanded by _required, stated over the definitions the "
              "translator regenerates from SequentialCB._required and _results.should_pred; on_policy_step / off_policy_step - the call trace and rows of the loop over an abstract learner (one predict then one learn per interaction "
              "in environment order, with the chosen action, the environment's reward for it, the learner's probability and kwargs; logged triple for learn='off'); ModelLoop.step - one iteration of the loop for every learn x eval mode with an explicit learner state and the IPS transform - with theorems for what the learner is taught and what the row records in each mode, "
              "and the extracted loop compared with the real call trace and rows. A recording learner and generated environments check the real "
              "evaluator for every learn x eval x record subset, batched or not, against the environment data.")
TRUSTED = ["Coq 8.16.1 kernel (coqc); vm_compute for the finite mode sweep", "translator harness/translate/c06.py (boolean fragment over mode codes; fails closed)", "extraction + ocaml/driver.ml", "harness/c06.py (recording learner, oracle)",
           "modelled not verified: SafeLearner parsing (C15), OpeRewards('IPS'), BatchSafe/Unbatch, Finalize; dr/dm need vowpalwabbit and are outside the property"]
ASSUMPTIONS = ["a missing logged probability counts as 1 in the IPS transform (OpeRewards: interaction.get('probability') or 1)", "the learner obeys the Learner interface and uses one prediction format", "IPS transform checked: learn/eval reward of the on-policy action = logged reward / logged probability if it equals the logged action else 0"]
RULE = ("environments of 0-6 interactions (dense/sparse/None contexts, 2-4 actions, list or functional rewards, extra fields, logged fields present or not, batched with size 1-3 or not) x learn in {on,off,ips,None} x eval in {on,ips,None} "
        "x record subsets of {reward,action,probability,context,actions,rewards,time} x learner with/without score; every combination of fields present/absent for the rejection check; non-trivial = at least 2 interactions")

MODE = {None: 0, "on": 1, "off": 2, "ips": 3}
def fingerprints():
    return fingerprint_defs('coba/evaluators/sequential.py', ['SequentialCB'])

class Rec:
    def __init__(self, fmt="AP", with_score=False, kw=False):
        self.fmt, self.kw, self.calls = fmt, kw, []
        if with_score: self.score = self._score
    def _score(self, context, actions, action):
        from coba.primitives import is_batch
        if is_batch(action) or is_batch(context): raise Exception("this learner cannot handle batches")
        self.calls.append(("score", copy.deepcopy(context), copy.deepcopy(actions), copy.deepcopy(action))); return 0.25
    def predict(self, context, actions):
        from coba.primitives import is_batch
        if is_batch(actions) or is_batch(context): raise Exception("this learner cannot handle batches")   # SafeLearner then calls it once per row
        self.calls.append(("predict", copy.deepcopy(context), copy.deepcopy(actions)))
        n = sum(1 for c in self.calls if c[0] == "predict")
        a = actions[n % len(actions)]
        if self.fmt == "AP": out = (a, 0.5)
        elif self.fmt == "AP0": out = (a, 0.0 if n % 3 == 0 else 0.5)      # a learner that reports probability 0 now and then
        else: out = a
        if self.kw: out = (out + ({"k": n},)) if self.fmt != "A" else (out, {"k": n})      # (an action may itself be a tuple)
        return out
    def learn(self, context, action, reward, probability, **kw):
        from coba.primitives import is_batch
        if is_batch(action) or is_batch(context) or is_batch(reward): raise Exception("this learner cannot handle batches")
        self.calls.append(("learn", copy.deepcopy(context), copy.deepcopy(action), reward, probability, dict(kw)))

class Env:
    def __init__(self, rows, params=None): self.rows, self.params = rows, params or {}
    def read(self): return [dict(r) for r in self.rows]

def gen_env(rng, fields):
    from coba.primitives import DiscreteReward
    n = rng.choice([0, 1, 2, 3, 6])
    rows = []
    ck = rng.choice(["dense", "sparse", "none"])
    fn = rng.random() < 0.4
    # action sets: fresh per interaction, or drawn from a small pool so that a set comes back after a different one (with and without the arms 0/1, which SafeLearner rewrites)
    pool = [rng.sample([0, 1, 2, 3, 4, 5], rng.choice([2, 3])) for _ in range(2)] + [rng.sample([2, 3, 4, 5], rng.choice([2, 3]))] if rng.random() < 0.5 else None
    some_none = rng.random() < 0.2      # logged data with a missing propensity here and there (counts as 1)
    cat = rng.random() < 0.15      # categorical actions: the evaluator finalises them to one-hot codes before the learner sees them
    if cat:
        from coba.primitives import Categorical
        LV = ["x", "y", "z", "w"]
    for i in range(n):
        acts = list(rng.choice(pool)) if pool else rng.sample([1, 2, 3, 4, 5], rng.choice([2, 3, 4]))
        if cat: acts = [Categorical(l, LV) for l in rng.sample(LV, rng.choice([2, 3]))]
        rw = [rng.choice([0, 0.25, 0.5, 1]) for _ in acts]
        j = rng.randrange(len(acts))
        r = {"context": [i, 1] if ck == "dense" else ({"a": i} if ck == "sparse" else None), "actions": acts,
             "rewards": DiscreteReward(acts, rw) if (fn or "actions" not in fields) else rw, "action": acts[j], "reward": rw[j], "probability": None if some_none and rng.random() < 0.5 else rng.choice([0.25, 0.5, 1.0]), "extra": 100 + i}
        rows.append(({k: v for k, v in r.items() if k in fields or k == "extra"}, rw, j))
    return rows

class Rec2:
    """answers with a PMF over action lists that hold duplicate arms, or with extra outputs given as a read-only mapping"""
    def __init__(self, style): self.style, self.learns, self.n = style, [], 0
    def predict(self, context, actions):
        import types
        self.n += 1
        if self.style == "pmf-dup":
            first = {}
            for j, a in enumerate(actions): first.setdefault(repr(a), j)
            later = [j for j, a in enumerate(actions) if first[repr(a)] != j]
            pmf = [0.0] * len(actions)
            if later:
                for j in later: pmf[j] = 1.0 / len(later)      # all the mass on arms that repeat an earlier arm: the first copy has probability 0
            else: pmf[self.n % len(actions)] = 1.0
            return pmf
        a = actions[self.n % len(actions)]
        kw = types.MappingProxyType({"k": self.n, "tag": "t%d" % self.n})
        return (a, kw) if self.style == "proxy-a" else (a, 0.5, kw)
    def learn(self, context, action, reward, probability, **kw): self.learns.append((action, reward, probability, dict(kw)))

def check_learner_outputs(ctx, n_cases):
    """on-policy: learn and the recorded row get the learner's own probability and extra outputs, also with duplicate arms and read-only mappings"""
    from coba.evaluators import SequentialCB
    rng = ctx.rng
    for _ in range(n_cases):
        style = rng.choice(["pmf-dup", "pmf-dup", "proxy-a", "proxy-ap"])
        rows = []
        for i in range(rng.choice([1, 2, 4])):
            base = rng.sample([1, 2, 3, 4], rng.choice([2, 3]))
            acts = base + ([rng.choice(base)] if style == "pmf-dup" and rng.random() < 0.8 else [])
            if rng.random() < 0.4: acts = [[a, 0] for a in acts]      # feature-vector arms
            rw = [rng.choice([0, 0.25, 1]) for _ in acts]
            for j, a in enumerate(acts):      # equal arms earn equal rewards
                rw[j] = rw[[repr(x) for x in acts].index(repr(a))]
            rows.append(dict(context=[i], actions=acts, rewards=rw))
        case = dict(style=style, rows=rows)
        ctx.count("learner-outputs:" + style, repr(case), True)
        lrn = Rec2(style)
        try: out = list(SequentialCB(["reward", "action", "probability"], "on", "on", seed=rng.randrange(1, 50)).evaluate(Env(rows), lrn))
        except Exception as e:
            ctx.fail(["evaluate", "raises", errname(e), "learner-outputs", style], "%s learner: evaluate raised %s: %s" % (style, errname(e), str(e)[:100]), case); continue
        if len(out) != len(rows) or len(lrn.learns) != len(rows):
            ctx.fail(["evaluate", "learn-count", style], "%d rows / %d learn calls for %d interactions" % (len(out), len(lrn.learns), len(rows)), case); continue
        for k, (r, o, (a, rr, p, kw)) in enumerate(zip(rows, out, lrn.learns)):
            if style == "pmf-dup":
                reps = [repr(x) for x in r["actions"]]
                dup = len(set(reps)) < len(reps)
                later = [j for j in range(len(reps)) if reps.index(reps[j]) != j]
                want_p = (1.0 / len(later)) if dup else 1.0
                if not any(a == x for x in r["actions"]) or abs((p or 0) - want_p) > 1e-9 or abs((o.get("probability") or 0) - want_p) > 1e-9:
                    ctx.fail(["evaluate", "learn-trace", "pmf-duplicate-arms"], "interaction %d: actions %s, PMF mass only on the repeated arms (%s each); learn got action %r with probability %r, the row says %r" % (k, r["actions"], want_p, a, p, o.get("probability")), case); break
            else:
                want_kw = {"k": k + 1, "tag": "t%d" % (k + 1)}
                want_p = None if style == "proxy-a" else 0.5
                if kw != want_kw or p != want_p:
                    ctx.fail(["evaluate", "learn-trace", "mapping-kwargs"], "interaction %d: the learner returned extra outputs %s (a read-only mapping) and probability %r; learn got probability %r and extra outputs %s" % (k, want_kw, want_p, p, kw), case); break

def reuse_law(ctx, n_cases):
    """one SequentialCB object evaluates several (environment, learner) pairs (as every experiment does): what it does with a pair - rows, calls, or the rejection of an
    environment that lacks needed fields - is what a fresh evaluator of the same mode does with that pair, whatever it evaluated before (learners with and without score, other fields)"""
    from coba.evaluators import SequentialCB
    rng = ctx.rng
    all_fields = ["context", "actions", "rewards", "action", "reward", "probability"]
    def outcome(ev, rows, hs, fmt):
        lrn = Rec(fmt, hs, False)
        try: out = list(ev.evaluate(Env([r[0] for r in rows]), lrn)); return ("rows", [{k: v for k, v in o.items() if k != "time"} for o in out], [c[:3] for c in lrn.calls])
        except Exception as e: return ("raises", errname(e), [c[:3] for c in lrn.calls])
    for _ in range(n_cases):
        learn, evm = rng.choice([None, "on", "off", "ips"]), rng.choice([None, "on", "ips"]); record = rng.choice([["reward"], ["reward", "action", "probability"], ["reward", "probability"]])
        pairs = []; same_fields = rng.random() < 0.7; present = None      # mostly ONE kind of environment (the same fields) met with different learners
        for _ in range(rng.choice([2, 3])):
            if present is None or not same_fields:
                present = [f for f in all_fields if rng.random() < 0.7] if rng.random() < 0.7 else list(all_fields)
                if "context" not in present: present.append("context")
            pairs.append((gen_env(rng, present), rng.random() < 0.5, rng.choice(["AP", "A"]), present))
        case = dict(what="one evaluator object, several evaluations", learn=learn, eval=evm, record=record, pairs=[dict(fields=p[3], has_score=p[1], format=p[2], n=len(p[0])) for p in pairs])
        ctx.count("evaluator-reused:%s/%s" % (learn, evm), repr(case), True)
        try: shared = SequentialCB(record, learn, evm, seed=1)
        except Exception: continue
        for k, (rows, hs, fmt, present) in enumerate(pairs):
            got = outcome(shared, rows, hs, fmt); want = outcome(SequentialCB(record, learn, evm, seed=1), rows, hs, fmt)
            if got != want:
                ctx.fail(["evaluate", "depends-on-earlier-evaluations"], "evaluation #%d by a SequentialCB(%r, %r, %r) that had evaluated %d other pairs: %s; a fresh evaluator: %s" % (
                    k, record, learn, evm, k, (got[0], got[1] if got[0] == "raises" else len(got[1]), got[2][:2]), (want[0], want[1] if want[0] == "raises" else len(want[1]), want[2][:2])), case); break

def run(ctx):
    from coba.evaluators import SequentialCB
    from coba.exceptions import CobaException
    from coba.context import CobaContext, NullLogger
    import coba
    CobaContext.logger = NullLogger()
    rng = ctx.rng
    # ---- translator validation: generated flags vs the implementation's _required for every mode
    reqs, metas = [], []
    for learn, ev, hs, ra, rp in itertools.product([None, "on", "off", "ips"], [None, "on", "ips"], [False, True], [False, True], [False, True]):
        rec = ["reward"] + (["action"] if ra else []) + (["probability"] if rp else [])
        got = SequentialCB(rec, learn, ev)._required(hs)
        reqs.append((6, [MODE[learn], MODE[ev], hs, ra, rp])); metas.append((dict(learn=learn, eval=ev, has_score=hs, record=rec), got))
        ctx.count("required", repr(metas[-1][0]), True)
    for (case, got), mo in zip(metas, ctx.get_model().batch(reqs)):
        exp = set((["actions"] if mo[0] else []) + (["action", "reward"] if mo[1] else []) + (["rewards"] if mo[2] else []))
        if exp != set(got): ctx.disagree("C06.required", case, sorted(got), sorted(exp))
    reuse_law(ctx, ctx.n(200, 2500))
    # ---- behaviour
    all_fields = ["context", "actions", "rewards", "action", "reward", "probability"]
    loop_reqs, loop_metas = [], []
    RECS = [["reward", "action", "probability"], ["reward"], ["action", "context"], ["reward", "time"], ["rewards", "actions", "probability"], []]
    for it in range(ctx.n(700, 9000)):
        learn, ev = rng.choice([None, "on", "off", "ips"]), rng.choice([None, "on", "ips"])
        record = rng.choice(RECS)
        hs = rng.random() < 0.4
        present = [f for f in all_fields if rng.random() < 0.8] if rng.random() < 0.5 else list(all_fields)
        if "context" not in present: present.append("context")
        rows = gen_env(rng, present)
        batched = rng.random() < 0.25
        fmt = rng.choice(["AP", "AP", "A", "AP0"]); kw = rng.random() < 0.3
        lrn = Rec(fmt, hs, kw)
        case = dict(learn=learn, eval=ev, record=record, has_score=hs, fields=present, n=len(rows), batched=batched, format=fmt, kwargs=kw,
                    rows=[{k: (v if not callable(v) else "DiscreteReward") for k, v in r[0].items()} for r in rows][:3])
        ctx.count("evaluate:%s/%s" % (learn, ev), repr(case), len(rows) >= 2)
        env = Env([r[0] for r in rows])
        if batched:
            env = coba.Environments(env).batch(rng.choice([1, 2, 3]))[0]
        ra, rp = "action" in record and bool(ev), "probability" in record and bool(ev)
        predicts = bool((learn and learn != "off") or ev == "on" or (ev == "ips" and not hs) or ra or rp)
        need = set((["actions"] if predicts else []) + (["rewards"] if (learn == "on" or ev == "on") else []) + (["action", "reward"] if (learn in ("off", "ips") or ev == "ips") else []))
        if learn == "ips" or ev == "ips": need.add("probability") if False else None
        try:
            out = list(SequentialCB(record, learn, ev, seed=1).evaluate(env, lrn))
        except CobaException as e:
            if rows and (need - set(present)): continue                                  # rejected with an error, as required
            ctx.fail(["evaluate", "rejected-valid"], "CobaException %s for %s" % (str(e)[:100], case), case); continue
        except Exception as e:
            if rows and (need - set(present)):
                ctx.fail(["evaluate", "missing-field-not-rejected", errname(e)], "fields %s are missing but the evaluator raised %s (%s) instead of rejecting the environment: %s" % (sorted(need - set(present)), errname(e), str(e)[:80], case), case)
            else:
                ctx.fail(["evaluate", "raises", errname(e), "%s/%s" % (learn, ev)], "evaluate raised %s: %s on %s" % (errname(e), str(e)[:100], case), case)
            continue
        if not rows: continue
        if need - set(present):
            ctx.fail(["evaluate", "missing-field-not-rejected", "silent"], "fields %s are missing, yet %d rows were produced (calls %s): %s" % (sorted(need - set(present)), len(out), lrn.calls[:3], case), case); continue
        # ---- the trace
        pcalls = [c for c in lrn.calls if c[0] == "predict"]; lcalls = [c for c in lrn.calls if c[0] == "learn"]
        ok = True
        continue_checks = True
        if continue_checks:
            # Finalize turns categoricals into one-hot codes wherever they occur: in the action sets and in a logged action (also when no action set is given)
            is_cat = bool(rows) and ((bool(rows[0][0].get("actions")) and isinstance(rows[0][0]["actions"][0], str)) or isinstance(rows[0][0].get("action"), str))
            shown = (lambda A: [a.as_onehot for a in A]) if is_cat else (lambda A: A)
            if predicts and [(c[1], c[2]) for c in pcalls] != [(r[0].get("context"), shown(r[0].get("actions"))) for r in rows]:
                ctx.fail(["evaluate", "predict-trace"], "predict calls %s do not follow the environment order/content" % pcalls[:3], case); continue
            if not predicts and pcalls: ctx.fail(["evaluate", "unexpected-predict"], "predict was called although the mode does not need it", case); continue
            if learn:
                if len(lcalls) != len(rows): ctx.fail(["evaluate", "learn-count"], "%d learn calls for %d interactions" % (len(lcalls), len(rows)), case); continue
                for k, ((r, rw, j), lc) in enumerate(zip(rows, lcalls)):
                    if learn == "off": exp = (r.get("context"), r["action"].as_onehot if is_cat else r["action"], r["reward"], r.get("probability"), {})
                    else:
                        ai = (k + 1) % len(pcalls[k][2]); a = pcalls[k][2][ai]
                        p = 0.5 if fmt == "AP" else (0.0 if (k + 1) % 3 == 0 else 0.5) if fmt == "AP0" else None
                        if learn == "on": rr = rw[ai]
                        else: rr = (r["reward"] / (r.get("probability") or 1)) if ai == j else 0
                        exp = (r.get("context"), a, rr, p, ({"k": k + 1} if kw else {}))
                    if (lc[1], lc[2], lc[4], lc[5]) != (exp[0], exp[1], exp[3], exp[4]) or abs(lc[3] - exp[2]) > 1e-9:
                        ctx.fail(["evaluate", "learn-trace", "%s/%s" % (learn, ev)], "learn call #%d was %s, expected %s" % (k, lc[1:], exp), case); ok = False; break
                if not ok: continue
            elif lcalls: ctx.fail(["evaluate", "unexpected-learn"], "learn was called with learn=None", case); continue
            # ---- the rows
            exp_rows = bool(record and (ev or "context" in record or "time" in record or ("actions" in record) or ("rewards" in record))) or True
            if out and len(out) != len(rows): ctx.fail(["evaluate", "row-count"], "%d rows for %d interactions" % (len(out), len(rows)), case); continue
            for k, ((r, rw, j), o) in enumerate(zip(rows, out)):
                if o.get("extra") != r["extra"]: ctx.fail(["evaluate", "extra-field"], "row %d carries extra=%r, the interaction had %r" % (k, o.get("extra"), r["extra"]), case); ok = False; break
                if ev and predicts:
                    ai = (k + 1) % len(pcalls[k][2]); a = pcalls[k][2][ai]
                    if "action" in record and o.get("action") != a: ctx.fail(["evaluate", "row-action"], "row %d action %r, the learner chose %r" % (k, o.get("action"), a), case); ok = False; break
                    ep = 0.5 if fmt == "AP" else (0.0 if (k + 1) % 3 == 0 else 0.5) if fmt == "AP0" else None
                    if "probability" in record and ep is not None and o.get("probability", "absent") != ep: ctx.fail(["evaluate", "row-probability"], "row %d probability %r, the learner stated %r" % (k, o.get("probability", "absent"), ep), case); ok = False; break
                    if "reward" in record:
                        rr = rw[ai] if ev == "on" else ((r["reward"] / (r.get("probability") or 1)) if ai == j else 0)
                        if abs(o.get("reward", 1e9) - rr) > 1e-9: ctx.fail(["evaluate", "row-reward", str(ev)], "row %d reward %r, expected %r" % (k, o.get("reward"), rr), case); ok = False; break
                if ev == "ips" and not predicts and "reward" in record:
                    rr = 0.25 * r["reward"] / (r.get("probability") or 1)
                    if abs(o.get("reward", 1e9) - rr) > 1e-9: ctx.fail(["evaluate", "row-reward", "ips-score"], "row %d reward %r, expected score*ips = %r" % (k, o.get("reward"), rr), case); ok = False; break
            if ok: ctx.sample(dict(case=case, rows=out[:2], calls=[c[:3] for c in lrn.calls[:4]]), cap=4)
            # ---- the whole call trace and the rows against the extracted loop model (every mode; un-batched, all fields present)
            if ok and not batched and fmt != "AP0" and not is_cat and set(present) == set(all_fields) and os.path.exists(os.path.join(VERIF, "coq", "theories", "C06", "ModelLoop.v")):
                from fractions import Fraction as Fr
                fq = lambda v: s_q(Fr(v))
                cidx = lambda c: -1 if c is None else (c[0] if isinstance(c, list) else c["a"])
                wire_env = [[cidx(r.get("context")), list(r["actions"]), [fq(x) for x in rw], j, fq(r["reward"]), [] if r.get("probability") is None else [fq(r["probability"])], r["extra"]] for r, rw, j in rows]
                trace = []
                for c in lrn.calls:
                    if c[0] == "predict": trace.append([0, cidx(c[1]), list(c[2])])
                    elif c[0] == "score" and c[2] is not None: trace.append([1, cidx(c[1]), list(c[2]), c[3]])
                    elif c[0] == "learn": trace.append([2, cidx(c[1]), c[2], fq(c[3]), [] if c[4] is None else [fq(c[4])], [c[5]["k"]] if c[5] else []])
                got_rows = [[[o["action"]] if "action" in o else [], [fq(o["reward"])] if "reward" in o else [], [fq(o["probability"])] if "probability" in o else [], o["extra"]] for o in out]
                loop_reqs.append((6, [[MODE[learn], MODE[ev], hs, "action" in record, "probability" in record, "reward" in record, fmt == "AP"], wire_env]))
                loop_metas.append((case, kw, trace, got_rows))
    ctx.dist["loop-model-traces"] = len(loop_reqs)
    for (case, kw, trace, got_rows), mo in zip(loop_metas, ctx.get_model().batch([(106, r[1]) for r in loop_reqs])):
        mev, mrows = mo
        if not kw: mev = [e[:5] + [[]] if e[0] == 2 else e for e in mev]      # a learner without kwargs is taught without them
        def norm(x):      # SafeLearner hands the arms 0 and 1 to the learner as 0.0 and 1.0
            if isinstance(x, list): return [norm(y) for y in x]
            return int(x) if isinstance(x, float) and x == int(x) else x
        if norm(trace) != mev or norm(got_rows) != mrows:
            ctx.disagree("C06.run_loop", case, str((trace, got_rows))[:500], str((mev, mrows))[:500])
    check_learner_outputs(ctx, ctx.n(200, 2500))
    # fixed findings
    ctx.count("corpus", "time-without-learn")
    try: list(SequentialCB(["reward", "time"], learn=None, eval="on").evaluate(Env([{"context": 1, "actions": [1, 2], "rewards": [0, 1]}]), Rec()))
    except Exception as e: ctx.fail(["evaluate", "raises", errname(e), "None/on"], "record time with learn=None raised %s" % errname(e), dict(what="corpus"))

def replay(r):
    print(json.dumps(r, indent=1, default=str)[:3000]); return 0
