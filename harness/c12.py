"""C12 — what coba reads from a dataset file is what the file says: delivery, framing, LibSVM/Manik/CSV/ARFF round trips."""
import csv, gzip, io, os, shutil, tempfile, zlib
from .common import *

LEVEL_TEXT = ("Coq theorems (C12/Props.v): delim_chunk_invariant - for ANY split of a text into chunks (empty ones included) DelimSource's line re-assembly yields exactly splitlines(text), with CPython's full line-boundary set and "
              "a CR LF pair cut anywhere; utf8_chunk_invariant - regrouping UTF-8 bytes into characters with a carry buffer is independent of the chunking; disk_roundtrip - lines free of CR/LF written by DiskSink are read back "
              "identically for any batching; split_join / libsvm_roundtrip - the LibSVM/Manik line grammar parses what the printer wrote; csv_roundtrip - the csv automaton (comma, double quote, doubled quotes) parses RFC-4180 minimal "
              "quoting back to the cells; arff_dense_line_roundtrip / arff_sparse_line_roundtrip - dense lines (csv automaton with the reader's dialect) and sparse lines (the reader's own steps) written the Weka way are read back; arff_nominal_levels_roundtrip - so is the level list of a nominal attribute. Tied to the code by correspondence of the extracted models with DelimSource, _byte_it_, DiskSink/DiskSource, LibsvmReader and csv-backed CsvReader on generated inputs, "
              "plus a table oracle (printed table vs parsed rows) for LibSVM, Manik, CSV and ARFF dense/sparse in the Weka/OpenML dialect and in variant spellings (same table or an error).")
TRUSTED = ["Coq 8.16.1 kernel (coqc)", "extraction + ocaml/driver.ml", "harness/c12.py (table generators, printers for the Weka/OpenML and RFC-4180 dialects, variant spellings, oracle)",
           "modelled not verified: zlib/gzip streaming, the codec's code-point arithmetic (only the grouping of bytes is modelled), Python's csv module (re-implemented as an automaton for one dialect and compared), "
           "int()/float() parsing of numerals, the re module; ARFF headers, dialect detection and the mixed-quote fallback parser are covered by the table oracle only (partial, see DESIGN)"]
ASSUMPTIONS = ["a line handed to DiskSink contains no CR or LF (it is a line)", "HTTP bodies are valid UTF-8 and complete compressed streams", "LibSVM tokens contain no space, colon or comma; labels are non-empty",
               "sparse ARFF nominal levels may come back with the documented extra leading '0' level (and as the sorted set of levels when the file declares a level '0' itself)"]
RULE = ("texts over an alphabet of ASCII, 2/3/4-byte characters and every line boundary, cut into chunks of 1-8 bytes/chars and random sizes, identity/gzip/deflate; line lists with blanks, tabs, unicode, empty lines, batch None/1-4; "
        "tables of 0-6 rows x 1-5 columns with numeric, string, date and nominal attributes whose names/values draw on , ' \" \\ space % ? { } and non-ASCII; variant spellings: keyword case, blank lines, comments, tab delimiter, "
        "double-quote style, spaces after commas; non-trivial = at least two lines / rows")

def fingerprints():
    d = {}
    for rel, quals in (('coba/pipes/sources.py', ['HttpSource._byte_it_', 'DelimSource.read', 'DiskSource.read']), ('coba/pipes/sinks.py', ['DiskSink.write', 'DiskSink._get_batch', 'DiskSink._unfinished']),
                       ('coba/pipes/readers.py', ['CsvReader.filter', 'LibsvmReader.filter', 'ManikReader.filter', 'ArffReader.filter', 'ArffAttrReader._split', 'ArffAttrReader._encoder', 'ArffDataReader._dense',
                                                  'ArffDataReader._sparse', 'ArffLineReader._dense', 'ArffLineReader._dense_simple', 'ArffLineReader._dense_advanced', 'ArffLineReader._sparse', 'ArffLineReader._sparse_quoted'])):
        d.update(fingerprint_defs(rel, quals))
    return d

BRK = ["\n", "\r", "\r\n", "\x0b", "\x0c", "\x1c", "\x1d", "\x1e", "\x85", "\u2028", "\u2029"]
CH = ["a", "b", " ", ",", "é", "日", "\U0001F600", "\t", "x"]

def gen_text(rng):
    n = rng.choice([0, 1, 2, 3, 5, 8, 14])
    out = []
    for _ in range(n):
        out.append(rng.choice(BRK) if rng.random() < 0.35 else rng.choice(CH))
    return "".join(out)

def cuts(rng, n, size=None):
    """cut points of a sequence of length n into chunks (possibly with empty chunks when size is None)"""
    if size: return [(i, min(n, i + size)) for i in range(0, n, size)]
    pts = sorted(rng.randrange(0, n + 1) for _ in range(rng.randrange(0, 5)))
    pts = [0] + pts + [n]
    return [(a, b) for a, b in zip(pts, pts[1:])]

# ------------------------------------------------------------------ (a) delivery
class _Chunked(io.BytesIO):
    pass

def check_delivery(ctx, n):
    from coba.pipes.sources import HttpSource, DelimSource, IterableSource
    rng = ctx.rng
    reqs, metas = [], []
    for _ in range(n):
        text = gen_text(rng)
        exp = text.splitlines()
        # DelimSource on a chunking of the characters
        cs = [text[a:b] for a, b in cuts(rng, len(text), rng.choice([None, None, 1, 2, 3]))]
        case = dict(chunks=cs)
        ctx.count("delim:%d-chunks" % min(len(cs), 6), repr(cs), len(exp) >= 2)
        try: got = list(DelimSource(IterableSource(list(cs))).read())
        except Exception as e: got = "raises " + errname(e)
        if got != exp:
            kind = "crlf-split" if any(x.endswith("\r") and y.startswith("\n") for x, y in zip(cs, cs[1:])) else "boundary"
            ctx.fail(["delim", kind], "DelimSource over chunks %r gives %r, the text's lines are %r" % (cs, got, exp), case)
        else:
            reqs.append((12, [0, [[ord(c) for c in x] for x in cs]])); metas.append(("delim", case, got))
        # _byte_it_ on the bytes
        enc = rng.choice([None, None, "gzip", "deflate"])
        raw = text.encode("utf-8")
        if enc == "gzip": body = gzip.compress(raw)
        elif enc == "deflate":
            c = zlib.compressobj(wbits=-zlib.MAX_WBITS); body = c.compress(raw) + c.flush()
        else: body = raw
        size = rng.choice([1, 2, 3, 4, 5, 7, 8, rng.randrange(1, 40)])
        case = dict(text=text, encoding=enc, chunk=size)
        ctx.count("byte_it:%s" % (enc or "identity"), repr(case), len(exp) >= 2)
        try: got = list(HttpSource._byte_it_(enc, "utf-8", size, io.BytesIO(body)))
        except Exception as e: got = "raises " + errname(e)
        if got != exp:
            kind = "multibyte" if isinstance(got, str) and "Unicode" in got else "lines"
            ctx.fail(["byte_it", kind], "_byte_it_(%r, chunk=%d) over %r gives %r, expected %r" % (enc, size, text, got, exp), case)
        if enc is None:
            reqs.append((12, [1, [list(raw[a:b]) for a, b in cuts(rng, len(raw), size)]])); metas.append(("utf8", case, [list(ch.encode("utf-8")) for ch in text]))
        whole = HttpSource._byte_it_(enc, "utf-8", None, io.BytesIO(body))
        if whole != text: ctx.fail(["byte_it", "whole"], "_byte_it_ without chunking returns %r for %r" % (whole, text), case)
    for (kind, case, got), mo in zip(metas, ctx.get_model().batch(reqs)):
        if kind == "delim":
            m = ["".join(chr(c) for c in l) for l in mo]
            if m != got: ctx.disagree("C12.delim_read", case, got, m)
        else:
            if mo != got: ctx.disagree("C12.utf8_group", case, got, mo)

# ------------------------------------------------------------------ (b) framing
def gen_line(rng):
    return "".join(rng.choice(CH + ["\x0b", "\u2028", "\"", "'", "\\"]) for _ in range(rng.choice([0, 1, 2, 4, 9])))

def check_disk(ctx, n, tmpdir):
    from coba.pipes.sinks import DiskSink
    from coba.pipes.sources import DiskSource
    rng = ctx.rng
    reqs, metas = [], []
    for i in range(n):
        writes = [[gen_line(rng) for _ in range(rng.choice([0, 1, 2, 3, 5]))] for _ in range(rng.choice([1, 1, 2, 3]))]
        batch = rng.choice([None, 1, 2, 3, 4])
        gz = rng.random() < 0.4
        path = os.path.join(tmpdir, "f%d.txt%s" % (i, ".gz" if gz else ""))
        case = dict(writes=writes, batch=batch, gz=gz)
        exp = [l for w in writes for l in w]
        ctx.count("disk:%s" % ("gz" if gz else "plain"), repr(case), len(exp) >= 2)
        try:
            sink = DiskSink(path, batch=batch)
            for w in writes: sink.write(list(w) if rng.random() < 0.5 else iter(list(w)))
            got = list(DiskSource(path).read()) if os.path.exists(path) else []
        except Exception as e: got = "raises " + errname(e)
        if got != exp:
            ctx.fail(["disk", "gz" if gz else "plain"], "DiskSink(batch=%r) wrote %r, DiskSource read %r" % (batch, writes, got), case); continue
        reqs.append((12, [2, [[[ord(c) for c in l] for l in w] for w in writes]])); metas.append((case, got))
        try: os.remove(path)
        except OSError: pass
    for (case, got), mo in zip(metas, ctx.get_model().batch(reqs)):
        m = ["".join(chr(c) for c in l) for l in mo]
        if m != got: ctx.disagree("C12.disk_roundtrip", case, got, m)

# ------------------------------------------------------------------ (c) LibSVM / Manik / CSV
def fnum(rng):
    k = rng.randrange(6)
    if k == 0: return str(rng.randrange(-9, 100))
    if k == 1: return "%d.%d" % (rng.randrange(-9, 100), rng.randrange(0, 1000))
    if k == 2: return "%de%d" % (rng.randrange(1, 10), rng.randrange(-5, 6))
    if k == 3: return "0"
    if k == 4: return "-0.5"
    return repr(rng.random() * 100)

def check_libsvm(ctx, n):
    from coba.pipes.readers import LibsvmReader, ManikReader
    rng = ctx.rng
    reqs, metas = [], []
    for _ in range(n):
        rows = []
        for _ in range(rng.choice([0, 1, 2, 3, 6])):
            labels = [rng.choice(["0", "1", "2", "-1", "cat", "日", "3.5", "a_b"]) for _ in range(rng.choice([1, 1, 2, 3]))]
            keys = sorted(rng.sample(range(0, 40), rng.choice([0, 1, 2, 4])))
            rows.append((labels, [(k, fnum(rng)) for k in keys]))
        manik = rng.random() < 0.4
        lines = ["%s%s" % (",".join(l), "".join(" %d:%s" % kv for kv in f)) for l, f in rows]
        trail = rng.random() < 0.2
        if trail: lines = [l + rng.choice([" ", "\n", "\r\n"]) for l in lines]
        if rng.random() < 0.2 and lines: lines.insert(rng.randrange(len(lines) + 1), "")
        if manik: lines = ["%d 40 3" % len(rows)] + lines
        case = dict(lines=lines, manik=manik)
        ctx.count("manik" if manik else "libsvm", repr(case), len(rows) >= 2)
        exp = [({k: float(v) for k, v in f}, l) for l, f in rows]
        try: got = [(dict(r), list(l)) for r, l in (ManikReader() if manik else LibsvmReader()).filter(iter(lines))]
        except Exception as e: got = "raises " + errname(e)
        if got != exp:
            ctx.fail(["manik" if manik else "libsvm", "table"], "%s lines %r parsed to %r, written was %r" % ("Manik" if manik else "LibSVM", lines, got, exp), case); continue
        if not trail:
            reqs.append((12, [3, [[ord(c) for c in l] for l in (lines[1:] if manik else lines)]]))
            metas.append((case, [[[list(map(ord, x)) for x in l], [[list(map(ord, str(k))), list(map(ord, v))] for k, v in f]] for l, f in rows]))
    for (case, exp), mo in zip(metas, ctx.get_model().batch(reqs)):
        if mo != exp: ctx.disagree("C12.libsvm_parse", case, repr(exp)[:300], repr(mo)[:300])

CELL = ["a", "b", " ", ",", "\"", "'", "\\", "é", "日", "1", ".", "%", "?", "{", "}", "\t", ";"]
def gen_cell(rng, edge_ws=True):
    s = "".join(rng.choice(CELL) for _ in range(rng.choice([0, 1, 1, 2, 3, 5])))
    return s

def rfc_cell(c):
    return '"' + c.replace('"', '""') + '"' if any(x in c for x in ',"\r\n') or c == "" else c

def check_csv(ctx, n):
    from coba.pipes.readers import CsvReader
    rng = ctx.rng
    reqs, metas = [], []
    for _ in range(n):
        ncol = rng.choice([1, 2, 3, 5])
        header = rng.random() < 0.5
        rows = [[gen_cell(rng) for _ in range(ncol)] for _ in range(rng.choice([1, 2, 3, 6]))]
        if rng.random() < 0.1: rows[rng.randrange(len(rows))][rng.randrange(ncol)] = "li\nne"
        if ncol == 1: rows = [r for r in rows if r[0].strip()] or [["a"]]      # a one-column row that is blank is a blank line in every CSV dialect
        names = ["c%d" % i if rng.random() < 0.6 else gen_cell(rng) + str(i) for i in range(ncol)]
        table = ([names] if header else []) + rows
        own = rng.random() < 0.5
        if own: text = "\r\n".join(",".join(rfc_cell(c) for c in r) for r in table) + "\r\n"
        else:
            buf = io.StringIO(); csv.writer(buf, lineterminator="\r\n").writerows(table); text = buf.getvalue()
        lines = text.splitlines() if not any("\n" in c for r in table for c in r) else text.split("\r\n")[:-1]
        lines = [l for x in lines for l in x.split("\n")] if any("\n" in c for r in table for c in r) else lines
        case = dict(lines=lines, header=header)
        ctx.count("csv:%d-cols" % ncol, repr(case), len(rows) >= 2)
        try:
            parsed = list(CsvReader(has_header=header).filter(iter(lines)))
            got = [list(r) for r in parsed]
            gothead = list(parsed[0].headers) if header and parsed else None
        except Exception as e: got, gothead = "raises " + errname(e), None
        if got != rows or (header and got and gothead != names):
            cells = [c for r in table for c in r]
            kind = ("embedded-newline" if any("\n" in c for c in cells) else "edge-whitespace" if any(r[0] != r[0].lstrip() or r[-1] != r[-1].rstrip() for r in table) else "cells")
            ctx.fail(["csv", kind], "CSV lines %r parsed to %r (header %r), written was %r" % (lines, got, gothead, table), case); continue
        if own and not any("\n" in c for r in table for c in r):
            reqs.append((12, [4, [[ord(c) for c in l] for l in lines]])); metas.append((case, [[list(map(ord, c)) for c in r] for r in table]))
    for (case, exp), mo in zip(metas, ctx.get_model().batch(reqs)):
        if mo != exp: ctx.disagree("C12.csv_parse", case, repr(exp)[:300], repr(mo)[:300])

# ------------------------------------------------------------------ (d) ARFF
WORD = ["a", "b", "C", "1", "0", "é", "日", "_", "-", "."]
SPECIAL = [" ", ",", "'", "\"", "\\", "%", "?", "{", "}"]
def gen_token(rng, special=0.3):
    while True:
        t = "".join(rng.choice(SPECIAL) if rng.random() < special else rng.choice(WORD) for _ in range(rng.choice([1, 1, 2, 3, 5])))
        if t.strip() != "?": return t      # a value that is exactly a question mark is probed separately (listed finding)

def weka_quote(s):
    """Weka's Utils.quote: backslash-escape ' " \\ % tab, newline; wrap in single quotes when the string holds one of those or { } , space, or is empty / a lone question mark"""
    esc = s
    need = s == "" or s == "?"
    if any(c in s for c in "'\"\\%\t\n\r"):
        need = True
        esc = s.replace("\\", "\\\\").replace("'", "\\'").replace('"', '\\"').replace("%", "\\%").replace("\t", "\\t").replace("\n", "\\n").replace("\r", "\\r")
    if any(c in s for c in "{}, "): need = True
    return "'" + esc + "'" if need else esc

def gen_arff_table(rng, sparse):
    ncol = rng.choice([1, 2, 3, 5])
    cols, used = [], set()
    for i in range(ncol):
        while True:
            name = gen_token(rng, 0.25).strip() or "n"
            if name not in used: used.add(name); break
        kind = rng.choice(["numeric", "numeric", "string", "nominal", "date"] if not sparse else ["numeric", "numeric", "string", "nominal"])
        levels = None
        if kind == "nominal":
            levels = []
            for _ in range(rng.choice([1, 2, 3])):
                l = (gen_token(rng, 0.25).strip() or "l")
                if l not in levels: levels.append(l)
        cols.append((name, kind, levels))
    rows = []
    for _ in range(rng.choice([0, 1, 2, 3, 6])):
        r = []
        for name, kind, levels in cols:
            if rng.random() < 0.12: r.append(None)
            elif kind == "numeric": r.append(fnum(rng))
            elif kind == "string": r.append(gen_token(rng, 0.3))
            elif kind == "date": r.append("2020-0%d-1%d" % (rng.randrange(1, 10), rng.randrange(0, 10)))
            else: r.append(rng.choice(levels))
        rows.append(r)
    return cols, rows

def print_arff(rng, cols, rows, sparse, variant):
    q = weka_quote
    if variant.get("dq"):       # the same escapes inside double quotes
        def q(s):
            w = weka_quote(s)
            return '"' + w[1:-1] + '"' if w.startswith("'") and len(w) >= 2 and w != s else w
    kw = (lambda s: s.upper()) if variant.get("upper") else (lambda s: s)
    out = [kw("@relation") + " " + q("rel ation")]
    if variant.get("comments"): out.append("% a comment, with 'quotes' and ?")
    for name, kind, levels in cols:
        t = {"numeric": rng.choice(["numeric", "real", "integer", "NUMERIC"]) if kind == "numeric" else None, "string": "string", "date": "date 'yyyy-MM-dd'"}.get(kind) or "{" + ",".join(q(l) for l in levels) + "}"
        if kind == "numeric" and t == "integer": t = "numeric"
        out.append(kw("@attribute") + " " + q(name) + " " + t)
        if variant.get("blank"): out.append("")
    out.append(kw("@data"))
    if variant.get("comments"): out.append("%comment")
    delim = "\t" if variant.get("tab") else (", " if variant.get("space") else ",")
    for r in rows:
        if sparse:
            cells = []
            for i, (v, (name, kind, levels)) in enumerate(zip(r, cols)):
                if v is None: cells.append("%d ?" % i)
                elif kind == "numeric" and float(v) == 0: continue
                elif kind == "nominal" and v == levels[0] and variant.get("drop_first_level"): continue
                else: cells.append("%d %s" % (i, q(v)))
            out.append("{" + (", " if variant.get("space") else ",").join(cells) + "}")
        else:
            out.append(delim.join("?" if v is None else q(v) for v in r))
        if variant.get("blank") and rng.random() < 0.3: out.append("")
    return out

def check_arff(ctx, n):
    from coba.pipes.readers import ArffReader
    rng = ctx.rng
    probes = [(False, [("s", "string", None), ("n", "numeric", None)], [["?", "1"], ["a", "2"]], {}),
              (False, [("d", "date", None), ("s", "string", None)], [["2020-01-01", "a,b"]], {"tab": True}),
              # minimised earlier failures, with the exact lines that failed
              (False, [("s", "string", None)], [["a"], ["it's"]], {"dq": True, "lines": ["@relation r", "@attribute s string", "@data", "a", "\"it\\'s\""]}),
              (False, [("s", "string", None), ("t", "string", None)], [[",", "\""]], {"lines": ["@relation r", "@attribute s string", "@attribute t string", "@data", "',','\\\"'"]}),
              (False, [("a\\b", "numeric", None), ("l", "nominal", ["x\\", "y"])], [["1", "x\\"]], {}),
              (False, [("s", "string", None), ("n", "numeric", None)], [["a\\", "1"], ["b\"c'", "2"]], {})]
    for i in range(n):
        sparse = rng.random() < 0.3
        cols, rows = gen_arff_table(rng, sparse)
        variant = {}
        if i < len(probes): sparse, cols, rows, variant = probes[i]
        elif rng.random() < 0.5:
            for k in ("upper", "comments", "blank", "tab", "space", "dq"):
                if rng.random() < 0.3: variant[k] = True
            if variant.get("tab"): variant.pop("space", None)
        lines = variant.pop("lines", None) or print_arff(rng, cols, rows, sparse, variant)
        if i >= len(probes) and rng.random() < 0.2: lines = [l + "\r\n" for l in lines]
        case = dict(lines=lines, sparse=sparse, variant=sorted(variant))
        common = not variant
        ctx.count("arff:%s:%s" % ("sparse" if sparse else "dense", "common" if common else "variant"), repr(case), len(rows) >= 2)
        exp = []
        for r in rows:
            e = {}
            for v, (name, kind, levels) in zip(r, cols):
                e[name] = None if v is None else float(v) if kind == "numeric" else v
            exp.append(e)
        try:
            got = []
            for row in ArffReader().filter(iter(lines)):
                if sparse:
                    d = dict(row.items()); g = {}
                    for name, kind, levels in cols:
                        if name in d: g[name] = d[name]
                        else: g[name] = 0.0 if kind == "numeric" else levels[0]      # an absent sparse cell is the zero / first level
                    extra = set(d) - {c[0] for c in cols}
                    if extra: g["<extra>"] = sorted(extra)
                else:
                    g = dict(zip(row.headers, list(row))) if len(row.headers) == len(cols) else {"<headers>": list(row.headers)}
                    if list(row.headers) != [c[0] for c in cols]: g["<header-order>"] = list(row.headers)
                for (name, kind, levels) in cols:
                    v = g.get(name)
                    if kind == "nominal" and v is not None:
                        lv = list(getattr(v, "levels", []))
                        if lv != levels and not (sparse and ((lv[:1] == ["0"] and lv[1:] == levels) or sorted(set(["0"] + levels)) == lv)): g["<levels:%s>" % name] = lv      # sparse: the extra '0' level leads; when '0' is declared too the set of levels comes back sorted
                        g[name] = str(v)
                got.append(g)
        except Exception as e:
            got = "raises " + errname(e)
        if got == exp: continue
        if isinstance(got, str) and not common: continue      # a variant spelling may be rejected, never misread
        vals = [v for r in rows for v, c in zip(r, cols) if v is not None and c[1] in ("string", "nominal")]
        flat = "".join(c[0] for c in cols) + "".join(l for c in cols for l in (c[2] or [])) + "".join(vals)
        feats = sorted({("backslash" if ch == "\\" else "quote" if ch in "'\"" else "comma" if ch == "," else "space" if ch == " " else "percent" if ch == "%" else "qmark" if ch == "?" else "brace")
                        for ch in flat if ch in SPECIAL})
        if any(v.strip() == "?" for v in vals) or any(l.strip() == "?" for c in cols for l in (c[2] or [])): root = "qmark-value"
        elif variant.get("tab") and any("," in v for v in vals): root = "tab-delimited-comma"
        else: root = "+".join(feats) or "plain"
        sig = ["arff", "sparse" if sparse else "dense", "rejected" if isinstance(got, str) else "misread", root]
        if not common: sig.append("variant:" + "+".join(sorted(variant)))
        ctx.fail(sig, "ARFF %r parsed to %r, written was %r" % (lines, got, exp), case)

def check_arff_lines(ctx, n):
    """dense ARFF data lines in the Weka dialect with one quote character: the model automaton, Python's csv module with ArffLineReader's dialect and ArffLineReader itself agree with the cells that were written"""
    from coba.pipes.readers import ArffLineReader
    rng = ctx.rng
    reqs, metas = [], []
    for _ in range(n):
        q = rng.choice(["'", '"'])
        ncol = rng.choice([1, 2, 3, 5])
        cells = [gen_token(rng, 0.35) if rng.random() < 0.85 else rng.choice(["", "?", " ", "a b"]) for _ in range(ncol)]
        def wq(v):
            w = weka_quote(v)
            return (q + w[1:-1] + q) if (w != v and w.startswith("'")) else w
        line = ",".join(wq(c) for c in cells)
        case = dict(line=line, quote=q, cells=cells)
        ctx.count("arff-line:%d-cols" % ncol, repr(case), ncol >= 2)
        dialect = dict(skipinitialspace=True, escapechar="\\", doublequote=False, quotechar=q, delimiter=",")
        try: got_csv = next(csv.reader([line], **dialect))
        except Exception as e: got_csv = "raises " + errname(e)
        other = '"' if q == "'" else "'"
        try:
            lr = ArffLineReader(True, ncol); got_lr = list(lr.filter(line))
        except Exception as e: got_lr = "raises " + errname(e)
        if got_lr != cells and not (any(other in c for c in cells)):      # a cell holding the other quote character sends the reader to its fallback parser (covered by the table oracle)
            ctx.fail(["arff-line", "reader"], "ArffLineReader read %r as %r, written was %r" % (line, got_lr, cells), case); continue
        if got_csv != cells:
            ctx.fail(["arff-line", "csv-dialect"], "csv.reader with the reader's dialect read %r as %r, written was %r" % (line, got_csv, cells), case); continue
        reqs.append((12, [5, ord(q), [ord(c) for c in line]])); metas.append((case, [[ord(c) for c in x] for x in cells]))
    for (case, exp), mo in zip(metas, ctx.get_model().batch(reqs)):
        if mo != exp: ctx.disagree("C12.arff_parse", case, repr(exp)[:300], repr(mo)[:300])

def check_arff_sparse_lines(ctx, n):
    """sparse ARFF data lines {k v, ...} in the Weka dialect: the model of ArffLineReader._sparse (theorem arff_sparse_line_roundtrip) and ArffLineReader itself agree with the pairs that were written"""
    from coba.pipes.readers import ArffLineReader
    rng = ctx.rng
    reqs, metas = [], []
    for _ in range(n):
        q = rng.choice(["'", '"'])
        ncol = rng.choice([1, 2, 3, 5, 12])
        keys = sorted(rng.sample(range(ncol), rng.randrange(0, ncol + 1)))
        vals = [gen_token(rng, 0.35) if rng.random() < 0.8 else rng.choice(["", "?", " ", "a b", "a ,b", ", ", "x\\", "'", "1"]) for _ in keys]
        def wq(v):
            w = weka_quote(v)
            return (q + w[1:-1] + q) if (w != v and w.startswith("'")) else w
        sep = rng.choice([",", ",", ", ", " , "])
        line = rng.choice(["", "", " "]) + "{" + sep.join("%d %s" % (k, wq(v)) for k, v in zip(keys, vals)) + "}" + rng.choice(["", "", " "])
        case = dict(line=line, quote=q, pairs=[[k, v] for k, v in zip(keys, vals)], n_columns=ncol)
        ctx.count("arff-sparse-line:%s" % ("quoted" if ("'" in line or '"' in line) else "plain"), repr(case), len(keys) >= 2)
        exp = dict(zip(keys, vals))
        try: got = dict(ArffLineReader(False, ncol).filter(line))
        except Exception as e: got = "raises " + errname(e)
        if got != exp:
            ctx.fail(["arff-sparse-line", "reader", "rejected" if isinstance(got, str) else "misread"], "ArffLineReader read the sparse line %r as %r, written was %r" % (line, got, exp), case); continue
        reqs.append((12, [6, [ord(c) for c in line]])); metas.append((case, [[k, [ord(c) for c in v]] for k, v in zip(keys, vals)]))
    for (case, exp), mo in zip(metas, ctx.get_model().batch(reqs)):
        if mo != exp: ctx.disagree("C12.sparse_parse", case, repr(exp)[:300], repr(mo)[:300])

def check_arff_levels(ctx, n):
    """the level list of a nominal ARFF attribute in the Weka dialect: the model of ArffAttrReader._split (theorem arff_nominal_levels_roundtrip) and the reader agree with the levels that were written"""
    from coba.pipes.readers import ArffAttrReader
    rng = ctx.rng
    reqs, metas = [], []
    for _ in range(n):
        q = rng.choice(["'", '"'])
        levels = []
        for _ in range(rng.choice([1, 2, 3, 5])):
            l = gen_token(rng, 0.35) if rng.random() < 0.8 else rng.choice(["", "?", " ", "a b", "a ,b", ", ", "x\\", "'", "0"])
            if l not in levels: levels.append(l)
        def wq(v):
            w = weka_quote(v)
            return (q + w[1:-1] + q) if (w != v and w.startswith("'")) else w
        body = ",".join(wq(l) for l in levels)
        case = dict(body=body, quote=q, levels=levels)
        ctx.count("arff-levels", repr(case), len(levels) >= 2)
        try:
            rd = ArffAttrReader(True); got = list(rd._split(body, rd._r_comma))
        except Exception as e: got = "raises " + errname(e)
        if got != levels:
            ctx.fail(["arff-levels", "reader", "rejected" if isinstance(got, str) else "misread"], "ArffAttrReader split the level list %r into %r, written was %r" % (body, got, levels), case); continue
        reqs.append((12, [7, [ord(c) for c in body]])); metas.append((case, [[ord(c) for c in l] for l in levels]))
    for (case, exp), mo in zip(metas, ctx.get_model().batch(reqs)):
        if mo != exp: ctx.disagree("C12.levels_parse", case, repr(exp)[:300], repr(mo)[:300])

def run(ctx):
    tmpdir = tempfile.mkdtemp(prefix="c12_", dir=os.path.join(VERIF, ".work"))
    try:
        check_delivery(ctx, ctx.n(400, 20000))
        check_disk(ctx, ctx.n(120, 3000), tmpdir)
        check_libsvm(ctx, ctx.n(200, 6000))
        check_csv(ctx, ctx.n(300, 10000))
        check_arff(ctx, ctx.n(400, 20000))
        check_arff_lines(ctx, ctx.n(300, 8000))
        check_arff_sparse_lines(ctx, ctx.n(300, 8000))
        if os.path.exists(os.path.join(VERIF, "coq", "theories", "C12", "ModelArffAttr.v")): check_arff_levels(ctx, ctx.n(300, 8000))
    finally:
        shutil.rmtree(tmpdir, ignore_errors=True)

def replay(r):
    return "the replay file holds the exact chunks / lines handed to the reader; feed them to the named reader (DelimSource, HttpSource._byte_it_, DiskSink+DiskSource, LibsvmReader, CsvReader, ArffReader)"
