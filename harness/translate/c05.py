"""coba/random.py  ->  Generated/C05_gen.v   (constants and integer kernels of CobaRandom)."""
import ast, builtins
from .pyexpr import *

ALLOWED_GLOBALS = {"math", "time", "floor", "compress", "accumulate", "islice", "mul", "add", "CobaRandom",
                   "Optional", "Iterable", "Sequence", "Union", "Tuple", "Any"}

def _is_next_randu(n):
    return (isinstance(n, ast.Call) and isinstance(n.func, ast.Name) and n.func.id == "next" and len(n.args) == 1
            and isinstance(n.args[0], ast.Attribute) and n.args[0].attr == "_randu"
            and isinstance(n.args[0].value, ast.Name) and n.args[0].value.id == "self")

def static_no_globals(cls):
    """every free name used inside the class is self / a local / a parameter / an allowed import."""
    bad = []
    for fn in [n for n in cls.body if isinstance(n, ast.FunctionDef)]:
        bound = {a.arg for a in fn.args.args + fn.args.kwonlyargs}
        for n in ast.walk(fn):
            if isinstance(n, (ast.Global, ast.Nonlocal)): bad.append("global in " + fn.name)
            if isinstance(n, ast.Name) and isinstance(n.ctx, (ast.Store, ast.Del)): bound.add(n.id)
            if isinstance(n, ast.comprehension):
                for t in ast.walk(n.target):
                    if isinstance(t, ast.Name): bound.add(t.id)
        for n in ast.walk(fn):
            if isinstance(n, ast.Name) and isinstance(n.ctx, ast.Load):
                if n.id in bound or n.id in ALLOWED_GLOBALS or hasattr(builtins, n.id): continue
                bad.append("%s uses %s" % (fn.name, n.id))
    return bad

def translate(repo):
    tree = parse_file(repo + "/coba/random.py")
    cls = find_def(tree, "CobaRandom")
    out, fps = [], {}
    for fn in cls.body:
        if isinstance(fn, ast.FunctionDef): fps["CobaRandom." + fn.name] = fingerprint(fn)

    # --- __init__ : the generator constants and the string-seed modulus
    init = find_def(tree, "CobaRandom.__init__")
    call = [n for n in ast.walk(init) if isinstance(n, ast.Call) and isinstance(n.func, ast.Attribute) and n.func.attr == "_next_uniform"]
    if len(call) != 1 or len(call[0].args) != 4 or not (isinstance(call[0].args[1], ast.Name) and call[0].args[1].id == "seed"):
        raise Unsupported("__init__: _next_uniform(a,seed,c,m) call not found")
    a, _, c, m = call[0].args
    out += ["Definition lcg_a : Z := %s." % zexpr(a), "Definition lcg_c : Z := %s." % zexpr(c), "Definition lcg_m : Z := %s." % zexpr(m)]
    mods = [n for n in ast.walk(init) if isinstance(n, ast.BinOp) and isinstance(n.op, ast.Mod)]
    if len(mods) != 1: raise Unsupported("__init__: expected one % expression")
    out.append("Definition str_seed_mod : Z := %s." % zexpr(mods[0].right))
    # the int/float test that decides the seeding path
    test = [n for n in init.body if isinstance(n, ast.If)]
    want = "isinstance(seed, int) or (isinstance(seed, float) and seed.is_integer())"
    if len(test) != 1 or ast.unparse(test[0].test) != want:
        raise Unsupported("__init__: seeding test changed: " + (ast.unparse(test[0].test) if test else "none"))

    # --- _next_uniform : the step
    nu = find_def(tree, "CobaRandom._next_uniform")
    body = strip_doc(nu)
    params = [x.arg for x in nu.args.args]
    if params != ["self", "a", "s", "c", "m"]: raise Unsupported("_next_uniform parameters " + str(params))
    if not (len(body) == 2 and isinstance(body[0], ast.Assign) and isinstance(body[1], ast.While)
            and isinstance(body[1].test, ast.Constant) and body[1].test.value is True and len(body[1].body) == 2):
        raise Unsupported("_next_uniform shape")
    asg, (step, yld) = body[0], body[1].body
    if not (isinstance(asg.targets[0], ast.Name) and asg.targets[0].id == "m_1"): raise Unsupported("_next_uniform m_1")
    out.append("Definition lcg_m_1 (m : Z) : Z := %s." % zexpr(asg.value))
    if not (isinstance(step, ast.Assign) and isinstance(step.targets[0], ast.Name) and step.targets[0].id == "s"):
        raise Unsupported("_next_uniform step")
    out.append("Definition lcg_step (a s c m m_1 : Z) : Z := %s." % zexpr(step.value))
    if ast.unparse(yld).replace("(","").replace(")","") != "yield s / m": raise Unsupported("_next_uniform yields " + ast.unparse(yld))

    # --- randint : a + floor(E * next(u))
    ri = only_return(find_def(tree, "CobaRandom.randint"))
    ok = (isinstance(ri, ast.BinOp) and isinstance(ri.op, ast.Add) and isinstance(ri.right, ast.Call)
          and isinstance(ri.right.func, ast.Name) and ri.right.func.id == "floor"
          and isinstance(ri.right.args[0], ast.BinOp) and isinstance(ri.right.args[0].op, ast.Mult)
          and _is_next_randu(ri.right.args[0].right))
    if not ok: raise Unsupported("randint shape: " + ast.unparse(ri))
    out.append("Definition randint_off (a b : Z) : Z := %s." % zexpr(ri.left))
    out.append("Definition randint_scale (a b : Z) : Z := %s." % zexpr(ri.right.args[0].left))

    # --- choice : comparison used against the cumulative weights
    ch = find_def(tree, "CobaRandom.choice")
    cmps = [n.attr for n in ast.walk(ch) if isinstance(n, ast.Attribute) and n.attr in ("__le__", "__lt__", "__ge__", "__gt__")]
    if cmps == ["__le__"]: strict = "false"
    elif cmps == ["__lt__"]: strict = "true"
    else: raise Unsupported("choice comparison: " + str(cmps))
    out.append("Definition choice_strict : bool := %s." % strict)
    unw = [n for n in ast.walk(ch) if isinstance(n, ast.Subscript) and ast.unparse(n) == "seq[int(len(seq) * next(self._randu))]"]
    if len(unw) != 1: raise Unsupported("choice: unweighted form changed")

    # --- gauss: does the generator re-draw a zero first uniform?
    ng = find_def(tree, "CobaRandom._next_gaussian")
    src = ast.unparse(ng)
    redraw = "while" in src and src.count("while") >= 2
    out.append("Definition gauss_redraw_zero : bool := %s." % ("true" if redraw else "false"))

    bad = static_no_globals(cls)
    out.append("Definition static_no_globals : bool := %s. (* %s *)" % ("true" if not bad else "false", "; ".join(bad)))
    text = "(* GENERATED by harness/translate/c05.py from coba/random.py -- do not edit *)\nFrom Coq Require Import ZArith Bool.\nOpen Scope Z_scope.\n" + "\n".join(out) + "\n"
    return {"C05_gen.v": text}, fps
