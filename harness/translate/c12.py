"""coba/pipes/{sources,sinks,readers}.py -> Generated/C12_gen.v : the characters and the shape of the framing code that C12/Model.v models.
Fail closed: every statement of the modelled functions must match its template; the constants in the templates are emitted."""
import ast, re
from .pyexpr import *

def _stmts(tree, qual):
    return [ast.unparse(s) for s in strip_doc(find_def(tree, qual))]

def _match(template, text, what):
    """template: the unparsed statement with \x00name\x00 markers where a string constant stands; everything else is literal"""
    parts = template.split("\x00")
    rx = "".join(re.escape(p) if i % 2 == 0 else "(?P<%s>%s)" % (p, STR) for i, p in enumerate(parts))
    m = re.fullmatch(rx, text, re.S)
    if not m: raise Unsupported("%s changed: %s" % (what, text[:200]))
    return {k: ast.literal_eval(v) for k, v in m.groupdict().items()}

STR = r"'(?:[^'\\]|\\.)*'"
def G(name): return "\x00%s\x00" % name

def codes(s): return "[" + "; ".join(str(ord(c)) for c in s) + "]"

def translate(repo):
    src = parse_file(repo + "/coba/pipes/sources.py")
    out = {}
    # --- HttpSource._byte_it_: one incremental decoder outside the loop, every chunk through it, final flush
    st = _stmts(src, "HttpSource._byte_it_")
    if len(st) != 2: raise Unsupported("_byte_it_ has %d statements" % len(st))
    want = ("if not chunk:\n    with bites as b:\n        return decomp(b.read()).decode(charset)\nelse:\n\n    def chunks(decomp, charset, size, bites):\n"
            "        decode = codecs.getincrementaldecoder(charset)().decode\n        with bites as b:\n            while (chunk := b.read(size)):\n"
            "                yield decode(decomp(chunk))\n            yield decode(b'', True)\n    return DelimSource(IterableSource(chunks(decomp, charset, chunk, bites))).read()")
    if st[1] != want: raise Unsupported("_byte_it_ chunk loop changed: " + st[1][:300])
    out["gen_decoder_state_carried"] = "true"
    # --- DelimSource.read
    st = _stmts(src, "DelimSource.read")
    if st[:3] != ["pending = None", "split_lines = not self._delim", "delim = self._delim"] or st[-1] != "if pending is not None:\n    yield pending" or len(st) != 5:
        raise Unsupported("DelimSource.read prologue/epilogue changed")
    tmpl = ("if split_lines:\n    after_cr = False\n    for text in filter(None, self._source.read()):\n        if after_cr and text[0] == " + G("lf") + ":\n            text = text[1:]\n"
            "        after_cr = text[-1:] == " + G("cr") + "\n        if not text:\n            continue\n        lines = text.splitlines()\n        if pending:\n"
            "            lines[0] = pending + lines[0]\n            pending = None\n        if len((text[-1] + " + G("probe") + ").splitlines()) == 1:\n            pending = lines.pop()\n        yield from lines\nelse:\n")
    head = st[3].split("else:\n")[0] + "else:\n"
    c = _match(tmpl, head, "DelimSource.read (splitlines branch)")
    if len(c["lf"]) != 1 or len(c["cr"]) != 1 or len(c["probe"]) != 1 or len((c["probe"]).splitlines()) != 1: raise Unsupported("DelimSource.read constants")
    out["gen_delim_lf"], out["gen_delim_cr"] = str(ord(c["lf"])), str(ord(c["cr"]))
    # --- DiskSource.read
    st = _stmts(src, "DiskSource.read")
    c = _match("with opener(self._path, self._mode) as f:\n    f.seek(self._start_loc)\n    loc, line = (f.tell(), f.readline())\n    while line != '':\n        line = line.rstrip(" + G("strip") + ")\n"
               "        yield ((loc, line) if self._include_loc else line)\n        loc, line = (f.tell(), f.readline())", st[-1], "DiskSource.read")
    out["gen_disk_source_strip"] = codes(c["strip"])
    init = find_def(src, "DiskSource.__init__")
    mode = [a for a, d in zip(init.args.args[-len(init.args.defaults):], init.args.defaults) if a.arg == "mode"]
    dm = [d for a, d in zip(init.args.args[-len(init.args.defaults):], init.args.defaults) if a.arg == "mode"]
    if not dm or not isinstance(dm[0], ast.Constant) or dm[0].value != "rt+": raise Unsupported("DiskSource default mode")
    # --- DiskSink.write
    snk = parse_file(repo + "/coba/pipes/sinks.py")
    st = _stmts(snk, "DiskSink.write")
    c = _match("while self._unfinished(batch):\n    batch = self._get_batch(lines)\n    with self:\n        for line in batch:\n            self._file.write((line + " + G("term") + ").encode('utf-8'))\n            self._file.flush()",
               st[-1], "DiskSink.write")
    out["gen_disk_sink_terminator"] = codes(c["term"])
    # --- readers
    rd = parse_file(repo + "/coba/pipes/readers.py")
    st = _stmts(rd, "LibsvmReader.filter")
    if len(st) != 1: raise Unsupported("LibsvmReader.filter")
    c = _match("for line in filter(None, lines):\n    items = line.strip().split(" + G("sp") + ")\n    no_label_line = items[0] == '' or " + G("colon") + " in items[0]\n    if not no_label_line:\n"
               "        labels = items[0].split(" + G("comma") + ")\n        row = {int(k): float(v) for i in items[1:] for k, v in [i.split(" + G("colon2") + ")]}\n        yield (row, labels)", st[0], "LibsvmReader.filter")
    if c["colon"] != c["colon2"] or any(len(c[k]) != 1 for k in c): raise Unsupported("LibsvmReader separators")
    out["gen_libsvm_seps"] = "(%d, %d, %d)" % (ord(c["sp"]), ord(c["colon"]), ord(c["comma"]))
    st = _stmts(rd, "ManikReader.filter")
    if st != ["return LibsvmReader().filter(islice(lines, 1, None))"]: raise Unsupported("ManikReader.filter")
    st = _stmts(rd, "CsvReader.filter")
    c = _match("lines = iter(csv.reader((i.rstrip(" + G("strip") + ") + " + G("term") + " for i in items if i.strip()), **self._dialect))", st[0], "CsvReader.filter")
    out["gen_csv_strip"], out["gen_csv_terminator"] = codes(c["strip"]), codes(c["term"])
    body = "\n".join("Definition %s := %s." % (k, v) for k, v in out.items())
    text = ("(* GENERATED by harness/translate/c12.py from coba/pipes/{sources,sinks,readers}.py -- do not edit *)\n"
            "From Coq Require Import ZArith List Bool.\nImport ListNotations.\nOpen Scope Z_scope.\n" + body + "\n")
    return {"C12_gen.v": text}, {}
