"""C03 shares the Exp model and its translator with C01."""
from .c01 import translate
