"""Fail-closed translator: a small fragment of Python integer / boolean expressions -> Gallina (Z / bool).

Supported: int literals, names (parameters), + - * // % & | ** << >> unary -, comparisons
(< <= > >= == !=, chained), and/or/not, conditional expressions, `x is None` / `x is not None`
(on option-typed parameters, see `opt`), min/max of two arguments.
Anything else raises Unsupported (the caller reports a broken tie).

Python semantics relied on (trusted, spot-checked by the correspondence runs over the generated
definitions):  int = Z;  // = Z.div (floor);  % = Z.modulo (sign of divisor);  & | on Z two's
complement = Z.land / Z.lor;  ** with non-negative exponent = Z.pow;  << >> = Z.shiftl / Z.shiftr.
"""
import ast, hashlib

class Unsupported(Exception):
    pass

_BIN = {ast.Add: "({} + {})", ast.Sub: "({} - {})", ast.Mult: "({} * {})", ast.FloorDiv: "({} / {})",
        ast.Mod: "({} mod {})", ast.BitAnd: "(Z.land {} {})", ast.BitOr: "(Z.lor {} {})",
        ast.Pow: "({} ^ {})", ast.LShift: "(Z.shiftl {} {})", ast.RShift: "(Z.shiftr {} {})"}
_CMP = {ast.Lt: "({} <? {})", ast.LtE: "({} <=? {})", ast.Gt: "({} >? {})", ast.GtE: "({} >=? {})",
        ast.Eq: "({} =? {})", ast.NotEq: "(negb ({} =? {}))"}

def zexpr(n, env=None, opt=()):
    """Translate an int-valued expression. env maps python names to Gallina names."""
    env = env or {}
    if isinstance(n, ast.Constant):
        if isinstance(n.value, bool) or not isinstance(n.value, int):
            raise Unsupported("constant %r" % (n.value,))
        return "(%d)" % n.value
    if isinstance(n, ast.Name):
        if n.id in opt: raise Unsupported("option-typed name used as int: " + n.id)
        return env.get(n.id, n.id)
    if isinstance(n, ast.UnaryOp) and isinstance(n.op, ast.USub):
        return "(- %s)" % zexpr(n.operand, env, opt)
    if isinstance(n, ast.BinOp) and type(n.op) in _BIN:
        return _BIN[type(n.op)].format(zexpr(n.left, env, opt), zexpr(n.right, env, opt))
    if isinstance(n, ast.IfExp):
        return "(if %s then %s else %s)" % (bexpr(n.test, env, opt), zexpr(n.body, env, opt), zexpr(n.orelse, env, opt))
    if isinstance(n, ast.Call) and isinstance(n.func, ast.Name) and n.func.id in ("min", "max") and len(n.args) == 2 and not n.keywords:
        return "(Z.%s %s %s)" % (n.func.id, zexpr(n.args[0], env, opt), zexpr(n.args[1], env, opt))
    raise Unsupported(ast.dump(n)[:120])

def bexpr(n, env=None, opt=()):
    env = env or {}
    if isinstance(n, ast.Constant) and isinstance(n.value, bool):
        return "true" if n.value else "false"
    if isinstance(n, ast.BoolOp):
        op = " && " if isinstance(n.op, ast.And) else " || "
        return "(" + op.join(bexpr(v, env, opt) for v in n.values) + ")"
    if isinstance(n, ast.UnaryOp) and isinstance(n.op, ast.Not):
        return "(negb %s)" % bexpr(n.operand, env, opt)
    if isinstance(n, ast.Compare):
        parts, left = [], n.left
        for op, right in zip(n.ops, n.comparators):
            if isinstance(op, (ast.Is, ast.IsNot)) and isinstance(right, ast.Constant) and right.value is None \
               and isinstance(left, ast.Name) and left.id in opt:
                t = "(match %s with None => true | Some _ => false end)" % env.get(left.id, left.id)
                parts.append(t if isinstance(op, ast.Is) else "(negb %s)" % t)
            elif type(op) in _CMP:
                parts.append(_CMP[type(op)].format(zexpr(left, env, opt), zexpr(right, env, opt)))
            else:
                raise Unsupported(ast.dump(n)[:120])
            left = right
        return parts[0] if len(parts) == 1 else "(" + " && ".join(parts) + ")"
    raise Unsupported(ast.dump(n)[:120])

# ------------------------------------------------------------------------------------------
def parse_file(path):
    with open(path, encoding="utf-8") as f:
        return ast.parse(f.read(), filename=path)

def find_def(tree, qual):
    """find_def(tree, 'CobaRandom.randint') -> ast.FunctionDef (fail closed)."""
    cur = tree
    for name in qual.split("."):
        for n in cur.body:
            if isinstance(n, (ast.ClassDef, ast.FunctionDef)) and n.name == name:
                cur = n
                break
        else:
            raise Unsupported("definition not found: " + qual)
    return cur

def strip_doc(fn):
    body = fn.body
    if body and isinstance(body[0], ast.Expr) and isinstance(body[0].value, ast.Constant) and isinstance(body[0].value.value, str):
        body = body[1:]
    return body

def fingerprint(node):
    """SHA-256 of the normalised AST (docstrings, positions and annotations stripped)."""
    class Strip(ast.NodeTransformer):
        def visit_FunctionDef(self, n):
            self.generic_visit(n)
            n.body = strip_doc(n) or [ast.Pass()]
            n.returns = None
            for a in n.args.args + n.args.kwonlyargs: a.annotation = None
            return n
        def visit_ClassDef(self, n):
            self.generic_visit(n)
            n.body = strip_doc(n) or [ast.Pass()]
            return n
    import copy
    node = Strip().visit(copy.deepcopy(node))
    return hashlib.sha256(ast.dump(node, annotate_fields=False, include_attributes=False).encode()).hexdigest()[:16]

def only_return(fn):
    body = strip_doc(fn)
    if len(body) != 1 or not isinstance(body[0], ast.Return):
        raise Unsupported("%s: expected a single return statement" % fn.name)
    return body[0].value
