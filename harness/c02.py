"""C02 — interrupted experiments resume without losing or repeating work: real result files cut at byte positions and resumed."""
import gzip, json, os, shutil, tempfile
from .common import *
from . import c07

LEVEL_TEXT = ("Coq theorems (C02/Props.v): torn_record_is_harmless - for ANY record texts (newline-free, non-empty, parsing to their record, not parsing when truncated), ANY complete records on disk and ANY cut through the line being written, "
              "the tolerant decoder returns exactly the complete records (plus the cut one iff only its newline is missing); resume_exactly_the_missing_work - after ANY sequence of killed runs (each restoring and appending ANY prefix of ANY order "
              "of the missing records) a run that finishes repeats no recorded task and leaves every task exactly once; interrupted_logs_stay_valid. Real experiments are run to a result file (plain and .gz), the file is cut at byte positions "
              "(quick: record boundaries, their neighbours and random positions; thorough: every byte), the experiment is resumed - some twice, some under other execution configurations - and compared with the uninterrupted run: "
              "tables, which triples were evaluated again, duplicate records, usability of the cut file; the set of re-evaluated triples is compared with the extracted model's todo.")
TRUSTED = ["Coq 8.16.1 kernel (coqc)", "extraction + ocaml/driver.ml", "harness/c02.py and the stub components of harness/c07.py",
           "modelled not verified: the json module (a truncated record text does not parse; record texts hold no raw newline - hypotheses of the byte theorem, observed on every generated log), gzip member framing (a torn member behaves like a torn line), "
           "os.replace atomicity of the repair, the file system's append semantics; a kill is represented by its effect on the file (a byte prefix), not by a real signal except in the thorough tier's kill layer"]
ASSUMPTIONS = ["the killed run wrote with DiskSink(batch=1): every record is flushed and, for .gz, closed as its own member (a seeded change of that setting is detected by the real-kill layer)", "record payloads are functions of the task (C01)",
               "an evaluation that yields zero rows is a listed finding (it is repeated on resume)"]
RULE = ("experiments with 1-3 environments x 1-2 learners x 1-2 evaluators in cross products and learner-major tuple lists, 1-3 rows per evaluation, evaluators failing in the first run; plain and .gz; cuts: every record boundary, +-1 byte, "
        "random interior bytes, 0 and the full length; resumed in-process, some with processes=2 / maxchunksperchild=1, some cut and resumed twice; non-trivial = a cut strictly inside the file")

def fingerprints():
    d = {}
    for rel, quals in (('coba/experiments/core.py', ['Experiment.run', 'Experiment._restore']), ('coba/experiments/process.py', ['MakeTasks.read']),
                       ('coba/results/core.py', ['TransactionDecode.filter', 'TransactionDecode.complete', 'TransactionEncode.filter', 'TransactionResult.filter', 'Result.from_save']),
                       ('coba/pipes/sinks.py', ['DiskSink.write', 'DiskSink.__enter__', 'DiskSink.__exit__']), ('coba/pipes/sources.py', ['DiskSource.read'])):
        d.update(fingerprint_defs(rel, quals))
    return d

def gen_exp(rng):
    ne, nl, nv = rng.choice([1, 2, 3]), rng.choice([1, 2]), rng.choice([1, 1, 2])
    trip = [(e, l, v) for e in range(ne) for l in range(nl) for v in range(nv)]
    style = rng.choice(["product", "learner-major", "shuffled"])
    if style == "learner-major": trip.sort(key=lambda t: (t[1], t[0], t[2]))
    elif style == "shuffled": rng.shuffle(trip)
    def ren(xs):
        m = {}
        for x in xs: m.setdefault(x, len(m))
        return m
    me, ml, mv = ren([t[0] for t in trip]), ren([t[1] for t in trip]), ren([t[2] for t in trip])
    trip = [(me[e], ml[l], mv[v]) for e, l, v in trip]
    zero = rng.random() < 0.08
    clash = rng.choice(["learner_id", "environment_id", "evaluator_id"]) if rng.random() < 0.15 else None      # an evaluator column that carries the name of a key column (e.g. ids passed through from replayed logs)
    rows = []
    for i, t in enumerate(trip):
        n = 0 if (zero and i == len(trip) // 2) else rng.choice([1, 2, 3])
        rows.append((t, [dict({"x": t[0] * 100 + t[1] * 10 + t[2] + j / 8, "s": rng.choice(["a", "é\n", "{\"", "long " * 6])}, **({clash: 7 + j} if clash else {})) for j in range(n)]))
    return dict(env_params=[{"e": i} for i in me], lrn_params=[{"l": i, "t": (1, 2)} for i in ml], val_params=[{"v": i} for i in mv], rows=rows, gz=rng.random() < 0.45, restored=False,
                fail=[t for t in trip if rng.random() < 0.15], style=style)

def fresh(case):
    envs, lrns, vals, triples, table, fail, calls = c07.build(case)
    return triples, fail, calls

def read_records(path, strict=True):
    """the complete records of a (possibly torn) log, by an independent reader. For .gz a record whose text is all there but whose member lacks
    (part of) its 8-byte end-of-stream trailer counts as written only when strict is False: whether such a record is 'recorded' is the reader's choice"""
    raw = open(path, "rb").read()
    text = b""
    if path.endswith(".gz"):
        import zlib
        data = raw
        while data:
            d = zlib.decompressobj(16 + zlib.MAX_WBITS)
            try: part = d.decompress(data)
            except zlib.error: break
            if not d.eof:
                if not strict: text += part
                break
            text += part; data = d.unused_data
    else: text = raw
    recs = []
    for line in text.decode("utf-8", "replace").split("\n"):
        if not line.strip(): continue
        try: recs.append(json.loads(line))
        except ValueError: break
    return recs

def ikeys(recs): return [tuple(r[1]) + ((0,) if len(r[1]) == 2 else ()) for r in recs if r and r[0] == "I"]

def run_exp(case, path, conf=(1, 0, 0), fail_now=False):
    from coba.experiments import Experiment
    triples, fail, calls = fresh(case)
    if fail_now:
        for t in case["fail"]: fail.add(tuple(t))
    r = Experiment(triples).run(path, quiet=True, processes=conf[0], maxchunksperchild=conf[1], maxtasksperchunk=conf[2])
    return c07.tables(r), list(calls)

def check_exp(ctx, case, tmp, ncuts, every_byte, reqs, metas, cut_fractions=None):
    from coba.results import Result
    rng = ctx.rng
    ext = ".log.gz" if case["gz"] else ".log"
    full = os.path.join(tmp, "full" + ext)
    if os.path.exists(full): os.remove(full)
    brief = dict(gz=case["gz"], style=case["style"], triples=[list(t) for t, _ in case["rows"]], rows=[len(r) for _, r in case["rows"]], first_run_fails=[list(t) for t in case["fail"]])
    try:
        ref, _ = run_exp(case, None)
        run_exp(case, full, fail_now=True)          # the run that is going to be "killed": some evaluations fail in it and are missing from its log
    except Exception as e:
        ctx.fail(["resume", "first-run-raised", errname(e)], "the uninterrupted run raised %s: %s" % (errname(e), e), brief); return
    raw = open(full, "rb").read()
    recs_full = read_records(full)
    # record boundaries in the raw file: positions after which the independent reader sees one more record
    bounds = []
    probe = os.path.join(tmp, "probe" + ext)
    if cut_fractions is not None: cuts = sorted({min(len(raw), max(0, int(len(raw) * f) + d)) for f, d in cut_fractions})      # a long log: a few cuts, no boundary search
    elif every_byte: cuts = list(range(0, len(raw) + 1))
    else:
        # find boundaries by bisection over the number of complete records
        def nrec(c):
            open(probe, "wb").write(raw[:c]); return len(read_records(probe))
        total = len(recs_full)
        for k in range(1, total + 1):
            lo, hi = 0, len(raw)
            while lo < hi:
                mid = (lo + hi) // 2
                if nrec(mid) >= k: hi = mid
                else: lo = mid + 1
            bounds.append(lo)
        cuts = sorted(set([0, 1, len(raw), len(raw) - 1] + [b + d for b in bounds for d in (-1, 0, 1)] + [rng.randrange(0, len(raw) + 1) for _ in range(ncuts)]))
        cuts = [c for c in cuts if 0 <= c <= len(raw)]
    all_keys = sorted({tuple(t) for t, _ in case["rows"]})
    zero_keys = {tuple(t) for t, r in case["rows"] if not r}
    for cut in cuts:
        path = os.path.join(tmp, "cut" + ext)
        for f in (path, path + ".tmp"):
            if os.path.exists(f): os.remove(f)
        open(path, "wb").write(raw[:cut])
        desc = dict(brief, cut=cut, of=len(raw))
        before = ikeys(read_records(path)); before_lenient = ikeys(read_records(path, strict=False))
        ctx.count("cut:%s:%s" % ("gz" if case["gz"] else "plain", "boundary" if cut in bounds else "inside"), repr(desc), 0 < cut < len(raw))
        # the cut file is usable as it is
        try: Result.from_file(path)
        except Exception as e:
            ctx.fail(["resume", "unusable", "from_file", errname(e)], "Result.from_file on the log cut at byte %d of %d raised %s" % (cut, len(raw), errname(e)), desc); continue
        conf = rng.choice([(1, 0, 0)] * 8 + [(1, 0, 1), (1, 0, 2)])
        twice = rng.random() < 0.15
        try:
            if twice:      # a second kill in the resumed run
                run_exp(case, path, conf, fail_now=True)
                raw2 = open(path, "rb").read(); c2 = rng.randrange(min(cut, len(raw2)), len(raw2) + 1)
                open(path, "wb").write(raw2[:c2]); desc["second_cut"] = c2
                before = ikeys(read_records(path)); before_lenient = ikeys(read_records(path, strict=False))
            t, calls = run_exp(case, path, conf)
        except Exception as e:
            ctx.fail(["resume", "unusable", "run", errname(e)], "resuming from the log cut at byte %d of %d raised %s: %s" % (cut, len(raw), errname(e), str(e)[:120]), desc); continue
        # 1. final Result equals the uninterrupted one
        if not c07.same(t, ref):
            ctx.fail(["resume", "result-differs"], "resumed from byte %d of %d: %s" % (cut, len(raw), c07.first_diff(t, ref)), desc); continue
        # 2. nothing recorded is evaluated again
        again = sorted(set(calls) & set(before))
        if again:
            z = all(k in zero_keys for k in again)
            ctx.fail(["resume", "re-evaluated"] + (["zero-rows"] if z else []), "triples %s were recorded in the cut file and evaluated again" % again, desc)
            if not z: continue
        # 3. no record twice, file readable afterwards
        try: after = ikeys(read_records(path)); Result.from_file(path)
        except Exception as e:
            ctx.fail(["resume", "file-corrupt-after-resume", errname(e)], "after resuming the file cannot be read: %s" % errname(e), desc); continue
        dup = sorted(k for k in set(after) if after.count(k) > 1)
        if dup and not all(k in zero_keys for k in dup): ctx.fail(["resume", "recorded-twice"], "triples %s are recorded twice after resuming from byte %d" % (dup, cut), desc); continue
        if sorted(set(after)) != all_keys: ctx.fail(["resume", "records-missing"], "after resuming the file holds %s, the experiment has %s" % (sorted(set(after)), all_keys), desc); continue
        # model: which triples the resumed run must perform (at least those missing under the lenient reading, at most those missing under the strict one)
        idx = {k: i for i, k in enumerate(all_keys)}
        for lenient in (False, True):
            reqs.append((2, [[idx[k] for k in all_keys], [idx[k] for k in dict.fromkeys(before_lenient if lenient else before) if k in idx]]))
            metas.append((desc, sorted(idx[k] for k in set(calls) if k in idx and k not in zero_keys), sorted(idx[k] for k in zero_keys), lenient))
    ctx.sample(dict(case=brief, bytes=len(raw), cuts=len(cuts), records=len(recs_full)), cap=3)

def kill_layer(ctx, k):
    """real SIGKILL of a child interpreter in the middle of a run (this is where the flush/close discipline of the sink is exercised)"""
    import subprocess, sys, signal, time
    work = os.path.join(VERIF, ".work")
    script = os.path.join(work, "c02_kill_%d.py" % os.getpid())
    open(script, "w").write(r'''
import sys, os, time, json
sys.path.insert(0, %r); sys.path.insert(0, %r)
import warnings; warnings.simplefilter("ignore")
from coba.experiments import Experiment
from coba.context import CobaContext, NullLogger
from harness import c07
CobaContext.logger = NullLogger()
case = json.load(open(sys.argv[1])); case["rows"] = [(tuple(t), r) for t, r in case["rows"]]; case["fail"] = []
envs, lrns, vals, triples, table, fail, calls = c07.build(case)
stop_at = int(sys.argv[3])
class Val(type(vals[0])):
    def evaluate(self, env, lrn):
        if len(self.calls) == stop_at:
            print("READY", flush=True); time.sleep(60)
        yield from super().evaluate(env, lrn)
for v in vals: v.__class__ = Val
Experiment(triples).run(sys.argv[2], quiet=True, processes=1, maxchunksperchild=0)
''' % (REPO, VERIF))
    rng = ctx.rng
    try:
        for _ in range(k):
            case = gen_exp(rng); case["fail"] = []
            if len(case["rows"]) < 2: continue
            ext = ".log.gz" if case["gz"] else ".log"
            path = os.path.join(work, "c02_kill_%d%s" % (os.getpid(), ext)); cf = path + ".case.json"
            for f in (path, path + ".tmp"):
                if os.path.exists(f): os.remove(f)
            json.dump(dict(case, rows=[[list(t), r] for t, r in case["rows"]]), open(cf, "w"))
            stop_at = rng.randrange(1, len(case["rows"]))
            desc = dict(gz=case["gz"], triples=[list(t) for t, _ in case["rows"]], killed_while_evaluating=stop_at, real_kill=True)
            p = subprocess.Popen([sys.executable, "-W", "ignore", script, cf, path, str(stop_at)], stdout=subprocess.PIPE, stderr=subprocess.DEVNULL, text=True, env=dict(os.environ, PYTHONHASHSEED="0"))
            line = p.stdout.readline()
            p.send_signal(signal.SIGKILL); p.wait()
            ctx.count("kill:%s" % ("gz" if case["gz"] else "plain"), repr(desc), True)
            if "READY" not in line: ctx.fail(["resume", "kill-layer"], "the child did not reach the kill point", desc); continue
            try:
                before = ikeys(read_records(path)) if os.path.exists(path) else []
                ref, _ = run_exp(case, None)
                t, calls = run_exp(case, path)
            except Exception as e:
                ctx.fail(["resume", "unusable", "after-kill", errname(e)], "after a SIGKILL while evaluating triple #%d resuming raised %s: %s" % (stop_at, errname(e), str(e)[:100]), desc); continue
            if not c07.same(t, ref): ctx.fail(["resume", "result-differs", "after-kill"], "after a SIGKILL: %s" % c07.first_diff(t, ref), desc); continue
            if len(before) < stop_at - sum(1 for _, r in case["rows"][:stop_at] if not r):
                ctx.fail(["resume", "flushed-records-lost"], "killed while evaluating triple #%d but only %d evaluations were on disk" % (stop_at, len(before)), desc)
            again = sorted(set(calls) & set(before))
            if again:
                zero = {tuple(t) for t, r in case["rows"] if not r}      # the listed open finding (evaluations without rows are repeated) shows here as well
                ctx.fail(["resume", "re-evaluated"] + (["zero-rows"] if all(k in zero for k in again) else []) + ["after-kill"], "triples %s were on disk and evaluated again" % again, desc)
            for f in (path, cf):
                if os.path.exists(f): os.remove(f)
    finally:
        import glob
        for f in [script] + glob.glob(os.path.join(work, "c02_kill_%d*" % os.getpid())):
            if os.path.exists(f): os.remove(f)

def run(ctx):
    from coba.context import CobaContext, NullLogger
    old = CobaContext.logger; CobaContext.logger = NullLogger()
    tmp = tempfile.mkdtemp(prefix="c02_", dir=os.path.join(VERIF, ".work"))
    reqs, metas = [], []
    try:
        corpus = dict(env_params=[{"e": 0}, {"e": 1}], lrn_params=[{"l": 0}, {"l": 1}], val_params=[{}], gz=False, restored=False, fail=[], style="learner-major",
                      rows=[((0, 0, 0), [{"x": 1}]), ((1, 0, 0), [{"x": 2}]), ((0, 1, 0), []), ((1, 1, 0), [{"x": 4}])])
        for gz in (False, True):
            c = dict(corpus, gz=gz); check_exp(ctx, c, tmp, 6, ctx.tier == "thorough" or ctx.escalated, reqs, metas)
        # an evaluator whose rows carry a column named like a key column
        check_exp(ctx, dict(corpus, rows=[(t, [dict(r, learner_id=5, environment_id=6) for r in rs]) for t, rs in corpus["rows"]]), tmp, 4, False, reqs, metas)
        # a long log (more than a thousand records): resuming rewrites the complete records through a sink of its own
        big = dict(env_params=[{"e": i} for i in range(36)], lrn_params=[{"l": i} for i in range(30)], val_params=[{}], gz=ctx.seed % 2 == 1, restored=False, fail=[], style="product",
                   rows=[((e, l, 0), [{"x": e * 100 + l}]) for e in range(36) for l in range(30)])
        check_exp(ctx, big, tmp, 0, False, reqs, metas, cut_fractions=[(1.0, 0), (1.0, -1), (0.97, 0)])
        for i in range(ctx.n(8, 60)):
            if len(ctx.failures) >= 25: break
            check_exp(ctx, gen_exp(ctx.rng), tmp, ctx.n(6, 12), (ctx.tier == "thorough" or ctx.escalated) and i < 6, reqs, metas)
        for (desc, evaluated, zero, lenient), mo in zip(metas, ctx.get_model().batch(reqs)):
            m = set(mo) - set(zero); ev = set(evaluated) - set(zero)
            if (lenient and not m <= ev) or (not lenient and not ev <= m): ctx.disagree("C02.todo", dict(desc, reading="lenient" if lenient else "strict"), sorted(ev), sorted(m))
        kill_layer(ctx, ctx.n(3, 12))
    finally:
        CobaContext.logger = old
        shutil.rmtree(tmp, ignore_errors=True)

def replay(r):
    return "case: the experiment shape (triples, rows per triple, gz), the byte position of the cut (and of a second cut); build the experiment with harness.c07.build, run it to a file, cut the file, run again"
