"""Writes MANIFEST.json from the per-property metadata below (keeps it schema-valid)."""
import json, os, sys
from harness import common
PROPS = [json.loads(l) for l in open(os.path.join(common.VERIF, "properties.jsonl"))]
CLAIMED = {
 "C05": dict(text="Coq theorems (C05/Props.v) over the LCG kernel regenerated from coba/random.py: the step is a bijection of [0,2^30) and depends on the seed mod 2^30; "
                  "range contracts of random/randint/randints, shuffle is a permutation consuming n-1 draws, weighted choice returns a positive-weight member, "
                  "gauss is always defined, independence of any number of interleaved instances (frame theorem) - for every state and argument. "
                  "Tied to the code by the translator (constants, step, randint expression, comparison operator, re-draw flag, static no-globals scan) and by operation-sequence "
                  "correspondence of the extracted model against coba.random, plus bit-exact PrimFloat cases for random(min,max).",
            note="Trusted: Coq kernel, vm_compute, the ast translator, ExtrOcamlBasic extraction + driver, harness. gauss VALUES (libm) are not modelled, only draw bookkeeping/definedness. "
                 "binary64 random(min,max) is proved only as refuted at the top state (known finding) and exact-rational in general; floats for integer/half-integer bounds are exact and compared exactly.",
            technique="Coq proof over translator-generated kernel + extracted-model correspondence", design="§5 C05"),
 "C20": dict(text="Coq theorem pows_full (C20/Props.v): for any number of features, any degree and any multiplication (numbers or key concatenation) level d of the modelled _pows "
                  "is exactly the products of all combinations with replacement, once each, in lexicographic order (induction with the offsets invariant), cross is the full outer product. "
                  "The offsets update the source uses is recognised by the translator; the whole of encode (dense, sparse, string-valued, scalar, None and absent namespaces, constants) is tied by "
                  "correspondence with the extracted model and checked against an independent itertools oracle.",
            note="Trusted: Coq kernel, translator (textual recognition of the _pows loop, fail closed), extraction+driver, harness. encode's namespace normalisation (make_dict/handle_str) and dict overwrite semantics are modelled/tied by correspondence only; values are exact integers (binary64 rounding not modelled).",
            technique="Coq proof (induction, offsets invariant) + translator flag + extracted-model correspondence", design="§5 C20"),
 "C17": dict(text="Coq theorems (C17/Props.v): indexed_query_eq_full_scan - for ANY table (any data incl. Missing cells and duplicates), ANY index column list and ANY keyword condition (= != < <= > >= in !in), the rows selected through the index after Table.index, "
                  "in order and multiplicity, are exactly the rows a full scan of the re-ordered column selects. It composes index_establishes_the_invariant (by induction over the index levels: each level sorts positions inside the current runs, refines the runs by "
                  "equal values, later levels do not move earlier columns; index only permutes rows) with where_on_invariant_eq_scan (the runs of every level chain-partition the table; per run bisect_eq_scan: bisect ranges on a sorted segment = scan; "
                  "my_bisect shortcuts sound incl. the empty range; sorted(set(arg)) sorted/distinct/same members). Further: where_with_several_conditions_is_the_union (several keyword conditions select every row satisfying at least one, once, in table order); "
                  "invariant_is_lexicographic_order (the level-by-level invariant holds exactly when the rows are lexicographically sorted by their index key); views_keep_the_invariant + where_of_where_is_the_conjunction "
                  "(a where on the result of a where selects exactly the rows satisfying both, in table order); groupby_partitions_by_index_prefix (the groups chain-partition the rows and two rows share a group exactly when they agree on the "
                  "first `level` index columns). Insert (rows, ragged dicts), index, where/where-of-where, groupby and copy are tied by operation-sequence correspondence with the extracted model "
                  "and checked against an independent list-of-rows oracle (permutation + lexicographic sortedness for index, partition for groupby).",
            note="Trusted: Coq kernel, extraction+driver, harness. CPython bisect/sorted are modelled by their specifications (stable insertion sort); View index arithmetic is modelled as the table of selected rows (refinement) and tied by correspondence; "
                 "insert (rows, ragged dicts) and copy have no theorem of their own (correspondence + oracle); the theorems about views assume the index columns exist and are pairwise distinct. 'match'/callables: oracle only. Two open findings (stale index after insert, copy shares column lists) "
                 "are exactly the situations in which the invariant's hypothesis fails.",
            technique="Coq proof (index invariant by induction over levels = lexicographic order, sorted-segment interval lemmas, chain partition of runs, views as increasing selections) + extracted-model op-sequence correspondence", design="§5 C17"),
 "C09": dict(text="Coq theorems (C09/Props.v) over a position model of the filters: Shuffle and Riffle are permutations, Sort is a stable ordering (permutation + sorted + equal keys keep input order), "
                  "Slice positions, Reservoir yields min(n,N) distinct in-range positions for ANY skip lengths (strict: n or nothing), Where's peek of max+1 interactions decides the range exactly "
                  "(theorem over the generated _in_min_max and peek flag), Batch then Unbatch is the identity. Tied to the code by the translator and by position-recovery correspondence "
                  "(unique ids, content equality) on generated interaction lists, incl. abandoned-read histories for Cache.",
            note="Trusted: Coq kernel, translator (textual recognition of Where.filter statements), extraction+driver, harness. Reservoir's skip lengths (libm log/pow) are supplied to the model by the harness; "
                 "Take/Cache/Chunk/Params/Identity are modelled by definition (prefix/identity) and tied by correspondence only; CPython sorted() stability is trusted.",
            technique="Coq proof over position model + translator + extracted-model correspondence", design="§5 C09"),
 "C11": dict(text="Coq theorems (C11/Props.v) over an exact-rational model of Scale and Impute: min/max are members and bounds of the fitting window, min/minmax maps the window into [0,1], "
                  "Scale changes exactly the numeric cells of scaled columns to (x+shift)*scale using the first `using` rows and nothing else, Impute changes no non-missing value, fills missing "
                  "values with the window statistic and appends the same number of indicator cells to every row; scale_sparse_applies / impute_sparse_spec state the same entry by entry for sparse contexts (a row that does not hold a key counts as 0 in its column; "
                  "keys outside the window or non-numeric in the first row are left alone; no entry is added, dropped or re-keyed). Dense and sparse variants are tied by correspondence of the extracted model "
                  "with the code; an independent Fraction oracle covers scalar contexts, std, Environments.impute/scale and filter objects reused on other data.",
            note="Trusted: Coq kernel, extraction+driver, harness (tolerance 1e-9 between exact rationals and binary64). std (sqrt) and scalar contexts are oracle-only. NaN inputs are not generated.",
            technique="Coq proof over exact-rational model + extracted-model correspondence + Fraction oracle", design="§5 C11"),
 "C18": dict(text="Coq theorems (C18/Props.v): moving_average's sliding/prefix accumulations equal the sums of the last min(span,i+1) / first i+1 entries (for numerators and weights); moving_average_is_textbook: for EVERY span (None, the span=1 shortcut, below/at/above the length) and with or without explicit weights, "
                  "entry i times the window's weight sum equals the window's weighted value sum times the denominator (the textbook quotient, cross-multiplied); exponential_moving_average_closed_form: weights='exp' gives sum r^(i-j) v_j / sum r^(i-j), r = 1-2/(1+span), in exact rationals; "
                  "where_fin(l,p) keeps exactly the pairing groups with one evaluation per level (iff), its result is closed under its own levels, where_fin(n=k,l,p) yields equal-length complete groups, "
                  "'min' truncates to the minimum. The extracted model is compared with Result.where_fin / moving_average on generated Results; a naive recomputation oracle covers table consistency, "
                  "unchanged values, raw_learners averages and where/where_fin/where_best chains.",
            note="Trusted: Coq kernel, extraction+driver, harness. The Table/View machinery, _remove and _grouped_ys are not modelled here (end-to-end comparison only); the 'exp' closed form is over exact rationals (binary64 rounding compared with tolerance 1e-9); "
                 "raw_learners and where_best are oracle-only; span=0 is outside the property as read (division by zero by construction).",
            technique="Coq proof (pigeonhole on levels, prefix-sum algebra) + extracted-model correspondence + recomputation oracle", design="§5 C18"),
 "C13": dict(text="Coq theorem lazy_eq_eager (C13/Props.v): for every well-formed pipeline of HeadRows / EncodeRows / DropRows (by position and name) / LabelRows.feats stages and every dense row, iteration, "
                  "length, positional access, header-name access and .headers of the lazy view (a record of access functions built exactly as the wrapper classes build them) equal the eager list computation - "
                  "a representation invariant proved stage by stage, by induction over the pipeline; feats/label split; load-once rows are transparent under any access sequence. "
                  "Sparse rows (sparse_views_are_dictionaries, sparse_stage_semantics): every stack of EncodeSparse / DropSparse / HeadSparse / LabelSparse wrappers over a dict reads like ONE dictionary - keys() without repeats, "
                  "__getitem__ defined exactly on keys(), items() exactly the graph of __getitem__ with each key once, len() the number of keys - and each stage is the eager dict operation (encode with the not-sparse default, drop, rename, "
                  "label default 0; feats never hold the label key). Both models' views are compared with the real classes on generated tables, pipelines and shuffled access sequences (incl. partial iteration); "
                  "an eager oracle also covers LazySparse/LazyDense rows as the ARFF reader builds them.",
            note="Trusted: Coq kernel, extraction+driver, harness. LazySparse/LazyDense missing-value handling, EncodeCatRows and row predicates are oracle-only (no theorem); the model's encoders are a four-constructor family and the sparse model's header maps are the renamings k -> k+shift; "
                 "keys outside the eager table (negative positions, dropped names) are outside the property.",
            technique="Coq proof (representation invariant over access-function records) + extracted-model correspondence + eager oracle", design="§5 C13"),
 "C14": dict(text="Coq theorems (C14/Props.v): the action set is the sorted set of distinct labels (sorted, duplicate-free, exactly the labels of the data); classification reward is 1 at the label and 0 elsewhere, the label is offered, "
                  "hence it is the unique best action; regression reward is -|a-y| with its maximum exactly at y; the multi-label reward of a single-label action is the Jaccard overlap; one interaction per example. "
                  "The extracted model is compared with SupervisedSimulation on (X,Y) sets; a recomputation oracle checks context = features without label, actions, rewards, count, order and determinism end-to-end for "
                  "CSV, ARFF, LibSVM and Manik sources, label by index/header, c/r/m/inferred types (explicit type first), with and without take.",
            note="Trusted: Coq kernel, extraction+driver, harness. The readers (C12), LabelRows/feats (C13) and Reservoir (C09) are used as they are; labels are mapped to integer ranks for the model; with take the label set is the sample's; tensor actions are not covered.",
            technique="Coq proof over reward/action model + extracted-model correspondence + end-to-end recomputation oracle", design="§5 C14"),
 "C15": dict(text="Coq theorems (C15/Props.v) over a model of SafeLearner's non-batched parser (has_kwargs, first_row, pred_format, _parse_pred) on a value universe with object identity (ints/strings interned, floats/sequences/dicts tagged): "
                  "round trips parse(enc_F x) = x for (action,prob), bare action (scalars, vectors, sparse mappings), the dict-hinted forms, each with and without kwargs, and bare PMFs (the action is CobaRandom.choicew's draw, with that entry's probability, "
                  "positive by C05) - under explicit guards on the action set; the guard on pair-valued actions is shown necessary by a refuting example. The extracted model is compared with SafeLearner on a systematic grid; "
                  "a scripted recording learner is the oracle for batched row-/column-major calls, kwargs hand-back to learn and SequentialCB's seeding.",
            note="Trusted: Coq kernel, extraction+driver, harness (identity bookkeeping: small ints and strings are treated as interned, other objects are identified by the harness). Batched parsing, batch_order's probing call and the per-row fallback are oracle-only. "
                 "One open finding (column-major batch of bare PMFs over a single action).",
            technique="Coq proof (case analysis over a value universe with identity) + extracted-model correspondence + scripted-learner oracle", design="§5 C15"),
 "C16": dict(text="Coq theorems (C16/Props.v) over exact-rational models of the policies: for EVERY internal state (value estimates, counts, confidence values - hence after every history) the PMFs of Random, BanditEpsilon, "
                  "BanditUCB and Corral are valid distributions (entries >= 0, exact sum 1, one entry per action); Corral's log-barrier step below the first pole keeps every weight strictly positive and the gamma-smoothing keeps a positive distribution; "
                  "predict draws an in-range index whose probability is positive (C05). The models are compared with the learners' own _pmf on generated histories (changing action sets, on-policy and logged feedback); "
                  "a validity/consistency oracle (action offered, probability = score, scores sum to 1, learn never raises, Corral weights positive) runs after every round.",
            note="Trusted: Coq kernel, extraction+driver, harness. UCB's bonus (sqrt/log) is taken from the learner; Corral's root search is not modelled - its multiplier is recovered from the result and checked to explain every weight; "
                 "that the search always ends and picks a root below the first pole is searched (stress histories), not proved (partial). Fixed needs action sets of its PMF's length.",
            technique="Coq proof (exact-rational policy models, state-independent validity) + extracted-model correspondence + per-round oracle", design="§5 C16"),
 "C10": dict(text="Coq theorems (C10/Props.v), polymorphic in the action types: for ANY representation change f that keeps the offered actions pairwise distinct, the re-keyed reward function DiscreteReward(map f A, map r A) gives f(A_i) exactly r(A_i) "
                  "for every old reward function r; BinaryReward re-keyed through the position of its argmax agrees on all offered actions; the logged action keeps its position; compositions stay injective; one-hot encoding is injective; "
                  "a reward function that is not re-keyed returns 0 (the former Sparsify/Densify defect). The extracted model predicts the new reward vector from the equality classes of the implementation's old and new actions; "
                  "a before/after oracle compares rewards, feedbacks and the logged action for every representation filter and random type-compatible chains.",
            note="Trusted: Coq kernel, extraction+driver, harness. The encoders (EncodeCatRows, pipes.Flatten, _make_sparse, _make_dense) are not modelled: their injectivity on each generated action set is a checked precondition (hash collisions and noise collisions are skipped); "
                 "Batch/Unbatch is covered by C09; reward noise is excluded by design.",
            technique="Coq proof (polymorphic re-keying lemma) + extracted-model correspondence + before/after oracle", design="§5 C10"),
 "C04": dict(text="Coq theorems (C04/Props.v) over the generator state machine of pipes.Cache (behind cache(), chunk(), materialize()): for EVERY history of complete reads and reads abandoned after k items on one object, "
                  "every read returns exactly the prefix of the source it consumed and a complete read returns the source (invariant cache ++ rest = source, induction over the slice-pulling loop and over the history); "
                  "marking the cache complete on a dropped read loses data (refuted example = the seeded change); logged_shuffle_reads_do_not_interfere - for ANY sequence of reads starting, overlapping, finishing or being dropped on one logged Shuffle every read uses the same altered seed and the filter's seed never changes (the seed-swapping code is refuted). The Cache model is compared with "
                  "the real class under counted upstream reads; random pipelines over every public source kind are read under random histories (full, partial, suspended-overlapping, sibling reads, params, pickle, materialize, save/from_save) and compared with a "
                  "freshly built twin, with deep snapshots of caller data and of learner objects passed to logged(); every environment of a multi-environment chain is also read alone, after its siblings, and pickled.",
            note="Trusted: Coq kernel, extraction+driver, harness. Only Cache and the logged Shuffle are modelled as state machines; every other filter is treated as a pure function of its input (justified by C05's independence theorem "
                 "and checked by the twin oracle, not proved). 'Reading never modifies caller data' is snapshot-checked only (aliasing is not in the model).",
            technique="Coq proof (generator state machine invariant) + extracted-model correspondence + twin-pipeline oracle", design="§5 C04"),
 "C06": dict(text="Coq theorems (C06/Props.v): required_sound - over the definitions regenerated on every run from SequentialCB._required and _results.should_pred, for every mode of the finite domain "
                  "learn x eval x has_score x record flags (vm_compute lifted by forallb_forall) each field the evaluation loop dereferences is demanded by _required (a source edit that lets the loop predict without 'actions' breaks the proof); "
                  "on_policy_step / off_policy_step / one_row_per_interaction - the trace and rows of the loop over an abstract learner; and, over ModelLoop.step - one iteration of _results for EVERY mode learn in {None,on,off,ips} x eval in {None,on,ips} with an explicit learner state - "
                  "learn_on_teaches_the_learners_own_choice, learn_ips_teaches_the_ips_reward, learn_off_teaches_the_logged_triple, learn_none_never_teaches, recorded_reward (eval on / ips), recorded_reward_by_score, one_row_per_interaction_in_every_mode and ips_transform "
                  "(logged reward / logged probability for the logged action, 0 elsewhere, a missing or zero probability counting as 1); the extracted loop is run with a scripted learner against the real evaluator's call trace and rows on every mode. A recording learner and generated environments check the real evaluator for every learn x eval x record "
                  "subset x field subset, batched (per-row fallback) or not, against the environment data, incl. the IPS transform and rejection of environments lacking needed fields.",
            note="Trusted: Coq kernel, translator (boolean fragment over mode codes, fails closed), extraction+driver, harness. The loop model covers un-batched interactions with all fields present (batched runs and rejection of incomplete environments are decided by the oracle); SafeLearner (C15), OpeRewards, BatchSafe/Unbatch and Finalize are used as they are; "
                 "dr/dm need vowpalwabbit and are outside the property; a missing logged probability counts as 1 (by the code's own design).",
            technique="Coq proof over translator-generated mode flags (finite sweep) and an executable model of the evaluation loop + extracted-model trace correspondence + recording-learner oracle", design="§5 C06"),
 "C19": dict(text="Coq theorems (C19/Props.v) over an interleaving model of ConcurrentCacher: for ANY number of callers, ANY lists of get_set/rmv operations on equal or colliding keys, ANY schedule (lists of caller ids, at the granularity of the atomic lock "
                  "blocks, getter steps and inner-cache operations) and getters that fail, the counter invariant (arr=-1 iff one writer and no reader; arr=r>=0 iff r readers and no writer; an entry is Writing iff exactly one getter runs) is inductive and so holds in every "
                  "reachable state; corollaries: no partial read, writers exclusive, all locks released when everybody has finished, no deadlock (some caller can always make a non-spinning step), single flight, a failed getter leaves no entry; "
                  "no_caller_waits_for_ever: a potential mu (8 per pending operation) is lowered by every non-spinning step, every round that schedules each caller at least once contains such a step while somebody is unfinished, "
                  "so under ANY scheduler that keeps scheduling everybody all callers have finished after at most mu rounds, whatever the getters do. "
                  "A deterministic scheduler (injected lock object and shared array, patched sleep, pausing getters) drives the real class through random and - in the thorough tier - exhaustive schedules which are replayed in the extracted model; "
                  "a monitor in the instrumented inner cache checks the property on the implementation; real DiskCacher files are cut at every byte.",
            note="Trusted: Coq kernel, extraction+driver, the scheduler harness (threads + Condition). One slot of the lock table is modelled (all keys collide - the hard case); processes are represented by threads in the scheduled co-simulation (a two-process run through CobaMultiprocessor and the cross-interpreter slot law cover what threads cannot); termination is proved for schedulers that serve every caller in every round (an OS scheduler that starves a caller for ever is outside); "
                 "nested get_set on colliding keys is excluded by the property; the inner cache follows MemoryCacher's visibility (an entry being written is not yet contained).",
            technique="Coq proof (inductive invariant over interleavings) + scheduled co-simulation with the extracted model + runtime monitor", design="§5 C19"),
 "C07": dict(text="Coq theorems (C07/Props.v): pack_unpack - for ANY rows with heterogeneous key sets (at least one field), packing column-wise with sorted keys and None for absent cells and unpacking again yields as many rows, numbered 1..N in the order yielded, "
                  "each with exactly the yielded cell (or None) for every key of the evaluation; minimize_error_bound / minimize_keeps_integers - the 5-decimal normalisation is within half a unit of the fifth decimal and exact on whole numbers (exact rationals). "
                  "Stub environments/learners/evaluators push generated rows and params (ragged keys incl. 1 vs '1', nested list/tuple/dict, None, NaN/inf, unicode/newline/surrogate strings, reward objects) through real Experiment.run calls: "
                  "tables vs the documented normalisation, file == no-file == Result.from_file, plain/.gz, fresh/restored, and runs cut short by an interrupt or an un-encodable row (evaluations completed before the fault must be present in all three).",
            note="Trusted: Coq kernel, extraction+driver, harness (matcher for the documented normalisation). json/gzip and Table.insert (C17) are used as they are; minimize's binary64 rounding is compared with the exact-rational model up to near-ties; "
                 "registered reward objects are expected back as the JSON form coba.json gives them; field names are str/int and distinct after str() within a row. Open finding: an evaluation whose rows all have no fields reads back with zero rows.",
            technique="Coq proof (pack/unpack round trip by induction, rational rounding bound) + extracted-model correspondence + end-to-end normalisation oracle on real runs", design="§5 C07"),
 "C12": dict(text="Coq theorems (C12/Props.v): delim_chunk_invariant - for ANY cutting of a text into pieces (empty ones, a CR LF pair cut in two, pieces ending in any of CPython's line boundaries) DelimSource's re-assembly equals splitlines of the whole text "
                  "(inductive invariant relating the pending line / CR flag to a character automaton); utf8_chunk_invariant - grouping bytes into characters with one decoder state carried across chunks is chunking-independent (per-chunk decoding refuted); "
                  "disk_roundtrip - CR/LF-free lines written by DiskSink in any batching are read back identically; split_join, libsvm_roundtrip - the LibSVM/Manik grammar parses what the printer wrote; csv_roundtrip - the csv automaton parses RFC-4180 minimal quoting back to the cells; arff_dense_line_roundtrip - the csv automaton with ArffLineReader's dialect (one quote character, backslash escapes, doublequote off, skipinitialspace on) parses a data line written the Weka/OpenML way back to its values; "
                  "arff_sparse_line_roundtrip - the steps of ArffLineReader._sparse (strip, drop braces, split at commas, key/value split at white space, re-joining the pieces of a quoted value while _unclosed judges it open, unquote, _unescape), "
                  "modelled step by step, read a sparse line written the Weka way back to its pairs for values over any characters; "
                  "arff_nominal_levels_roundtrip - the level list of a nominal attribute, split at commas with the separators kept, quoted levels re-joined while unclosed, stripped, unquoted, unescaped (ArffAttrReader._split), reads levels written the Weka way back; "
                  "source_constants - the separators/terminators/strip sets and the decoder shape are those the translator extracted from the source on this run. Extracted models are compared with DelimSource, _byte_it_ (identity/gzip/deflate, chunk sizes 1-40), "
                  "DiskSink/DiskSource (plain/.gz), LibsvmReader/ManikReader and CsvReader; a table oracle compares printed tables with the parsed rows for LibSVM, Manik, CSV and ARFF dense/sparse in the Weka/OpenML dialect and in variant spellings (same table or an error).",
            note="PARTIAL for ARFF: dense data lines with one quote character and sparse data lines have models and theorems (compared with Python's csv module under the reader's dialect and with ArffLineReader); of the header parser only the nominal level list is modelled (attribute names and types are split by the same routine with a white-space pattern, which is not); the dialect detection, the fallback parser for mixed quote styles and the encoders have no Gallina model and are decided by the table oracle only. Trusted: Coq kernel, translator (statement templates, fails closed), extraction+driver, harness printers "
                 "(Weka quoting, RFC-4180), zlib/gzip, the codec's code-point arithmetic, Python's csv module (re-implemented for one dialect and compared), int()/float(). A line handed to DiskSink contains no CR/LF; an embedded CSV line break reads back as \\n. "
                 "Open findings: a quoted '?' value reads as missing; tab separated ARFF with a comma inside a quoted value can be misread.",
            technique="Coq proof (automaton invariants, round-trip inductions) over translator-checked constants + extracted-model correspondence + printed-table oracle", design="§5 C12"),
 "C08": dict(text="Coq theorems (C08/Props.v) over an interleaving model of Multiprocessor.filter - consumer, loader thread, loader callback, n worker lineages of successive incarnations and their completion callbacks, bounded input queue, output queue, pills, "
                  "maxtasksperchild, filter errors after any prefix of an item's outputs, early abandon - for ANY n>=1, m>=0, item list and schedule: an inductive invariant of 21 clauses (Inv') gives exactly_once (a call that returns has yielded exactly the "
                  "multiset of all outputs), error_never_dropped, maxtasksperchild_bound, at_most_one_output_pill, no_deadlock (while the consumer has not finished some actor can move - normal, error and abandon paths) and every_move_decreases_mu "
                  "(a potential bounds the number of moves: no schedule moves for ever). A baton scheduler drives the real Multiprocessor.filter with fakes for Queue/Event/Pipe/process start+join only (coba's loader, worker, callback and consumer code runs unchanged) through "
                  "random and - thorough - exhaustive schedules; every step's queue lengths, n_procs, exception count and yielded count are compared with the extracted model, and a whole fair round without progress is reported as a hang. Real spawn-process runs are a smoke layer.",
            note="Trusted: Coq kernel, extraction+driver, the scheduler harness and its fakes. Modelled not verified: real process start/exit codes, multiprocessing.Queue's pipes and feeder threads (FIFO, atomic put/get assumed), pickling. Completion callbacks are atomic steps; "
                 "all workers start in the consumer's first step. 'Never hangs' = no_deadlock + the decreasing potential, i.e. termination under any scheduler that lets some enabled actor move; OS-level starvation and killed processes are outside. "
                 "Open finding: a filter output None is mistaken for the output pill.",
            technique="Coq proof (inductive invariant over interleavings, deadlock freedom, termination measure) + scheduled co-simulation of the real class with the extracted model + real-process smoke runs", design="§5 C08"),
 "C01": dict(text="Coq theorems (C01/Props.v over Exp/Model.v): configuration_independence - for ANY deterministic evaluation function, ANY triples (objects shared in any pattern) and ANY two ways of cutting ANY permutations of MakeTasks' tasks into groups "
                  "evaluated one after the other on freshly unpickled objects (in-process = one group; workers = one group per chunk, any arrival order) the same rows are recorded for the same triples; rows_functional; ids_injective; source_shape "
                  "(the copy rule, id assignment, materialisation and per-task handler are the ones the translator found in process.py on this run). The real MakeTasks/ChunkTasks/ProcessTasks run on stub components for every maxtasksperchunk, "
                  "in-process and with pickled chunks, and are compared with the extracted model; spec-built real experiments (chunk()/cache() prefixes, shuffle fan-out, logged data, built-in and stateful user learners, SequentialCB/RejectionCB/function evaluators) "
                  "run under seven (processes, maxchunksperchild, maxtasksperchunk) configurations with real worker processes, and twice in a row: the four tables must be identical, timing columns aside.",
            note="The evaluation itself is an abstract deterministic function of (environment, learner state, evaluator): that the built-in components are such functions (C04/C05/C06/C15) and that no per-process global state leaks between tasks "
                 "is decided by the differential real runs, not by the theorem. 'Every OS schedule of the workers' enters the model as 'any grouping and any arrival order'; C07 gives the id-sorted table building, C08 exactly-once delivery. Trusted: Coq kernel, translator, extraction+driver, harness.",
            technique="Coq proof (permutation/grouping invariance by induction with a freshness invariant) over translator-checked source shape + extracted-model correspondence + differential real runs across configurations", design="§5 C01"),
 "C03": dict(text="Coq theorems (C03/Props.v over Exp/Model.v): isolation - for ANY deterministic evaluation function, ANY learner objects and ANY list of triples (shared objects, duplicates), however a permutation of the tasks is cut into groups "
                  "evaluated on the same objects, a row set is recorded for a triple exactly when that triple evaluated alone on pristine objects completes, and it is that row set (invariant: every learner a remaining task will touch is still pristine, "
                  "from MakeTasks' copy rule); failing_triple_loses_only_its_rows; source_shape (translator). Real MakeTasks/ChunkTasks/ProcessTasks on stub components vs the extracted model and vs each triple alone (incl. failing evaluations, "
                  "shared learners left pristine); real experiments with shared stateful learners, batched and unbatched environments and components failing in params / k-th read / predict / learn, every triple also run alone in a fresh worker process.",
            note="As C01: the evaluation is abstract; deepcopy/pickle fidelity, class-level caches and other per-process state are observed by the real runs only. 'Reported in the log' is not checked. Trusted: Coq kernel, translator, extraction+driver, harness.",
            technique="Coq proof (freshness invariant over arbitrary task orders and groupings) over translator-checked source shape + extracted-model correspondence + alone-vs-together oracle on real runs", design="§5 C03"),
 "C02": dict(text="Coq theorems (C02/Props.v): torn_record_is_harmless - for ANY record texts (newline-free, non-empty, parsing to their record, not parsing when truncated), ANY complete records on disk and ANY cut through the line being written the "
                  "tolerant decoder returns exactly the complete records (plus the cut one iff only its newline is missing); resume_exactly_the_missing_work - after ANY sequence of killed runs (each restoring the complete records and appending ANY prefix "
                  "of ANY order of the missing records) a run that finishes repeats no recorded task and leaves every task exactly once; interrupted_logs_stay_valid. Real experiments are run to a result file (plain and .gz; some evaluations fail in the "
                  "first run; learner-major and shuffled tuple lists), the file is cut at record boundaries, their neighbours and random bytes (thorough: every byte), resumed - some cut and resumed twice, some with maxtasksperchunk - and compared with "
                  "the uninterrupted run: tables, re-evaluated triples, duplicate records, readability of the cut and of the final file; the re-evaluated set is bracketed by the extracted model's todo; a real SIGKILL layer kills a child interpreter mid-run.",
            note="Trusted: Coq kernel, extraction+driver, harness. The byte theorem's hypotheses about JSON texts and the treatment of a torn gzip member as a torn line are assumptions checked on every generated log, not proved; os.replace atomicity is trusted. "
                 "A kill is represented by its effect (a byte prefix) except in the SIGKILL layer. Record payloads are functions of the task (C01). Open finding: an evaluation with zero rows is repeated on resume.",
            technique="Coq proof (line framing under truncation, resume as list induction over arbitrary kill histories) + byte-cut resume oracle on real runs + extracted-model correspondence + real SIGKILL runs", design="§5 C02"),
}
NA_REASON = "check not built yet in this revision (planned, see DESIGN.md §8); no claim is made"
def main():
    checks = []
    for p in PROPS:
        pid = p["id"]
        if pid not in CLAIMED: continue
        c = CLAIMED[pid]
        checks.append(dict(property_id=pid, quick_cmd="./check %s --tier quick" % pid, thorough_cmd="./check %s --tier thorough" % pid,
                           evidence_file="evidence/%s.json" % pid, replay_cmd_template="./check %s --replay {path}" % pid, engine="coq-proof",
                           level_claimed=dict(category="proof", text=c["text"], design_ref=c["design"]), level_note=c["note"], technique=c["technique"]))
    man = dict(version=1, setup_cmd="./setup.sh",
               hooks=dict(guard="COBA_VERIF", enable="no hooks: checks import /repo's working tree directly (PYTHONPATH=/repo)", baseline_off_cmd="./tools_baseline.sh", source_commits=[], add_only=True),
               engines=[dict(name="coq-proof", path="check", serves_properties=sorted(CLAIMED), kind_free_text="Coq 8.16.1 theorems over Gallina models; translator + extracted-model correspondence against /repo")],
               checks=checks,
               notes="fix: commits in /repo are listed in known_findings.json (status fixed).",
               not_applicable=[dict(property_id=p["id"], reason=NA_REASON) for p in PROPS if p["id"] not in CLAIMED])
    json.dump(man, open(os.path.join(common.VERIF, "MANIFEST.json"), "w"), indent=1)
    try:
        import jsonschema
        jsonschema.validate(man, json.load(open("/root/.vp/MANIFEST.schema.json")))
        print("manifest valid;", len(checks), "checks")
    except ImportError:
        print("manifest written (jsonschema not available here)")
if __name__ == "__main__": main()
