"""C15 — SafeLearner prediction formats: systematic grid (format x action kind x |A| x batching x kwargs) with a scripted learner;
oracle = what the learner intended vs what predict returned / learn received; model correspondence for the non-batched parser."""
import itertools, copy
from fractions import Fraction as Fr
from .common import *
from . import c05

LEVEL_TEXT = ("Coq theorems (C15/Props.v) over a model of SafeLearner's non-batched parser on a value universe with object identity: round trips parse(enc_F x) = x for the formats action, (action,prob), PMF and the three "
              "dict-hinted forms, with and without kwargs, under explicit guards on the action set; refuted examples for the action kinds the guards exclude. The model is compared with SafeLearner on a systematic grid; "
              "a scripted recording learner gives the oracle for batched (row/column major, square case, per-row fallback) calls.")
TRUSTED = ["Coq 8.16.1 kernel (coqc)", "extraction + ocaml/driver.ml", "harness/c15.py (grid, scripted learner, identity bookkeeping)",
           "modelled not verified: CPython object identity (small ints and strings are interned, other objects are identified by the harness), CobaRandom.choicew (C05 model reused), batched parsing (oracle only)"]
ASSUMPTIONS = ["learners use one format consistently and return the offered action objects themselves", "PMFs sum to 1 exactly in binary64 (dyadic entries)"]
RULE = "systematic grid: format x action kind x |A| in 1..4 x batch in {none,1,2,|A|,|A|+1} x major order x kwargs in {none, scalar, per-row}; every grid point is distinct; non-trivial = |A| >= 2"

def fingerprints():
    return fingerprint_defs('coba/safety.py', ['SafeLearner'])

# ------------------------------------------------------------------ action kinds
def action_sets():
    sets = {}
    for n in (1, 2, 3, 4):
        sets[("int01", n)] = list(range(n))                       # contains 0 and 1
        sets[("int", n)] = list(range(2, 2 + n))
        sets[("int0x", n)] = ([0] + list(range(2, 1 + n)))[:n]          # contains 0 but not 1
        sets[("intx1", n)] = (list(range(2, 1 + n)) + [1])[:n] if n > 1 else [1]   # contains 1 but not 0
        sets[("problike", n)] = [0.25, 0.5, 0.125, 0.75][:n]
        sets[("str1", n)] = ["a", "b", "c", "d"][:n]
        sets[("str2", n)] = ["aa", "bb", "cc", "dd"][:n]
        sets[("str3", n)] = ["abc", "bcd", "cde", "def"][:n]
        sets[("onehot", n)] = [tuple(1 if i == j else 0 for j in range(n)) for i in range(n)]
        sets[("tuple3", n)] = [(i, i + 1, i + 2) for i in range(5, 5 + n)]
        sets[("list2", n)] = [[i, i + 10] for i in range(5, 5 + n)]
        sets[("dict3", n)] = [{"x": i, "y": 1, "z": 2} for i in range(n)]
        sets[("dict2", n)] = [{"x": i, "y": 1} for i in range(n)]
        sets[("dict1", n)] = [{"x": i + 1} for i in range(n)]
    return sets

FORMATS = ["A", "AP", "PMF", "PMFint", "dA", "dAP", "dPMF"]

class Scripted:
    """answers predict in one format; records what it was offered and what learn receives"""
    def __init__(self, fmt, kw, order, batched_ok=True):
        self.fmt, self.kw, self.order, self.batched_ok = fmt, kw, order, batched_ok
        self.calls = []; self.learned = []; self.intended = []
    def one(self, actions, r):
        n = len(actions)
        i = r % n
        # probabilities are computed at run time: a learner's numbers are fresh objects, never the offered action objects
        half = float("0.5"); quarter = float("0.25"); one = float("1"); zero = float("0")
        if self.fmt in ("A", "dA"): core = actions[i]; self.intended.append(("A", i, None))
        elif self.fmt in ("AP", "dAP"): core = (actions[i], quarter); self.intended.append(("AP", i, 0.25))
        elif self.fmt == "PMFint":
            pmf = [0] * n; pmf[i] = 1          # a greedy learner's one-hot PMF of plain ints
            core = pmf; self.intended.append(("PMF", list(pmf), None))
        elif self.fmt in ("PMF", "dPMF"):
            pmf = [float("0") for _ in range(n)]; pmf[i] = one
            if n >= 2: pmf[i] = float("0.5"); pmf[(i + 1) % n] = float("0.5")
            core = pmf; self.intended.append(("PMF", list(pmf), None))
        if self.fmt == "dA": core = {"action": core}
        if self.fmt == "dAP": core = {"action_prob": core}
        if self.fmt == "dPMF": core = {"pmf": core}
        return core
    def predict(self, context, actions):
        from coba.primitives import is_batch
        if is_batch(actions) or is_batch(context):
            if not self.batched_ok: raise Exception("no batches here")
            B = len(actions)
            rows = [self.one(actions[b], b) for b in range(B)]
            kws = {"k": [("kw", b) for b in range(B)]} if self.kw else None
            if self.kw == 2: kws["j"] = [("j", 2 * b) for b in range(B)]      # two keys: the collation must keep the columns apart
            rowkw = lambda b: ({"k": ("kw", b), "j": ("j", 2 * b)} if self.kw == 2 else {"k": ("kw", b)})
            if self.order == "row":
                return [(r if not self.kw else ((r, rowkw(b)) if self.fmt not in ("AP",) else (r[0], r[1], rowkw(b)))) for b, r in enumerate(rows)]
            # column major
            if self.fmt in ("dA", "dAP", "dPMF"):
                key = {"dA": "action", "dAP": "action_prob", "dPMF": "pmf"}[self.fmt]
                col = {key: [list(r.values())[0] for r in rows]}
                return col if not self.kw else (col, kws)
            if self.fmt == "AP":
                col = ([r[0] for r in rows], [r[1] for r in rows])
                return col if not self.kw else (col[0], col[1], kws)
            if self.fmt == "A":
                return rows if not self.kw else (rows, kws)
            # PMF / PMFint column major: one column per action
            n = len(rows[0]); col = [[r[j] for r in rows] for j in range(n)]
            return col if not self.kw else tuple(col) + (kws,)
        self.calls.append(1)
        r = self.one(actions, len(self.calls) - 1)
        self.offered = actions
        payload = {} if self.kw == 3 else {"k": ("kw", 0)}      # kw == 3: the learner uses the kwargs form but has nothing to pass on this call
        if not self.kw: out = r
        elif self.fmt == "AP": out = (r[0], r[1], payload)
        else: out = (r, payload)
        self.last_pred = out
        return out
    def learn(self, context, action, reward, probability, **kwargs):
        self.learned.append((action, probability, kwargs))

# ---- wire encoding of values with identity (model correspondence, non-batched)
class Enc15:
    KEYS = {"action": 1, "action_prob": 2, "pmf": 3}
    def __init__(self, offered):
        self.offered = offered; self.fresh = 5000; self.strs = {}; self.keys = dict(self.KEYS)
    def s(self, x): return self.strs.setdefault(x, len(self.strs) + 1)
    def k(self, x): return self.keys.setdefault(x, 10 + len(self.keys))
    def ident(self, v):
        for i, a in enumerate(self.offered):
            if v is a: return 100 + i
        self.fresh += 1; return self.fresh
    def enc(self, v):
        if v is None: return [0]
        if isinstance(v, bool): return [1, int(v)]
        if isinstance(v, int): return [1, v]
        if isinstance(v, str): return [2, self.s(v)]
        if isinstance(v, float): return [3, self.ident(v), s_q(Fr(v))]
        if isinstance(v, (list, tuple)): return [4, self.ident(v), [self.enc(x) for x in v]]
        if isinstance(v, dict): return [5, self.ident(v), [[self.k(kk), self.enc(x)] for kk, x in v.items()]]
        raise TypeError(v)
    def dec(self, m):
        t = m[0]
        if t == 0: return None
        if t == 1: return m[1]
        if t == 2: return {v: k for k, v in self.strs.items()}[m[1]]
        if t == 3: return self.offered[m[1] - 100] if 100 <= m[1] < 1000 else float(un_q(m[2]))
        if t == 4: return self.offered[m[1] - 100] if 100 <= m[1] < 1000 else [self.dec(x) for x in m[2]]
        if t == 5: return self.offered[m[1] - 100] if 100 <= m[1] < 1000 else {{v: k for k, v in self.keys.items()}[kk]: self.dec(x) for kk, x in m[2]}

def expect_one(intended, actions, rng_state_draw):
    kind = intended[0]
    if kind == "A": return actions[intended[1]], None
    if kind == "AP": return actions[intended[1]], intended[2]
    return None, None   # PMF: decided by the draw

def run_point(ctx, kind, n, acts, fmt, kw, batch, order, model_reqs):
    from coba.safety import SafeLearner
    from coba.environments.filters import Batch
    seed = 3
    lrn = Scripted(fmt, kw, order)
    safe = SafeLearner(lrn, seed)
    case = dict(action_kind=kind, n_actions=n, actions=repr(acts), format=fmt, kwargs=kw, batch=batch, order=order)
    ctx.count("grid:%s:%s" % (fmt, "batched" if batch else "single"), repr(case), n >= 2)
    try:
        if batch is None:
            a, p, kws = safe.predict(None, acts)
            got = [(a, p, kws)]
            B = 1
        else:
            B = batch
            A = Batch.List([copy.copy(acts) for _ in range(B)]); X = Batch.List([None] * B)
            a, p, kws = safe.predict(X, A)
            got = [(a[b], p[b], {k: v[b] for k, v in kws.items()}) for b in range(B)]
    except Exception as e:
        if batch is None and hasattr(lrn, "last_pred"):
            en = Enc15(lrn.offered); model_reqs.append((dict(case), en, ("EXC", errname(e)), [[en.enc(a) for a in lrn.offered], en.enc(lrn.last_pred), seed]))
        sig = ["predict", "raises", errname(e), kind if kind in ("dict1", "dict2", "onehot", "tuple3", "list2") and n == 1 or kind in ("dict1", "dict2") else "other", fmt]
        if kind == "onehot" and n == 1: sig = ["predict", "raises", errname(e), "len1-action", fmt]
        if fmt in ("PMF", "PMFint") and n == 1 and order == "col" and batch: sig = ["predict", "pmf-col-single-action"]
        ctx.fail(sig, "predict raised %s: %s on %s" % (errname(e), str(e)[:90], case), case); return
    import coba.random as cr
    rng = cr.CobaRandom(seed)
    for b, (a, p, kws) in enumerate(got):
        it = lrn.intended[b] if b < len(lrn.intended) else None
        if it is None: ctx.fail(["predict", "bookkeeping"], "no intention recorded for row %d on %s" % (b, case), case); return
        if it[0] == "PMF":
            ea, ep = rng.choicew(acts, it[1])
        else:
            ea, ep = expect_one(it, acts, None)
        ekw = ({"k": ("kw", b if batch is not None else 0)} if kw and kw != 3 else {})
        if kw == 2: ekw["j"] = ("j", 2 * b)
        member = any(a is x or (type(a) == type(x) and a == x) for x in acts) or any(a == x for x in acts)
        if not member:
            ctx.fail(["predict", "not-an-offered-action", fmt, kind], "returned action %r is not one of %r on %s" % (a, acts, case), case); return
        if a != ea or (p != ep) or dict(kws) != ekw:
            ctx.fail(["predict", "pmf-col-single-action"] if (fmt in ("PMF", "PMFint") and n == 1 and order == "col" and batch) else ["predict", "wrong", fmt, kind, "n=%d" % n, "batched" if batch else "single"], "predict -> (%r,%r,%r), the learner named (%r,%r,%r) on %s" % (a, p, kws, ea, ep, ekw, case), case); return
    # kwargs come back to learn unchanged
    try:
        if batch is None: safe.learn(None, got[0][0], 1.0, got[0][1], **got[0][2])
        else: safe.learn(Batch.List([None] * B), Batch.List([g[0] for g in got]), Batch.List([1.0] * B), Batch.List([g[1] for g in got]), **{k: Batch.List([g[2][k] for g in got]) for k in got[0][2]})
    except Exception as e:
        ctx.fail(["learn", "raises", errname(e), fmt], "learn raised %s: %s on %s" % (errname(e), str(e)[:90], case), case); return
    if kw and kw != 3 and lrn.learned:
        rec = lrn.learned[0][2]
        if "k" not in rec: ctx.fail(["learn", "kwargs-lost"], "learn received kwargs %r on %s" % (rec, case), case); return
        if kw == 2 and batch is not None:
            want = {"k": [("kw", b) for b in range(B)], "j": [("j", 2 * b) for b in range(B)]}
            if {k: list(v) for k, v in rec.items()} != want: ctx.fail(["learn", "kwargs-changed"], "learn received kwargs %r, predict returned %r on %s" % (rec, want, case), case); return
    ctx.sample(dict(case=case, result=repr(got)[:200]), cap=6)
    if batch is None:
        en = Enc15(lrn.offered); model_reqs.append((dict(case), en, got[0], [[en.enc(a) for a in lrn.offered], en.enc(lrn.last_pred), seed]))

def inexact_pmf_law(ctx):
    """a bare PMF computed in single precision or rounded to four decimals sums to one only approximately; it is still a PMF: the action is drawn from it with the
    SafeLearner's seed and exactly its entry is reported (single calls, row- and column-major batches)"""
    import struct
    import coba.random as cr
    from coba.safety import SafeLearner
    from coba.environments.filters import Batch
    f32 = lambda x: struct.unpack("f", struct.pack("f", x))[0]
    class P:
        def __init__(self, pmfs, order): self.pmfs, self.order, self.t = pmfs, order, 0
        def predict(self, context, actions):
            from coba.primitives import is_batch
            if is_batch(actions):
                rows = [list(self.pmfs[(self.t + b) % len(self.pmfs)]) for b in range(len(actions))]; self.t += len(actions)
                return rows if self.order == "row" else [[r[j] for r in rows] for j in range(len(rows[0]))]
            self.t += 1; return list(self.pmfs[(self.t - 1) % len(self.pmfs)])
        def learn(self, *a, **k): pass
    for acts in (["a", "b", "c"], [2, 3, 4, 5, 6, 7, 8], [(1, 0, 0), (0, 1, 0), (0, 0, 1)], ["a", "b"]):
        n = len(acts)
        for name, pmfs in (("rounded", [[round(1 / n, 4)] * n, [round(0.5 + 1 / 3, 4) - 0.3333] + [round(0.5 / (n - 1), 4)] * (n - 1)]),
                           ("float32", [[f32(1 / n)] * n, [f32(x / sum(range(1, n + 1))) for x in range(1, n + 1)]])):
            if any(abs(sum(p) - 1) > 5e-4 for p in pmfs): continue
            for batch, order in ((None, None), (2, "row"), (2, "col"), (3, "row"), (3, "col")):
                if batch == n: continue      # the square case needs hints (outside this law)
                case = dict(what="a PMF that sums to one approximately", kind=name, actions=repr(acts), pmfs=pmfs, sums=[sum(p) for p in pmfs], batch=batch, order=order)
                ctx.count("inexact-pmf:%s:%s" % (name, "batched" if batch else "single"), repr(case), True)
                seed = 5; safe = SafeLearner(P(pmfs, order), seed); rng = cr.CobaRandom(seed); got, exp = [], []
                try:
                    for step in range(3):
                        if batch is None:
                            a, p, _ = safe.predict(None, acts); got.append((a, p)); exp.append(rng.choicew(acts, pmfs[step % len(pmfs)]))
                        else:
                            a, p, _ = safe.predict(Batch.List([None] * batch), Batch.List([list(acts) for _ in range(batch)]))
                            got += list(zip(a, p)); exp += [rng.choicew(acts, pmfs[(step * batch + b) % len(pmfs)]) for b in range(batch)]
                except Exception as e:
                    ctx.fail(["predict", "raises", errname(e), "inexact-pmf", name], "predict raised %s: %s on %s" % (errname(e), str(e)[:90], case), case); continue
                if [(a, p) for a, p in got] != [(a, p) for a, p in exp]:
                    ctx.fail(["predict", "wrong", "inexact-pmf", name], "predict -> %r, drawing from the PMFs with seed %d gives %r on %s" % (got[:4], seed, exp[:4], case), case)

def inplace_law(ctx):
    """the caller keeps ONE list of actions and edits it in place between calls: the learner is shown, and answers from, the current set"""
    from coba.safety import SafeLearner
    class Seen:
        def __init__(self): self.seen = []
        def predict(self, context, actions): self.seen.append(list(actions)); return actions[-1], 1.0
        def learn(self, *a, **k): pass
    for first, then in (([0, 1, 2, 3, 4, 5], [0, 1]), ([0, 1], [0, 1, 2]), ([1, 5, 7], [5, 1]), ([2, 3, 4], [3]), (["a", 0], ["b", 0, 1])):
        case = dict(what="one action list edited in place", first=first, then=then)
        ctx.count("inplace", repr(case), True)
        try:
            lrn = Seen(); safe = SafeLearner(lrn, 1)
            A = list(first); safe.predict(None, A)
            A[:] = then
            a, p, _ = safe.predict(None, A)
        except Exception as e:
            ctx.fail(["inplace", "raises", errname(e)], "raised %s: %s on %s" % (errname(e), str(e)[:100], case), case); continue
        if lrn.seen[-1] != then or a != then[-1]:
            ctx.fail(["inplace", "stale-actions"], "after the list was edited in place to %r the learner was shown %r and the evaluator received %r" % (then, lrn.seen[-1], a), case)

def mixed_batch_law(ctx):
    """a learner whose predict understands batches while its learn takes one interaction at a time (or the other way round): each method is called the way it understands"""
    from coba.safety import SafeLearner
    from coba.primitives import is_batch
    from coba.environments.filters import Batch
    class Mixed:
        def __init__(self, pb, lb): self.pb, self.lb, self.learned, self.pcalls = pb, lb, [], 0
        def predict(self, context, actions):
            self.pcalls += 1
            if is_batch(actions):
                if not self.pb: raise Exception("predict takes one interaction")
                return [(A[0], 1.0) for A in actions]
            return actions[0], 1.0
        def learn(self, context, action, reward, probability, **kw):
            if is_batch(action) or is_batch(reward):
                if not self.lb: raise Exception("learn takes one interaction")
                self.learned += list(zip(action, reward, probability))
            else: self.learned.append((action, reward, probability))
    for pb, lb in ((True, False), (False, True), (True, True), (False, False)):
        for B in (1, 2, 3):
            case = dict(what="mixed batching", predict_batched=pb, learn_batched=lb, batch=B)
            ctx.count("mixed-batch", repr(case), True)
            A = Batch.List([[10 + b, 20 + b, 30 + b] for b in range(B)]); X = Batch.List([None] * B)
            try:
                lrn = Mixed(pb, lb); safe = SafeLearner(lrn, 1)
                a, p, kw = safe.predict(X, A)
                safe.learn(X, Batch.List(a), Batch.List([0.5] * B), Batch.List(p), **kw)
            except Exception as e:
                ctx.fail(["mixed-batch", "raises", errname(e)], "raised %s: %s on %s" % (errname(e), str(e)[:100], case), case); continue
            if list(a) != [10 + b for b in range(B)] or lrn.learned != [(10 + b, 0.5, 1.0) for b in range(B)]:
                ctx.fail(["mixed-batch", "wrong"], "predict gave %r, learn received %r on %s" % (list(a), lrn.learned, case), case)

def mapping_kwargs_law(ctx):
    """kwargs are a Mapping: a dict, a read-only proxy, a UserDict or a Mapping class of the learner's own are understood alike and handed back to learn"""
    import types, collections
    from coba.safety import SafeLearner
    class MyMap(collections.abc.Mapping):
        def __init__(self, d): self.d = d
        def __getitem__(self, k): return self.d[k]
        def __iter__(self): return iter(self.d)
        def __len__(self): return len(self.d)
    makers = {"dict": dict, "proxy": lambda d: types.MappingProxyType(dict(d)), "UserDict": collections.UserDict, "Mapping": MyMap, "OrderedDict": collections.OrderedDict}
    acts = [7, 8, 9]
    for mk_name, mk in makers.items():
        for form in ("A+kw", "AP+kw", "PMF+kw"):
            case = dict(what="kwargs mapping type", mapping=mk_name, format=form)
            ctx.count("kwargs-mapping", repr(case), True)
            class L:
                def __init__(self): self.got = None
                def predict(self, context, actions):
                    payload = mk({"tag": 5})
                    if form == "A+kw": return actions[1], payload
                    if form == "AP+kw": return actions[1], 0.25, payload
                    return [0.0, 1.0, 0.0], payload
                def learn(self, context, action, reward, probability, **kw): self.got = (action, probability, kw)
            try:
                lrn = L(); safe = SafeLearner(lrn, 1)
                a, p, kw = safe.predict(None, acts)
                safe.learn(None, a, 1.0, p, **kw)
            except Exception as e:
                ctx.fail(["kwargs-mapping", "raises", errname(e)], "raised %s: %s on %s" % (errname(e), str(e)[:100], case), case); continue
            ep = None if form == "A+kw" else 0.25 if form == "AP+kw" else 1.0
            if a != 8 or p != ep or dict(kw) != {"tag": 5} or lrn.got != (8, ep, {"tag": 5}):
                ctx.fail(["kwargs-mapping", "wrong"], "predict -> (%r, %r, %r), learn received %r; the learner named action 8, probability %r and kwargs {'tag': 5} on %s" % (a, p, dict(kw) if hasattr(kw, "keys") else kw, lrn.got, ep, case), case)

def run(ctx):
    from coba.context import CobaContext, NullLogger
    CobaContext.logger = NullLogger()
    inplace_law(ctx)
    inexact_pmf_law(ctx)
    mixed_batch_law(ctx)
    mapping_kwargs_law(ctx)
    sets = action_sets()
    pts = []
    for (kind, n), acts in sets.items():
        for fmt in FORMATS:
            pts.append((kind, n, acts, fmt, 3, None, "not"))      # an empty kwargs mapping on an un-batched call
            for kw in (False, True):
                pts.append((kind, n, acts, fmt, kw, None, "not"))
                for batch in (1, 2, n, n + 1):
                    for order in ("row", "col"):
                        pts.append((kind, n, acts, fmt, kw, batch, order))
                        if kw and batch >= 2: pts.append((kind, n, acts, fmt, 2, batch, order))
    if ctx.tier == "quick" and not ctx.escalated:
        ctx.rng.shuffle(pts); pts = [p for p in pts if p[5] is None] + [p for p in pts if p[5] is not None][:1200]
    model_reqs = []
    for p in pts: run_point(ctx, *p, model_reqs)
    check_evaluator_seed(ctx)
    check_evaluator_stated(ctx)
    mouts = ctx.get_model().batch([(15, r[3]) for r in model_reqs])
    for (case, en, got, _), mo in zip(model_reqs, mouts):
        if mo[0] == 1: m = ("EXC", mo[1])
        else:
            kw = en.dec(mo[3]) or {}
            m = (en.dec(mo[1]), un_opt(mo[2], en.dec), {k: (tuple(v) if isinstance(v, list) else v) for k, v in kw.items()})
        if (got[0] == "EXC") != (m[0] == "EXC") or (got[0] != "EXC" and (got[0] != m[0] or got[1] != m[1] or dict(got[2]) != m[2])):
            ctx.disagree("C15.parse", case, repr(got)[:200], repr(m)[:200])

def check_evaluator_seed(ctx):
    """drawn from the PMF reproducibly from the seed: SequentialCB(seed=s) plays exactly CobaRandom(s).choicew's actions, whatever the ambient experiment seed is"""
    from coba.evaluators import SequentialCB
    from coba.context import CobaContext
    import coba.random as cr
    class PmfLearner:
        def predict(self, context, actions): return [float("0.25"), float("0.25"), float("0.5")]
        def learn(self, *a, **k): pass
    class Env:
        params = {}
        def read(self): return [{"context": None, "actions": ["a", "b", "c"], "rewards": [1, 2, 3]} for _ in range(12)]
    old = CobaContext.store.get("experiment_seed")
    try:
        for amb in (None, 11):
            if amb is None: CobaContext.store.pop("experiment_seed", None)
            else: CobaContext.store["experiment_seed"] = amb
            for seed in (0, 0.0, 1, 7):
                case = dict(evaluator_seed=seed, experiment_seed=amb); ctx.count("evaluator-seed", repr(case), True)
                rows = list(SequentialCB(["action", "reward", "probability"], seed=seed).evaluate(Env(), PmfLearner()))
                rng = cr.CobaRandom(seed)
                exp = [rng.choicew(["a", "b", "c"], [0.25, 0.25, 0.5]) for _ in range(12)]
                if [(r["action"], r["probability"]) for r in rows] != exp:
                    ctx.fail(["evaluator-seed", "not-from-seed"], "SequentialCB(seed=%r) played %s, CobaRandom(%r).choicew gives %s (experiment_seed=%r)" % (seed, [r["action"] for r in rows], seed, [e[0] for e in exp], amb), case)
    finally:
        if old is None: CobaContext.store.pop("experiment_seed", None)
        else: CobaContext.store["experiment_seed"] = old

def check_evaluator_stated(ctx):
    """the evaluator receives the probability the learner stated: through SequentialCB every row records, and learn is handed, exactly the stated action and
    probability - also a stated probability of exactly 0 or 0.0 - for the (a,p), (a,p,kwargs) and {'action_prob':...} forms, un-batched and batched"""
    from coba.evaluators import SequentialCB
    probs = [0.5, 0, 0.25, 0.0, 1.0, 0.125]
    class Stated:
        def __init__(self, form): self.form, self.t, self.learned = form, 0, []
        def predict(self, context, actions):
            from coba.primitives import is_batch
            if is_batch(actions): return [self.row(c, A) for c, A in zip(context, actions)]
            return self.row(context, actions)
        def row(self, t, actions):      # the answer depends on the interaction only (SafeLearner may probe a batched learner twice)
            p = probs[t % len(probs)]; a = actions[t % len(actions)]
            return (a, p) if self.form == "AP" else (a, p, {"k": t}) if self.form == "AP+kw" else {"action_prob": (a, p)}
        def learn(self, context, action, reward, probability, **kw):
            if isinstance(action, (list, tuple)): self.learned += list(zip(action, probability))      # (the actions of this law are strings)
            else: self.learned.append((action, probability))
    class Env:
        params = {}
        def __init__(self, batch): self.batch = batch
        def read(self):
            from coba.environments.filters import Batch
            rows = [{"context": t, "actions": ["a", "b", "c"], "rewards": [1, 2, 3]} for t in range(12)]
            return list(Batch(self.batch).filter(rows)) if self.batch else rows
    for form in ("AP", "AP+kw", "dAP"):
        for batch in (None, 2):
            if batch and form == "AP+kw": continue
            case = dict(what="stated probabilities through SequentialCB", form=form, batch=batch, probabilities=probs); ctx.count("evaluator-stated:%s" % form, repr(case), True)
            lrn = Stated(form)
            try: rows = list(SequentialCB(["action", "reward", "probability"]).evaluate(Env(batch), lrn))
            except Exception as e:
                ctx.fail(["evaluator-stated", "raises", errname(e)], "SequentialCB raised %s: %s on %s" % (errname(e), str(e)[:100], case), case); continue
            exp = [(["a", "b", "c"][t % 3], probs[t % len(probs)]) for t in range(12)]
            got = [(r.get("action"), r.get("probability", "<no probability recorded>")) for r in rows]
            if got != exp: ctx.fail(["evaluator-stated", "row-differs", form], "the rows record %r, the learner stated %r on %s" % (got[:6], exp[:6], case), case); continue
            if lrn.learned != exp: ctx.fail(["evaluator-stated", "learn-differs", form], "learn received %r, the learner stated %r on %s" % (lrn.learned[:6], exp[:6], case), case)

def replay(r):
    print(json.dumps(r, indent=1, default=str)[:3000]); return 0
