"""C08 — Multiprocessor: a deterministic scheduler drives the real Multiprocessor.filter (queues, events, processes and threads replaced
from outside by baton-scheduled fakes; coba's own worker/loader/callback code runs unchanged) and the schedule is replayed in the extracted model."""
import copy, json, os, queue as pyqueue, subprocess, sys, threading, time
from collections import Counter
from .common import *

LEVEL_TEXT = ("Coq theorems (C08/Props.v) over an interleaving model of Multiprocessor.filter (consumer, loader thread, loader callback, n worker lineages of successive incarnations, their completion callbacks; "
              "bounded input queue, output queue, poison pills, maxtasksperchild, filter errors after any prefix of an item's outputs, early abandon): for ANY n >= 1, m >= 0, item list and schedule an inductive invariant gives "
              "exactly_once (a call that returns has yielded exactly the multiset of all outputs), error_surfaces (a filter error on a taken item makes the call raise), worker_bound (no incarnation takes more than m items), "
              "one_out_pill, and no_deadlock (while the consumer has not finished some actor can move). The real class is driven through random - thorough: exhaustive small - schedules by fakes for the queues/events/processes "
              "and compared step by step with the extracted model; real spawn-process runs are a smoke layer.")
TRUSTED = ["Coq 8.16.1 kernel (coqc)", "extraction + ocaml/driver.ml", "harness/c08.py (baton scheduler, fake Queue/Event/Pipe/process-as-thread, observation of queue lengths and counters)",
           "modelled not verified: real process start/exit, pipes and feeder threads of multiprocessing.Queue (FIFO, atomic put/get assumed), pickling; completion-callback bodies are atomic steps (statement-level interleavings of two "
           "callbacks can at worst add a second output pill); all workers are started in the consumer's first step; termination under fairness is argued from no_deadlock plus finiteness, the measure is not proved"]
ASSUMPTIONS = ["items are picklable and the item stream itself does not raise", "worker processes exit with code 0 (a missing __main__ guard or a kill is outside the model)", "outputs are not None (None is the pill of the output queue: listed finding)",
               "abandoning happens after at least one output"]
RULE = ("n in 1..3, m in 0..3, 1..7 items with 0..3 outputs each, raising subsets (error kinds incl. ValueError, KeyError, AssertionError, EOFError) after any prefix of the outputs, abandon after 1..k outputs or never; "
        "random schedules with a fair tail; thorough: all schedules up to a depth for n=2; non-trivial = at least 2 items and 2 processes or a restart")

def fingerprints():
    d = {}
    for rel, quals in (('coba/pipes/multiprocessing.py', ['Multiprocessor.filter', 'MyProcessLine', 'Stopper', 'Foreach', 'Safe.filter', 'Pickler.filter', 'Unpickler.filter', 'EventSetter']),
                       ('coba/pipes/lines.py', ['ProcessLine', 'ThreadLine', 'SourceSink.run']), ('coba/pipes/sources.py', ['QueueSource.read']), ('coba/pipes/sinks.py', ['QueueSink.write']),
                       ('coba/pipes/filters.py', ['Slice.filter']), ('coba/multiprocessing.py', ['CobaMultiprocessor.filter'])):
        d.update(fingerprint_defs(rel, quals))
    return d

EXC = {"ValueError": ValueError, "KeyError": KeyError, "RuntimeError": RuntimeError, "AssertionError": AssertionError, "EOFError": EOFError, "BrokenPipeError": BrokenPipeError,
       "TypeError": TypeError, "UnicodeError": UnicodeError, "ZeroDivisionError": ZeroDivisionError}

class TableFilter:
    """item j -> its outputs, then possibly an error (as a generator: the error comes after the outputs)"""
    def __init__(self, table): self.table = table
    def filter(self, item):
        if isinstance(item, list): item = item[0]      # a recycled buffer: the caller re-fills one list object for every item
        outs, raises, kind = self.table[item]
        for o in outs: yield o
        if raises and kind == "EXIT":      # the worker process dies without reporting (real-process layer only)
            import os; os._exit(3)
        if raises: raise EXC[kind]("filter error on item %d" % item)

# ------------------------------------------------------------------ the baton scheduler
class _Abort(SystemExit): pass
TL = threading.local()

class Sched:
    def __init__(self):
        self.cv = threading.Condition()
        self.parked = {}          # actor -> ticket (object) of the thread waiting there
        self.go = None            # ticket allowed to run
        self.running = 0          # threads that are neither parked nor finished
        self.abort = False
        self.progress = False
    def spawned(self):
        with self.cv: self.running += 1
    def finished(self):
        with self.cv:
            self.running -= 1; self.cv.notify_all()
    def park(self, actor):
        """called by a controlled thread at a control point; returns when the scheduler grants the actor a step"""
        ticket = object()
        with self.cv:
            self.parked[actor] = ticket
            self.running -= 1; self.cv.notify_all()
            while self.go is not ticket and not self.abort: self.cv.wait()
            if self.abort: raise _Abort()
            self.go = None; self.running += 1
    def grant(self, actor, timeout=20):
        with self.cv:
            t = self.parked.pop(actor, None)
            if t is None: return False
            self.go = t; self.cv.notify_all()
            end = time.time() + timeout
            while (self.go is not None or self.running > 0):
                left = end - time.time()
                if left <= 0: raise TimeoutError("actor %r did not reach a control point" % (actor,))
                self.cv.wait(left)
            return True
    def settle(self, timeout=20):
        with self.cv:
            end = time.time() + timeout
            while self.running > 0:
                if end - time.time() <= 0: raise TimeoutError("threads did not settle")
                self.cv.wait(end - time.time())
    def shutdown(self):
        with self.cv:
            self.abort = True; self.cv.notify_all()

class CtlThread(threading.Thread):
    """stand-in for threading.Thread inside coba.pipes.lines: registers with the scheduler"""
    sched = None
    def __init__(self, target=None, daemon=None, actor=None, **kw):
        super().__init__(daemon=True); self._t, self._actor, self._sched = target, actor, CtlThread.sched
        self._inherit = getattr(TL, "lineage", None)
    def start(self):
        self._sched.spawned(); super().start()
    def run(self):
        TL.lineage = self._inherit; TL.actor = self._actor; TL.sched = self._sched
        try: self._t()
        except _Abort: pass
        finally: self._sched.finished()

class FakeQueue:
    def __init__(self, sched, maxsize=0): self.s, self.max, self.items = sched, maxsize, []
    def __deepcopy__(self, memo): return self
    def qsize(self): return len(self.items)
    def empty(self): return not self.items
    def full(self): return bool(self.max) and len(self.items) >= self.max
    def put_nowait(self, x):
        if self.full(): raise pyqueue.Full()
        self.items.append(x); self.s.progress = True
    def join_thread(self): pass
    def cancel_join_thread(self): pass
    def put(self, x):
        actor = getattr(TL, "actor", None)
        if actor is not None and actor[0] in ("L", "LC", "W"):
            while True:
                self.s.park(actor)
                if self.max and len(self.items) >= self.max: continue      # full: the step is a no-op
                break
        self.items.append(x); self.s.progress = True
    def get(self):
        actor = TL.actor
        while True:
            self.s.park(actor)
            if self.items: self.s.progress = True; return self.items.pop(0)
    def get_nowait(self):
        if not self.items: raise pyqueue.Empty()
        return self.items.pop(0)
    def close(self): pass

class FakeEvent:
    """a real event: the consumer waits on it (without giving up its step) until the first worker, started in the same step, has set it"""
    def __init__(self): self.e = threading.Event()
    def __deepcopy__(self, memo): return self
    def set(self): self.e.set()
    def is_set(self): return self.e.is_set()
    def wait(self, timeout=None):
        if not self.e.wait(20): raise RuntimeError("harness: event.wait() was never released")
        return True

class FakeConn:
    def __init__(self, box): self.box, self.closed = box, False
    def send(self, x): self.box.append(x)
    def poll(self): return bool(self.box)
    def recv(self): return self.box.pop(0)
    def close(self): self.closed = True
    def __deepcopy__(self, memo): return self

class FakeCtx:
    def __init__(self, sched): self.s = sched
    def Queue(self, maxsize=0): return FakeQueue(self.s, maxsize)
    def Event(self): return FakeEvent()
    def Pipe(self, duplex=False):
        box = []; return FakeConn(box), FakeConn(box)

class _MtShim:
    Lock = staticmethod(threading.Lock)
    Thread = CtlThread

class Patches:
    """swap the concurrency primitives coba's modules look up at call time; coba's own code (Multiprocessor.filter, MyProcessLine.start/run,
    ProcessLine.start/run/join/_get_result, ThreadLine.start/run, QueueSource, QueueSink, Slice, Foreach, Safe, Stopper) runs unchanged"""
    def __init__(self, sched): self.s = sched
    def __enter__(self):
        import multiprocessing.process as mpp, coba.pipes.lines as L, coba.pipes.multiprocessing as M
        s = self.s; self.saved = []
        def sv(obj, name, val): self.saved.append((obj, name, getattr(obj, name))); setattr(obj, name, val)
        CtlThread.sched = s
        counter = [0]
        def p_start(proc):
            lin = getattr(TL, "lineage", None)
            if lin is None: lin = counter[0]; counter[0] += 1
            proc._lineage = lin; proc._done = False
            def child():
                TL.lineage = lin
                c = copy.copy(proc); c._line = copy.deepcopy(proc._line)      # the child works on its own copy, as a spawned process does
                try: c.run()
                finally: proc._done = True
            proc._thread = CtlThread(target=child, actor=("W", lin)); proc._thread.start()
        def p_join(proc, timeout=None):
            lin = proc._lineage; TL.lineage = lin; TL.actor = ("C", lin)
            while True:
                s.park(("C", lin))
                if proc._done: s.progress = True; return
        sv(mpp.BaseProcess, "start", p_start); sv(mpp.BaseProcess, "join", p_join)
        sv(mpp.BaseProcess, "is_alive", lambda proc: not proc._done); sv(mpp.BaseProcess, "exitcode", property(lambda proc: 0 if proc._done else None))
        sv(mpp.BaseProcess, "pid", property(lambda proc: 1000 + proc._lineage))
        sv(L, "spawn_context", FakeCtx(s)); sv(L, "mt", _MtShim); sv(M, "spawn_context", FakeCtx(s))
        RealTL = M.ThreadLine
        class CtlThreadLine(RealTL):
            def start(tl):
                s.spawned(); tl._done = False; RealTL.start(tl)
            def run(tl):
                TL.actor = ("L",); TL.sched = s
                try: RealTL.run(tl)
                except _Abort: pass
                finally:
                    tl._done = True; s.finished()
            def join(tl, timeout=None):
                TL.actor = ("LC",)
                while True:
                    s.park(("LC",))
                    if tl._done: s.progress = True; return
        sv(M, "ThreadLine", CtlThreadLine)
        return self
    def __exit__(self, *a):
        for obj, name, val in reversed(self.saved): setattr(obj, name, val)

ACT = {0: ("K",), 1: ("L",), 2: ("LC",)}
def actor_of(code): return ACT[code] if code < 3 else (("W", (code - 3) // 2) if (code - 3) % 2 == 0 else ("C", (code - 4) // 2))

def run_impl(n, m, ab, table, nitems, schedule, tail_rounds=400, recycled=False, prelude=None, items=None):
    """returns (observations per step, schedule actually used, result)"""
    from coba.pipes.multiprocessing import Multiprocessor
    s = Sched()
    result, ys, holder = {}, [], {}
    def consumer():
        TL.actor = ("K",)
        try:
            mp = Multiprocessor(TableFilter(table), n, m); holder["mp"] = mp
            s.park(("K",))
            if prelude is not None:      # an earlier call on the same Multiprocessor object (it may have failed)
                try:
                    for _ in mp.filter(list(prelude)): pass
                except _Abort: raise
                except Exception: pass
            def refilled():      # a lazy stream that hands out ONE buffer object, re-filled in place for every item
                buf = [None]
                for j in range(nitems): buf[0] = j; yield buf
            gen = mp.filter(refilled() if recycled else list(items) if items is not None else list(range(nitems)))
            for y in gen:
                ys.append(y)
                if ab is not None and len(ys) == ab:
                    s.park(("K",)); gen.close(); result["r"] = ("abandoned",); return
            result["r"] = ("returned",)
        except _Abort: raise
        except Exception as e:
            result["r"] = ("raised", type(e).__name__, str(e))
    obs, used = [], []
    def observe():
        mp = holder.get("mp"); inq = holder.get("inq"); outq = holder.get("outq")
        return [len(inq.items) if inq else 0, len(outq.items) if outq else 0, getattr(mp, "_n_procs", n), len(getattr(mp, "_exceptions", [])), len(ys), None]
    with Patches(s):
        import coba.pipes.multiprocessing as M
        made = []
        real_queue = M.spawn_context.Queue
        def q(maxsize=0):
            fq = real_queue(maxsize); made.append(fq)
            if len(made) % 2 == 1: holder["inq"] = fq
            else: holder["outq"] = fq
            return fq
        M.spawn_context.Queue = q
        CtlThread.sched = s
        kt = CtlThread(target=consumer, actor=("K",)); kt.start(); s.settle()
        def kcode():
            r = result.get("r")
            if r is None: return 1 if "inq" in holder else 0
            return {"returned": 2, "raised": 3, "abandoned": 4}[r[0]]
        def one(code):
            s.progress = False
            s.grant(actor_of(code))
            o = observe(); o[5] = kcode(); obs.append(o); used.append(code)
            return s.progress
        try:
            for code in schedule:
                if "r" in result: break
                one(code)
            # fair tail: round-robin over every actor until the consumer has finished or a whole round passes without progress
            codes = [0, 1, 2] + [c for i in range(n) for c in (3 + 2 * i, 4 + 2 * i)]
            rounds, hang = 0, False
            while "r" not in result and rounds < tail_rounds:
                moved = False
                for code in codes:
                    if "r" in result: break
                    moved = one(code) or moved
                rounds += 1
                if not moved and "r" not in result: hang = True; break
            if "r" not in result: result["r"] = ("hang",) if hang else ("unfinished",)
        finally:
            s.shutdown()
    return obs, used, result["r"], list(ys)

# ------------------------------------------------------------------ cases
def gen_case(rng):
    n = rng.choice([1, 2, 2, 3]); m = rng.choice([0, 1, 2, 3]) if n > 1 else rng.choice([1, 2, 3])
    k = rng.choice([1, 2, 3, 4, 5, 7])
    table, nxt = [], 0
    some_raise = rng.random() < 0.4
    for j in range(k):
        no = rng.choice([0, 1, 1, 2, 3]); outs = list(range(nxt, nxt + no)); nxt += no
        raises = some_raise and rng.random() < 0.35
        table.append((outs, raises, rng.choice(list(EXC)) if raises else None))
    total = nxt
    ab = rng.randrange(1, total + 1) if total and rng.random() < 0.2 else None
    codes = [0, 1, 2] + [c for i in range(n) for c in (3 + 2 * i, 4 + 2 * i)]
    style = rng.random()
    if style < 0.3: sched = [rng.choice(codes) for _ in range(rng.randrange(0, 60))]
    elif style < 0.6:      # bursts: one actor runs for a while
        sched = []
        for _ in range(rng.randrange(1, 12)): sched += [rng.choice(codes)] * rng.randrange(1, 8)
    else:                  # starve one actor for a long time
        starve = rng.choice(codes[1:]); sched = [c for c in (rng.choice(codes) for _ in range(80)) if c != starve]
    return n, m, ab, table, [0] + sched, rng.random() < 0.2

def check_case(ctx, case, reqs, metas, kind="random"):
    n, m, ab, table, sched = case[:5]
    recycled = len(case) > 5 and case[5]
    desc = dict(n=n, m=m, abandon=ab, items=[[o, r, k] for o, r, k in table], schedule=sched, recycled_buffer=recycled)
    try:
        obs, used, res, ys = run_impl(n, m, ab, table, len(table), sched, recycled=recycled)
    except TimeoutError as e:
        ctx.fail(["scheduler", "timeout"], "the scheduled run did not reach a control point: %s" % e, desc); return
    desc["schedule"] = used
    raising = [j for j, (_, r, _) in enumerate(table) if r]
    all_outs = [o for outs, _, _ in table for o in outs]
    nontrivial = (len(table) >= 2 and n >= 2) or (m and len(table) > m)
    ctx.count("%s:n%d:m%d:%s" % (kind, n, m, res[0]), repr((n, m, ab, table, used)), nontrivial)
    # ---- the property on the implementation
    if res[0] == "hang": ctx.fail(["hang", "raising" if raising else "clean", "abandon" if ab else "full"], "no actor can move and the consumer has not finished (n=%d m=%d, %d items, raising %s)" % (n, m, len(table), raising), desc); return
    if res[0] == "unfinished": ctx.fail(["unfinished"], "the consumer did not finish within the fair tail", desc); return
    if res[0] == "returned":
        if raising and all(j in range(len(table)) for j in raising):
            kinds = sorted({table[j][2] for j in raising})
            ctx.fail(["error-not-raised"] + kinds[:1], "the filter raises on items %s (%s) but the call returned %r" % (raising, kinds, ys), desc); return
        if Counter(ys) != Counter(all_outs):
            ctx.fail(["multiset", "lost" if Counter(all_outs) - Counter(ys) else "duplicated"], "returned %r, the filter produces %r" % (sorted(ys), all_outs), desc); return
    if res[0] == "raised":
        if not raising: ctx.fail(["spurious-error", res[1]], "no item raises but the call raised %s: %s" % (res[1], res[2]), desc); return
        if res[1] not in {table[j][2] for j in raising}: ctx.fail(["wrong-error", res[1]], "the call raised %s, the filter raises %s" % (res[1], sorted({table[j][2] for j in raising})), desc); return
    if res[0] == "abandoned" and Counter(ys) - Counter(all_outs): ctx.fail(["multiset", "invented"], "abandoned run yielded %r outside %r" % (ys, all_outs), desc); return
    reqs.append((8, [n, m, [ab] if ab is not None else [], [[outs, 1 if r else 0] for outs, r, _ in table], used]))
    metas.append((desc, obs, res, ys))
    ctx.sample(dict(case=desc, result=list(res), yielded=ys), cap=3)

def compare_model(ctx, reqs, metas):
    for (desc, obs, res, ys), mo in zip(metas, ctx.get_model().batch(reqs)):
        steps, final = mo[:-1], mo[-1]
        code = {"returned": 2, "raised": 3, "abandoned": 4}.get(res[0], 1)
        bad = None
        for i, (a, b) in enumerate(zip(obs, steps)):
            if list(a) != list(b): bad = "step %d (actor %s): implementation %s, model %s  [len-inq, len-outq, n_procs, exceptions, yielded, consumer]" % (i, desc["schedule"][i], a, b); break
        if bad is None and (final[0] != code or list(final[1]) != list(ys)): bad = "final: implementation %s %s, model %s" % (res, ys, final)
        if bad: ctx.disagree("C08.step", desc, bad, "see impl")

# ------------------------------------------------------------------ real processes (smoke)
class SlowSink:
    """mixin for QueueSink: a write made by a thread of the parent other than the main thread (the loader, the completion callbacks) is slow to RETURN -
    the item is in the queue, the caller is descheduled before its next statement (an ordinary OS schedule, stretched)"""
    def write(self, items):
        super().write(items)
        if threading.current_thread() is not threading.main_thread(): time.sleep(0.25)

SMOKE = r'''
import sys, json, time
sys.path.insert(0, %(repo)r); sys.path.insert(0, %(verif)r)
import warnings; warnings.simplefilter("ignore")
from coba.pipes.multiprocessing import Multiprocessor
from coba.multiprocessing import CobaMultiprocessor
from coba.context import CobaContext, NullLogger
from harness.c08 import TableFilter, SlowSink
import coba.pipes.multiprocessing as M
OrigSink = M.QueueSink
class SlowQueueSink(SlowSink, OrigSink): pass
if __name__ == "__main__":
    CobaContext.logger = NullLogger()
    for i, (n, m, table, coba) in enumerate(json.load(open(sys.argv[1]))):
        print(json.dumps(["start", i]), flush=True)
        M.QueueSink = SlowQueueSink if coba == "slow-callbacks" else OrigSink
        coba = coba is True
        try:
            f = TableFilter([tuple(t) for t in table])
            mp = CobaMultiprocessor(f, n, m) if coba else Multiprocessor(f, n, m)
            out = ["returned", list(mp.filter(list(range(len(table)))))]
        except BaseException as e:
            out = ["raised", type(e).__name__]
        print(json.dumps(["done", i, out]), flush=True)
'''

def smoke(ctx, k):
    rng = ctx.rng
    cases = [(1, 0, [([0, 1], False, None), ([2], False, None)], False), (1, 2, [([0], False, None), ([1], True, "RuntimeError"), ([2], False, None)], True),
             (2, 1, [([0], False, None), ([1, 2], True, "AssertionError"), ([3], False, None)], False),
             (2, 0, [([0], False, None), ([1], True, "EXIT"), ([2], False, None), ([3], False, None)], False),
             (1, 2, [([0], True, "EXIT"), ([1], False, None)], False),
             # the completion callbacks are descheduled right after each queue write: an error of the worker that retires last still reaches the caller
             (1, 2, [([0], False, None), ([1], False, None), ([2], True, "ValueError")], "slow-callbacks"), (1, 1, [([0], True, "KeyError")], "slow-callbacks"),
             (2, 1, [([0], True, "ValueError"), ([1], True, "ValueError")], "slow-callbacks"), (1, 3, [([0], False, None), ([1, 2], False, None)], "slow-callbacks")]
    for _ in range(k):
        n, m, ab, table = gen_case(rng)[:4]
        cases.append((n, m, table, rng.random() < 0.3))
    work = os.path.join(VERIF, ".work"); os.makedirs(work, exist_ok=True)
    cf = os.path.join(work, "c08_smoke_%d.json" % os.getpid()); sf = os.path.join(work, "c08_smoke_%d.py" % os.getpid())
    open(sf, "w").write(SMOKE % dict(repo=REPO, verif=VERIF))
    try:
        env = dict(os.environ, PYTHONHASHSEED="0")
        import signal
        def run_cases(sub, offset):
            json.dump([[n, m, [[o, r, kd] for o, r, kd in t], c] for n, m, t, c in sub], open(cf, "w"))
            pr = subprocess.Popen([sys.executable, "-W", "ignore", sf, cf], stdout=subprocess.PIPE, stderr=subprocess.PIPE, text=True, env=env, start_new_session=True)
            try:
                so, se = pr.communicate(timeout=30 + 12 * len(sub)); hung = False
            except subprocess.TimeoutExpired:
                try: os.killpg(pr.pid, signal.SIGKILL)      # the child and the worker processes it spawned
                except OSError: pass
                so, se = pr.communicate(); hung = True
            done, started = {}, -1
            for line in so.splitlines():
                try: rec = json.loads(line)
                except Exception: continue
                if rec[0] == "start": started = rec[1] + offset
                elif rec[0] == "done": done[rec[1] + offset] = rec[2]
            return done, started, hung, se
        done, started, hung, se = run_cases(cases, 0)
        # a worker that is killed can take a lock of multiprocessing.Queue with it (an OS-level hazard outside the property, seen about once in a few hundred runs):
        # a run with a dying worker that does not come back is repeated on its own, and counts as a hang only if it never comes back
        guard = 0
        while hung and 0 <= started < len(cases) and any(kd == "EXIT" for _, _, kd in cases[started][2]) and guard < 4:
            guard += 1; i = started; came_back = False
            for _ in range(2):
                d1, s1, h1, se = run_cases([cases[i]], i)
                if not h1: done.update(d1); came_back = True; break
            if not came_back: break
            ctx.notes.append("real-process case %d (a worker that dies) did not come back once and came back when repeated: counted as the OS-level lock hazard, not as a hang" % i)
            d2, started, hung, se = run_cases(cases[i + 1:], i + 1) if i + 1 < len(cases) else ({}, len(cases) - 1, False, se)
            done.update(d2)
        class p: stdout, stderr = "", se
        for i, (n, m, table, coba) in enumerate(cases):
            desc = dict(n=n, m=m, items=[[o, r, kd] for o, r, kd in table], coba=coba, real_processes=True)
            if i not in done:
                if hung and i == started: ctx.fail(["hang", "real-processes"], "a real-process run did not finish (n=%d m=%d %d items)" % (n, m, len(table)), desc)
                elif not hung and i <= started: ctx.fail(["smoke", "crashed"], "the real-process run died: %s" % (p.stderr[-300:],), desc)
                continue
            ctx.count("real:%s" % done[i][0], repr(desc), True)
            if any(kd == "EXIT" for _, _, kd in table): continue      # a worker that dies: the call must come back (no hang); what it returns is outside the property
            raising = [j for j, (_, r, _) in enumerate(table) if r]
            all_outs = [o for outs, _, _ in table for o in outs]
            if done[i][0] == "returned":
                if raising: ctx.fail(["error-not-raised", "real"] , "real processes: the filter raises on %s but the call returned" % raising, desc)
                elif Counter(done[i][1]) != Counter(all_outs): ctx.fail(["multiset", "real"], "real processes returned %r for %r" % (sorted(done[i][1]), all_outs), desc)
            elif not raising: ctx.fail(["spurious-error", "real", done[i][1]], "real processes raised %s though no item raises" % done[i][1], desc)
            elif done[i][1] not in {table[j][2] for j in raising}: ctx.fail(["wrong-error", "real", done[i][1]], "real processes raised %s, the filter raises %s" % (done[i][1], sorted({table[j][2] for j in raising})), desc)
    finally:
        for f in (cf, sf):
            try: os.remove(f)
            except OSError: pass

def inproc(ctx, k):
    """the in-process shortcut (one process, no maxtasksperchild) and the None-output probe"""
    from coba.pipes.multiprocessing import Multiprocessor
    rng = ctx.rng
    for _ in range(k):
        table = gen_case(rng)[3]
        desc = dict(n=1, m=0, items=[[o, r, kd] for o, r, kd in table], inprocess=True)
        ctx.count("inprocess", repr(desc), len(table) >= 2)
        exp, err = [], None
        for outs, r, kd in table:
            exp += outs
            if r: err = kd; break
        got = []
        try:
            for y in Multiprocessor(TableFilter(table), 1, 0).filter(list(range(len(table)))): got.append(y)
            res = None
        except Exception as e: res = type(e).__name__
        if res != err or got != exp: ctx.fail(["inprocess"], "one process, no task limit: yielded %r then %s; item by item gives %r then %s" % (got, res, exp, err), desc)
    # the items are the caller's: falsy and None items (first or later) are items like any other, at both layers
    from coba.multiprocessing import CobaMultiprocessor
    class Echo:
        def filter(self, item): yield ("seen", repr(item))
    for items in ([None, 1, 2], [0, 1], ["", 2], [[], 3], [None], [1, None, 2], [False, None], [0]):
        exp = [("seen", repr(x)) for x in items]
        for layer, make in (("Multiprocessor", lambda: Multiprocessor(Echo(), 1, 0)), ("CobaMultiprocessor", lambda: CobaMultiprocessor(Echo(), 1, 0))):
            desc = dict(n=1, m=0, items=[repr(x) for x in items], layer=layer, inprocess=True)
            ctx.count("payload", repr(desc), True)
            try: got = list(make().filter(iter(list(items)))); res = None
            except Exception as e: got = []; res = type(e).__name__
            if res is not None or got != exp:
                ctx.fail(["payload", layer, "first-none" if items[0] is None else "falsy"], "%s(filter, 1, 0).filter(%r) yielded %r%s; every item has one output" % (layer, items, got, " then raised " + res if res else ""), desc)
    # one Multiprocessor object used again after a call on it failed: the new call stands on its own (real worker processes)
    REUSE = r"""
import sys, json
sys.path.insert(0, %(repo)r); sys.path.insert(0, %(verif)r)
import warnings; warnings.simplefilter("ignore")
from harness.c08 import TableFilter
if __name__ == "__main__":
    from coba.pipes.multiprocessing import Multiprocessor
    table = [([0], False, None), ([1], True, "ValueError"), ([2], False, None), ([3], False, None)]
    for n, m in ((2, 0), (2, 1), (1, 1)):
        mp = Multiprocessor(TableFilter(table), n, m)
        try: first = ["returned", sorted(mp.filter([0, 1, 2, 3]))]
        except Exception as e: first = ["raised", type(e).__name__]
        try: second = ["returned", sorted(mp.filter([0, 2, 3]))]
        except Exception as e: second = ["raised", type(e).__name__]
        print(json.dumps([n, m, first, second]), flush=True)
"""
    work = os.path.join(VERIF, ".work"); os.makedirs(work, exist_ok=True)
    sf = os.path.join(work, "c08_reuse_%d.py" % os.getpid()); open(sf, "w").write(REUSE % dict(repo=REPO, verif=VERIF))
    try:
        import signal
        pr = subprocess.Popen([sys.executable, "-W", "ignore", sf], stdout=subprocess.PIPE, stderr=subprocess.PIPE, text=True, env=dict(os.environ, PYTHONHASHSEED="0"), start_new_session=True)
        try: so, se = pr.communicate(timeout=90); hung = False
        except subprocess.TimeoutExpired:
            try: os.killpg(pr.pid, signal.SIGKILL)
            except OSError: pass
            so, se = pr.communicate(); hung = True
        seen = [json.loads(l) for l in so.splitlines() if l.startswith("[")]
        for k, (n, m) in enumerate(((2, 0), (2, 1), (1, 1))):
            desc = dict(n=n, m=m, earlier_call="items 0..3 (item 1 raises ValueError)", this_call="items 0, 2, 3", real_processes=True)
            ctx.count("reuse", repr(desc), True)
            if k >= len(seen): ctx.fail(["reuse", "hang" if hung else "crashed"], "the run with a re-used Multiprocessor object did not finish: %s" % se[-200:], desc); break
            _, _, first, second = seen[k]
            if second != ["returned", [0, 2, 3]]:
                ctx.fail(["reuse", second[0]], "after a call that ended as %r, a second call on the same object over healthy items ended as %r (expected to return 0, 2, 3)" % (first, second), desc)
    finally:
        try: os.remove(sf)
        except OSError: pass
    # the item stream ends exactly while a retired worker's replacement is being started (the filter is slow to pickle, which stretches that window): nobody waits for ever
    WINDOW = r"""
import sys, json, time
sys.path.insert(0, %(repo)r); sys.path.insert(0, %(verif)r)
import warnings; warnings.simplefilter("ignore")
from harness.c08 import TableFilter
STATE = {"pickles": 0, "busy": False}
class SlowFilter(TableFilter):
    def __getstate__(self):
        STATE["pickles"] += 1; STATE["busy"] = True; time.sleep(0.7); STATE["busy"] = False
        return dict(self.__dict__)
def stream(k, n):
    for j in range(k): yield j
    t0 = time.time()      # end the stream while a replacement (not one of the first n workers) is being prepared
    while not (STATE["pickles"] > n and STATE["busy"]) and time.time() - t0 < 6: time.sleep(0.01)
if __name__ == "__main__":
    from coba.pipes.multiprocessing import Multiprocessor
    for n, m, k in ((1, 1, 4), (2, 1, 6)):
        table = [([j], False, None) for j in range(k)]
        STATE.update(pickles=0, busy=False)
        print(json.dumps(["start", n, m]), flush=True)
        try: out = ["returned", sorted(Multiprocessor(SlowFilter(table), n, m).filter(stream(k, n)))]
        except Exception as e: out = ["raised", type(e).__name__]
        print(json.dumps(["done", n, m, out, k]), flush=True)
"""
    sf = os.path.join(work, "c08_window_%d.py" % os.getpid()); open(sf, "w").write(WINDOW % dict(repo=REPO, verif=VERIF))
    try:
        import signal
        pr = subprocess.Popen([sys.executable, "-W", "ignore", sf], stdout=subprocess.PIPE, stderr=subprocess.PIPE, text=True, env=dict(os.environ, PYTHONHASHSEED="0"), start_new_session=True)
        try: so, se = pr.communicate(timeout=75); hung = False
        except subprocess.TimeoutExpired:
            try: os.killpg(pr.pid, signal.SIGKILL)
            except OSError: pass
            so, se = pr.communicate(); hung = True
        recs = [json.loads(l) for l in so.splitlines() if l.startswith("[")]
        done = {(r[1], r[2]): r for r in recs if r[0] == "done"}
        for (n, m, k) in ((1, 1, 4), (2, 1, 6)):
            desc = dict(n=n, m=m, items=k, real_processes=True, stream="ends while a replacement worker is being started", filter="slow to pickle")
            ctx.count("window", repr(desc), True)
            if (n, m) not in done:
                started = any(r[0] == "start" and (r[1], r[2]) == (n, m) for r in recs)
                if hung and started: ctx.fail(["hang", "real-processes", "replacement-window"], "the call did not come back although every item was handed over (n=%d, maxtasksperchild=%d, %d items)" % (n, m, k), desc)
                elif not hung: ctx.fail(["smoke", "crashed"], "the run died: %s" % se[-200:], desc)
                continue
            if done[(n, m)][3] != ["returned", list(range(k))]: ctx.fail(["window", "wrong"], "the call ended as %r, expected the outputs 0..%d" % (done[(n, m)][3], k - 1), desc)
    finally:
        try: os.remove(sf)
        except OSError: pass
    # an output that is None is indistinguishable from the pill of the output queue
    table = [([0], False, None), ([None, 1], False, None), ([2], False, None)]
    desc = dict(n=2, m=0, items=[[o, r, kd] for o, r, kd in table], schedule="fair")
    obs, used, res, ys = run_impl(2, 0, None, table, 3, [0])
    ctx.count("none-output", "probe", True)
    if res[0] != "returned" or Counter(ys) != Counter([0, None, 1, 2]):
        ctx.fail(["none-output"], "a filter output that is None ends the consumer early: returned %r for outputs [0, None, 1, 2]" % (ys,), desc)

def run(ctx):
    reqs, metas = [], []
    rng = ctx.rng
    corpus = [(2, 0, None, [([0], False, None), ([1], False, None), ([2], False, None)], [0, 1, 3, 3, 1, 5, 0, 0]),
              (2, 1, None, [([0], False, None), ([], True, "ValueError"), ([1, 2], False, None), ([3], False, None)], [0, 1, 1, 3, 5, 4, 3]),
              (1, 2, None, [([0, 1], True, "AssertionError"), ([2], False, None)], [0, 1, 3, 3, 3, 4]),
              (3, 2, 2, [([0], False, None), ([1], False, None), ([2], False, None), ([3], False, None), ([4], False, None)], [0, 1, 1, 1, 3, 5, 7, 0, 0])]
    for c in corpus: check_case(ctx, c, reqs, metas, "corpus")
    for _ in range(ctx.n(150, 3000)):
        if len(ctx.failures) >= 25: break      # enough counterexamples: stop exploring
        check_case(ctx, gen_case(rng), reqs, metas)
    if (ctx.tier == "thorough" or ctx.escalated) and len(ctx.failures) < 25:
        import itertools
        table = [([0], False, None), ([1], True, "KeyError"), ([2], False, None)]
        for pre in itertools.product([1, 3, 4, 5, 6, 0], repeat=5):
            if len(ctx.failures) >= 25: break
            check_case(ctx, (2, 1, None, table, [0] + list(pre)), reqs, metas, "exhaustive")
    compare_model(ctx, reqs, metas)
    inproc(ctx, ctx.n(40, 600))
    smoke(ctx, ctx.n(5, 24))

def replay(r):
    return "case: n, m, abandon, items [[outputs, raises, error kind]...], schedule (actor codes 0=K 1=L 2=LC 3+2i=W i 4+2i=C i); run harness.c08.run_impl(n, m, abandon, table, len(table), schedule)"
