"""C05 — random streams: correspondence (model vs coba.random.CobaRandom), property oracle, search."""
import math, random as pyrandom, os, subprocess, tempfile, shutil
from fractions import Fraction
from .common import *

LEVEL_TEXT = ("Coq theorems over the generated LCG kernel (C05/Props.v) for every generator state and stream position; "
              "operation-sequence correspondence between the extracted model and coba.random on boundary-seeded streams; "
              "bit-exact PrimFloat cases for random(min,max)")
TRUSTED = ["Coq 8.16.1 kernel (coqc); vm_compute used for witnesses and PrimFloat cases; no native_compute",
           "translator harness/translate/c05.py + pyexpr.py (Python int semantics = Z; & = Z.land)",
           "extraction: ExtrOcamlBasic only, no Extract Constant/Inductive of our own; ocaml/driver.ml",
           "correspondence harness harness/c05.py (generator, canonicalisation by exact Fractions)",
           "modelled not verified: libm (gauss values; only draw bookkeeping and definedness are modelled), CPython float = IEEE binary64, str(seed).encode for string/float seeds"]
ASSUMPTIONS = ["floats produced for integer/half-integer bounds of magnitude <= 2^20 are exact, so exact rationals equal binary64 results",
               "seed=None excluded (time seeded by design)"]
RULE = ("op sequences (<=40 calls) over 1-3 CobaRandom instances interleaved with coba.random/stdlib random calls; seeds: inverse-LCG boundary seeds "
        "(u in {0,2^-30,1/2,1-2^-30} at a chosen position), random/negative/huge ints, integral floats, strings, non-integral floats; "
        "a case is non-trivial when it has >= 1 op; distinct by (seeds, ops)")

A, C, M = 116646453, 9, 2**30
AINV = pow(A, -1, M)

def seed_for(target_state, position):
    """integer seed whose (position+1)-th generated state equals target_state (inverse LCG)."""
    s = target_state
    for _ in range(position + 1):
        s = ((s - C) * AINV) % M
    return s

CODES = {"ValueError": 1, "IndexError": 2, "StopIteration": 3, "ZeroDivisionError": 4}

def gen_seed(rng):
    k = rng.random()
    if k < 0.45:
        tgt = rng.choice([0, 1, 2**29, 2**30 - 1, 2**30 - 2, 2**20])
        return seed_for(tgt, rng.randrange(0, 8))
    if k < 0.6: return rng.randrange(0, 2**30)
    if k < 0.7: return -rng.randrange(1, 2**40)
    if k < 0.8: return rng.randrange(2**64, 2**80)
    if k < 0.85: return float(rng.randrange(0, 2**20))
    if k < 0.95: return rng.choice(["abc", "", "a", "seed-7", "éè", "3.21x"])
    return rng.choice([3.21, 0.5, 1e-3, 2.5e10 + 0.5])

def enc_seed(seed):
    if isinstance(seed, int): return [0, seed]
    if isinstance(seed, float) and seed.is_integer(): return [0, int(seed)]
    return [1, list(str(seed).encode("utf-8"))]

def gen_bound(rng):
    k = rng.random()
    if k < 0.6: return rng.randrange(-2**20, 2**20)
    if k < 0.9: return Fraction(rng.randrange(-2**21, 2**21), 2)
    return rng.choice([0, 1, -1, 2**20, -2**20])

def gen_weights(rng, n):
    k = rng.random()
    if k < 0.5: ws = [rng.choice([0, 0, 1, 2, 3]) for _ in range(n)]
    elif k < 0.8: ws = [Fraction(rng.randrange(0, 9), 4) for _ in range(n)]
    else: ws = [0] * n; ws[rng.randrange(n)] = rng.choice([1, Fraction(1, 2)]) if n else 0
    return ws

def gen_op(rng):
    k = rng.randrange(8)
    if k == 0:
        a, b = gen_bound(rng), gen_bound(rng)
        if a == b: b = a + 1
        if a > b: a, b = b, a
        if rng.random() < 0.3: a, b = 0, 1
        return ("random", a, b)
    if k == 1:
        a = rng.randrange(-1000, 1000); b = a + rng.choice([0, 1, 2, 9, 100, 2**20])
        return ("randint", a, b)
    if k == 2:
        a = rng.choice([0, 0, rng.randrange(-50, 50)]); b = a + rng.choice([0, 1, 5, 1000])
        return ("randints", rng.randrange(0, 6), a, b)
    if k == 3: return ("shuffle", rng.choice([0, 1, 2, 3, 5, 8, 13]))
    if k == 4: return ("choice" if rng.random() < 0.6 else "choicew_u", rng.choice([1, 1, 2, 3, 7, 50]))
    if k == 5:
        n = rng.choice([1, 2, 2, 3, 4, 6]); ws = gen_weights(rng, n)
        return ("choicew" if rng.random() < 0.5 else "choice_w", n, ws)
    if k == 6: return ("gausses", rng.choice([1, 1, 2, 3]))
    a, b = gen_bound(rng), gen_bound(rng)
    if a == b: b = a + 1
    if a > b: a, b = b, a
    return ("randoms", rng.randrange(0, 5), a, b)

def enc_op(op):
    k = op[0]
    if k == "random": return [0, s_q(op[1]), s_q(op[2])]
    if k == "randint": return [1, op[1], op[2]]
    if k == "randints": return [2, op[1], op[2], op[3]]
    if k == "shuffle": return [3, op[1]]
    if k in ("choice", "choicew_u"): return [4, op[1]]      # choicew without weights draws like choice and reports 1/n
    if k in ("choice_w", "choicew"): return [5, op[1], [s_q(w) for w in op[2]]]
    if k == "gausses": return [6, op[1]]
    if k == "randoms": return [7, op[1], s_q(op[2]), s_q(op[3])]
    raise ValueError(k)

def fl(x):
    """bounds/weights as the user would pass them: ints stay ints, halves become floats"""
    return int(x) if Fraction(x).denominator == 1 else float(x)

def impl_op(r, op):
    """run one call; returns (wire-encoded result, raw for the oracle)"""
    k = op[0]
    try:
        if k == "random":
            x = r.random(fl(op[1]), fl(op[2])); return s_q(Fraction(x)), x
        if k == "randint":
            x = r.randint(op[1], op[2]); return x, x
        if k == "randints":
            x = r.randints(op[1], op[2], op[3]); return list(x), x
        if k == "shuffle":      # the sequence is handed over as a list, a tuple or a one-shot iterable (iterator, generator, map) - the argument form depends only on the op, not on the run
            n = op[1]; form = (n + 2) % 5
            arg = [list(range(n)), tuple(range(n)), iter(list(range(n))), (i for i in range(n)), map(int, range(n))][form]
            x = r.shuffle(arg); return list(x), list(x) if not isinstance(x, list) else x
        if k == "choice":
            x = r.choice(list(range(op[1]))); return x, x
        if k == "choicew_u":
            x, w = r.choicew(list(range(op[1]))); return x, (x, w)
        if k == "choice_w":
            ws = [fl(w) for w in op[2]]
            x = r.choice(list(range(op[1])), ws); return [x, s_q(Fraction(ws[x]))], (x, ws[x])
        if k == "choicew":
            ws = [fl(w) for w in op[2]]
            x, w = r.choicew(list(range(op[1])), ws); return [x, s_q(Fraction(w))], (x, w)
        if k == "gausses":
            x = r.gausses(op[1]); return 1, x
        if k == "randoms":
            x = r.randoms(op[1], fl(op[2]), fl(op[3])); return [s_q(Fraction(v)) for v in x], x
    except Exception as e:
        if k == "gausses": return 0, e
        return ERR(CODES.get(errname(e), 90)), e
    raise ValueError(k)

def oracle(ctx, op, raw, case):
    """the property's contracts, stated on the implementation's output only"""
    k = op[0]
    if isinstance(raw, Exception):
        if k == "gausses": ctx.fail(["gauss", "raises"], "gauss raises %s (zero uniform under log)" % errname(raw), case); return
        if k in ("choice_w", "choicew") and sum(op[2]) == 0 and isinstance(raw, ValueError): return   # documented rejection
        ctx.fail([k, "raises", errname(raw)], "%s raised %r" % (k, raw), case); return
    if k == "random":
        if not (op[1] <= Fraction(raw) < op[2]): ctx.fail(["random", "range"], "random(%s,%s)=%r outside [min,max)" % (op[1], op[2], raw), case)
    elif k == "randoms":
        if len(raw) != op[1] or not all(op[2] <= Fraction(v) < op[3] for v in raw): ctx.fail(["randoms", "range"], "randoms out of [min,max) or wrong count", case)
    elif k == "randint":
        if not (op[1] <= raw <= op[2] and isinstance(raw, int)): ctx.fail(["randint", "range"], "randint(%d,%d)=%r" % (op[1], op[2], raw), case)
    elif k == "randints":
        if len(raw) != op[1] or not all(op[2] <= v <= op[3] for v in raw): ctx.fail(["randints", "range"], "randints out of range / wrong count", case)
    elif k == "shuffle":
        if sorted(raw) != list(range(op[1])): ctx.fail(["shuffle", "not-permutation"], "shuffle result %r" % (raw,), case)
    elif k == "choice":
        if not (isinstance(raw, int) and 0 <= raw < op[1]): ctx.fail(["choice", "not-member"], "choice returned %r" % (raw,), case)
    elif k == "choicew_u":
        if not (isinstance(raw, tuple) and isinstance(raw[0], int) and 0 <= raw[0] < op[1] and raw[1] == 1 / op[1]): ctx.fail(["choice", "not-member"], "choicew without weights returned %r for %d items" % (raw, op[1]), case)
    elif k in ("choice_w", "choicew"):
        i, w = raw
        if not (0 <= i < op[1]): ctx.fail([k, "not-member"], "returned %r" % (raw,), case)
        elif op[2][i] == 0: ctx.fail(["choice", "zero-weight"], "%s returned an item of weight 0 (weights %s)" % (k, [str(x) for x in op[2]]), case)
        elif Fraction(w) != op[2][i]: ctx.fail([k, "wrong-weight"], "reported weight %r for item %d" % (w, i), case)
    elif k == "gausses":
        if len(raw) != op[1] or not all(isinstance(v, float) and math.isfinite(v) for v in raw): ctx.fail(["gauss", "non-finite"], "gausses -> %r" % (raw,), case)

def run_case(seeds, ops, noise_seed):
    """ops: list of (instance, op). Runs on the implementation with unrelated RNG traffic interleaved."""
    import coba.random as cr
    rs = [cr.CobaRandom(s) for s in seeds]
    nz = pyrandom.Random(noise_seed)
    outs, raws = [], []
    for inst, op in ops:
        if nz.random() < 0.3: cr.seed(nz.randrange(100)); cr.random(); pyrandom.seed(nz.randrange(100)); pyrandom.random()
        if nz.random() < 0.2: cr.randint(0, 5); cr.shuffle([1, 2, 3])
        o, raw = impl_op(rs[inst], op)
        outs.append(o); raws.append(raw)
    return outs, raws

def solo_outputs(seeds, ops):
    """independence oracle: every instance re-run alone, without other traffic"""
    import coba.random as cr
    res = {}
    for i, s in enumerate(seeds):
        r = cr.CobaRandom(s)
        res[i] = [impl_op(r, op)[0] for inst, op in ops if inst == i]
    return res

def describe(seeds, ops):
    return dict(seeds=[repr(s) for s in seeds], ops=[[i] + [str(x) if isinstance(x, Fraction) else ([str(y) for y in x] if isinstance(x, list) else x) for x in op] for i, op in ops])

def gen_case(rng):
    n_inst = rng.choice([1, 1, 2, 3])
    seeds = [gen_seed(rng) for _ in range(n_inst)]
    if n_inst > 1 and rng.random() < 0.3: seeds[1] = seeds[0]          # same seed twice: identical, independent streams
    ops = [(rng.randrange(n_inst), gen_op(rng)) for _ in range(rng.randrange(1, 41))]
    return seeds, ops

def targeted_cases():
    """boundary constructors: u=0 / u=1-2^-30 on the draw each API consumes (search, DESIGN 2.4)"""
    cs = []
    for pos in range(0, 4):
        pre = [(0, ("randint", 0, 9))] * pos
        for tgt in (0, 2**30 - 1, 1):
            s = seed_for(tgt, pos)
            cs.append(([s], pre + [(0, ("choice_w", 2, [0, 1]))]))
            cs.append(([s], pre + [(0, ("choicew", 3, [0, 0, 2]))]))
            cs.append(([s], pre + [(0, ("choice_w", 3, [1, 0, 0]))]))
            cs.append(([s], pre + [(0, ("gausses", 1))]))
            cs.append(([s], pre + [(0, ("gausses", 3)), (0, ("gausses", 2))]))
            cs.append(([s], pre + [(0, ("random", 0, 1)), (0, ("random", -2**20, 2**20))]))
            cs.append(([s], pre + [(0, ("randint", -3, 2**20)), (0, ("randints", 3, 0, 1))]))
            cs.append(([s], pre + [(0, ("shuffle", 7)), (0, ("choice", 7))]))
        # second uniform of a Box-Muller pair being 0 is harmless; first being 0 after a pending value
        s = seed_for(0, pos + 2)
        cs.append(([s], pre + [(0, ("gausses", 3))]))
    return cs

def check_cases(ctx, cases, kind):
    model = ctx.get_model()
    reqs, impl = [], []
    for seeds, ops in cases:
        outs, raws = run_case(seeds, ops, ctx.rng.randrange(10**6))
        impl.append((outs, raws))
        reqs.append((5, [[enc_seed(s) for s in seeds], [[i, enc_op(op)] for i, op in ops]]))
    mouts = model.batch(reqs)
    for (seeds, ops), (outs, raws), mo in zip(cases, impl, mouts):
        case = describe(seeds, ops)
        ctx.count(kind, repr(case))
        for _, op in ops: ctx.dist["op:" + op[0]] = ctx.dist.get("op:" + op[0], 0) + 1
        for s in seeds: ctx.dist["seed:" + type(s).__name__] = ctx.dist.get("seed:" + type(s).__name__, 0) + 1
        nfail = len(ctx.failures) + len(ctx.known_hit)
        for (inst, op), raw in zip(ops, raws): oracle(ctx, op, raw, case)
        solo = solo_outputs(seeds, ops)
        pos = {i: 0 for i in range(len(seeds))}
        for (inst, op), o in zip(ops, outs):
            if solo[inst][pos[inst]] != o:
                ctx.fail(["independence"], "instance %d output differs when run alone" % inst, case); break
            pos[inst] += 1
        defect_case = (len(ctx.failures) + len(ctx.known_hit)) != nfail
        if mo != outs and not defect_case:
            k = next(i for i in range(len(outs)) if i >= len(mo) or mo[i] != outs[i])
            ctx.disagree("C05.run", dict(case, first_diff=k), outs[k], mo[k] if k < len(mo) else None)
        ctx.sample(dict(case=case, impl=str(outs)[:300]))

# ---- bit-exact PrimFloat layer: random(min,max) with arbitrary binary64 bounds
def float_cases(ctx, n):
    import coba.random as cr
    rng = ctx.rng
    rows = []
    for _ in range(n):
        tgt = rng.choice([0, 1, 2**30 - 1, rng.randrange(M), rng.randrange(M)])
        seed = seed_for(tgt, 0)
        mn = rng.uniform(-2**20, 2**20) if rng.random() < 0.7 else float(2**20 - 1)
        mx = mn + rng.choice([2**-20, 1e-3, 1.0, 3.7, rng.uniform(2**-20, 2**20)])
        x = cr.CobaRandom(seed).random(mn, mx)
        rows.append((tgt, mn, mx, x))
        ctx.count("float-random", (tgt, mn, mx))
        if not (mn <= x < mx):
            ctx.fail(["random", "float-range", "eq-max" if x == mx else "outside"], "random(%r,%r) = %r at state %d is outside [min,max)" % (mn, mx, x, tgt), dict(seed=seed, min=mn.hex(), max=mx.hex()))
    # evaluate the PrimFloat model inside Coq on the same inputs
    def lit(f): return "(%s)%%float" % f.hex()
    body = ";\n".join("(%d%%uint63, %s, %s, %s)" % (t, lit(a), lit(b), lit(x)) for t, a, b, x in rows)
    src = ("From Coq Require Import List PrimFloat Uint63.\nFrom Coba Require Import C05.Float.\nImport ListNotations.\n"
           "Definition cases := [\n%s\n].\nEval vm_compute in bad_cases cases.\n" % body)
    d = tempfile.mkdtemp(prefix="c05f", dir=os.path.join(VERIF, ".work")) if os.path.isdir(os.path.join(VERIF, ".work")) else tempfile.mkdtemp(prefix="c05f")
    try:
        open(os.path.join(d, "cases.v"), "w").write(src)
        p = subprocess.run(["timeout", "300", "coqc", "-Q", os.path.join(COQ, "theories"), "Coba", "cases.v"], cwd=d, capture_output=True, text=True)
        out = p.stdout.replace("\n", " ")
        m = re.search(r"=\s*\[(.*?)\]\s*:\s*list", out)
        if p.returncode != 0 or not m:
            ctx.disagree("C05.Float.cases", "coqc failed", p.stderr[-800:], None)
        else:
            bad = [int(x.replace("%nat", "")) for x in m.group(1).split(";") if x.strip()]
            for i in bad[:5]:
                t, a, b, x = rows[i]
                ctx.disagree("C05.Float.random_f", dict(state=t, min=a.hex(), max=b.hex()), x.hex(), "PrimFloat model differs")
    finally:
        shutil.rmtree(d, ignore_errors=True)

def replay_known(ctx):
    """replay every open known finding on the implementation (prints KNOWN-FINDING when it still fails)"""
    import coba.random as cr
    for k in ctx.known:
        if k.get("status") != "open": continue
        r = k["replay"]
        if r["kind"] == "random-max":
            mn, mx = float.fromhex(r["min"]), float.fromhex(r["max"])
            x = cr.CobaRandom(r["seed"]).random(mn, mx)
            if not (mn <= x < mx): ctx.known_hit.setdefault(k["key"], k["what"])

def cross_process(ctx):
    """the stream is a function of the seed 'in whatever process it runs': same calls in child interpreters with other hash salts"""
    seeds = ["abc", "", "seed-7", "\u00e9\u00e8", 3.21, 0.5, 17, -5, 2**70, 4.0]
    prog = ("import sys,json,warnings; warnings.filterwarnings('ignore'); sys.path.insert(0,%r)\n"
            "from coba.random import CobaRandom\n"
            "out=[]\n"
            "for s in %r:\n"
            "    r=CobaRandom(s); out.append([r.randint(0,10**6), r.random().hex(), r.shuffle(list(range(6))), r.choice(list(range(5)),[1,0,2,0,1])])\n"
            "print(json.dumps(out))\n") % (REPO, seeds)
    outs = []
    for hs in ["0", "1", "12345", "random"]:
        env = dict(os.environ, PYTHONHASHSEED=hs)
        p = subprocess.run([PY, "-W", "ignore", "-c", prog], capture_output=True, text=True, env=env, timeout=120)
        if p.returncode != 0:
            ctx.disagree("C05.cross_process", "child failed", p.stderr[-400:], None); return
        outs.append(json.loads(p.stdout.strip().split("\n")[-1]))
        ctx.count("cross-process", hs)
    for i, s in enumerate(seeds):
        if any(o[i] != outs[0][i] for o in outs):
            ctx.fail(["process-dependent", type(s).__name__], "CobaRandom(%r) gives different streams in different interpreter processes (PYTHONHASHSEED 0/1/12345/random): %s" % (s, [o[i][0] for o in outs]), dict(seed=repr(s)))

def users_law(ctx):
    """the seeded filters built on CobaRandom: what a filter object yields depends on its seed and its input only - not on how often the object was read before, nor on a pickle round trip"""
    import pickle
    import coba.pipes.filters as PF
    rng = ctx.rng
    for _ in range(ctx.n(60, 600)):
        seed = rng.choice([1, 2, 7, seed_for(rng.choice([0, 1, 2**30 - 1]), rng.randrange(0, 6)), rng.randrange(2**30)]); n = rng.choice([0, 1, 2, 5, 9, 30]); items = list(range(100, 100 + n))
        kind = rng.choice(["reservoir", "reservoir", "shuffle"])
        cnt = rng.choice([None, 0, 1, 3, n, n + 2])
        make = (lambda: PF.Reservoir(cnt, seed=seed)) if kind == "reservoir" else (lambda: PF.Shuffle(seed))
        case = dict(filter=kind, seed=repr(seed), count=cnt, n=n)
        ctx.count("users:" + kind, repr(case), n >= 2)
        try:
            f = make(); first = list(f.filter(iter(items))); second = list(f.filter(iter(items))); fresh = list(make().filter(iter(items)))
            pick = list(pickle.loads(pickle.dumps(f)).filter(iter(items)))
        except Exception as e:
            ctx.fail(["users", "raises", errname(e)], "%s raised %s on %s" % (kind, errname(e), case), case); continue
        if not (first == second == fresh == pick):
            ctx.fail(["users", "history-dependent", kind], "one %s object read twice gives %r then %r; a fresh one %r; a pickled copy %r" % (kind, first, second, fresh, pick), case)
        elif sorted(first) != sorted(items)[:len(first)] and not set(first) <= set(items):
            ctx.fail(["users", "not-from-input", kind], "%r is not drawn from the input" % (first,), case)

class _PmfLearner:
    def __init__(self, pmf): self.pmf = pmf
    def predict(self, context, actions): return list(self.pmf)
    def learn(self, *a, **k): pass

def samplers_law(ctx):
    """the seeded samplers built on CobaRandom (PMFPredictor, PMFInfoPredictor, SafeLearner's PMF sampling): their (item, weight) stream is that of a fresh CobaRandom(seed).choicew -
    also for lists with equal members carrying different weights - whatever other sampler objects exist or were used in between"""
    import coba.random as cr
    from coba.learners.utilities import PMFPredictor, PMFInfoPredictor
    from coba.safety import SafeLearner
    from coba.context import CobaContext, NullLogger
    old_logger = CobaContext.logger; CobaContext.logger = NullLogger()      # SafeLearner announces that PMF answers are deprecated
    try: _samplers_law(ctx, cr, PMFPredictor, PMFInfoPredictor, SafeLearner)
    finally: CobaContext.logger = old_logger

def _samplers_law(ctx, cr, PMFPredictor, PMFInfoPredictor, SafeLearner):
    rng = ctx.rng
    pools = [["a", "b", "c"], ["a", "a", "b"], [1, 1.0, True, 2], [(1, 0), (0, 1), (1, 0)], [0, 0, 0], [3, 4], ["x"]]
    for it in range(ctx.n(60, 600)):
        seed = rng.choice([1, 2, 7, rng.randrange(2**30)]); acts = list(rng.choice(pools)) if it >= len(pools) else list(pools[it])
        w = [rng.choice([0, 0, 1, 2, 3]) for _ in acts]
        if not any(w): w[rng.randrange(len(w))] = 1
        pmf = [x / sum(w) for x in w]; k = rng.choice([3, 8, 20])
        kind = rng.choice(["pmf", "pmfinfo", "safe", "safe-rewrapped"]) if it >= 8 else ["pmf", "pmfinfo", "safe", "safe-rewrapped"][it % 4]
        case = dict(sampler=kind, seed=seed, actions=repr(acts), pmf=pmf, draws=k)
        ctx.count("samplers:" + kind, repr(case), len(acts) >= 2)
        try:
            ref = cr.CobaRandom(seed); exp = [ref.choicew(acts, pmf) for _ in range(k)]
            if kind == "pmf": obj = PMFPredictor(lambda c, A: pmf, seed); got = [tuple(obj.predict(None, acts))[:2] for _ in range(k)]
            elif kind == "pmfinfo": obj = PMFInfoPredictor(lambda c, A: (pmf, {"k": 1}), seed); got = [tuple(obj.predict(None, acts))[:2] for _ in range(k)]
            else:
                inner = SafeLearner(_PmfLearner(pmf), seed + 1) if kind == "safe-rewrapped" else _PmfLearner(pmf)
                other = SafeLearner(_PmfLearner(pmf), seed)       # another sampler with the same seed, used in between
                obj = SafeLearner(inner, seed); got = []
                for j in range(k):
                    if kind == "safe-rewrapped" and j % 2: inner.predict(None, acts)
                    if j % 3 == 0: other.predict(None, acts)
                    got.append(tuple(obj.predict(None, acts))[:2])
        except Exception as e:
            ctx.fail(["users", "raises", errname(e)], "%s raised %s on %s" % (kind, errname(e), case), case); continue
        # SafeLearner hands float copies of the arms 0/1 to the learner (C15): its draws are compared by value, the predictors' also by type
        eq = (lambda g, e: g[0] == e[0] and g[1] == e[1]) if kind.startswith("safe") else (lambda g, e: g[0] == e[0] and type(g[0]) is type(e[0]) and g[1] == e[1])
        same = len(got) == len(exp) and all(eq(g, e) for g, e in zip(got, exp))
        if not same:
            j = next((i for i, (g, e) in enumerate(zip(got, exp)) if not eq(g, e)), 0)
            ctx.fail(["users", "not-the-seeded-stream", kind], "draw %d of the %s sampler with seed %r over %r / %r is %r; CobaRandom(%r).choicew gives %r" % (j, kind, seed, acts, pmf, got[j] if j < len(got) else None, seed, exp[j]), case)

def run(ctx):
    os.makedirs(os.path.join(VERIF, ".work"), exist_ok=True)
    check_cases(ctx, targeted_cases(), "targeted")
    check_cases(ctx, [gen_case(ctx.rng) for _ in range(ctx.n(400, 6000))], "random-seq")
    float_cases(ctx, ctx.n(300, 3000))
    cross_process(ctx)
    users_law(ctx)
    samplers_law(ctx)
    replay_known(ctx)

def replay(r):
    import coba.random as cr
    c = r.get("case", {})
    print(json.dumps(r, indent=1)[:3000])
    return 0
