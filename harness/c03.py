"""C03 — each evaluation is isolated from every other evaluation."""
from .common import *
from . import expcore

LEVEL_TEXT = ("Coq theorems (C03/Props.v over Exp/Model.v): isolation - for ANY deterministic evaluation function, ANY learner objects and ANY list of triples (objects shared between triples in any pattern, duplicates included), however "
              "a permutation of the tasks is cut into groups evaluated one after the other on the same objects, a row set is recorded for a triple exactly when that triple evaluated alone on pristine objects completes, and it is that row set "
              "(by induction with the invariant 'every learner a remaining task will touch is still pristine', from the copy rule of MakeTasks); failing_triple_loses_only_its_rows; source_shape (translator). "
              "The real MakeTasks/ChunkTasks/ProcessTasks run on stub components and are compared with the extracted model and with each triple evaluated alone; real experiments with shared stateful learners, batched and unbatched "
              "environments and components failing in params/read/predict/learn are compared, triple by triple, with the same triple run alone in a fresh worker process.")
TRUSTED = ["Coq 8.16.1 kernel (coqc)", "translator harness/translate/c01.py (shared with C01)", "extraction + ocaml/driver.ml", "harness/expcore.py",
           "modelled not verified: the evaluation is an abstract deterministic function; deepcopy/pickle fidelity, per-process global state (class-level caches, CobaContext.learning_info) and logging are observed through the real runs only"]
ASSUMPTIONS = ["components are deterministic and deep-copyable/picklable", "the reference 'triple alone' is run with maxchunksperchild=1, i.e. in a fresh worker process", "timing columns are ignored"]
RULE = ("task level as C01 with failing evaluations (F in 2,3,5); experiment level: 1-2 environment groups (chunk/cache prefixes, shuffle fan-out, some batched), 2-4 learners incl. a FailingLearner (params / k-th predict / k-th learn) and a "
        "FailingEnv (k-th read), shared between triples as cross products or tuple lists; every triple is also run alone; non-trivial = at least two triples sharing a learner")

def fingerprints():
    d = {}
    for rel, quals in (('coba/experiments/process.py', ['MakeTasks.read', 'ChunkTasks._chunks', 'ProcessTasks.filter']), ('coba/experiments/core.py', ['Experiment.run']),
                       ('coba/safety.py', ['SafeLearner.__init__', 'SafeLearner.predict', 'SafeLearner.learn', 'SafeEvaluator.evaluate'])):
        d.update(fingerprint_defs(rel, quals))
    return d

def strip_ids(row): return {k: v for k, v in row.items() if k not in ("environment_id", "learner_id", "evaluator_id")}

def experiment_level(ctx, nexp):
    rng = ctx.rng
    specs = [dict(envs=[["lin", 6, 3], ["group", 0, 0]], lrns=[["count", 1], ["kwargs"]], vals=[["seq"]], groups=[dict(n=6, seed=5, prefix=None, fan=1, batch=2)], triples=[[0, 0, 0], [1, 0, 0], [0, 1, 0], [1, 1, 0]]),
             dict(envs=[["lin", 6, 3]], lrns=[["count", 2]], vals=[["seq"], ["seq2", 3]], groups=[], triples=[[0, 0, 0], [0, 0, 1]]),
             # a learner that fails with one and the same exception object on a batched environment (batched call, then the per-row fallback)
             dict(envs=[["group", 0, 0], ["lin", 6, 3]], lrns=[["failing", "predict-same", 1], ["count", 1]], vals=[["seq"]], groups=[dict(n=6, seed=5, prefix=None, fan=1, batch=2)], triples=[[0, 0, 0], [0, 1, 0], [1, 0, 0], [1, 1, 0]]),
             dict(envs=[["lin", 6, 3], ["lin", 6, 4]], lrns=[["count", 1], ["failing", "learn", 2]], vals=[["seq"]], groups=[], triples=[[0, 0, 0], [0, 1, 0], [1, 0, 0], [1, 1, 0]]),
             dict(envs=[["lin", 5, 8], ["lin", 5, 9]], lrns=[["failing", "predict", 3], ["kwargs"]], vals=[["seq"]], groups=[], triples=[[0, 0, 0], [1, 1, 0], [1, 0, 0], [0, 1, 0]]),
             # an environment object that can be iterated like a pipeline and whose iteration fails: only its own triples are lost
             dict(envs=[["lin", 6, 3], ["lin", 6, 4]], lrns=[["finish"], ["count", 1]], vals=[["seq"]], groups=[], triples=[[0, 0, 0], [1, 0, 0], [0, 1, 0], [1, 1, 0]]),
             dict(envs=[["failiter", 0], ["lin", 6, 4]], lrns=[["count", 1], ["kwargs"]], vals=[["seq"]], groups=[], triples=[[0, 0, 0], [1, 0, 0], [0, 1, 0], [1, 1, 0]]),
             # one stateful learner for two environments that share a chunk, on worker processes: each evaluation starts from the pristine learner
             dict(envs=[["group", 0, 0], ["group", 0, 1]], lrns=[["count", 1], ["kwargs"]], vals=[["seq"]], groups=[dict(n=8, seed=6, prefix="chunk", fan=2)], triples=[[0, 0, 0], [1, 0, 0], [0, 1, 0], [1, 1, 0]], conf=(2, 0, 0)),
             # one RejectionCB object for logged environments with different logging propensities
             dict(envs=[["group", 0, 0]] + [["group", 1, k] for k in range(4)], lrns=[["skew"]], vals=[["rej", 7], ["rej", 2]],
                  groups=[dict(n=40, seed=3, prefix=None, fan=1, logged=True, logger="eps", na=2), dict(n=40, seed=4, prefix=None, fan=4, logged=True, na=3)],
                  triples=[[k, 0, v] for v in range(2) for k in range(5)], conf=(1, 0, 0))]
    for _ in range(nexp): specs.append(expcore.gen_spec(rng, failures=True, batched=True))
    jobs, index = [], []
    for si, spec in enumerate(specs):
        conf = tuple(spec["conf"]) if spec.get("conf") else (1, 0, 0) if si < 4 else rng.choice([(1, 0, 0), (1, 0, 0), (1, 0, 2), (2, 0, 0)])
        jobs.append(dict(spec=spec, p=conf[0], mc=conf[1], mt=conf[2], seed=1)); index.append((si, None, conf))
        for ti in range(len(spec["triples"])):
            mc = 1 if (ti + si) % 3 == 0 else 0      # alone in a fresh worker process (every third triple) or alone in-process: both are 'a pristine copy, alone'
            jobs.append(dict(spec=spec, p=1, mc=mc, mt=0, seed=1, only=ti)); index.append((si, ti, (1, mc, 0)))
    done, hung, err = expcore.run_jobs(jobs, "c03")
    whole = {}
    for j, (si, ti, conf) in enumerate(index):
        desc = dict(spec=specs[si], config=list(conf), triple_alone=ti)
        if j not in done:
            if hung == j: ctx.fail(["isolation", "hang"], "the run did not finish", desc)
            elif hung is None: ctx.fail(["isolation", "child-died"], "the child interpreter died: %s" % err, desc)
            continue
        if done[j][0] != "ok": ctx.fail(["isolation", "run-raised", done[j][1]], "Experiment.run raised %s: %s" % (done[j][1], done[j][2]), desc); continue
        t = done[j][1]
        if ti is None:
            whole[si] = t
            shared = len({tr[1] for tr in specs[si]["triples"]}) < len(specs[si]["triples"])
            ctx.count("experiment:whole", repr(desc), shared); continue
        if si not in whole: continue
        ctx.count("experiment:alone", repr(desc), True)
        spec = specs[si]; tr = spec["triples"][ti]
        # ids of this triple in the whole experiment: order of first appearance
        def ids(col):
            m = {}
            for x in spec["triples"]: m.setdefault(x[col], len(m))
            return m
        eid, lid, vid = ids(0)[tr[0]], ids(1)[tr[1]], ids(2)[tr[2]]
        got = [strip_ids(r) for r in whole[si]["interactions"] if (r["environment_id"], r["learner_id"], r["evaluator_id"]) == (eid, lid, vid)]
        exp = [strip_ids(r) for r in t["interactions"]]
        keys = set().union(*[set(r) for r in exp]) if exp else set()
        got = [{k: v for k, v in r.items() if k in keys or v is not None} for r in got]      # columns that only other triples have are None here
        exp = [{k: v for k, v in r.items() if k in keys or v is not None} for r in exp]
        gotn = [{k: v for k, v in r.items() if v is not None} for r in got]; expn = [{k: v for k, v in r.items() if v is not None} for r in exp]
        if gotn != expn:
            kind = "rows-missing" if exp and not got else "failed-triple-recorded" if got and not exp else "rows-differ"
            d = next((i for i, (a, b) in enumerate(zip(gotn, expn)) if a != b), min(len(gotn), len(expn)))
            ctx.fail(["isolation", kind], "triple %s (ids %s) has %d rows in the whole experiment and %d when run alone; first difference at row %d: %s vs %s" % (
                tr, (eid, lid, vid), len(got), len(exp), d, gotn[d] if d < len(gotn) else None, expn[d] if d < len(expn) else None), desc)
        ctx.sample(dict(spec=spec, triple=tr, rows_alone=len(exp), rows_whole=len(got)), cap=3)

def run(ctx):
    expcore.task_level(ctx, ctx.n(120, 1500), "isolation")
    experiment_level(ctx, ctx.n(3, 12))

def replay(r):
    return "case.spec describes the experiment (harness.expcore.build(spec)); triple_alone is the index of the triple that was also run alone; task-level cases give triples of stub ids, F and the chunk assignment"
